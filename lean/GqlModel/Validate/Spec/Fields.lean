import GqlModel.Validate.Spec.Typing
import GqlModel.Validate.Spec.Fragments
/-
  §5.3 Fields: Field Selections (5.3.1), Field Selection Merging (5.3.2), Leaf Field Selections
  (5.3.3).

  Reading choices (DESIGN §6 C08) that affect this file:
  (i)  "identical sets of arguments" in `FieldsInSetCanMerge` is syntactic identity of the value
       literals: same kind and same text, lists item by item in order, input-object literals field
       by field by NAME (§2.9.8: input object fields are unordered).  Kinds are included, so a block
       string and a quoted string with equal content differ, `1` and `1.0` differ.
  (iv) where two rules both reject a document only the verdict is compared: a field that is not
       defined on its parent type has no return type, so `SameResponseShape` says nothing about it.

  Dependencies made explicit: `fieldSelectionMerging` is only judged (it is `true` otherwise) for
  documents in which every spread has a target, the fragments are acyclic, every type condition
  names a composite type of the schema, every operation has its root type and every field is
  defined on its parent type — the algorithm of §5.3.2 follows spreads and reads parent types and
  field return types, and is not meaningful otherwise.  The document is invalid by those rules
  anyway.
-/
namespace Gql.Validate.Spec
open Gql

/-- §5.3.1: the field is defined on the type in scope (scalars, enums and input objects define no
    selectable field).  Not judged when that type is not determined. -/
def fieldSelections (s : Schema) (d : QueryDoc) : Bool :=
  (docSels s d).all fun t =>
    match t.sel, t.parent with
    | .field _ nm _ _ _ _, some p => (fieldDefOn p nm).isSome
    | _, _ => true

/-- the (unwrapped, resolved) type of a field node; `none` for other nodes and when the field or
    its type is not determined -/
def fieldNodeType (s : Schema) (t : TSel) : Option Definition :=
  match t.sel with
  | .field _ nm _ _ _ _ => (t.parent.bind (fieldDefOn · nm)).bind fun fd => s.type? fd.type.name
  | _ => none

def subSelectionOf : Selection → Selections
  | .field _ _ _ _ sub _ => sub
  | .inline _ _ sub _ => sub
  | .spread .. => .nil

/-- a leaf type takes no sub-selection, a composite type needs one -/
def leafShapeOk (ft : Definition) (sub : Selections) : Bool :=
  if isLeaf ft then sub.toList.isEmpty
  else if isComposite ft then !sub.toList.isEmpty
  else true

/-- §5.3.3: a field of scalar or enum type has no sub-selection, a field of object, interface or
    union type has a non-empty one -/
def leafFieldSelections (s : Schema) (d : QueryDoc) : Bool :=
  (docSels s d).all fun t =>
    match fieldNodeType s t with
    | none => true
    | some ft => leafShapeOk ft (subSelectionOf t.sel)

/-- auxiliary (true for every loaded schema, whose field types are output types): the resolved
    type of every field node is a leaf or a composite type -/
def fieldTypesAreOutputTypes (s : Schema) (d : QueryDoc) : Bool :=
  (docSels s d).all fun t =>
    match fieldNodeType s t with
    | none => true
    | some ft => isLeaf ft || isComposite ft

/- ---------------- §5.3.2 Field selection merging ---------------- -/

/-- a field of a (merged) selection set with the type of the selection set it was written in -/
structure MField where
  parent : Option Definition
  alias : Name
  name : Name
  args : List Argument
  sel : Selections
  deriving Inhabited

def MField.key (f : MField) : Name := if f.alias == [] then f.name else f.alias

def MField.fdef (f : MField) : Option FieldDef := f.parent.bind (fieldDefOn · f.name)

abbrev MJump := Option Definition → Selections → List Name → List MField × List Name

mutual
  /-- "the set of selections … in set including visiting fragments and inline fragments"; every
      fragment is entered at most once per collection -/
  def collectSel (s : Schema) (d : QueryDoc) (jump : MJump) (parent : Option Definition) :
      Selection → List Name → List MField × List Name
    | .field al nm args _ sub _, vis => ([⟨parent, al, nm, args, sub⟩], vis)
    | .spread nm _ _, vis =>
      if vis.contains nm then ([], vis)
      else match fragByName d nm with
        | none => ([], nm :: vis)
        | some f => jump (s.type? f.typeCond) f.sel (nm :: vis)
    | .inline tc _ sub _, vis => collectSels s d jump (inlineType s parent tc) sub vis
  def collectSels (s : Schema) (d : QueryDoc) (jump : MJump) (parent : Option Definition) :
      Selections → List Name → List MField × List Name
    | .nil, vis => ([], vis)
    | .cons x rest, vis =>
      let r1 := collectSel s d jump parent x vis
      let r2 := collectSels s d jump parent rest r1.2
      (r1.1 ++ r2.1, r2.2)
end

def collectLevel (s : Schema) (d : QueryDoc) : Nat → MJump
  | 0 => fun _ _ vis => ([], vis)
  | n + 1 => fun parent sels vis => collectSels s d (collectLevel s d n) parent sels vis

/-- fields of one selection set -/
def collectSet (s : Schema) (d : QueryDoc) (parent : Option Definition) (sels : Selections) : List MField :=
  (collectLevel s d (d.frags.length + 1) parent sels []).1

/-- `mergedSet`: the union of the selection sets of two fields -/
def mergedSet (s : Schema) (d : QueryDoc) (a b : MField) : List MField :=
  let ta := a.fdef.bind fun fd => s.type? fd.type.name
  let tb := b.fdef.bind fun fd => s.type? fd.type.name
  let r1 := collectLevel s d (d.frags.length + 1) ta a.sel []
  let r2 := collectLevel s d (d.frags.length + 1) tb b.sel r1.2
  r1.1 ++ r2.1

mutual
  /-- reading choice (i) -/
  def sameValue : Value → Value → Bool
    | .mk k1 r1 c1 _, .mk k2 r2 c2 _ =>
      k1 == k2 && r1 == r2 &&
        (if k1 == .object then c1.length == c2.length && sameFields c1 c2 else sameItems c1 c2)
  def sameItems : Children → Children → Bool
    | .nil, .nil => true
    | .cons _ v1 _ rest1, .cons _ v2 _ rest2 => sameValue v1 v2 && sameItems rest1 rest2
    | _, _ => false
  /-- every field of the first literal has an identical field of that name in the second -/
  def sameFields : Children → Children → Bool
    | .nil, _ => true
    | .cons n v _ rest, c2 => sameFieldIn n v c2 && sameFields rest c2
  def sameFieldIn (n : Name) (v : Value) : Children → Bool
    | .nil => false
    | .cons n2 v2 _ rest2 => if n == n2 then sameValue v v2 else sameFieldIn n v rest2
end

/-- identical sets of arguments -/
def sameArguments (a b : List Argument) : Bool :=
  a.length == b.length && a.all fun x => b.any fun y => x.name == y.name && sameValue x.value y.value

/-- all unordered pairs of different members -/
def allPairs {α : Type} (p : α → α → Bool) : List α → Bool
  | [] => true
  | x :: xs => xs.all (p x) && allPairs p xs

/-- the wrapper part of `SameResponseShape`: same non-null and list structure; at the named types
    `leafOk a b` decides -/
def sameWrappers (leafOk : Name → Name → Bool) : GType → GType → Bool
  | .named a na _, .named b nb _ => na == nb && leafOk a b
  | .list ea na _, .list eb nb _ => na == nb && sameWrappers leafOk ea eb
  | _, _ => false

/-- `SameResponseShape(fieldA, fieldB)`; `fuel` bounds the nesting depth -/
def sameResponseShape (s : Schema) (d : QueryDoc) : Nat → MField → MField → Bool
  | 0, _, _ => true
  | fuel + 1, a, b =>
    match a.fdef, b.fdef with
    | some fa, some fb =>
      let named (x y : Name) : Bool :=
        match s.type? x, s.type? y with
        | some dx, some dy => if isLeaf dx || isLeaf dy then x == y else true
        | _, _ => true
      sameWrappers named fa.type fb.type &&
        (match s.type? fa.type.name, s.type? fb.type.name with
         | some dx, some dy =>
           if isLeaf dx || isLeaf dy then true
           else allPairs (fun x y => x.key != y.key || sameResponseShape s d fuel x y) (mergedSet s d a b)
         | _, _ => true)
    | _, _ => true

/-- `FieldsInSetCanMerge(set)` on the collected fields of the set -/
def fieldsInSetCanMerge (s : Schema) (d : QueryDoc) : Nat → List MField → Bool
  | 0, _ => true
  | fuel + 1, fields =>
    allPairs (fun a b =>
      a.key != b.key ||
      (sameResponseShape s d (fuel + 1) a b &&
       (let mayOverlap := match a.parent, b.parent with
          | some pa, some pb => pa.name == pb.name || !isObject pa || !isObject pb
          | _, _ => true
        if mayOverlap then
          a.name == b.name && sameArguments a.args b.args && fieldsInSetCanMerge s d fuel (mergedSet s d a b)
        else true))) fields

mutual
  def selNodes : Selection → Nat
    | .field _ _ _ _ sub _ => selsNodes sub + 1
    | .spread .. => 1
    | .inline _ _ sub _ => selsNodes sub + 1
  def selsNodes : Selections → Nat
    | .nil => 0
    | .cons x rest => selNodes x + selsNodes rest
end

/-- bound on the nesting depth of merged sets in a document without fragment cycles -/
def mergeFuel (d : QueryDoc) : Nat :=
  (d.ops.map (fun op => selsNodes op.sel)).sum + (d.frags.map (fun f => selsNodes f.sel)).sum + 1

/-- prerequisites under which §5.3.2 is judged -/
def mergingJudged (s : Schema) (d : QueryDoc) : Bool :=
  fragmentSpreadTargetDefined d && noFragmentCycles d && fragmentSpreadTypeExistence s d &&
    fragmentsOnCompositeTypes s d && fieldSelections s d && d.ops.all (fun op => (rootDef s op.op).isSome)

/-- §5.3.2: for every selection set of the document, `FieldsInSetCanMerge` -/
def fieldSelectionMerging (s : Schema) (d : QueryDoc) : Bool :=
  !mergingJudged s d ||
    (docSets s d).all fun t => fieldsInSetCanMerge s d (mergeFuel d) (collectSet s d t.parent t.sels)

end Gql.Validate.Spec
