import GqlModel.Validate.Spec.Typing
/-
  §5.6 Values: Values Of Correct Type (5.6.1), Input Object Field Names (5.6.2), Input Object Field
  Uniqueness (5.6.3), Input Object Required Fields (5.6.4), and the `@oneOf` input objects the
  library implements ("exactly one field, not null").

  `valueOk s t v` is "the literal `v` is coercible to the type `t`" by the input coercion rules of
  §3.5 – §3.11:
    * a variable is not a literal: skipped here, judged by `allVariableUsagesAllowed`;
    * `null` is accepted by every nullable type and by no non-null type;
    * list type: a list literal whose items are coercible to the item type, or (list coercion of a
      single value, §3.11) a non-list literal that is coercible to the innermost named type;
    * Int: an IntValue within the signed 32-bit range; Float: an IntValue or FloatValue that is
      finite as IEEE 754 double; String: StringValue (quoted or block); Boolean: BooleanValue;
      ID: StringValue or IntValue;
    * enum: an EnumValue naming one of the values of the enum;
    * input object: an object literal whose field names are all defined, whose required fields
      (non-null type, no default) are all present, whose field values are coercible; for a
      `@oneOf` input object exactly one field, not the null literal;
    * a CUSTOM SCALAR ACCEPTS ANY LITERAL, including list and object literals of any content
      (property C08); nothing inside such a literal has a declared type.
  Reading choice (v): string escapes have been resolved by the lexer (C03); values are compared as
  byte strings.

  §5.6.3 (uniqueness of the field names of an input object literal) is stated by the specification
  for every ObjectValue of the document, typed or not; it is the separate predicate
  `inputObjectFieldUniqueness`.
-/
namespace Gql.Validate.Spec
open Gql

/- ---------- numeric literals ---------- -/

def isDigit (c : Nat) : Bool := 48 ≤ c && c ≤ 57

def digitsVal : List Nat → Nat → Nat
  | [], acc => acc
  | c :: cs, acc => digitsVal cs (acc * 10 + (c - 48))

/-- value of an IntValue `-?digits` -/
def intLitValue (raw : Bytes) : Int :=
  match raw with
  | 45 :: ds => -(digitsVal ds 0 : Nat)
  | ds => (digitsVal ds 0 : Nat)

/-- §3.5.1: Int is a signed 32-bit integer -/
def int32Ok (raw : Bytes) : Bool :=
  let v := intLitValue raw
  decide (-(2147483648 : Int) ≤ v) && decide (v ≤ 2147483647)

/-- first value that rounds to infinity: 2^1024 - 2^970 (half-way between the largest double and 2^1024) -/
def doubleOverflow : Nat := 2 ^ 1024 - 2 ^ 970

/-- an IntValue / FloatValue `-?int(.frac)?([eE][+-]?exp)?` denotes a finite IEEE 754 double.
    With `m` the digits without the point, `f` the number of fraction digits and `e` the exponent
    the value is `m · 10^(e-f)`; the decimal magnitude decides all but one decade, which is
    compared exactly. -/
def floatLitFinite (raw : Bytes) : Bool :=
  let body := match raw with | 45 :: r => r | r => r
  let mant := body.takeWhile fun c => c != 101 && c != 69
  let expPart := (body.dropWhile fun c => c != 101 && c != 69).drop 1
  let intDigits := mant.takeWhile isDigit
  let fracDigits := (mant.dropWhile isDigit).drop 1
  let expNeg := match expPart with | 45 :: _ => true | _ => false
  let expDigits := expPart.filter isDigit
  let e : Int := if expNeg then -(digitsVal expDigits 0 : Nat) else (digitsVal expDigits 0 : Nat)
  let allDigits := (intDigits ++ fracDigits).dropWhile (· == 48)
  let m := digitsVal allDigits 0
  if m == 0 then true
  else
    let k : Int := e - (fracDigits.length : Nat)
    let nd : Int := (allDigits.length : Nat)
    -- 10^(nd-1+k) ≤ value < 10^(nd+k), and 10^308 < doubleOverflow < 10^309
    if nd + k ≤ 308 then true
    else if nd - 1 + k ≥ 309 then false
    else if k ≥ 0 then decide (m * 10 ^ k.toNat < doubleOverflow)
    else decide (m < doubleOverflow * 10 ^ (-k).toNat)

def builtinScalars : List Name := [str "Int", str "Float", str "String", str "Boolean", str "ID"]

def hasOneOf (d : Definition) : Bool := d.dirs.any (·.name == str "oneOf")

def inputFieldByName (d : Definition) (n : Name) : Option FieldDef := d.fields.find? (·.name == n)

def childNames : Children → List Name
  | .nil => []
  | .cons n _ _ rest => n :: childNames rest

/-- §5.6.4: every required field (non-null type without default) is provided -/
def requiredFieldsProvided (d : Definition) (ch : Children) : Bool :=
  d.fields.all fun fd => !(fd.type.nonNull && fd.default.isNone) || (childNames ch).contains fd.name

/-- OneOf input objects: exactly one field, and not the null literal (the clause about a nullable
    variable depends on the operation and is judged by `oneOfVariablesNonNull`) -/
def oneOfOk (d : Definition) (ch : Children) : Bool :=
  !hasOneOf d ||
    (match ch with
     | .cons _ v _ .nil => v.kind != .null
     | _ => false)

/-- a literal that is neither a variable, nor null, nor a list, nor an object, at the named type `d` -/
def scalarLitOk (d : Definition) (k : ValueKind) (raw : Bytes) : Bool :=
  match d.kind with
  | .scalar =>
    if d.name == str "Int" then k == .int && int32Ok raw
    else if d.name == str "Float" then (k == .int || k == .float) && floatLitFinite raw
    else if d.name == str "String" then k == .string || k == .block
    else if d.name == str "Boolean" then k == .boolean
    else if d.name == str "ID" then k == .string || k == .block || k == .int
    else true
  | .enum => k == .enum && d.enumValues.any (·.name == raw)
  | .inputObject => false
  | _ => true

/-- a list or object literal where a named type that is not an input object is expected: only a
    custom scalar takes it -/
def structuredAtNamed (d : Definition) : Bool :=
  match d.kind with
  | .scalar => !builtinScalars.contains d.name
  | .enum => false
  | .inputObject => false
  | _ => true

mutual
  def valueOk (s : Schema) (t : GType) : Value → Bool
    | .mk k raw ch _ =>
      match k with
      | .variable => true
      | .null => !t.nonNull
      | .list =>
        (match t with
         | .list e _ _ => itemsOk s e ch
         | .named n _ _ =>
           match s.type? n with
           | none => true
           | some d => structuredAtNamed d)
      | .object =>
        (match s.type? t.name with
         | none => true
         | some d =>
           if d.kind == .inputObject then fieldsOk s d ch && requiredFieldsProvided d ch && oneOfOk d ch
           else structuredAtNamed d)
      | _ =>
        (match s.type? t.name with
         | none => true
         | some d => scalarLitOk d k raw)
  /-- items of a list literal at item type `e` -/
  def itemsOk (s : Schema) (e : GType) : Children → Bool
    | .nil => true
    | .cons _ v _ rest => valueOk s e v && itemsOk s e rest
  /-- §5.6.2 + §5.6.1 on the fields of an input object literal of type `d` -/
  def fieldsOk (s : Schema) (d : Definition) : Children → Bool
    | .nil => true
    | .cons n v _ rest =>
      (match inputFieldByName d n with
       | none => false
       | some fd => valueOk s fd.type v) && fieldsOk s d rest
end

/-- a value position with a declared type: argument of a field or directive, default of a variable -/
def typedValueSites (s : Schema) (d : QueryDoc) : List (GType × Value) :=
  (argSites s d).flatMap (fun site =>
    match site.defs with
    | none => []
    | some defs => site.args.filterMap fun a => (argDefByName defs a.name).map fun ad => (ad.type, a.value)) ++
  d.ops.flatMap fun op => op.vars.filterMap fun v => v.default.map fun dv => (v.type, dv)

/-- §5.6.1 / 5.6.2 / 5.6.4: every literal at a position with a declared type is coercible to it -/
def valuesOfCorrectType (s : Schema) (d : QueryDoc) : Bool :=
  (typedValueSites s d).all fun (t, v) => valueOk s t v

mutual
  def objectLiteralsUnique : Value → Bool
    | .mk k _ ch _ => (k != .object || distinct (childNames ch)) && childrenLiteralsUnique ch
  def childrenLiteralsUnique : Children → Bool
    | .nil => true
    | .cons _ v _ rest => objectLiteralsUnique v && childrenLiteralsUnique rest
end

/-- every value written in the document (arguments of fields and directives, variable defaults) -/
def allValues (s : Schema) (d : QueryDoc) : List Value :=
  (argSites s d).flatMap (fun site => site.args.map (·.value)) ++
  d.ops.flatMap fun op => op.vars.filterMap (·.default)

/-- §5.6.3: the fields of every input object literal of the document have different names -/
def inputObjectFieldUniqueness (s : Schema) (d : QueryDoc) : Bool :=
  (allValues s d).all objectLiteralsUnique

end Gql.Validate.Spec
