import GqlModel.Validate.Spec.Typing
/-
  §5.5 Fragments: Fragment Name Uniqueness (5.5.1.1), Fragment Spread Type Existence (5.5.1.2),
  Fragments On Composite Types (5.5.1.3), Fragments Must Be Used (5.5.1.4), Fragment Spread Target
  Defined (5.5.2.1), Fragment Spreads Must Not Form Cycles (5.5.2.2), Fragment Spread Is Possible
  (5.5.2.3).

  Reading choice (ii) (DESIGN §6 C08): `fragmentSpreadIsPossible` uses the intersection of
  `GetPossibleTypes` literally — "object: the type itself; interface: the set of types implementing
  it; union: its member types".  An interface nobody implements therefore overlaps nothing, itself
  included.  An inline fragment WITHOUT type condition has no fragment type of its own (§2.8.2: it
  has the type of the enclosing context) and is always possible.
-/
namespace Gql.Validate.Spec
open Gql

/-- §5.5.1.1 -/
def fragmentNameUniqueness (d : QueryDoc) : Bool := distinct (d.frags.map (·.name))

/-- every type condition written in the document: of fragment definitions and inline fragments -/
def typeConditions (s : Schema) (d : QueryDoc) : List Name :=
  d.frags.map (·.typeCond) ++
  (docSels s d).filterMap fun t =>
    match t.sel with
    | .inline tc _ _ _ => if tc == [] then none else some tc
    | _ => none

/-- §5.5.1.2: the target type of every fragment (named or inline) is defined in the schema -/
def fragmentSpreadTypeExistence (s : Schema) (d : QueryDoc) : Bool :=
  (typeConditions s d).all fun tc => (s.type? tc).isSome

/-- §5.5.1.3: … and is an object, interface or union type (not judged for an undefined type) -/
def fragmentsOnCompositeTypes (s : Schema) (d : QueryDoc) : Bool :=
  (typeConditions s d).all fun tc =>
    match s.type? tc with
    | some t => isComposite t
    | none => true

/-- all spread names written anywhere in the document -/
def allSpreadNames (d : QueryDoc) : List Name :=
  d.ops.flatMap (fun op => spreadsOfSels op.sel) ++ d.frags.flatMap (fun f => spreadsOfSels f.sel)

/-- §5.5.1.4: every defined fragment is the target of at least one spread in the document -/
def fragmentsMustBeUsed (d : QueryDoc) : Bool :=
  let spread := allSpreadNames d
  d.frags.all fun f => spread.contains f.name

/-- §5.5.2.1: every spread names a fragment defined in the document -/
def fragmentSpreadTargetDefined (d : QueryDoc) : Bool :=
  (allSpreadNames d).all fun n => (fragByName d n).isSome

/-- §5.5.2.2 `DetectFragmentCycles`: no fragment reaches itself through one or more spreads -/
def noFragmentCycles (d : QueryDoc) : Bool :=
  d.frags.all fun f => !(reachFrom d (spreadsOfSels f.sel)).contains f.name

/-- §5.5.2.3 `GetPossibleTypes(type)` -/
def possibleTypes (s : Schema) (t : Definition) : List Name :=
  match t.kind with
  | .object => [t.name]
  | .interface =>
    s.types.filterMap fun (_, x) =>
      if (x.kind == .object || x.kind == .interface) && x.interfaces.contains t.name then some x.name else none
  | .union => t.types
  | _ => []

/-- the spread of a fragment of type `frag` inside a selection set of type `parent` can apply -/
def spreadPossible (s : Schema) (parent frag : Definition) : Bool :=
  if isComposite parent && isComposite frag then
    let pp := possibleTypes s parent
    (possibleTypes s frag).any fun n => pp.contains n
  else true

/-- §5.5.2.3, for named and inline spreads; not judged when the parent type or the fragment's type
    is not determined or not composite (other rules report that) -/
def fragmentSpreadIsPossible (s : Schema) (d : QueryDoc) : Bool :=
  (docSels s d).all fun t =>
    match t.parent with
    | none => true
    | some p =>
      match t.sel with
      | .spread nm _ _ =>
        (match (fragByName d nm).bind (fun f => s.type? f.typeCond) with
         | some ft => spreadPossible s p ft
         | none => true)
      | .inline tc _ _ _ =>
        if tc == [] then true
        else (match s.type? tc with
          | some ft => spreadPossible s p ft
          | none => true)
      | .field .. => true

end Gql.Validate.Spec
