import GqlModel.Validate.Spec.Variables
/-
  C09: `linksComplete s d dump` — every node of the document carries the links the property
  demands, judged on the canonical link dump (`Validate.linkDump` for the model, `impl.LinksObs`
  for the real walker: one line `start:KIND k=v …` per node, joined by `;`).

  The expected links are computed from the declarative typing only:
    F  (field)               obj = the type the field is selected on, def = the field's definition on it
    S  (fragment spread)     def = the fragment definition of that name
    I  (inline fragment)     obj = the definition of its type condition (of the enclosing type when it has none)
    FD (fragment definition) def = the definition of its type condition
    D  (directive)           def = the directive definition, loc = the location it is written at
    VD (variable definition) def = the definition of the variable's named type
    V  (value)               exp/def = expected type and its definition for argument values and for
                             values nested in a list / input-object literal of a declared type
                             (contents of custom-scalar literals and the top-level default value of a
                             variable are not demanded); var = for a variable use, the definition of
                             that name in an operation whose scope contains the use
  Links that the property does not mention (`S obj`, `D parent`, `O used`) are not judged.
-/
namespace Gql.Validate.Spec
open Gql

structure ExpLink where
  start : Nat
  kind : String
  /-- demanded links: name and expected text -/
  fields : List (String × String)
  /-- for a variable use: the admissible `var=` texts (`none`: not a variable use) -/
  varCands : Option (List String)
  deriving Inhabited

def optDefName : Option Definition → String
  | none => "-"
  | some d => bytesToString d.name

def demand (k : String) (v : Option String) : List (String × String) :=
  match v with
  | some x => [(k, x)]
  | none => []

mutual
  /-- `typed = false`: the node's own exp/def are not demanded (custom scalar content, default value) -/
  def valueLinks (s : Schema) (cands : Name → List String) (typed : Bool) (exp : Option GType)
      (dfn : Option Definition) : Value → List ExpLink
    | .mk k raw ch p =>
      { start := p.start, kind := "V",
        fields := if typed then [("def", optDefName dfn), ("exp", (exp.map fun t => bytesToString t.render).getD "-")] else [],
        varCands := if k == .variable then some (cands raw) else none } ::
      (match k with
       | .list =>
         (match exp with
          | some (.list e _ _) => itemLinks s cands true (some e) dfn ch
          | _ => itemLinks s cands false none none ch)
       | .object => fieldLinks s cands dfn ch
       | _ => [])
  def itemLinks (s : Schema) (cands : Name → List String) (typed : Bool) (e : Option GType)
      (dfn : Option Definition) : Children → List ExpLink
    | .nil => []
    | .cons _ v _ rest => valueLinks s cands typed e dfn v ++ itemLinks s cands typed e dfn rest
  def fieldLinks (s : Schema) (cands : Name → List String) (dfn : Option Definition) :
      Children → List ExpLink
    | .nil => []
    | .cons n v _ rest =>
      (match dfn.bind (fun d => if d.kind == .inputObject then inputFieldByName d n else none) with
       | some fd => valueLinks s cands true (some fd.type) (s.type? fd.type.name) v
       | none => valueLinks s cands false none none v) ++ fieldLinks s cands dfn rest
end

def argLinks (s : Schema) (cands : Name → List String) (defs : Option (List ArgDef)) (args : List Argument) :
    List ExpLink :=
  args.flatMap fun a =>
    match defs.bind (argDefByName · a.name) with
    | some ad => valueLinks s cands true (some ad.type) (s.type? ad.type.name) a.value
    | none => valueLinks s cands false none none a.value

def dirLinks (s : Schema) (cands : Name → List String) (loc : Bytes) (dirs : List Directive) : List ExpLink :=
  dirs.flatMap fun dir =>
    let dd := s.directive? dir.name
    { start := dir.pos.start, kind := "D",
      fields := demand "def" (dd.map fun x => bytesToString x.name) ++ [("loc", bytesToString loc)],
      varCands := none } :: argLinks s cands (dd.map (·.args)) dir.args

mutual
  def selLinks (s : Schema) (d : QueryDoc) (cands : Name → List String) (parent : Option Definition) :
      Selection → List ExpLink
    | .field _ nm args dirs sub p =>
      let fd := parent.bind (fieldDefOn · nm)
      { start := p.start, kind := "F",
        fields := demand "obj" (parent.map fun x => bytesToString x.name) ++
          demand "def" (fd.map fun x => bytesToString x.name ++ ":" ++ bytesToString x.type.render),
        varCands := none } ::
      (argLinks s cands (fd.map (·.args)) args ++ dirLinks s cands (str "FIELD") dirs ++
        selsLinks s d cands (fieldType s parent nm) sub)
    | .spread nm dirs p =>
      { start := p.start, kind := "S",
        fields := demand "def" ((fragByName d nm).map fun f => bytesToString f.name ++ "@" ++ toString f.pos.start),
        varCands := none } :: dirLinks s cands (str "FRAGMENT_SPREAD") dirs
    | .inline tc dirs sub p =>
      { start := p.start, kind := "I",
        fields := demand "obj" ((inlineType s parent tc).map fun x => bytesToString x.name),
        varCands := none } ::
      (dirLinks s cands (str "INLINE_FRAGMENT") dirs ++ selsLinks s d cands (inlineType s parent tc) sub)
  def selsLinks (s : Schema) (d : QueryDoc) (cands : Name → List String) (parent : Option Definition) :
      Selections → List ExpLink
    | .nil => []
    | .cons x rest => selLinks s d cands parent x ++ selsLinks s d cands parent rest
end

/-- admissible `var=` texts for a use of `$raw` in the scope of the operations `ops` -/
def varCandidates (ops : List OperationDef) (raw : Name) : List String :=
  ops.filterMap fun op => (varDefByName op raw).map fun v => bytesToString v.var ++ "@" ++ toString v.pos.start

def opLinks (s : Schema) (d : QueryDoc) (op : OperationDef) : List ExpLink :=
  let cands := varCandidates [op]
  op.vars.flatMap (fun v =>
    { start := v.pos.start, kind := "VD",
      fields := demand "def" ((s.type? v.type.name).map fun x => bytesToString x.name), varCands := none } ::
    ((match v.default with
      | some dv =>
        -- the default value itself is not an argument value; what is nested in it is demanded
        (match valueLinks s cands true (some v.type) (s.type? v.type.name) dv with
         | top :: rest => { top with fields := [] } :: rest
         | [] => [])
      | none => []) ++ dirLinks s cands (str "VARIABLE_DEFINITION") v.dirs)) ++
  dirLinks s cands (locOfOp op.op) op.dirs ++ selsLinks s d cands (rootDef s op.op) op.sel

def fragLinks (s : Schema) (d : QueryDoc) (f : FragmentDef) : List ExpLink :=
  let ops := d.ops.filter fun op => (opFragments d op).any (·.pos == f.pos)
  let cands := varCandidates ops
  { start := f.pos.start, kind := "FD",
    fields := demand "def" ((s.type? f.typeCond).map fun x => bytesToString x.name), varCands := none } ::
  (dirLinks s cands (str "FRAGMENT_DEFINITION") f.dirs ++ selsLinks s d cands (s.type? f.typeCond) f.sel)

/-- every demanded link of the document -/
def expectedLinks (s : Schema) (d : QueryDoc) : List ExpLink :=
  d.ops.flatMap (opLinks s d) ++ d.frags.flatMap (fragLinks s d)

/- ---------- the dump ---------- -/

structure DumpLine where
  start : Nat
  kind : String
  fields : List (String × String)
  deriving Inhabited

def parseDumpLine (line : String) : Option DumpLine :=
  match line.splitOn ":" with
  | st :: rest =>
    match st.toNat? with
    | none => none
    | some n =>
      let text := ":".intercalate rest
      match text.splitOn " " with
      | kind :: kvs =>
        some { start := n, kind := kind,
               fields := kvs.filterMap fun kv =>
                 match kv.splitOn "=" with
                 | k :: v => some (k, "=".intercalate v)
                 | [] => none }
      | [] => none
  | [] => none

def parseDump (dump : String) : List DumpLine := (dump.splitOn ";").filterMap parseDumpLine

def kindWord : String → String
  | "F" => "field" | "S" => "fragmentSpread" | "I" => "inlineFragment" | "FD" => "fragmentDefinition"
  | "D" => "directive" | "VD" => "variableDefinition" | "V" => "value" | k => k

/-- the defects of one expected link against the dump: `MISSING|WRONG,<node kind>,<link>,<start>,<expected>,<got>` -/
def checkLink (dump : List DumpLine) (e : ExpLink) : List String :=
  match dump.find? fun l => l.start == e.start && l.kind == e.kind with
  | none => ["MISSING," ++ kindWord e.kind ++ ",node," ++ toString e.start ++ ",-,-"]
  | some l =>
    let one (k want : String) (ok : String → Bool) : List String :=
      let got := (l.fields.lookup k).getD "-"
      if ok got then []
      else [(if got == "-" then "MISSING," else "WRONG,") ++ kindWord e.kind ++ "," ++ k ++ "," ++
              toString e.start ++ "," ++ want ++ "," ++ got]
    e.fields.flatMap (fun (k, want) => one k want (· == want)) ++
    (match e.varCands with
     | none => []
     | some [] => []
     | some cs => one "var" ("|".intercalate cs) (fun got => cs.contains got))

def linkProblems (s : Schema) (d : QueryDoc) (dump : String) : List String :=
  let lines := parseDump dump
  (expectedLinks s d).flatMap (checkLink lines)

/-- C09's predicate on a link dump -/
def linksComplete (s : Schema) (d : QueryDoc) (dump : String) : Bool := (linkProblems s d dump).isEmpty

end Gql.Validate.Spec
