import GqlModel.Schema.Types
/-
  Specification of validation (GraphQL, October 2021, section 5) — the DECLARATIVE TYPING.

  Nothing in `GqlModel/Validate/Spec/*` mentions the walker, its events or the rule models: the
  predicates are written from the specification text over the syntax tree and the loaded schema.

  Every selection node of a document has exactly one static context: the selection set it is
  written in belongs to an operation (root type of the operation kind), to a fragment definition
  (its type condition), to an inline fragment (its type condition, or the enclosing type when it
  has none) or to a field (the unwrapped type of that field on its own parent type).
  `typedSels` computes that context for every node; `docSels` lists all nodes of a document.
-/
namespace Gql.Validate.Spec
open Gql

def nameTypename : Name := str "__typename"
def kwQuery : Bytes := str "query"
def kwMutation : Bytes := str "mutation"
def kwSubscription : Bytes := str "subscription"

def isObject (d : Definition) : Bool := d.kind == .object
def isComposite (d : Definition) : Bool := d.kind == .object || d.kind == .interface || d.kind == .union
def isLeaf (d : Definition) : Bool := d.kind == .scalar || d.kind == .enum
def isInput (d : Definition) : Bool := d.kind == .scalar || d.kind == .enum || d.kind == .inputObject

/-- pairwise distinct -/
def distinct : List Name → Bool
  | [] => true
  | x :: xs => !xs.contains x && distinct xs

/-- §3.3 root operation type of an operation kind (the query shorthand has kind `query`) -/
def rootName (s : Schema) (op : Operation) : Option Name :=
  if op == kwQuery || op == [] then s.query
  else if op == kwMutation then s.mutation
  else if op == kwSubscription then s.subscription
  else none

def rootDef (s : Schema) (op : Operation) : Option Definition := (rootName s op).bind s.type?

/-- §4.1 the meta-field `__typename: String!`, implicit on every object, interface and union -/
def typenameField : FieldDef :=
  { desc := [], name := nameTypename, args := [], default := none,
    type := .named (str "String") true Pos.zero, dirs := [], pos := Pos.zero }

/-- the definition of field `name` on the type `parent` (§5.3.1): a declared field of an object
    or interface, or `__typename` on any composite type.  (`__schema`/`__type` are declared fields
    of the query root type in a loaded schema.) -/
def fieldDefOn (parent : Definition) (name : Name) : Option FieldDef :=
  if name == nameTypename then (if isComposite parent then some typenameField else none)
  else if parent.kind == .object || parent.kind == .interface then parent.fields.find? (·.name == name)
  else none

/-- type in scope inside the selection set of field `name` selected on `parent` -/
def fieldType (s : Schema) (parent : Option Definition) (name : Name) : Option Definition :=
  (parent.bind (fieldDefOn · name)).bind fun fd => s.type? fd.type.name

/-- type in scope inside an inline fragment -/
def inlineType (s : Schema) (parent : Option Definition) (typeCond : Name) : Option Definition :=
  if typeCond == [] then parent else s.type? typeCond

/-- a selection node with the type of the selection set it is written in (`none`: that type is not
    determined because an enclosing field or type condition is undefined) -/
structure TSel where
  parent : Option Definition
  sel : Selection
  deriving Inhabited

mutual
  def typedSel (s : Schema) (parent : Option Definition) : Selection → List TSel
    | .field al nm args dirs sub p =>
      ⟨parent, .field al nm args dirs sub p⟩ :: typedSels s (fieldType s parent nm) sub
    | .spread nm dirs p => [⟨parent, .spread nm dirs p⟩]
    | .inline tc dirs sub p =>
      ⟨parent, .inline tc dirs sub p⟩ :: typedSels s (inlineType s parent tc) sub
  def typedSels (s : Schema) (parent : Option Definition) : Selections → List TSel
    | .nil => []
    | .cons x rest => typedSel s parent x ++ typedSels s parent rest
end

/-- every selection node of the document with its declarative parent type -/
def docSels (s : Schema) (d : QueryDoc) : List TSel :=
  d.ops.flatMap (fun op => typedSels s (rootDef s op.op) op.sel) ++
  d.frags.flatMap (fun f => typedSels s (s.type? f.typeCond) f.sel)

/-- the node is written where the rules that read field definitions are meaningful: the type in
    scope is a composite type (a union declaring no fields of its own), or it is not determined and
    the node is not the meta-field `__typename` -/
def nodeWellParented (t : TSel) : Bool :=
  match t.parent with
  | some q => isComposite q && (q.kind != .union || q.fields.isEmpty)
  | none =>
    match t.sel with
    | .field _ nm _ _ _ _ => nm != nameTypename
    | _ => true

/-- every selection node of the document is well parented.  It fails only together with
    `fragmentsOnCompositeTypes`, `leafFieldSelections`, `fieldSelections`, `knownRootType` or
    `fragmentSpreadTypeExistence` (a union never declares fields in a loaded schema). -/
def wellParented (s : Schema) (d : QueryDoc) : Bool := (docSels s d).all nodeWellParented

/-- a selection SET with the type in scope inside it -/
structure TSet where
  parent : Option Definition
  sels : Selections
  deriving Inhabited

/-- every selection set of the document: of operations, fragment definitions, fields, inline fragments -/
def docSets (s : Schema) (d : QueryDoc) : List TSet :=
  d.ops.map (fun op => ⟨rootDef s op.op, op.sel⟩) ++
  d.frags.map (fun f => ⟨s.type? f.typeCond, f.sel⟩) ++
  (docSels s d).filterMap fun t =>
    match t.sel with
    | .field _ nm _ _ sub _ => some ⟨fieldType s t.parent nm, sub⟩
    | .inline tc _ sub _ => some ⟨inlineType s t.parent tc, sub⟩
    | .spread .. => none

/-- `Document.Fragments` by name (the first definition of that name) -/
def fragByName (d : QueryDoc) (n : Name) : Option FragmentDef := d.frags.find? (·.name == n)

/- ---------- directive and argument sites ---------- -/

def locOfOp (op : Operation) : Bytes :=
  if op == kwMutation then str "MUTATION" else if op == kwSubscription then str "SUBSCRIPTION" else str "QUERY"

def selDirs : Selection → List Directive
  | .field _ _ _ dirs _ _ => dirs
  | .spread _ dirs _ => dirs
  | .inline _ dirs _ _ => dirs

def selLoc : Selection → Bytes
  | .field .. => str "FIELD"
  | .spread .. => str "FRAGMENT_SPREAD"
  | .inline .. => str "INLINE_FRAGMENT"

/-- every place of the document that can carry directives: (location name, directives applied there) -/
def directiveSites (s : Schema) (d : QueryDoc) : List (Bytes × List Directive) :=
  d.ops.flatMap (fun op => (locOfOp op.op, op.dirs) :: op.vars.map fun v => (str "VARIABLE_DEFINITION", v.dirs)) ++
  d.frags.map (fun f => (str "FRAGMENT_DEFINITION", f.dirs)) ++
  (docSels s d).map fun t => (selLoc t.sel, selDirs t.sel)

def allDirectives (s : Schema) (d : QueryDoc) : List Directive := (directiveSites s d).flatMap (·.2)

/-- an argument list together with the argument definitions of the field / directive it is given
    to (`none`: the field or directive is not defined) -/
structure ArgSite where
  defs : Option (List ArgDef)
  args : List Argument
  deriving Inhabited

def fieldArgSites (s : Schema) (d : QueryDoc) : List ArgSite :=
  (docSels s d).filterMap fun t =>
    match t.sel with
    | .field _ nm args _ _ _ => some ⟨(t.parent.bind (fieldDefOn · nm)).map (·.args), args⟩
    | _ => none

def directiveArgSites (s : Schema) (d : QueryDoc) : List ArgSite :=
  (allDirectives s d).map fun dir => ⟨(s.directive? dir.name).map (·.args), dir.args⟩

def argSites (s : Schema) (d : QueryDoc) : List ArgSite := fieldArgSites s d ++ directiveArgSites s d

def argDefByName (defs : List ArgDef) (n : Name) : Option ArgDef := defs.find? (·.name == n)

/- ---------- fragment graph ---------- -/

mutual
  /-- names of the fragment spreads written in a selection set (at any depth, not following them) -/
  def spreadsOfSel : Selection → List Name
    | .field _ _ _ _ sub _ => spreadsOfSels sub
    | .spread nm _ _ => [nm]
    | .inline _ _ sub _ => spreadsOfSels sub
  def spreadsOfSels : Selections → List Name
    | .nil => []
    | .cons x rest => spreadsOfSel x ++ spreadsOfSels rest
end

def addNew (acc : List Name) : List Name → List Name
  | [] => acc
  | x :: xs => if acc.contains x then addNew acc xs else addNew (acc ++ [x]) xs

/-- names spread by the fragment called `n` (nothing if it is not defined) -/
def fragSpreads (d : QueryDoc) (n : Name) : List Name :=
  match fragByName d n with
  | some f => spreadsOfSels f.sel
  | none => []

/-- one round of the transitive closure -/
def closeRound (d : QueryDoc) (seen : List Name) : List Name :=
  seen.foldl (fun acc n => addNew acc (fragSpreads d n)) seen

def closeRounds (d : QueryDoc) : Nat → List Name → List Name
  | 0, seen => seen
  | n + 1, seen => closeRounds d n (closeRound d seen)

/-- all fragment names reachable from the given spread names through defined fragments
    (`frags.length` rounds reach a fixed point: every productive round adds a defined name) -/
def reachFrom (d : QueryDoc) (start : List Name) : List Name :=
  closeRounds d (d.frags.length + 1) (addNew [] start)

/-- the fragment definitions an operation references transitively -/
def opFragments (d : QueryDoc) (op : OperationDef) : List FragmentDef :=
  let names := reachFrom d (spreadsOfSels op.sel)
  d.frags.filter fun f => names.contains f.name && (fragByName d f.name).any (·.pos == f.pos)

end Gql.Validate.Spec
