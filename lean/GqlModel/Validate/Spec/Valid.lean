import GqlModel.Validate.Spec.Operations
import GqlModel.Validate.Spec.Fields
import GqlModel.Validate.Spec.Arguments
import GqlModel.Validate.Spec.Fragments
import GqlModel.Validate.Spec.Values
import GqlModel.Validate.Spec.Directives
import GqlModel.Validate.Spec.Variables
import GqlModel.Validate.Spec.Introspection
/-
  C08: `specValid s d` — the document satisfies every validation rule of section 5 that the library
  implements, plus the library's KnownRootType and MaxIntrospectionDepth.

  Reading choice (iv): where two rules both reject a document only the verdict (all predicates
  true / some predicate false) is compared with the validator, never the number or identity of the
  errors.  A predicate that is only meaningful when another one holds is `true` ("not judged")
  when that prerequisite fails; the conjunction is unaffected because the prerequisite is a
  conjunct itself.
-/
namespace Gql.Validate.Spec
open Gql

/-- the rule predicates, named after the sections of the specification -/
def specVerdicts (s : Schema) (d : QueryDoc) : List (String × Bool) :=
  [ ("operationNameUniqueness", operationNameUniqueness d),
    ("loneAnonymousOperation", loneAnonymousOperation d),
    ("singleRootField", singleRootField s d),
    ("knownRootType", knownRootType s d),
    ("fieldSelections", fieldSelections s d),
    ("fieldSelectionMerging", fieldSelectionMerging s d),
    ("leafFieldSelections", leafFieldSelections s d),
    ("argumentNames", argumentNames s d),
    ("argumentUniqueness", argumentUniqueness s d),
    ("requiredArguments", requiredArguments s d),
    ("fragmentNameUniqueness", fragmentNameUniqueness d),
    ("fragmentSpreadTypeExistence", fragmentSpreadTypeExistence s d),
    ("fragmentsOnCompositeTypes", fragmentsOnCompositeTypes s d),
    ("fragmentsMustBeUsed", fragmentsMustBeUsed d),
    ("fragmentSpreadTargetDefined", fragmentSpreadTargetDefined d),
    ("noFragmentCycles", noFragmentCycles d),
    ("fragmentSpreadIsPossible", fragmentSpreadIsPossible s d),
    ("valuesOfCorrectType", valuesOfCorrectType s d && oneOfVariablesNonNull s d),
    ("inputObjectFieldUniqueness", inputObjectFieldUniqueness s d),
    ("directivesAreDefined", directivesAreDefined s d),
    ("directivesInValidLocations", directivesInValidLocations s d),
    ("directivesUniquePerLocation", directivesUniquePerLocation s d),
    ("variableUniqueness", variableUniqueness d),
    ("variablesAreInputTypes", variablesAreInputTypes s d),
    ("allVariableUsesDefined", allVariableUsesDefined s d),
    ("allVariablesUsed", allVariablesUsed s d),
    ("allVariableUsagesAllowed", allVariableUsagesAllowed s d),
    ("maxIntrospectionDepth", maxIntrospectionDepth d) ]

/-- C08's right-hand side -/
def specValid (s : Schema) (d : QueryDoc) : Bool := (specVerdicts s d).all (·.2)

/-- diagnostic sub-verdicts used by the harness to compare rule by rule (not part of `specValid`) -/
def auxVerdicts (s : Schema) (d : QueryDoc) : List (String × Bool) :=
  [ ("aux.variableTypesExist", variableTypesExist s d),
    ("aux.mergingJudged", mergingJudged s d),
    ("aux.oneOfVariablesNonNull", oneOfVariablesNonNull s d),
    ("aux.selectionParentsComposite", wellParented s d),
    ("aux.anonymousAtMostOne", (d.ops.filter (·.name == [])).length ≤ 1) ]

end Gql.Validate.Spec
