import GqlModel.Validate.Spec.Typing
/-
  §5.7 Directives: Directives Are Defined (5.7.1), Directives Are In Valid Locations (5.7.2),
  Directives Are Unique Per Location (5.7.3).
-/
namespace Gql.Validate.Spec
open Gql

/-- §5.7.1 -/
def directivesAreDefined (s : Schema) (d : QueryDoc) : Bool :=
  (allDirectives s d).all fun dir => (s.directive? dir.name).isSome

/-- the definition of the directive (if there is one) lists the location -/
def locationAllowed (s : Schema) (loc : Bytes) (dir : Directive) : Bool :=
  match s.directive? dir.name with
  | none => true
  | some dd => dd.locations.contains loc

/-- §5.7.2: the definition of the directive lists the location it is used in (not judged for an
    undefined directive) -/
def directivesInValidLocations (s : Schema) (d : QueryDoc) : Bool :=
  (directiveSites s d).all fun (loc, dirs) => dirs.all (locationAllowed s loc)

/-- the directive is defined and not repeatable -/
def definedNotRepeatable (s : Schema) (dir : Directive) : Bool :=
  match s.directive? dir.name with
  | some dd => !dd.repeatable
  | none => false

/-- §5.7.3: the directives of one location that are NOT repeatable have pairwise different names
    (an undefined directive is neither repeatable nor not: it is not judged here) -/
def directivesUniquePerLocation (s : Schema) (d : QueryDoc) : Bool :=
  (directiveSites s d).all fun (_, dirs) => distinct ((dirs.filter (definedNotRepeatable s)).map (·.name))

end Gql.Validate.Spec
