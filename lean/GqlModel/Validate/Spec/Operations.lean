import GqlModel.Validate.Spec.Typing
/-
  §5.2 Operations: Operation Name Uniqueness (5.2.1.1), Lone Anonymous Operation (5.2.2.1),
  Single Root Field (5.2.3.1), and the library's own KnownRootType (an operation needs the root
  type of its kind).
-/
namespace Gql.Validate.Spec
open Gql

/-- §5.2.1.1: the NAMED operations have pairwise different names -/
def operationNameUniqueness (d : QueryDoc) : Bool :=
  distinct ((d.ops.filter (·.name != [])).map (·.name))

/-- §5.2.2.1: if the document has more than one operation, none is anonymous -/
def loneAnonymousOperation (d : QueryDoc) : Bool :=
  d.ops.length ≤ 1 || d.ops.all (·.name != [])

/-- library rule: the schema defines the root type of the kind of every operation -/
def knownRootType (s : Schema) (d : QueryDoc) : Bool :=
  d.ops.all fun op => (rootDef s op.op).isSome

/- ---------- §5.2.3.1 Single root field ----------
   `CollectFields(subscriptionType, selectionSet, variableValues = {})` of §6.3.2: a fragment is
   entered once and only if its type condition applies to the subscription root type, fields are
   grouped by response key.  The grouped field set must have exactly one entry and that entry must
   not be an introspection field (name starting with `__`).

   Reading choice (vi): `@skip` / `@include` are NOT evaluated.  With the empty variable assignment
   only literal `if:` arguments could be evaluated at all; a static rule whose verdict depends on
   `@skip(if: true)` written on a root field is not what the section is about (the later editions
   of the specification forbid both directives on subscription root selections outright), so every
   written root field counts. -/

/-- §6.3.2 `DoesFragmentTypeApply(objectType, fragmentType)` -/
def fragmentTypeApplies (s : Schema) (obj : Definition) (typeCond : Name) : Bool :=
  match s.type? typeCond with
  | none => false
  | some ft =>
    match ft.kind with
    | .object => ft.name == obj.name
    | .interface => obj.interfaces.contains ft.name
    | .union => ft.types.contains obj.name
    | _ => false

/-- collected root field: (response key, field name) -/
abbrev RootField := Name × Name

abbrev RootJump := Selections → List Name → List RootField × List Name

mutual
  def collectRootSel (s : Schema) (d : QueryDoc) (obj : Definition) (jump : RootJump) :
      Selection → List Name → List RootField × List Name
    | .field al nm _ _ _ _, vis =>
      ([(if al == [] then nm else al, nm)], vis)
    | .spread nm _ _, vis =>
      if vis.contains nm then ([], vis)
      else match fragByName d nm with
        | none => ([], nm :: vis)
        | some f => if fragmentTypeApplies s obj f.typeCond then jump f.sel (nm :: vis) else ([], nm :: vis)
    | .inline tc _ sub _, vis =>
      if tc != [] && !fragmentTypeApplies s obj tc then ([], vis)
      else collectRootSels s d obj jump sub vis
  def collectRootSels (s : Schema) (d : QueryDoc) (obj : Definition) (jump : RootJump) :
      Selections → List Name → List RootField × List Name
    | .nil, vis => ([], vis)
    | .cons x rest, vis =>
      let r1 := collectRootSel s d obj jump x vis
      let r2 := collectRootSels s d obj jump rest r1.2
      (r1.1 ++ r2.1, r2.2)
end

def collectRootLevel (s : Schema) (d : QueryDoc) (obj : Definition) : Nat → RootJump
  | 0 => fun _ vis => ([], vis)
  | n + 1 => fun sels vis => collectRootSels s d obj (collectRootLevel s d obj n) sels vis

def collectRootFields (s : Schema) (d : QueryDoc) (obj : Definition) (sels : Selections) : List RootField :=
  (collectRootLevel s d obj (d.frags.length + 1) sels []).1

def startsWithUnderscores (n : Name) : Bool :=
  match n with
  | 95 :: 95 :: _ => true
  | _ => false

/-- §5.2.3.1 (not judged for a schema without subscription root type: `knownRootType` reports that) -/
def singleRootField (s : Schema) (d : QueryDoc) : Bool :=
  d.ops.all fun op =>
    if op.op != kwSubscription then true
    else match rootDef s op.op with
      | none => true
      | some obj =>
        let fs := collectRootFields s d obj op.sel
        (addNew [] (fs.map (·.1))).length == 1 && fs.all fun f => !startsWithUnderscores f.2

end Gql.Validate.Spec
