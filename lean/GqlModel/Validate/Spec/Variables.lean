import GqlModel.Validate.Spec.Values
/-
  §5.8 Variables: Variable Uniqueness (5.8.1), Variables Are Input Types (5.8.2), All Variable Uses
  Defined (5.8.3), All Variables Used (5.8.4), All Variable Usages Are Allowed (5.8.5).

  The scope of an operation is the operation itself (its directives, the directives of its variable
  definitions, its selection set) and every fragment definition it references transitively — the
  whole definition: its directives and its selection set.

  A variable usage has a LOCATION TYPE when it is written directly as the value of an argument, of
  an input object field or of a list item whose type is declared.  Inside a custom scalar literal,
  below an undefined field / argument / directive, or in a list literal where no list is expected
  there is no location type and §5.8.5 does not judge the usage.

  Reading choice (iii): fragment variable definitions (an experimental extension of the library)
  are not part of the specification; documents that use them are outside C08 and not generated.
-/
namespace Gql.Validate.Spec
open Gql

/-- §5.8.1: the variables of one operation have different names -/
def variableUniqueness (d : QueryDoc) : Bool :=
  d.ops.all fun op => distinct (op.vars.map (·.var))

/-- auxiliary (not a rule of its own): the named type of every variable exists -/
def variableTypesExist (s : Schema) (d : QueryDoc) : Bool :=
  d.ops.all fun op => op.vars.all fun v => (s.type? v.type.name).isSome

/-- §5.8.2: the type of every variable is an input type (scalar, enum, input object, wrapped or
    not); a type that does not exist is not an input type -/
def variablesAreInputTypes (s : Schema) (d : QueryDoc) : Bool :=
  d.ops.all fun op => op.vars.all fun v =>
    match s.type? v.type.name with
    | some t => isInput t
    | none => false

/-- one variable usage -/
structure VarUse where
  name : Name
  /-- expected type at the location -/
  loc : Option GType
  /-- `hasLocationDefaultValue`: the argument / input field the variable is the value of has a default -/
  locDefault : Bool
  /-- name of the `@oneOf` input object whose field the variable is the value of -/
  oneOf : Option Name
  pos : Pos
  deriving Inhabited

/-- item type of a list type -/
def elemOf : Option GType → Option GType
  | some (.list e _ _) => some e
  | _ => none

mutual
  /-- usages inside a value whose expected type is `exp` -/
  def usesInValue (s : Schema) (exp : Option GType) (locDefault : Bool) (oneOf : Option Name) :
      Value → List VarUse
    | .mk k raw ch p =>
      match k with
      | .variable => [⟨raw, exp, locDefault, oneOf, p⟩]
      | .list => usesInItems s (elemOf exp) ch
      | .object =>
        (match exp.bind (fun t => s.type? t.name) with
         | some d => if d.kind == .inputObject then usesInFields s (some d) ch else usesInFields s none ch
         | none => usesInFields s none ch)
      | _ => []
  def usesInItems (s : Schema) (e : Option GType) : Children → List VarUse
    | .nil => []
    | .cons _ v _ rest => usesInValue s e false none v ++ usesInItems s e rest
  def usesInFields (s : Schema) (d : Option Definition) : Children → List VarUse
    | .nil => []
    | .cons n v _ rest =>
      (match d.bind (fun dd => (inputFieldByName dd n).map fun fd => (dd, fd)) with
       | some (dd, fd) =>
         usesInValue s (some fd.type) fd.default.isSome (if hasOneOf dd then some dd.name else none) v
       | none => usesInValue s none false none v) ++ usesInFields s d rest
end

def usesInArgs (s : Schema) (defs : Option (List ArgDef)) (args : List Argument) : List VarUse :=
  args.flatMap fun a =>
    match defs.bind (argDefByName · a.name) with
    | some ad => usesInValue s (some ad.type) ad.default.isSome none a.value
    | none => usesInValue s none false none a.value

def usesInDirs (s : Schema) (dirs : List Directive) : List VarUse :=
  dirs.flatMap fun dir => usesInArgs s ((s.directive? dir.name).map (·.args)) dir.args

mutual
  def usesInSel (s : Schema) (parent : Option Definition) : Selection → List VarUse
    | .field _ nm args dirs sub _ =>
      usesInArgs s ((parent.bind (fieldDefOn · nm)).map (·.args)) args ++ usesInDirs s dirs ++
        usesInSels s (fieldType s parent nm) sub
    | .spread _ dirs _ => usesInDirs s dirs
    | .inline tc dirs sub _ => usesInDirs s dirs ++ usesInSels s (inlineType s parent tc) sub
  def usesInSels (s : Schema) (parent : Option Definition) : Selections → List VarUse
    | .nil => []
    | .cons x rest => usesInSel s parent x ++ usesInSels s parent rest
end

/-- usages in the scope of a fragment definition -/
def usesInFragment (s : Schema) (f : FragmentDef) : List VarUse :=
  usesInDirs s f.dirs ++ usesInSels s (s.type? f.typeCond) f.sel

/-- usages written in the operation itself -/
def usesInOperation (s : Schema) (op : OperationDef) : List VarUse :=
  op.vars.flatMap (fun v => usesInDirs s v.dirs) ++ usesInDirs s op.dirs ++
    usesInSels s (rootDef s op.op) op.sel

/-- all usages in the scope of an operation, fragments it references transitively included -/
def scopeUses (s : Schema) (d : QueryDoc) (op : OperationDef) : List VarUse :=
  usesInOperation s op ++ (opFragments d op).flatMap (usesInFragment s)

def varDefByName (op : OperationDef) (n : Name) : Option VarDef := op.vars.find? (·.var == n)

/-- §5.8.3 -/
def allVariableUsesDefined (s : Schema) (d : QueryDoc) : Bool :=
  d.ops.all fun op => (scopeUses s d op).all fun u => (varDefByName op u.name).isSome

/-- §5.8.4 -/
def allVariablesUsed (s : Schema) (d : QueryDoc) : Bool :=
  d.ops.all fun op =>
    let uses := scopeUses s d op
    op.vars.all fun v => uses.any (·.name == v.var)

/-- §5.8.5 `AreTypesCompatible(variableType, locationType)` -/
def areTypesCompatible : GType → GType → Bool
  | .named a na _, .named b nb _ => (na || !nb) && a == b
  | .list ea na _, .list eb nb _ => (na || !nb) && areTypesCompatible ea eb
  | _, _ => false

def withNonNull (nn : Bool) : GType → GType
  | .named n _ p => .named n nn p
  | .list e _ p => .list e nn p

/-- §5.8.5 `IsVariableUsageAllowed(variableDefinition, variableUsage)` -/
def isVariableUsageAllowed (v : VarDef) (locationType : GType) (hasLocationDefaultValue : Bool) : Bool :=
  if locationType.nonNull && !v.type.nonNull then
    let hasNonNullVariableDefaultValue := match v.default with
      | some dv => dv.kind != .null
      | none => false
    if !hasNonNullVariableDefaultValue && !hasLocationDefaultValue then false
    else areTypesCompatible v.type (withNonNull false locationType)
  else areTypesCompatible v.type locationType

/-- §5.8.5 (a usage of an undefined variable, or one without location type, is not judged) -/
def allVariableUsagesAllowed (s : Schema) (d : QueryDoc) : Bool :=
  d.ops.all fun op => (scopeUses s d op).all fun u =>
    match varDefByName op u.name, u.loc with
    | some v, some lt => isVariableUsageAllowed v lt u.locDefault
    | _, _ => true

/-- OneOf input objects: a variable given as the single field must be of a non-null type -/
def oneOfVariablesNonNull (s : Schema) (d : QueryDoc) : Bool :=
  d.ops.all fun op => (scopeUses s d op).all fun u =>
    match u.oneOf, varDefByName op u.name with
    | some _, some v => v.type.nonNull
    | _, _ => true

end Gql.Validate.Spec
