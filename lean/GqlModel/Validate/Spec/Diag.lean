import GqlModel.Validate.Spec.Valid
/-
  Diagnostics for the harness — NOT part of the specification.  When the validator and `specValid`
  disagree the check names the disagreement by a short stable class; the flags computed here tell
  it which construct of the document is involved (e.g. "the only defect of the values is an object
  literal where a built-in scalar or an enum is expected").  Nothing here enters `specValid`.
-/
namespace Gql.Validate.Spec
open Gql

/-- beyond the range of a signed 64-bit integer -/
def beyondInt64 (raw : Bytes) : Bool :=
  let v := intLitValue raw
  decide (v < -(9223372036854775808 : Int)) || decide (v > 9223372036854775807)

mutual
  /-- some number literal inside the value cannot be converted by `strconv` (integer beyond int64,
      float that is not finite) -/
  def hasHugeNumber : Value → Bool
    | .mk k raw ch _ =>
      (k == .int && beyondInt64 raw) || (k == .float && !floatLitFinite raw) || childrenHuge ch
  def childrenHuge : Children → Bool
    | .nil => false
    | .cons _ v _ rest => hasHugeNumber v || childrenHuge rest
end

def isCustomScalar (d : Definition) : Bool := d.kind == .scalar && !builtinScalars.contains d.name

mutual
  /-- reasons why `valueOk s t v` fails, one tag per defect (mirror of `valueOk`) -/
  def valueReasons (s : Schema) (t : GType) : Value → List String
    | .mk k raw ch _ =>
      match k with
      | .variable => []
      | .null => if t.nonNull then ["null-for-non-null"] else []
      | .list =>
        (match t with
         | .list e _ _ => itemsReasons s e ch
         | .named n _ _ =>
           match s.type? n with
           | none => []
           | some d => if structuredAtNamed d then [] else ["list-for-non-list"])
      | .object =>
        (match s.type? t.name with
         | none => []
         | some d =>
           if d.kind == .inputObject then
             fieldsReasons s d ch ++ (if requiredFieldsProvided d ch then [] else ["missing-required-field"]) ++
               (if oneOfOk d ch then [] else ["oneof"])
           else if structuredAtNamed d then [] else ["object-for-leaf"])
      | _ =>
        (match s.type? t.name with
         | none => []
         | some d =>
           if scalarLitOk d k raw then []
           else if d.name == str "Int" && k == .int then ["int-range"]
           else if d.name == str "Float" && (k == .int || k == .float) then ["float-not-finite"]
           else ["wrong-kind"])
  def itemsReasons (s : Schema) (e : GType) : Children → List String
    | .nil => []
    | .cons _ v _ rest => valueReasons s e v ++ itemsReasons s e rest
  def fieldsReasons (s : Schema) (d : Definition) : Children → List String
    | .nil => []
    | .cons n v _ rest =>
      (match inputFieldByName d n with
       | none => ["unknown-input-field"]
       | some fd => valueReasons s fd.type v) ++ fieldsReasons s d rest
end

mutual
  /-- an integer literal beyond int64 where Float or ID is expected (it is a valid literal there) -/
  def bigIntForFloatOrID (s : Schema) (t : GType) : Value → Bool
    | .mk k raw ch _ =>
      match k with
      | .int => (t.name == str "Float" || t.name == str "ID") && beyondInt64 raw && floatLitFinite raw
      | .list =>
        (match t with
         | .list e _ _ => bigIntItems s e ch
         | _ => false)
      | .object =>
        (match s.type? t.name with
         | some d => if d.kind == .inputObject then bigIntFields s d ch else false
         | none => false)
      | _ => false
  def bigIntItems (s : Schema) (e : GType) : Children → Bool
    | .nil => false
    | .cons _ v _ rest => bigIntForFloatOrID s e v || bigIntItems s e rest
  def bigIntFields (s : Schema) (d : Definition) : Children → Bool
    | .nil => false
    | .cons n v _ rest =>
      (match inputFieldByName d n with
       | some fd => bigIntForFloatOrID s fd.type v
       | none => false) || bigIntFields s d rest
end

mutual
  /-- a custom-scalar position INSIDE an input-object literal (`under = true`) holds a number that
      `strconv` cannot convert -/
  def hugeCustomUnderObject (s : Schema) (under : Bool) (t : GType) : Value → Bool
    | .mk k raw ch p =>
      match s.type? t.name with
      | none => false
      | some d =>
        if isCustomScalar d then under && hasHugeNumber (.mk k raw ch p)
        else match k with
          | .list =>
            (match t with
             | .list e _ _ => hugeItems s under e ch
             | _ => false)
          | .object => if d.kind == .inputObject then hugeFields s d ch else false
          | _ => false
  def hugeItems (s : Schema) (under : Bool) (e : GType) : Children → Bool
    | .nil => false
    | .cons _ v _ rest => hugeCustomUnderObject s under e v || hugeItems s under e rest
  def hugeFields (s : Schema) (d : Definition) : Children → Bool
    | .nil => false
    | .cons n v _ rest =>
      (match inputFieldByName d n with
       | some fd => hugeCustomUnderObject s true fd.type v
       | none => false) || hugeFields s d rest
end

def dedupStrings : List String → List String → List String
  | [], acc => acc.reverse
  | x :: xs, acc => if acc.contains x then dedupStrings xs acc else dedupStrings xs (x :: acc)

/-- `diag.…` words appended to the reply of `specvalid` -/
def diagWords (s : Schema) (d : QueryDoc) : List String :=
  let sites := typedValueSites s d
  let reasons := dedupStrings (sites.flatMap fun (t, v) => valueReasons s t v) []
  let flag (n : String) (b : Bool) : List String := if b then ["diag." ++ n ++ "=1"] else []
  reasons.map (fun r => "diag.value." ++ r ++ "=1") ++
  flag "bigIntForFloatOrID" (sites.any fun (t, v) => bigIntForFloatOrID s t v) ++
  flag "hugeCustomUnderObject" (sites.any fun (t, v) => hugeCustomUnderObject s false t v) ++
  flag "locationDefaultNeeded" (d.ops.any fun op => (scopeUses s d op).any fun u =>
    match varDefByName op u.name, u.loc with
    | some v, some lt => isVariableUsageAllowed v lt true && !isVariableUsageAllowed v lt false
    | _, _ => false) ++
  flag "varInFragmentDefinitionDirective" (d.frags.any fun f => !(usesInDirs s f.dirs).isEmpty) ++
  flag "fragmentVariableDefinitions" (d.frags.any fun f => !f.vars.isEmpty)

end Gql.Validate.Spec
