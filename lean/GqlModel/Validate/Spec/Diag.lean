import GqlModel.Validate.Spec.Valid
/-
  Diagnostics for the harness — NOT part of the specification.  When the validator and `specValid`
  disagree the check names the disagreement by a short stable class; the flags computed here tell
  it which construct of the document is involved (e.g. "the only defect of the values is an object
  literal where a built-in scalar or an enum is expected").  Nothing here enters `specValid`.
-/
namespace Gql.Validate.Spec
open Gql

/-- beyond the range of a signed 64-bit integer -/
def beyondInt64 (raw : Bytes) : Bool :=
  let v := intLitValue raw
  decide (v < -(9223372036854775808 : Int)) || decide (v > 9223372036854775807)

mutual
  /-- some number literal inside the value cannot be converted by `strconv` (integer beyond int64,
      float that is not finite) -/
  def hasHugeNumber : Value → Bool
    | .mk k raw ch _ =>
      (k == .int && beyondInt64 raw) || (k == .float && !floatLitFinite raw) || childrenHuge ch
  def childrenHuge : Children → Bool
    | .nil => false
    | .cons _ v _ rest => hasHugeNumber v || childrenHuge rest
end

mutual
  /-- the value mentions one of the variables `hv` -/
  def mentionsVar (hv : List Name) : Value → Bool
    | .mk k raw ch _ => (k == .variable && hv.contains raw) || childrenMentionVar hv ch
  def childrenMentionVar (hv : List Name) : Children → Bool
    | .nil => false
    | .cons _ v _ rest => mentionsVar hv v || childrenMentionVar hv rest
end

def isCustomScalar (d : Definition) : Bool := d.kind == .scalar && !builtinScalars.contains d.name

mutual
  /-- reasons why `valueOk s t v` fails, one tag per defect (mirror of `valueOk`) -/
  def valueReasons (s : Schema) (t : GType) : Value → List String
    | .mk k raw ch _ =>
      match k with
      | .variable => []
      | .null => if t.nonNull then ["null-for-non-null"] else []
      | .list =>
        (match t with
         | .list e _ _ => itemsReasons s e ch
         | .named n _ _ =>
           match s.type? n with
           | none => []
           | some d => if structuredAtNamed d then [] else ["list-for-non-list"])
      | .object =>
        (match s.type? t.name with
         | none => []
         | some d =>
           if d.kind == .inputObject then
             fieldsReasons s d ch ++ (if requiredFieldsProvided d ch then [] else ["missing-required-field"]) ++
               (if oneOfOk d ch then [] else ["oneof"])
           else if structuredAtNamed d then [] else ["object-for-leaf"])
      | _ =>
        (match s.type? t.name with
         | none => []
         | some d =>
           if scalarLitOk d k raw then []
           else if d.name == str "Int" && k == .int then ["int-range"]
           else if d.name == str "Float" && (k == .int || k == .float) then ["float-not-finite"]
           else ["wrong-kind"])
  def itemsReasons (s : Schema) (e : GType) : Children → List String
    | .nil => []
    | .cons _ v _ rest => valueReasons s e v ++ itemsReasons s e rest
  def fieldsReasons (s : Schema) (d : Definition) : Children → List String
    | .nil => []
    | .cons n v _ rest =>
      (match inputFieldByName d n with
       | none => ["unknown-input-field"]
       | some fd => valueReasons s fd.type v) ++ fieldsReasons s d rest
end

mutual
  /-- an integer literal beyond int64 where Float or ID is expected (it is a valid literal there) -/
  def bigIntForFloatOrID (s : Schema) (t : GType) : Value → Bool
    | .mk k raw ch _ =>
      match k with
      | .int => (t.name == str "Float" || t.name == str "ID") && beyondInt64 raw && floatLitFinite raw
      | .list =>
        (match t with
         | .list e _ _ => bigIntItems s e ch
         | _ => false)
      | .object =>
        (match s.type? t.name with
         | some d => if d.kind == .inputObject then bigIntFields s d ch else false
         | none => false)
      | _ => false
  def bigIntItems (s : Schema) (e : GType) : Children → Bool
    | .nil => false
    | .cons _ v _ rest => bigIntForFloatOrID s e v || bigIntItems s e rest
  def bigIntFields (s : Schema) (d : Definition) : Children → Bool
    | .nil => false
    | .cons n v _ rest =>
      (match inputFieldByName d n with
       | some fd => bigIntForFloatOrID s fd.type v
       | none => false) || bigIntFields s d rest
end

mutual
  /-- a custom-scalar position INSIDE an input-object literal (`under = true`) holds a number that
      `strconv` cannot convert, or a variable whose default value holds one (`hv`) -/
  def hugeCustomUnderObject (s : Schema) (hv : List Name) (under : Bool) (t : GType) : Value → Bool
    | .mk k raw ch p =>
      match s.type? t.name with
      | none => false
      | some d =>
        if under && k == .variable && hv.contains raw then true
        else if isCustomScalar d then under && (hasHugeNumber (.mk k raw ch p) || mentionsVar hv (.mk k raw ch p))
        else match k with
          | .list =>
            (match t with
             | .list e _ _ => hugeItems s hv under e ch
             | _ => false)
          | .object => if d.kind == .inputObject then hugeFields s hv d ch else false
          | _ => false
  def hugeItems (s : Schema) (hv : List Name) (under : Bool) (e : GType) : Children → Bool
    | .nil => false
    | .cons _ v _ rest => hugeCustomUnderObject s hv under e v || hugeItems s hv under e rest
  def hugeFields (s : Schema) (hv : List Name) (d : Definition) : Children → Bool
    | .nil => false
    | .cons n v _ rest =>
      (match inputFieldByName d n with
       | some fd => hugeCustomUnderObject s hv true fd.type v
       | none => false) || hugeFields s hv d rest
end

abbrev LooseJump := Selections → List Name → List Name × List Name

mutual
  /-- root fields written below a selection set, following every fragment regardless of its type
      condition (what a collector that ignores `DoesFragmentTypeApply` counts) -/
  def looseRootSel (d : QueryDoc) (jump : LooseJump) : Selection → List Name → List Name × List Name
    | .field al nm _ _ _ _, vis => ([if al == [] then nm else al], vis)
    | .spread nm _ _, vis =>
      if vis.contains nm then ([], vis)
      else match fragByName d nm with
        | none => ([], nm :: vis)
        | some f => jump f.sel (nm :: vis)
    | .inline _ _ sub _, vis => looseRootSels d jump sub vis
  def looseRootSels (d : QueryDoc) (jump : LooseJump) : Selections → List Name → List Name × List Name
    | .nil, vis => ([], vis)
    | .cons x rest, vis =>
      let r1 := looseRootSel d jump x vis
      let r2 := looseRootSels d jump rest r1.2
      (r1.1 ++ r2.1, r2.2)
end

def looseRootLevel (d : QueryDoc) : Nat → LooseJump
  | 0 => fun _ vis => ([], vis)
  | n + 1 => fun sels vis => looseRootSels d (looseRootLevel d n) sels vis

/-- some subscription selects a root field below a type condition that cannot apply to the
    subscription root type: `CollectFields` does not collect it -/
def inapplicableRootFragment (s : Schema) (d : QueryDoc) : Bool :=
  d.ops.any fun op =>
    op.op == kwSubscription &&
    (match rootDef s op.op with
     | none => false
     | some obj =>
       let loose := (looseRootLevel d (d.frags.length + 1) op.sel []).1
       (addNew [] loose).length != (addNew [] ((collectRootFields s d obj op.sel).map (·.1))).length)

/-- some subscription collects NO root field at all (every selection sits below a type condition that
    cannot apply to the subscription root type) -/
def subscriptionCollectsNothing (s : Schema) (d : QueryDoc) : Bool :=
  d.ops.any fun op =>
    op.op == kwSubscription &&
    (match rootDef s op.op with
     | none => false
     | some obj => (collectRootFields s d obj op.sel).isEmpty)

/-- same shape when the nullability of LIST wrappers is ignored -/
def wrappersUpToListNullability : GType → GType → Bool
  | .named _ na _, .named _ nb _ => na == nb
  | .list ea _ _, .list eb _ _ => wrappersUpToListNullability ea eb
  | _, _ => false

/-- two fields with one response key whose return types differ in the nullability of a list
    wrapper only -/
def listNullabilityDiffers (s : Schema) (d : QueryDoc) : Bool :=
  let fields := (docSels s d).filterMap fun t =>
    match t.sel with
    | .field al nm _ _ _ _ => (t.parent.bind (fieldDefOn · nm)).map fun fd => (if al == [] then nm else al, fd.type)
    | _ => none
  fields.any fun (k1, t1) => fields.any fun (k2, t2) =>
    k1 == k2 && !sameWrappers (fun _ _ => true) t1 t2 && wrappersUpToListNullability t1 t2

def dedupStrings : List String → List String → List String
  | [], acc => acc.reverse
  | x :: xs, acc => if acc.contains x then dedupStrings xs acc else dedupStrings xs (x :: acc)

/-- `diag.…` words appended to the reply of `specvalid` -/
def diagWords (s : Schema) (d : QueryDoc) : List String :=
  let sites := typedValueSites s d
  let reasons := dedupStrings (sites.flatMap fun (t, v) => valueReasons s t v) []
  let hugeVars := d.ops.flatMap fun op => op.vars.filterMap fun v =>
    match v.default with
    | some dv => if hasHugeNumber dv then some v.var else none
    | none => none
  let flag (n : String) (b : Bool) : List String := if b then ["diag." ++ n ++ "=1"] else []
  reasons.map (fun r => "diag.value." ++ r ++ "=1") ++
  flag "bigIntForFloatOrID" (sites.any fun (t, v) => bigIntForFloatOrID s t v) ++
  flag "hugeCustomUnderObject" (sites.any fun (t, v) => hugeCustomUnderObject s hugeVars false t v) ++
  flag "locationDefaultNeeded" (d.ops.any fun op => (scopeUses s d op).any fun u =>
    match varDefByName op u.name, u.loc with
    | some v, some lt => isVariableUsageAllowed v lt true && !isVariableUsageAllowed v lt false
    | _, _ => false) ++
  flag "varInFragmentDefinitionDirective" (d.frags.any fun f => !(usesInDirs s f.dirs).isEmpty) ++
  flag "listNullabilityDiffers" (listNullabilityDiffers s d) ++
  flag "inapplicableRootFragment" (inapplicableRootFragment s d) ++
  flag "subscriptionCollectsNothing" (subscriptionCollectsNothing s d) ++
  flag "fragmentVariableDefinitions" (d.frags.any fun f => !f.vars.isEmpty)

end Gql.Validate.Spec
