import GqlModel.Validate.Spec.Typing
/-
  §5.4 Arguments: Argument Names (5.4.1), Argument Uniqueness (5.4.2), Required Arguments (5.4.2.1).
  Arguments of fields and of directives alike.
-/
namespace Gql.Validate.Spec
open Gql

/-- §5.4.1: every argument given to a field or directive is defined by it (not judged when the
    field or directive itself is undefined) -/
def argumentNames (s : Schema) (d : QueryDoc) : Bool :=
  (argSites s d).all fun site =>
    match site.defs with
    | none => true
    | some defs => site.args.all fun a => (argDefByName defs a.name).isSome

/-- §5.4.2: no two arguments of one field or directive have the same name -/
def argumentUniqueness (s : Schema) (d : QueryDoc) : Bool :=
  (argSites s d).all fun site => distinct (site.args.map (·.name))

/-- §5.4.2.1: an argument whose type is non-null and that has no default value is given.  (The
    clause "its value must not be the null literal" is the non-null case of §5.6.1 and is judged by
    `valuesOfCorrectType`, so that the two predicates do not report the same defect twice.) -/
def requiredArguments (s : Schema) (d : QueryDoc) : Bool :=
  (argSites s d).all fun site =>
    match site.defs with
    | none => true
    | some defs => defs.all fun ad =>
        !(ad.type.nonNull && ad.default.isNone) || site.args.any (·.name == ad.name)

end Gql.Validate.Spec
