import GqlModel.Validate.Spec.Typing
/-
  The library's introspection depth limit (rules/max_introspection_depth.go, after graphql-js
  `MaxIntrospectionDepthRule`): below every field named `__schema` or `__type`, no path through
  sub-selections, inline fragments and fragment spreads (a fragment is not re-entered while it is
  being visited on the same path) passes through 3 or more fields named `fields`, `interfaces`,
  `possibleTypes` or `inputFields`.
-/
namespace Gql.Validate.Spec
open Gql

def maxListsDepth : Nat := 3

def isIntrospectionListField (n : Name) : Bool :=
  n == str "fields" || n == str "interfaces" || n == str "possibleTypes" || n == str "inputFields"

/-- does some path below reach the limit? (`path`: fragments being visited, `depth`: lists so far) -/
abbrev DepthJump := Selections → List Name → Nat → Bool

mutual
  def deepSel (d : QueryDoc) (jump : DepthJump) : Selection → List Name → Nat → Bool
    | .field _ nm _ _ sub _, path, depth =>
      let depth' := if isIntrospectionListField nm then depth + 1 else depth
      depth' ≥ maxListsDepth || deepSels d jump sub path depth'
    | .spread nm _ _, path, depth =>
      if path.contains nm then false
      else match fragByName d nm with
        | none => false
        | some f => jump f.sel (nm :: path) depth
    | .inline _ _ sub _, path, depth => deepSels d jump sub path depth
  def deepSels (d : QueryDoc) (jump : DepthJump) : Selections → List Name → Nat → Bool
    | .nil, _, _ => false
    | .cons x rest, path, depth => deepSel d jump x path depth || deepSels d jump rest path depth
end

def deepLevel (d : QueryDoc) : Nat → DepthJump
  | 0 => fun _ _ _ => false
  | n + 1 => fun sels path depth => deepSels d (deepLevel d n) sels path depth

mutual
  /-- the selection sets of all fields named `__schema` / `__type` -/
  def introspectionRootsSel : Selection → List Selections
    | .field _ nm _ _ sub _ =>
      (if nm == str "__schema" || nm == str "__type" then [sub] else []) ++ introspectionRootsSels sub
    | .spread .. => []
    | .inline _ _ sub _ => introspectionRootsSels sub
  def introspectionRootsSels : Selections → List Selections
    | .nil => []
    | .cons x rest => introspectionRootsSel x ++ introspectionRootsSels rest
end

def maxIntrospectionDepth (d : QueryDoc) : Bool :=
  (d.ops.flatMap (fun op => introspectionRootsSels op.sel) ++
   d.frags.flatMap (fun f => introspectionRootsSels f.sel)).all fun sub =>
    !deepSels d (deepLevel d (d.frags.length + 1)) sub [] 0

end Gql.Validate.Spec
