import GqlModel.Validate.Rules.FieldsOnCorrectType
import GqlModel.Validate.Rules.FragmentsOnCompositeTypes
import GqlModel.Validate.Rules.KnownArgumentNames
import GqlModel.Validate.Rules.KnownDirectives
import GqlModel.Validate.Rules.KnownFragmentNames
import GqlModel.Validate.Rules.KnownRootType
import GqlModel.Validate.Rules.KnownTypeNames
import GqlModel.Validate.Rules.LoneAnonymousOperation
import GqlModel.Validate.Rules.MaxIntrospectionDepth
import GqlModel.Validate.Rules.NoFragmentCycles
import GqlModel.Validate.Rules.NoUndefinedVariables
import GqlModel.Validate.Rules.NoUnusedFragments
import GqlModel.Validate.Rules.NoUnusedVariables
import GqlModel.Validate.Rules.OverlappingFieldsCanBeMerged
import GqlModel.Validate.Rules.PossibleFragmentSpreads
import GqlModel.Validate.Rules.ProvidedRequiredArguments
import GqlModel.Validate.Rules.ScalarLeafs
import GqlModel.Validate.Rules.SingleFieldSubscriptions
import GqlModel.Validate.Rules.UniqueArgumentNames
import GqlModel.Validate.Rules.UniqueDirectivesPerLocation
import GqlModel.Validate.Rules.UniqueFragmentNames
import GqlModel.Validate.Rules.UniqueInputFieldNames
import GqlModel.Validate.Rules.UniqueOperationNames
import GqlModel.Validate.Rules.UniqueVariableNames
import GqlModel.Validate.Rules.ValuesOfCorrectType
import GqlModel.Validate.Rules.VariablesAreInputTypes
import GqlModel.Validate.Rules.VariablesInAllowedPosition
/-
  The rule registry.

  `defaultRuleNames` is the order of the `AddRule` calls performed by Go's package
  initialisation of `validator/rules`: one `init()` per file, files in file-name order (the order
  in which the go tool presents them to the compiler).  The extractor regenerates this list (F4).

  To add a rule: write `Rules/<Name>.lean` defining a `Rule`,
  import it here and add it to `modelledRules`.
-/
namespace Gql.Validate
open Gql Gql.Validate.Rules

def defaultRuleNames : List String :=
  [ "FieldsOnCorrectType", "FragmentsOnCompositeTypes", "KnownArgumentNames", "KnownDirectives",
    "KnownFragmentNames", "KnownRootType", "KnownTypeNames", "LoneAnonymousOperation",
    "MaxIntrospectionDepth", "NoFragmentCycles", "NoUndefinedVariables", "NoUnusedFragments",
    "NoUnusedVariables", "OverlappingFieldsCanBeMerged", "PossibleFragmentSpreads",
    "ProvidedRequiredArguments", "ScalarLeafs", "SingleFieldSubscriptions", "UniqueArgumentNames",
    "UniqueDirectivesPerLocation", "UniqueFragmentNames", "UniqueInputFieldNames",
    "UniqueOperationNames", "UniqueVariableNames", "ValuesOfCorrectType", "VariablesAreInputTypes",
    "VariablesInAllowedPosition" ]

/-- every rule that has a model, default rules first (in default order), then the
    `…WithoutSuggestions` variants -/
def modelledRules : List Rule :=
  [ fieldsOnCorrectType, fragmentsOnCompositeTypes, knownArgumentNames, knownDirectives,
    knownFragmentNames, knownRootType, knownTypeNames, loneAnonymousOperation,
    maxIntrospectionDepth, noFragmentCycles, noUndefinedVariables, noUnusedFragments,
    noUnusedVariables, overlappingFieldsCanBeMerged, possibleFragmentSpreads,
    providedRequiredArguments, scalarLeafs, singleFieldSubscriptions, uniqueArgumentNames,
    uniqueDirectivesPerLocation, uniqueFragmentNames, uniqueInputFieldNames,
    uniqueOperationNames, uniqueVariableNames, valuesOfCorrectType, variablesAreInputTypes,
    variablesInAllowedPosition,
    fieldsOnCorrectTypeWithoutSuggestions, knownArgumentNamesWithoutSuggestions,
    knownTypeNamesWithoutSuggestions, valuesOfCorrectTypeWithoutSuggestions ]

def ruleByName (n : String) : Option Rule := modelledRules.find? fun r => r.name == str n

/-- the default rule set (all 27 default rules are modelled) -/
def defaultRules : List Rule := defaultRuleNames.filterMap ruleByName

end Gql.Validate
