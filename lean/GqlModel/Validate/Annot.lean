import GqlModel.Syntax.Ast
import GqlModel.Schema.Types
import GqlModel.Validate.View
/-
  The annotation layer of the validator (`validator/walk.go`).

  The Go walker writes links into the AST while it walks ("Require validation" fields).  The
  model keeps the tree immutable and represents the links

  * BY VALUE on the event that the walker fires for the node (every link-carrying node kind has
    its own event: `Field.Definition/ObjectDefinition`, `FragmentSpread.Definition/
    ObjectDefinition`, `InlineFragment.ObjectDefinition`, `FragmentDefinition.Definition`,
    `Directive.Definition/ParentDefinition/Location`, `VariableDefinition.Definition/Used`,
    `Value.Definition/ExpectedType/VariableDefinition`) — these links are a function of the
    static context of the node and are the same every time a node is (re-)walked, and
  * in a small SIDE TABLE `Links`, keyed by node position (`pos.start`; distinct nodes of one
    parse have distinct starts, DESIGN §4 "Node identity"), for the two pieces of link state that
    are NOT a function of the static context and that rules read from *other* nodes than the one
    the event is about:
      - `Value.VariableDefinition`, which is only assigned while `CurrentOperation != nil` and
        therefore keeps the value written under the last operation that reached the node when
        the fragment is walked again stand-alone (read by `ValuesOfCorrectType` — the `@oneOf`
        branch and `Value.Value(nil)` — on children of the value the event is about);
      - which selection nodes have been linked so far (`FragmentSpread.Definition` of a spread
        that the walker has not reached yet is still nil; `MaxIntrospectionDepth` and
        `SingleFieldSubscriptions` follow those links from an enclosing node).
-/
namespace Gql.Validate
open Gql

/-- `*ast.Field` -/
structure FieldNode where
  alias : Name
  name : Name
  args : List Argument
  dirs : List Directive
  sel : Selections
  pos : Pos
  deriving Inhabited

/-- `*ast.FragmentSpread` -/
structure SpreadNode where
  name : Name
  dirs : List Directive
  pos : Pos
  deriving Inhabited

/-- `*ast.InlineFragment` -/
structure InlineNode where
  typeCond : Name
  dirs : List Directive
  sel : Selections
  pos : Pos
  deriving Inhabited

/-- mutable link state of the document that is not determined by the static context -/
structure Links where
  /-- `Value.VariableDefinition` per value node (key `pos.start`), most recent binding first;
      a binding to `none` is an explicit nil written by the walker -/
  vlinks : List (Nat × Option VarDef)
  /-- `pos.start` of the selection nodes (fields, spreads, inline fragments) linked so far -/
  sels : List Nat
  deriving Inhabited

def Links.empty : Links := { vlinks := [], sels := [] }

/-- current `Value.VariableDefinition` of the value node starting at `start` -/
def Links.varDef (l : Links) (start : Nat) : Option VarDef := (l.vlinks.lookup start).join

def Links.linked (l : Links) (start : Nat) : Bool := l.sels.contains start

/-- `Document.Fragments.ForName` -/
def fragForName (d : QueryDoc) (n : Name) : Option FragmentDef := d.frags.find? (·.name == n)

/-- `FragmentSpread.Definition` as a rule sees it at the time of an event -/
def Links.spreadDef (l : Links) (d : QueryDoc) (name : Name) (pos : Pos) : Option FragmentDef :=
  if l.linked pos.start then fragForName d name else none

/-- `FieldList.ForName` -/
def fieldForName (fs : List FieldDef) (n : Name) : Option FieldDef := fs.find? (·.name == n)
/-- `ArgumentDefinitionList.ForName` -/
def argDefForName (as : List ArgDef) (n : Name) : Option ArgDef := as.find? (·.name == n)
/-- `VariableDefinitionList.ForName` -/
def varForName (vs : List VarDef) (n : Name) : Option VarDef := vs.find? (·.var == n)

inductive Payload
  | operation (op : OperationDef) (used : List Bool)
  | field (f : FieldNode) (parent : Option Definition) (dfn : Option FieldDef)
  | fragment (f : FragmentDef) (dfn : Option Definition)
  | inlineFragment (f : InlineNode) (parent : Option Definition)
  | fragmentSpread (f : SpreadNode) (dfn : Option FragmentDef) (parent : Option Definition)
  | directive (d : Directive) (dfn : Option DirectiveDef) (parent : Option Definition) (loc : Bytes)
  | directiveList (ds : List Directive)
  | value (v : Value) (expected : Option GType) (dfn : Option Definition)
  | variable (v : VarDef) (dfn : Option Definition)
  deriving Inhabited

/-- one observer call of the Go walker: the node with its links, `walker.CurrentOperation`, and
    the side-table snapshot at the time of the call -/
structure Event where
  cur : Option OperationDef
  links : Links
  p : Payload
  deriving Inhabited

def Payload.kindName : Payload → String
  | .operation .. => "operation" | .field .. => "field" | .fragment .. => "fragment"
  | .inlineFragment .. => "inlineFragment" | .fragmentSpread .. => "fragmentSpread"
  | .directive .. => "directive" | .directiveList .. => "directiveList" | .value .. => "value"
  | .variable .. => "variable"

/-- `kind@start` of the node an event is about (`directiveList@<number of directives>`): the
    observation compared with the order in which the real walker calls observers -/
def Event.tag (e : Event) : String :=
  e.p.kindName ++ "@" ++ toString (match e.p with
    | .operation op _ => op.pos.start
    | .field f _ _ => f.pos.start
    | .fragment f _ => f.pos.start
    | .inlineFragment f _ => f.pos.start
    | .fragmentSpread f _ _ => f.pos.start
    | .directive d _ _ _ => d.pos.start
    | .directiveList ds => ds.length
    | .value v _ _ => v.pos.start
    | .variable v _ => v.pos.start)

/- ---------------- canonical link dump ---------------- -/

def optDefName : Option Definition → String
  | none => "-"
  | some d => bytesToString d.name

/-- one dump line for the node an event is about (none for `directiveList`, which has no node):
    `(pos.start, text)`.  The text starts with the node kind tag. -/
def Event.linkLine (e : Event) : Option (Nat × String) :=
  match e.p with
  | .operation op used =>
    some (op.pos.start, "O used=" ++ String.ofList (used.map fun b => if b then '1' else '0'))
  | .variable v dfn => some (v.pos.start, "VD def=" ++ optDefName dfn)
  | .field f parent dfn =>
    let dn := match dfn with
      | none => "-"
      | some fd => bytesToString fd.name ++ ":" ++ bytesToString fd.type.render
    some (f.pos.start, "F obj=" ++ optDefName parent ++ " def=" ++ dn)
  | .fragment f dfn => some (f.pos.start, "FD def=" ++ optDefName dfn)
  | .inlineFragment f parent => some (f.pos.start, "I obj=" ++ optDefName parent)
  | .fragmentSpread f dfn parent =>
    let dn := match dfn with
      | none => "-"
      | some fd => bytesToString fd.name ++ "@" ++ toString fd.pos.start
    some (f.pos.start, "S def=" ++ dn ++ " obj=" ++ optDefName parent)
  | .directive d dfn parent loc =>
    let dn := match dfn with
      | none => "-"
      | some dd => bytesToString dd.name
    some (d.pos.start, "D def=" ++ dn ++ " parent=" ++ optDefName parent ++ " loc=" ++ bytesToString loc)
  | .value v expected dfn =>
    let ex := match expected with
      | none => "-"
      | some t => bytesToString t.render
    let vn := match e.links.varDef v.pos.start with
      | none => "-"
      | some vd => bytesToString vd.var ++ "@" ++ toString vd.pos.start
    some (v.pos.start, "V def=" ++ optDefName dfn ++ " exp=" ++ ex ++ " var=" ++ vn)
  | .directiveList _ => none

def lineKey (x : Nat × String) : Nat × String := (x.1, (x.2.takeWhile (· ≠ ' ')).toString)

/-- keep the LAST line of every node (key = start + kind tag): the state of the Go document after
    `Validate` returns is what the last walk of each node wrote -/
def lastPerNode : List (Nat × String) → List (Nat × String) → List (Nat × String)
  | [], acc => acc
  | x :: rest, acc =>
    if acc.any (fun y => lineKey y == lineKey x) then lastPerNode rest acc else lastPerNode rest (x :: acc)

def lineLe (a b : Nat × String) : Bool := a.1 < b.1 || (a.1 == b.1 && a.2 ≤ b.2)

/-- canonical dump: one line per node, sorted by (start, text), joined by `;` -/
def linkDump (evs : List Event) : String :=
  let lines := lastPerNode (evs.filterMap Event.linkLine).reverse []
  let sorted := lines.mergeSort lineLe
  ";".intercalate (sorted.map fun (s, t) => toString s ++ ":" ++ t)

end Gql.Validate
