import GqlModel.Basic.Sexp
import GqlModel.Syntax.Ast
/-
  Wire encoding of syntax trees (see harness/internal/impl/sexp.go for the Go printer; both
  sides must print exactly the same text for the same tree).  Decoders are wire glue only and
  are `partial`; no theorem mentions them.
-/
namespace Gql.Wire
open Gql

def b (x : Bool) : Sexp := .int (if x then 1 else 0)
def l (xs : List Sexp) : Sexp := .list xs
def t (s : String) : Sexp := .tag s
def n (x : Nat) : Sexp := .int x

def pos (p : Pos) : Sexp := l [t "p", n p.start, n p.stop, n p.line, .int p.col, n p.src]

def gtype : GType → Sexp
  | .named nm nn p => l [t "N", .bytes nm, b nn, pos p]
  | .list e nn p => l [t "L", gtype e, b nn, pos p]

mutual
  def value : Value → Sexp
    | .mk k raw ch p => l [t "V", n k.toNat, .bytes raw, l (children ch), pos p]
  def children : Children → List Sexp
    | .nil => []
    | .cons nm v p rest => l [t "C", .bytes nm, value v, pos p] :: children rest
end

def opt {α} (f : α → Sexp) : Option α → Sexp
  | none => l []
  | some a => l [f a]

def argument (a : Argument) : Sexp := l [t "A", .bytes a.name, value a.value, pos a.pos]
def directive (d : Directive) : Sexp := l [t "D", .bytes d.name, l (d.args.map argument), pos d.pos]
def dirs (ds : List Directive) : Sexp := l (ds.map directive)

mutual
  def selection : Selection → Sexp
    | .field al nm args ds sel p =>
      l [t "F", .bytes al, .bytes nm, l (args.map argument), dirs ds, l (selections sel), pos p]
    | .spread nm ds p => l [t "S", .bytes nm, dirs ds, pos p]
    | .inline tc ds sel p => l [t "I", .bytes tc, dirs ds, l (selections sel), pos p]
  def selections : Selections → List Sexp
    | .nil => []
    | .cons s rest => selection s :: selections rest
end

def varDef (v : VarDef) : Sexp :=
  l [t "VD", .bytes v.var, gtype v.type, opt value v.default, dirs v.dirs, pos v.pos]

def operation (o : OperationDef) : Sexp :=
  l [t "O", .bytes o.op, .bytes o.name, l (o.vars.map varDef), dirs o.dirs, l (selections o.sel), pos o.pos]

def fragment (f : FragmentDef) : Sexp :=
  l [t "FD", .bytes f.name, l (f.vars.map varDef), .bytes f.typeCond, dirs f.dirs, l (selections f.sel), pos f.pos]

def queryDoc (d : QueryDoc) : Sexp := l [t "Q", l (d.ops.map operation), l (d.frags.map fragment)]

def argDef (a : ArgDef) : Sexp :=
  l [t "AD", .bytes a.desc, .bytes a.name, opt value a.default, gtype a.type, dirs a.dirs, pos a.pos]

def fieldDef (f : FieldDef) : Sexp :=
  l [t "FL", .bytes f.desc, .bytes f.name, l (f.args.map argDef), opt value f.default, gtype f.type, dirs f.dirs, pos f.pos]

def enumVal (e : EnumValDef) : Sexp := l [t "EV", .bytes e.desc, .bytes e.name, dirs e.dirs, pos e.pos]

def DefKind.toNat : DefKind → Nat
  | .scalar => 0 | .object => 1 | .interface => 2 | .union => 3 | .enum => 4 | .inputObject => 5

def definition (d : Definition) : Sexp :=
  l [t "DF", n (DefKind.toNat d.kind), .bytes d.desc, .bytes d.name, dirs d.dirs, l (d.interfaces.map .bytes),
     l (d.fields.map fieldDef), l (d.types.map .bytes), l (d.enumValues.map enumVal), pos d.pos, b d.builtIn]

def directiveDef (d : DirectiveDef) : Sexp :=
  l [t "DD", .bytes d.desc, .bytes d.name, l (d.args.map argDef), l (d.locations.map .bytes), b d.repeatable, pos d.pos]

def opType (o : OpTypeDef) : Sexp := l [t "OT", .bytes o.op, .bytes o.type, pos o.pos]

def schemaDef (s : SchemaDef) : Sexp := l [t "SD", .bytes s.desc, dirs s.dirs, l (s.opTypes.map opType), pos s.pos]

def schemaDoc (d : SchemaDoc) : Sexp :=
  l [t "SDOC", l (d.schema.map schemaDef), l (d.schemaExt.map schemaDef), l (d.directives.map directiveDef),
     l (d.definitions.map definition), l (d.extensions.map definition)]

/- ---------------- decoders ---------------- -/

def dNat : Sexp → Option Nat
  | .int i => if i ≥ 0 then some i.toNat else none
  | _ => none
def dBool : Sexp → Option Bool
  | .int 0 => some false
  | .int 1 => some true
  | _ => none
def dBytes : Sexp → Option Bytes
  | .bytes x => some x
  | _ => none
def dList {α} (f : Sexp → Option α) : Sexp → Option (List α)
  | .list xs => xs.mapM f
  | _ => none
def dOpt {α} (f : Sexp → Option α) : Sexp → Option (Option α)
  | .list [] => some none
  | .list [x] => (f x).map some
  | _ => none

def dPos : Sexp → Option Pos
  | .list [.tag "p", s, e, ln, .int c, src] => do
    pure { start := ← dNat s, stop := ← dNat e, line := ← dNat ln, col := c, src := ← dNat src }
  | _ => none

partial def dType : Sexp → Option GType
  | .list [.tag "N", nm, nn, p] => do pure (.named (← dBytes nm) (← dBool nn) (← dPos p))
  | .list [.tag "L", e, nn, p] => do pure (.list (← dType e) (← dBool nn) (← dPos p))
  | _ => none

def dKind (k : Nat) : Option ValueKind :=
  [ValueKind.variable, .int, .float, .string, .block, .boolean, .null, .enum, .list, .object][k]?

partial def dValue : Sexp → Option Value
  | .list [.tag "V", k, raw, .list ch, p] => do
    let cs ← ch.mapM fun
      | .list [.tag "C", nm, v, cp] => do pure ((← dBytes nm), (← dValue v), (← dPos cp))
      | _ => none
    pure (.mk (← dKind (← dNat k)) (← dBytes raw) (Children.ofList cs) (← dPos p))
  | _ => none

def dArgument : Sexp → Option Argument
  | .list [.tag "A", nm, v, p] => do pure { name := ← dBytes nm, value := ← dValue v, pos := ← dPos p }
  | _ => none

def dDirective : Sexp → Option Directive
  | .list [.tag "D", nm, args, p] => do pure { name := ← dBytes nm, args := ← dList dArgument args, pos := ← dPos p }
  | _ => none

partial def dSelection : Sexp → Option Selection
  | .list [.tag "F", al, nm, args, ds, .list sel, p] => do
    pure (.field (← dBytes al) (← dBytes nm) (← dList dArgument args) (← dList dDirective ds)
      (Selections.ofList (← sel.mapM dSelection)) (← dPos p))
  | .list [.tag "S", nm, ds, p] => do pure (.spread (← dBytes nm) (← dList dDirective ds) (← dPos p))
  | .list [.tag "I", tc, ds, .list sel, p] => do
    pure (.inline (← dBytes tc) (← dList dDirective ds) (Selections.ofList (← sel.mapM dSelection)) (← dPos p))
  | _ => none

def dSelections : Sexp → Option Selections
  | .list xs => do pure (Selections.ofList (← xs.mapM dSelection))
  | _ => none

def dVarDef : Sexp → Option VarDef
  | .list [.tag "VD", v, ty, d, ds, p] => do
    pure { var := ← dBytes v, type := ← dType ty, default := ← dOpt dValue d, dirs := ← dList dDirective ds, pos := ← dPos p }
  | _ => none

def dOperation : Sexp → Option OperationDef
  | .list [.tag "O", op, nm, vs, ds, sel, p] => do
    pure { op := ← dBytes op, name := ← dBytes nm, vars := ← dList dVarDef vs, dirs := ← dList dDirective ds,
           sel := ← dSelections sel, pos := ← dPos p }
  | _ => none

def dFragment : Sexp → Option FragmentDef
  | .list [.tag "FD", nm, vs, tc, ds, sel, p] => do
    pure { name := ← dBytes nm, vars := ← dList dVarDef vs, typeCond := ← dBytes tc, dirs := ← dList dDirective ds,
           sel := ← dSelections sel, pos := ← dPos p }
  | _ => none

def dQueryDoc : Sexp → Option QueryDoc
  | .list [.tag "Q", ops, frags] => do pure { ops := ← dList dOperation ops, frags := ← dList dFragment frags }
  | _ => none

def dArgDef : Sexp → Option ArgDef
  | .list [.tag "AD", d, nm, dv, ty, ds, p] => do
    pure { desc := ← dBytes d, name := ← dBytes nm, default := ← dOpt dValue dv, type := ← dType ty,
           dirs := ← dList dDirective ds, pos := ← dPos p }
  | _ => none

def dFieldDef : Sexp → Option FieldDef
  | .list [.tag "FL", d, nm, args, dv, ty, ds, p] => do
    pure { desc := ← dBytes d, name := ← dBytes nm, args := ← dList dArgDef args, default := ← dOpt dValue dv,
           type := ← dType ty, dirs := ← dList dDirective ds, pos := ← dPos p }
  | _ => none

def dEnumVal : Sexp → Option EnumValDef
  | .list [.tag "EV", d, nm, ds, p] => do
    pure { desc := ← dBytes d, name := ← dBytes nm, dirs := ← dList dDirective ds, pos := ← dPos p }
  | _ => none

def dDefKind (k : Nat) : Option DefKind :=
  [DefKind.scalar, .object, .interface, .union, .enum, .inputObject][k]?

def dDefinition : Sexp → Option Definition
  | .list [.tag "DF", k, d, nm, ds, ifs, fs, ts, evs, p, bi] => do
    pure { kind := ← dDefKind (← dNat k), desc := ← dBytes d, name := ← dBytes nm, dirs := ← dList dDirective ds,
           interfaces := ← dList dBytes ifs, fields := ← dList dFieldDef fs, types := ← dList dBytes ts,
           enumValues := ← dList dEnumVal evs, pos := ← dPos p, builtIn := ← dBool bi }
  | _ => none

def dDirectiveDef : Sexp → Option DirectiveDef
  | .list [.tag "DD", d, nm, args, locs, rep, p] => do
    pure { desc := ← dBytes d, name := ← dBytes nm, args := ← dList dArgDef args, locations := ← dList dBytes locs,
           repeatable := ← dBool rep, pos := ← dPos p }
  | _ => none

def dOpType : Sexp → Option OpTypeDef
  | .list [.tag "OT", op, ty, p] => do pure { op := ← dBytes op, type := ← dBytes ty, pos := ← dPos p }
  | _ => none

def dSchemaDef : Sexp → Option SchemaDef
  | .list [.tag "SD", d, ds, ots, p] => do
    pure { desc := ← dBytes d, dirs := ← dList dDirective ds, opTypes := ← dList dOpType ots, pos := ← dPos p }
  | _ => none

def dSchemaDoc : Sexp → Option SchemaDoc
  | .list [.tag "SDOC", s, se, dd, df, ex] => do
    pure { schema := ← dList dSchemaDef s, schemaExt := ← dList dSchemaDef se, directives := ← dList dDirectiveDef dd,
           definitions := ← dList dDefinition df, extensions := ← dList dDefinition ex }
  | _ => none

end Gql.Wire
