import GqlModel.Basic.Bytes
/-
  Abstract syntax shared by every layer: mirrors package `ast` (names, raw values and
  descriptions are byte strings; "Require validation" link fields are not part of the tree —
  they are modelled by name in the annotation layer).  Nested lists inside recursive types are
  spelled out as mutual cons-lists (`Children`, `Selections`) so that structural recursion,
  `induction` and `DecidableEq` stay available.
-/
namespace Gql

abbrev Name := Bytes

structure Pos where
  start : Nat
  stop : Nat
  line : Nat
  col : Int
  src : Nat := 0            -- index of the source file within the load
  deriving DecidableEq, Repr, Inhabited

def Pos.zero : Pos := { start := 0, stop := 0, line := 0, col := 0 }

/-- `ast.Type` -/
inductive GType
  | named (name : Name) (nonNull : Bool) (pos : Pos)
  | list (elem : GType) (nonNull : Bool) (pos : Pos)
  deriving DecidableEq, Repr, Inhabited

def GType.name : GType → Name
  | .named n _ _ => n
  | .list e _ _ => e.name

def GType.nonNull : GType → Bool
  | .named _ nn _ => nn
  | .list _ nn _ => nn

def GType.pos : GType → Pos
  | .named _ _ p => p
  | .list _ _ p => p

/-- `Type.String()` -/
def GType.render : GType → Bytes
  | .named n nn _ => n ++ (if nn then [33] else [])
  | .list e nn _ => 91 :: e.render ++ 93 :: (if nn then [33] else [])

inductive ValueKind
  | variable | int | float | string | block | boolean | null | enum | list | object
  deriving DecidableEq, Repr, Inhabited

def ValueKind.toNat : ValueKind → Nat
  | .variable => 0 | .int => 1 | .float => 2 | .string => 3 | .block => 4 | .boolean => 5
  | .null => 6 | .enum => 7 | .list => 8 | .object => 9

mutual
  /-- `ast.Value` -/
  inductive Value
    | mk (kind : ValueKind) (raw : Bytes) (children : Children) (pos : Pos)
  /-- `ast.ChildValueList` (list items have an empty name) -/
  inductive Children
    | nil
    | cons (name : Name) (value : Value) (pos : Pos) (rest : Children)
end

instance : Inhabited Value := ⟨.mk .null [] .nil Pos.zero⟩
instance : Inhabited Children := ⟨.nil⟩

def Value.kind : Value → ValueKind | .mk k _ _ _ => k
def Value.raw : Value → Bytes | .mk _ r _ _ => r
def Value.children : Value → Children | .mk _ _ c _ => c
def Value.pos : Value → Pos | .mk _ _ _ p => p

def Children.toList : Children → List (Name × Value × Pos)
  | .nil => []
  | .cons n v p rest => (n, v, p) :: rest.toList

def Children.ofList : List (Name × Value × Pos) → Children
  | [] => .nil
  | (n, v, p) :: rest => .cons n v p (Children.ofList rest)

def Children.length : Children → Nat
  | .nil => 0
  | .cons _ _ _ rest => rest.length + 1

structure Argument where
  name : Name
  value : Value
  pos : Pos
  deriving Inhabited

structure Directive where
  name : Name
  args : List Argument
  pos : Pos
  deriving Inhabited

mutual
  /-- `ast.Selection` (Field | FragmentSpread | InlineFragment) -/
  inductive Selection
    | field (alias name : Name) (args : List Argument) (dirs : List Directive) (sel : Selections) (pos : Pos)
    | spread (name : Name) (dirs : List Directive) (pos : Pos)
    | inline (typeCond : Name) (dirs : List Directive) (sel : Selections) (pos : Pos)
  inductive Selections
    | nil
    | cons (s : Selection) (rest : Selections)
end

instance : Inhabited Selections := ⟨.nil⟩
instance : Inhabited Selection := ⟨.spread [] [] Pos.zero⟩

def Selections.toList : Selections → List Selection
  | .nil => []
  | .cons s rest => s :: rest.toList

def Selections.ofList : List Selection → Selections
  | [] => .nil
  | s :: rest => .cons s (Selections.ofList rest)

def Selection.pos : Selection → Pos
  | .field _ _ _ _ _ p => p
  | .spread _ _ p => p
  | .inline _ _ _ p => p

structure VarDef where
  var : Name
  type : GType
  default : Option Value
  dirs : List Directive
  pos : Pos
  deriving Inhabited

/-- "query" | "mutation" | "subscription" as written -/
abbrev Operation := Bytes

structure OperationDef where
  op : Operation
  name : Name
  vars : List VarDef
  dirs : List Directive
  sel : Selections
  pos : Pos
  deriving Inhabited

structure FragmentDef where
  name : Name
  vars : List VarDef            -- the library's experimental fragment variables
  typeCond : Name
  dirs : List Directive
  sel : Selections
  pos : Pos
  deriving Inhabited

structure QueryDoc where
  ops : List OperationDef
  frags : List FragmentDef
  deriving Inhabited

/- ---------- type-system documents ---------- -/

structure ArgDef where
  desc : Bytes
  name : Name
  default : Option Value
  type : GType
  dirs : List Directive
  pos : Pos
  deriving Inhabited

structure FieldDef where
  desc : Bytes
  name : Name
  args : List ArgDef            -- objects / interfaces only
  default : Option Value        -- input objects only
  type : GType
  dirs : List Directive
  pos : Pos
  deriving Inhabited

structure EnumValDef where
  desc : Bytes
  name : Name
  dirs : List Directive
  pos : Pos
  deriving Inhabited

inductive DefKind
  | scalar | object | interface | union | enum | inputObject
  deriving DecidableEq, Repr, Inhabited

def DefKind.render : DefKind → Bytes
  | .scalar => str "SCALAR" | .object => str "OBJECT" | .interface => str "INTERFACE"
  | .union => str "UNION" | .enum => str "ENUM" | .inputObject => str "INPUT_OBJECT"

structure Definition where
  kind : DefKind
  desc : Bytes
  name : Name
  dirs : List Directive
  interfaces : List Name
  fields : List FieldDef
  types : List Name             -- union members
  enumValues : List EnumValDef
  pos : Pos
  builtIn : Bool
  deriving Inhabited

structure DirectiveDef where
  desc : Bytes
  name : Name
  args : List ArgDef
  locations : List Bytes
  repeatable : Bool
  pos : Pos
  deriving Inhabited

structure OpTypeDef where
  op : Operation
  type : Name
  pos : Pos
  deriving Inhabited

structure SchemaDef where
  desc : Bytes
  dirs : List Directive
  opTypes : List OpTypeDef
  pos : Pos
  deriving Inhabited

structure SchemaDoc where
  schema : List SchemaDef
  schemaExt : List SchemaDef
  directives : List DirectiveDef
  definitions : List Definition
  extensions : List Definition
  deriving Inhabited

/-- `SchemaDocument.Merge` -/
def SchemaDoc.merge (a b : SchemaDoc) : SchemaDoc :=
  { schema := a.schema ++ b.schema, schemaExt := a.schemaExt ++ b.schemaExt,
    directives := a.directives ++ b.directives, definitions := a.definitions ++ b.definitions,
    extensions := a.extensions ++ b.extensions }

def SchemaDoc.empty : SchemaDoc :=
  { schema := [], schemaExt := [], directives := [], definitions := [], extensions := [] }

end Gql
