import GqlModel.Syntax.Ast
import GqlModel.Syntax.Grammar
/-
  The UNPARSER of the specification side of C05 / C06: the canonical token sequence of a syntax
  tree, production by production (`printQuery`, `printSchema`).  Written against the grammar of
  Grammar.lean, not against the parser.

  Tree faithfulness is the single equation

      printX (tree the parser built for the input) = canonical form of the input's token sequence

  (`Grammar.canonical gql start (tokensOf input)`): the tree contains exactly what was written, in
  source order, and nothing else — and, because neither side sees ignored tokens, independently
  of them.

  The five definition lists of a `SchemaDoc` (and the two of a `QueryDoc`) are each in source
  order; the order *between* the lists is not part of the tree except through the recorded
  positions, so the printers interleave the lists by ascending start offset (`Pos.start`; stable).

  `WFQuery` / `WFSchema` are the trees whose print is a sentence of the grammar (theorems
  `C05_print_in_grammar`, `C06_print_in_grammar`).
-/
namespace Gql.Print
open Gql Gql.Lexer Gql.Grammar

def tName (n : Name) : Tok := { kind := .name, value := n }
def tP (k : Kind) : Tok := { kind := k, value := [] }
def tKw (s : String) : Tok := { kind := .name, value := str s }

def bangIf (nn : Bool) : List Tok := if nn then [tP .bang] else []

/-- Type -/
def printType : GType → List Tok
  | .named n nn _ => tName n :: bangIf nn
  | .list e nn _ => tP .bracketL :: printType e ++ tP .bracketR :: bangIf nn

mutual
  /-- Value -/
  def printValue : Value → List Tok
    | .mk k raw ch _ =>
      match k with
      | .variable => [tP .dollar, tName raw]
      | .int => [{ kind := .int, value := raw }]
      | .float => [{ kind := .float, value := raw }]
      | .string => [{ kind := .string, value := raw }]
      | .block => [{ kind := .blockString, value := raw }]
      | .boolean => [tName raw]
      | .null => [tName raw]
      | .enum => [tName raw]
      | .list => tP .bracketL :: printItems ch ++ [tP .bracketR]
      | .object => tP .braceL :: printObjFields ch ++ [tP .braceR]
  /-- the items of a ListValue -/
  def printItems : Children → List Tok
    | .nil => []
    | .cons _ v _ rest => printValue v ++ printItems rest
  /-- the ObjectFields of an ObjectValue -/
  def printObjFields : Children → List Tok
    | .nil => []
    | .cons n v _ rest => tName n :: tP .colon :: printValue v ++ printObjFields rest
end

/-- Argument -/
def printArgument (a : Argument) : List Tok := tName a.name :: tP .colon :: printValue a.value

/-- Arguments? (absent when the list is empty) -/
def printArguments (as : List Argument) : List Tok :=
  if as.isEmpty then [] else tP .parenL :: as.flatMap printArgument ++ [tP .parenR]

/-- Directive -/
def printDirective (d : Directive) : List Tok := tP .at :: tName d.name :: printArguments d.args

/-- Directives? -/
def printDirectives (ds : List Directive) : List Tok := ds.flatMap printDirective

mutual
  /-- Selection -/
  def printSelection : Selection → List Tok
    | .field al nm args ds sel _ =>
      (if al = nm then [] else [tName al, tP .colon]) ++ tName nm :: printArguments args ++ printDirectives ds
        ++ (match sel with
            | .nil => []
            | .cons s rest => tP .braceL :: printSelections (.cons s rest) ++ [tP .braceR])
    | .spread nm ds _ => tP .spread :: tName nm :: printDirectives ds
    | .inline tc ds sel _ =>
      tP .spread :: (if tc = [] then [] else [tKw "on", tName tc]) ++ printDirectives ds
        ++ tP .braceL :: printSelections sel ++ [tP .braceR]
  def printSelections : Selections → List Tok
    | .nil => []
    | .cons s rest => printSelection s ++ printSelections rest
end

/-- SelectionSet -/
def printSelectionSet (sel : Selections) : List Tok := tP .braceL :: printSelections sel ++ [tP .braceR]

/-- DefaultValue? -/
def printDefault : Option Value → List Tok
  | none => []
  | some v => tP .equals :: printValue v

/-- VariableDefinition -/
def printVarDef (v : VarDef) : List Tok :=
  tP .dollar :: tName v.var :: tP .colon :: printType v.type ++ printDefault v.default ++ printDirectives v.dirs

/-- VariableDefinitions? -/
def printVarDefs (vs : List VarDef) : List Tok :=
  if vs.isEmpty then [] else tP .parenL :: vs.flatMap printVarDef ++ [tP .parenR]

/-- an operation that can only have been written in (or is the same tree as) the shorthand form -/
def OperationDef.isBare (o : OperationDef) : Bool :=
  o.op == str "query" && o.name.isEmpty && o.vars.isEmpty && o.dirs.isEmpty

/-- OperationDefinition -/
def printOperation (o : OperationDef) : List Tok :=
  if OperationDef.isBare o then printSelectionSet o.sel
  else tName o.op :: (if o.name = [] then [] else [tName o.name]) ++ printVarDefs o.vars ++ printDirectives o.dirs
        ++ printSelectionSet o.sel

/-- FragmentDefinition -/
def printFragment (f : FragmentDef) : List Tok :=
  tKw "fragment" :: tName f.name :: printVarDefs f.vars ++ tKw "on" :: tName f.typeCond :: printDirectives f.dirs
    ++ printSelectionSet f.sel

/-- interleave definitions by start offset (stable) -/
def inSourceOrder (items : List (Nat × List Tok)) : List (List Tok) :=
  (items.mergeSort fun a b => decide (a.1 ≤ b.1)).map (·.2)

/-- ExecutableDocument -/
def printQuery (d : QueryDoc) : List Tok :=
  (inSourceOrder (d.ops.map (fun o => (o.pos.start, printOperation o))
    ++ d.frags.map (fun f => (f.pos.start, printFragment f)))).flatten

/-! ### type-system documents -/

/-- Description? (absent when empty) -/
def printDesc (d : Bytes) : List Tok := if d = [] then [] else [{ kind := .string, value := d }]

/-- InputValueDefinition as an argument definition -/
def printArgDef (a : ArgDef) : List Tok :=
  printDesc a.desc ++ tName a.name :: tP .colon :: printType a.type ++ printDefault a.default ++ printDirectives a.dirs

/-- ArgumentsDefinition? -/
def printArgDefs (as : List ArgDef) : List Tok :=
  if as.isEmpty then [] else tP .parenL :: as.flatMap printArgDef ++ [tP .parenR]

/-- FieldDefinition -/
def printFieldDef (f : FieldDef) : List Tok :=
  printDesc f.desc ++ tName f.name :: printArgDefs f.args ++ tP .colon :: printType f.type ++ printDirectives f.dirs

/-- InputValueDefinition as an input field -/
def printInputField (f : FieldDef) : List Tok :=
  printDesc f.desc ++ tName f.name :: tP .colon :: printType f.type ++ printDefault f.default ++ printDirectives f.dirs

/-- `{ x+ }`, absent when the list is empty -/
def printBlock {α : Type} (f : α → List Tok) (xs : List α) : List Tok :=
  if xs.isEmpty then [] else tP .braceL :: xs.flatMap f ++ [tP .braceR]

/-- EnumValueDefinition -/
def printEnumVal (e : EnumValDef) : List Tok := printDesc e.desc ++ tName e.name :: printDirectives e.dirs

/-- `x (sep x)*` -/
def printSep (sep : Kind) : List Name → List Tok
  | [] => []
  | [n] => [tName n]
  | n :: rest => tName n :: tP sep :: printSep sep rest

/-- ImplementsInterfaces? -/
def printImplements (ifs : List Name) : List Tok :=
  if ifs.isEmpty then [] else tKw "implements" :: printSep .amp ifs

/-- UnionMemberTypes? -/
def printMembers (ts : List Name) : List Tok :=
  if ts.isEmpty then [] else tP .equals :: printSep .pipe ts

def DefKind.keyword : DefKind → Tok
  | .scalar => tKw "scalar" | .object => tKw "type" | .interface => tKw "interface"
  | .union => tKw "union" | .enum => tKw "enum" | .inputObject => tKw "input"

/-- what follows `Description? keyword` (definitions) or `extend keyword` (extensions) -/
def printDefBody (d : Definition) : List Tok :=
  match d.kind with
  | .scalar => tName d.name :: printDirectives d.dirs
  | .object => tName d.name :: printImplements d.interfaces ++ printDirectives d.dirs ++ printBlock printFieldDef d.fields
  | .interface => tName d.name :: printImplements d.interfaces ++ printDirectives d.dirs ++ printBlock printFieldDef d.fields
  | .union => tName d.name :: printDirectives d.dirs ++ printMembers d.types
  | .enum => tName d.name :: printDirectives d.dirs ++ printBlock printEnumVal d.enumValues
  | .inputObject => tName d.name :: printDirectives d.dirs ++ printBlock printInputField d.fields

/-- TypeDefinition -/
def printDefinition (d : Definition) : List Tok := printDesc d.desc ++ DefKind.keyword d.kind :: printDefBody d

/-- TypeExtension (no description) -/
def printExtension (d : Definition) : List Tok := tKw "extend" :: DefKind.keyword d.kind :: printDefBody d

/-- RootOperationTypeDefinition -/
def printOpType (o : OpTypeDef) : List Tok := [tName o.op, tP .colon, tName o.type]

/-- SchemaDefinition -/
def printSchemaDef (s : SchemaDef) : List Tok :=
  printDesc s.desc ++ tKw "schema" :: printDirectives s.dirs ++ tP .braceL :: s.opTypes.flatMap printOpType ++ [tP .braceR]

/-- SchemaExtension -/
def printSchemaExt (s : SchemaDef) : List Tok :=
  tKw "extend" :: tKw "schema" :: printDirectives s.dirs ++ printBlock printOpType s.opTypes

/-- DirectiveDefinition -/
def printDirectiveDef (d : DirectiveDef) : List Tok :=
  printDesc d.desc ++ tKw "directive" :: tP .at :: tName d.name :: printArgDefs d.args
    ++ (if d.repeatable then [tKw "repeatable"] else []) ++ tKw "on" :: printSep .pipe d.locations

/-- type-system document -/
def printSchema (d : SchemaDoc) : List Tok :=
  (inSourceOrder (d.schema.map (fun x => (x.pos.start, printSchemaDef x))
    ++ d.schemaExt.map (fun x => (x.pos.start, printSchemaExt x))
    ++ d.directives.map (fun x => (x.pos.start, printDirectiveDef x))
    ++ d.definitions.map (fun x => (x.pos.start, printDefinition x))
    ++ d.extensions.map (fun x => (x.pos.start, printExtension x)))).flatten

/-! ### well-formed trees: exactly the side conditions under which the print is a sentence -/

mutual
  /-- a `Value[Const]`: no variable inside -/
  def ConstValue : Value → Prop
    | .mk k _ ch _ => k ≠ .variable ∧ ConstChildren ch
  def ConstChildren : Children → Prop
    | .nil => True
    | .cons _ v _ rest => ConstValue v ∧ ConstChildren rest
end

/-- `Directives[Const]` -/
def ConstDirectives (ds : List Directive) : Prop := ∀ d ∈ ds, ∀ a ∈ d.args, ConstValue a.value

mutual
  /-- fragment names are not `on`; the selection set of an inline fragment is not empty -/
  def WFSelection : Selection → Prop
    | .field _ _ _ _ sel _ => WFSelections sel
    | .spread nm _ _ => nm ≠ str "on"
    | .inline _ _ sel _ => sel ≠ .nil ∧ WFSelections sel
  def WFSelections : Selections → Prop
    | .nil => True
    | .cons s rest => WFSelection s ∧ WFSelections rest
end

/-- default value and directives of a variable definition are constant -/
def WFVarDef (v : VarDef) : Prop := (∀ d, v.default = some d → ConstValue d) ∧ ConstDirectives v.dirs

def WFOperation (o : OperationDef) : Prop :=
  (o.op = str "query" ∨ o.op = str "mutation" ∨ o.op = str "subscription")
  ∧ (∀ v ∈ o.vars, WFVarDef v) ∧ o.sel ≠ .nil ∧ WFSelections o.sel

def WFFragment (f : FragmentDef) : Prop :=
  f.name ≠ str "on" ∧ (∀ v ∈ f.vars, WFVarDef v) ∧ f.sel ≠ .nil ∧ WFSelections f.sel

/-- the executable documents whose print is derivable: at least one definition, known operation
    types, non-empty required selection sets, no fragment called `on`, constants where the
    grammar says `[Const]`.  (Empty argument / variable / directive lists and empty optional
    selection sets print as nothing, so they need no condition.) -/
def WFQuery (d : QueryDoc) : Prop :=
  (d.ops ≠ [] ∨ d.frags ≠ []) ∧ (∀ o ∈ d.ops, WFOperation o) ∧ (∀ f ∈ d.frags, WFFragment f)

def WFArgDef (a : ArgDef) : Prop := (∀ d, a.default = some d → ConstValue d) ∧ ConstDirectives a.dirs

/-- a FieldDefinition (objects, interfaces): constant directives, well-formed argument definitions -/
def WFFieldDef (f : FieldDef) : Prop := (∀ a ∈ f.args, WFArgDef a) ∧ ConstDirectives f.dirs

/-- an InputValueDefinition of an input object -/
def WFInputField (f : FieldDef) : Prop := (∀ d, f.default = some d → ConstValue d) ∧ ConstDirectives f.dirs

def notLiteralName (n : Name) : Prop := n ≠ str "true" ∧ n ≠ str "false" ∧ n ≠ str "null"

def WFEnumVal (e : EnumValDef) : Prop := notLiteralName e.name ∧ ConstDirectives e.dirs

/-- the conditions on the parts of a type definition or extension that its kind prints -/
def WFDefBody (d : Definition) : Prop :=
  ConstDirectives d.dirs ∧
  match d.kind with
  | .scalar => True
  | .object => ∀ f ∈ d.fields, WFFieldDef f
  | .interface => ∀ f ∈ d.fields, WFFieldDef f
  | .union => True
  | .enum => ∀ e ∈ d.enumValues, WFEnumVal e
  | .inputObject => ∀ f ∈ d.fields, WFInputField f

/-- "must extend something": what each kind of extension needs at least one of -/
def ExtendsSomething (d : Definition) : Prop :=
  match d.kind with
  | .scalar => d.dirs ≠ []
  | .object => d.interfaces ≠ [] ∨ d.dirs ≠ [] ∨ d.fields ≠ []
  | .interface => d.interfaces ≠ [] ∨ d.dirs ≠ [] ∨ d.fields ≠ []
  | .union => d.dirs ≠ [] ∨ d.types ≠ []
  | .enum => d.dirs ≠ [] ∨ d.enumValues ≠ []
  | .inputObject => d.dirs ≠ [] ∨ d.fields ≠ []

def isOperationType (op : Bytes) : Prop := op = str "query" ∨ op = str "mutation" ∨ op = str "subscription"

def WFSchemaDef (s : SchemaDef) : Prop :=
  ConstDirectives s.dirs ∧ s.opTypes ≠ [] ∧ ∀ o ∈ s.opTypes, isOperationType o.op

def WFSchemaExt (s : SchemaDef) : Prop :=
  ConstDirectives s.dirs ∧ (s.dirs ≠ [] ∨ s.opTypes ≠ []) ∧ ∀ o ∈ s.opTypes, isOperationType o.op

def WFDirectiveDef (d : DirectiveDef) : Prop :=
  (∀ a ∈ d.args, WFArgDef a) ∧ d.locations ≠ [] ∧ ∀ l ∈ d.locations, l ∈ directiveLocationNames

/-- the type-system documents whose print is derivable -/
def WFSchema (d : SchemaDoc) : Prop :=
  (d.schema ≠ [] ∨ d.schemaExt ≠ [] ∨ d.directives ≠ [] ∨ d.definitions ≠ [] ∨ d.extensions ≠ [])
  ∧ (∀ x ∈ d.schema, WFSchemaDef x) ∧ (∀ x ∈ d.schemaExt, WFSchemaExt x)
  ∧ (∀ x ∈ d.directives, WFDirectiveDef x) ∧ (∀ x ∈ d.definitions, WFDefBody x)
  ∧ (∀ x ∈ d.extensions, WFDefBody x ∧ ExtendsSomething x)

end Gql.Print
