import GqlModel.Lexer.Model
/-
  SPECIFICATION of properties C05 / C06: the GraphQL grammars (October 2021 edition) as *data*.

  Nothing in this file looks at the parser (parser/*.go or GqlModel/Parser/*): it is the
  specification's grammar, transcribed production by production into an EBNF datatype (`Sym`),
  plus ONE generic, grammar-independent recogniser (`matchSym` / `recognises`).

  * The grammar is over the TOKEN sequence of the lexer model (`Gql.Lexer.lexAll`) with comments
    and the final EOF removed (`tokensOf`).  Ignored tokens (white space, line terminators,
    commas, BOMs) never become tokens, so "independent of ignored tokens" is built in.
    A token is its kind and its value (`Tok`); a keyword is a *Name* token with that value
    (`kw`): a String token whose content is `on` is not the keyword `on`.
  * `Derives g s toks out` is the derivation relation: symbol `s` derives the token sequence
    `toks`, and `out` is the CANONICAL FORM of `toks` — the same sequence with the tokens the
    grammar marks as carrying no information removed (`Sym.canon`; see "canonical form" below).
    `canon` is invisible to recognition: erasing all `canon` wrappers gives the plain grammar.
  * `matchSym` is a fuel-bounded backtracking matcher that returns every (canonical output,
    remaining input) pair; theorem `matchSym_sound` (GqlProofs/Grammar/Sound.lean):
    every pair it returns is a derivation of the consumed prefix.

  Left-recursive productions of the specification (`ImplementsInterfaces`, `UnionMemberTypes`,
  `DirectiveLocations`) are written in their equivalent iterative form `x (sep x)*`.
-/
namespace Gql.Grammar
open Gql Gql.Lexer

/-- what the grammars see of a lexer token -/
structure Tok where
  kind : Kind
  value : Bytes
  deriving DecidableEq, Repr, Inhabited

def Tok.ofToken (t : Token) : Tok := { kind := t.kind, value := t.value }

def significant (t : Token) : Bool := t.kind != .comment && t.kind != .eof

/-- the comment-free token sequence of an input; `none` when the lexer fails -/
def tokensOf (inp : Bytes) : Option (List Tok) :=
  match lexAll inp with
  | .done ts => some ((ts.filter significant).map Tok.ofToken)
  | _ => none

/-! ### EBNF as data -/

inductive Sym (N : Type) : Type
  | tok (p : Tok → Bool)                          -- one token satisfying `p`
  | nt (n : N)                                    -- a nonterminal
  | eps                                           -- the empty sequence
  | seq (a b : Sym N)                             -- a b
  | alt (a b : Sym N)                             -- a | b
  | opt (a : Sym N)                               -- a?
  | star (a : Sym N)                              -- a*
  | plus (a : Sym N)                              -- a+
  | canon (f : List Tok → List Tok) (a : Sym N)   -- derives what `a` derives; canonical form rewritten by `f`

structure Grammar (N : Type) where
  rules : N → Sym N

/-- `Derives g s toks out`: `s` derives `toks`, whose canonical form is `out`. -/
inductive Derives {N : Type} (g : Grammar N) : Sym N → List Tok → List Tok → Prop
  | tok {p : Tok → Bool} {t : Tok} : p t = true → Derives g (.tok p) [t] [t]
  | nt {n : N} {ts out : List Tok} : Derives g (g.rules n) ts out → Derives g (.nt n) ts out
  | eps : Derives g .eps [] []
  | seq {a b : Sym N} {t1 t2 o1 o2 : List Tok} :
      Derives g a t1 o1 → Derives g b t2 o2 → Derives g (.seq a b) (t1 ++ t2) (o1 ++ o2)
  | altL {a b : Sym N} {ts out : List Tok} : Derives g a ts out → Derives g (.alt a b) ts out
  | altR {a b : Sym N} {ts out : List Tok} : Derives g b ts out → Derives g (.alt a b) ts out
  | optNone {a : Sym N} : Derives g (.opt a) [] []
  | optSome {a : Sym N} {ts out : List Tok} : Derives g a ts out → Derives g (.opt a) ts out
  | starNil {a : Sym N} : Derives g (.star a) [] []
  | starCons {a : Sym N} {t1 t2 o1 o2 : List Tok} :
      Derives g a t1 o1 → Derives g (.star a) t2 o2 → Derives g (.star a) (t1 ++ t2) (o1 ++ o2)
  | plus {a : Sym N} {t1 t2 o1 o2 : List Tok} :
      Derives g a t1 o1 → Derives g (.star a) t2 o2 → Derives g (.plus a) (t1 ++ t2) (o1 ++ o2)
  | canon {f : List Tok → List Tok} {a : Sym N} {ts out : List Tok} :
      Derives g a ts out → Derives g (.canon f a) ts (f out)

/-- `toks` is a sentence of nonterminal `n` -/
def Derivable {N : Type} (g : Grammar N) (n : N) (toks : List Tok) : Prop :=
  ∃ out, Derives g (.nt n) toks out

/-! ### the generic recogniser -/

/-- a partial match: canonical form of the consumed prefix, and the remaining input -/
abbrev Res := List Tok × List Tok

/-- keep the first result for every remainder (remainders are suffixes of one input, so the
    length identifies them); bounds every result list by `input length + 1` -/
def dedup : List Res → List Res
  | [] => []
  | r :: rs => r :: (dedup rs).filter (fun x => x.2.length != r.2.length)

/-- All ways in which `s` matches a prefix of the input.  Every recursive call spends one unit
    of fuel (so the definition is structurally recursive and evaluates in the kernel); `star`
    only iterates over non-empty matches. -/
def matchSym {N : Type} (g : Grammar N) : Nat → Sym N → List Tok → List Res
  | 0, _, _ => []
  | _ + 1, .tok _, [] => []
  | _ + 1, .tok p, t :: ts => if p t then [([t], ts)] else []
  | n + 1, .nt x, ts => matchSym g n (g.rules x) ts
  | _ + 1, .eps, ts => [([], ts)]
  | n + 1, .seq a b, ts =>
    dedup ((matchSym g n a ts).flatMap fun r1 =>
      (matchSym g n b r1.2).map fun r2 => (r1.1 ++ r2.1, r2.2))
  | n + 1, .alt a b, ts => dedup (matchSym g n a ts ++ matchSym g n b ts)
  | n + 1, .opt a, ts => dedup (([], ts) :: matchSym g n a ts)
  | n + 1, .star a, ts =>
    dedup (([], ts) :: (matchSym g n a ts).flatMap fun r1 =>
      if r1.2.length < ts.length then
        (matchSym g n (.star a) r1.2).map fun r2 => (r1.1 ++ r2.1, r2.2)
      else [])
  | n + 1, .plus a, ts => matchSym g n (.seq a (.star a)) ts
  | n + 1, .canon f a, ts => (matchSym g n a ts).map fun r => (f r.1, r.2)

/-- recursion-depth budget: linear in the input (every level of nesting and every iteration of a
    repetition consumes a token; the constant covers the depth of the grammar tables) -/
def fuelFor (ts : List Tok) : Nat := 64 * (ts.length + 2)

/-- the canonical form of `ts` if `ts` is a sentence of `start` (first complete match) -/
def parseWith {N : Type} (g : Grammar N) (fuel : Nat) (start : N) (ts : List Tok) : Option (List Tok) :=
  ((matchSym g fuel (.nt start) ts).find? fun r => r.2.isEmpty).map (·.1)

def canonical {N : Type} (g : Grammar N) (start : N) (ts : List Tok) : Option (List Tok) :=
  parseWith g (fuelFor ts) start ts

def recognises {N : Type} (g : Grammar N) (start : N) (ts : List Tok) : Bool :=
  (canonical g start ts).isSome

/-! ### terminals -/

/-- a punctuator / any token of a kind -/
def kind {N : Type} (k : Kind) : Sym N := .tok fun t => t.kind == k
/-- the keyword `w`: a Name token whose value is `w` -/
def kw {N : Type} (w : Bytes) : Sym N := .tok fun t => t.kind == .name && t.value == w
/-- `Name but not w₁ … wₙ` -/
def nameBut {N : Type} (ws : List Bytes) : Sym N := .tok fun t => t.kind == .name && !ws.contains t.value
/-- a Name token out of a list -/
def nameIn {N : Type} (ws : List Bytes) : Sym N := .tok fun t => t.kind == .name && ws.contains t.value
/-- StringValue: a quoted string or a block string -/
def stringValue {N : Type} : Sym N := .tok fun t => t.kind == .string || t.kind == .blockString

/-- tokens matched by `a` are optional noise: they do not appear in the canonical form -/
def noise {N : Type} (a : Sym N) : Sym N := .canon (fun _ => []) a

/-! ### canonical form

  The syntax tree the library builds cannot distinguish the following spellings; the canonical
  form of a sentence picks one of them (everything else is kept token for token, in order):

  1. the optional leading `&` of `ImplementsInterfaces` and the optional leading `|` of
     `UnionMemberTypes` and `DirectiveLocations` are dropped;
  2. a Description that is the empty string is dropped (the tree records the text only, absent
     = empty), and a block-string Description is recorded as a String token with the same value;
  3. the keyword `query` of an operation without name, variable definitions and directives is
     dropped (`query { a }` and `{ a }` are the same tree);
  4. an Alias equal to the field's own name is dropped (`a: a` and `a` are the same tree). -/

def canonDescription : List Tok → List Tok
  | [t] => if t.value = [] then [] else [{ kind := .string, value := t.value }]
  | ts => ts

def dropBareQuery : List Tok → List Tok
  | a :: b :: rest =>
    if a.kind = .name ∧ a.value = str "query" ∧ b.kind = .braceL then b :: rest else a :: b :: rest
  | ts => ts

def dropSelfAlias : List Tok → List Tok
  | a :: b :: c :: rest =>
    if a.kind = .name ∧ b.kind = .colon ∧ c = a then c :: rest else a :: b :: c :: rest
  | ts => ts

/-! ### the nonterminals of both grammars (`c` is the `[Const]` parameter of the specification;
    `var` is the specification's `Variable` and `typ` its `Type` — both words are Lean keywords) -/

inductive NT
  -- §2.1 / §2.9 – 2.12: shared by both documents
  | name
  | value (c : Bool) | booleanValue | nullValue | enumValue
  | listValue (c : Bool) | objectValue (c : Bool) | objectField (c : Bool)
  | var | defaultValue
  | typ | namedType | listType | nonNullType
  | directives (c : Bool) | directive (c : Bool) | arguments (c : Bool) | argument (c : Bool)
  | operationType
  -- §2.2 – 2.8: executable documents
  | executableDocument | executableDefinition | operationDefinition
  | selectionSet | selection | field | alias
  | fragmentSpread | inlineFragment | fragmentDefinition | fragmentName | typeCondition
  | variableDefinitions | variableDefinition
  -- §3: type-system documents
  | typeSystemDocument | typeSystemDefinitionOrExtension | typeSystemDefinition | typeSystemExtension
  | description
  | schemaDefinition | rootOperationTypeDefinition | schemaExtension
  | typeDefinition | typeExtension
  | scalarTypeDefinition | scalarTypeExtension
  | objectTypeDefinition | objectTypeExtension | implementsInterfaces
  | fieldsDefinition | fieldDefinition | argumentsDefinition | inputValueDefinition
  | interfaceTypeDefinition | interfaceTypeExtension
  | unionTypeDefinition | unionMemberTypes | unionTypeExtension
  | enumTypeDefinition | enumValuesDefinition | enumValueDefinition | enumTypeExtension
  | inputObjectTypeDefinition | inputFieldsDefinition | inputObjectTypeExtension
  | directiveDefinition | directiveLocations | directiveLocation
  deriving DecidableEq, Repr, Inhabited

/-- the 7 executable and 12 type-system directive locations (§3.13) -/
def directiveLocationNames : List Bytes :=
  [str "QUERY", str "MUTATION", str "SUBSCRIPTION", str "FIELD", str "FRAGMENT_DEFINITION",
   str "FRAGMENT_SPREAD", str "INLINE_FRAGMENT", str "VARIABLE_DEFINITION",
   str "SCHEMA", str "SCALAR", str "OBJECT", str "FIELD_DEFINITION", str "ARGUMENT_DEFINITION",
   str "INTERFACE", str "UNION", str "ENUM", str "ENUM_VALUE", str "INPUT_OBJECT",
   str "INPUT_FIELD_DEFINITION"]

section Tables
open Sym NT

local infixr:67 " ⬝ " => Sym.seq
local infixr:65 " ∣ " => Sym.alt
local notation "‹" n "›" => Sym.nt n

/-- the alternatives of `Value[Const]` other than `Variable` -/
def literal (c : Bool) : Sym NT :=
  kind .int ∣ kind .float ∣ stringValue ∣ ‹booleanValue› ∣ ‹nullValue› ∣ ‹enumValue›
  ∣ ‹listValue c› ∣ ‹objectValue c›

/-- The productions.  Read `a ⬝ b` as juxtaposition, `a ∣ b` as alternatives, `‹n›` as the
    nonterminal `n`; `kind k` is a punctuator or literal token, `kw w` a keyword. -/
def gqlRules : NT → Sym NT
  /- ---- shared: names, values, types, directives ---- -/
  | .name => kind .name
  | .value false => ‹var› ∣ literal false                        -- [~Const] Variable
  | .value true => literal true
  | .booleanValue => kw (str "true") ∣ kw (str "false")
  | .nullValue => kw (str "null")
  | .enumValue => nameBut [str "true", str "false", str "null"]
  | .listValue c => (kind .bracketL ⬝ kind .bracketR) ∣ (kind .bracketL ⬝ plus ‹value c› ⬝ kind .bracketR)
  | .objectValue c => (kind .braceL ⬝ kind .braceR) ∣ (kind .braceL ⬝ plus ‹objectField c› ⬝ kind .braceR)
  | .objectField c => ‹name› ⬝ kind .colon ⬝ ‹value c›
  | .var => kind .dollar ⬝ ‹name›
  | .defaultValue => kind .equals ⬝ ‹value true›
  | .typ => ‹namedType› ∣ ‹listType› ∣ ‹nonNullType›
  | .namedType => ‹name›
  | .listType => kind .bracketL ⬝ ‹typ› ⬝ kind .bracketR
  | .nonNullType => (‹namedType› ⬝ kind .bang) ∣ (‹listType› ⬝ kind .bang)
  | .directives c => plus ‹directive c›
  | .directive c => kind .at ⬝ ‹name› ⬝ opt ‹arguments c›
  | .arguments c => kind .parenL ⬝ plus ‹argument c› ⬝ kind .parenR
  | .argument c => ‹name› ⬝ kind .colon ⬝ ‹value c›
  | .operationType => kw (str "query") ∣ kw (str "mutation") ∣ kw (str "subscription")
  /- ---- ExecutableDocument ---- -/
  | .executableDocument => plus ‹executableDefinition›
  | .executableDefinition => ‹operationDefinition› ∣ ‹fragmentDefinition›
  | .operationDefinition =>
      canon dropBareQuery
        ((‹operationType› ⬝ opt ‹name› ⬝ opt ‹variableDefinitions› ⬝ opt ‹directives false› ⬝ ‹selectionSet›)
         ∣ ‹selectionSet›)
  | .selectionSet => kind .braceL ⬝ plus ‹selection› ⬝ kind .braceR
  | .selection => ‹field› ∣ ‹fragmentSpread› ∣ ‹inlineFragment›
  | .field =>
      canon dropSelfAlias
        (opt ‹alias› ⬝ ‹name› ⬝ opt ‹arguments false› ⬝ opt ‹directives false› ⬝ opt ‹selectionSet›)
  | .alias => ‹name› ⬝ kind .colon
  | .fragmentSpread => kind .spread ⬝ ‹fragmentName› ⬝ opt ‹directives false›
  | .inlineFragment => kind .spread ⬝ opt ‹typeCondition› ⬝ opt ‹directives false› ⬝ ‹selectionSet›
  -- the library's documented extension: optional variable definitions on a fragment definition
  | .fragmentDefinition =>
      kw (str "fragment") ⬝ ‹fragmentName› ⬝ opt ‹variableDefinitions› ⬝ ‹typeCondition›
        ⬝ opt ‹directives false› ⬝ ‹selectionSet›
  | .fragmentName => nameBut [str "on"]
  | .typeCondition => kw (str "on") ⬝ ‹namedType›
  | .variableDefinitions => kind .parenL ⬝ plus ‹variableDefinition› ⬝ kind .parenR
  | .variableDefinition => ‹var› ⬝ kind .colon ⬝ ‹typ› ⬝ opt ‹defaultValue› ⬝ opt ‹directives true›
  /- ---- TypeSystemDocument (TypeSystemExtensionDocument of the specification) ---- -/
  | .typeSystemDocument => plus ‹typeSystemDefinitionOrExtension›
  | .typeSystemDefinitionOrExtension => ‹typeSystemDefinition› ∣ ‹typeSystemExtension›
  | .typeSystemDefinition => ‹schemaDefinition› ∣ ‹typeDefinition› ∣ ‹directiveDefinition›
  | .typeSystemExtension => ‹schemaExtension› ∣ ‹typeExtension›
  | .description => canon canonDescription stringValue
  | .schemaDefinition =>
      opt ‹description› ⬝ kw (str "schema") ⬝ opt ‹directives true›
        ⬝ kind .braceL ⬝ plus ‹rootOperationTypeDefinition› ⬝ kind .braceR
  | .rootOperationTypeDefinition => ‹operationType› ⬝ kind .colon ⬝ ‹namedType›
  | .schemaExtension =>
      (kw (str "extend") ⬝ kw (str "schema") ⬝ opt ‹directives true›
        ⬝ kind .braceL ⬝ plus ‹rootOperationTypeDefinition› ⬝ kind .braceR)
      ∣ (kw (str "extend") ⬝ kw (str "schema") ⬝ ‹directives true›)
  | .typeDefinition =>
      ‹scalarTypeDefinition› ∣ ‹objectTypeDefinition› ∣ ‹interfaceTypeDefinition› ∣ ‹unionTypeDefinition›
      ∣ ‹enumTypeDefinition› ∣ ‹inputObjectTypeDefinition›
  | .typeExtension =>
      ‹scalarTypeExtension› ∣ ‹objectTypeExtension› ∣ ‹interfaceTypeExtension› ∣ ‹unionTypeExtension›
      ∣ ‹enumTypeExtension› ∣ ‹inputObjectTypeExtension›
  | .scalarTypeDefinition => opt ‹description› ⬝ kw (str "scalar") ⬝ ‹name› ⬝ opt ‹directives true›
  | .scalarTypeExtension => kw (str "extend") ⬝ kw (str "scalar") ⬝ ‹name› ⬝ ‹directives true›
  | .objectTypeDefinition =>
      (opt ‹description› ⬝ kw (str "type") ⬝ ‹name› ⬝ opt ‹implementsInterfaces› ⬝ opt ‹directives true›
        ⬝ ‹fieldsDefinition›)
      ∣ (opt ‹description› ⬝ kw (str "type") ⬝ ‹name› ⬝ opt ‹implementsInterfaces› ⬝ opt ‹directives true›)
  | .objectTypeExtension =>
      (kw (str "extend") ⬝ kw (str "type") ⬝ ‹name› ⬝ opt ‹implementsInterfaces› ⬝ opt ‹directives true›
        ⬝ ‹fieldsDefinition›)
      ∣ (kw (str "extend") ⬝ kw (str "type") ⬝ ‹name› ⬝ opt ‹implementsInterfaces› ⬝ ‹directives true›)
      ∣ (kw (str "extend") ⬝ kw (str "type") ⬝ ‹name› ⬝ ‹implementsInterfaces›)
  | .implementsInterfaces =>
      kw (str "implements") ⬝ noise (opt (kind .amp)) ⬝ ‹namedType› ⬝ star (kind .amp ⬝ ‹namedType›)
  | .fieldsDefinition => kind .braceL ⬝ plus ‹fieldDefinition› ⬝ kind .braceR
  | .fieldDefinition =>
      opt ‹description› ⬝ ‹name› ⬝ opt ‹argumentsDefinition› ⬝ kind .colon ⬝ ‹typ› ⬝ opt ‹directives true›
  | .argumentsDefinition => kind .parenL ⬝ plus ‹inputValueDefinition› ⬝ kind .parenR
  | .inputValueDefinition =>
      opt ‹description› ⬝ ‹name› ⬝ kind .colon ⬝ ‹typ› ⬝ opt ‹defaultValue› ⬝ opt ‹directives true›
  | .interfaceTypeDefinition =>
      (opt ‹description› ⬝ kw (str "interface") ⬝ ‹name› ⬝ opt ‹implementsInterfaces› ⬝ opt ‹directives true›
        ⬝ ‹fieldsDefinition›)
      ∣ (opt ‹description› ⬝ kw (str "interface") ⬝ ‹name› ⬝ opt ‹implementsInterfaces› ⬝ opt ‹directives true›)
  | .interfaceTypeExtension =>
      (kw (str "extend") ⬝ kw (str "interface") ⬝ ‹name› ⬝ opt ‹implementsInterfaces› ⬝ opt ‹directives true›
        ⬝ ‹fieldsDefinition›)
      ∣ (kw (str "extend") ⬝ kw (str "interface") ⬝ ‹name› ⬝ opt ‹implementsInterfaces› ⬝ ‹directives true›)
      ∣ (kw (str "extend") ⬝ kw (str "interface") ⬝ ‹name› ⬝ ‹implementsInterfaces›)
  | .unionTypeDefinition =>
      opt ‹description› ⬝ kw (str "union") ⬝ ‹name› ⬝ opt ‹directives true› ⬝ opt ‹unionMemberTypes›
  | .unionMemberTypes =>
      kind .equals ⬝ noise (opt (kind .pipe)) ⬝ ‹namedType› ⬝ star (kind .pipe ⬝ ‹namedType›)
  | .unionTypeExtension =>
      (kw (str "extend") ⬝ kw (str "union") ⬝ ‹name› ⬝ opt ‹directives true› ⬝ ‹unionMemberTypes›)
      ∣ (kw (str "extend") ⬝ kw (str "union") ⬝ ‹name› ⬝ ‹directives true›)
  | .enumTypeDefinition =>
      (opt ‹description› ⬝ kw (str "enum") ⬝ ‹name› ⬝ opt ‹directives true› ⬝ ‹enumValuesDefinition›)
      ∣ (opt ‹description› ⬝ kw (str "enum") ⬝ ‹name› ⬝ opt ‹directives true›)
  | .enumValuesDefinition => kind .braceL ⬝ plus ‹enumValueDefinition› ⬝ kind .braceR
  | .enumValueDefinition => opt ‹description› ⬝ ‹enumValue› ⬝ opt ‹directives true›
  | .enumTypeExtension =>
      (kw (str "extend") ⬝ kw (str "enum") ⬝ ‹name› ⬝ opt ‹directives true› ⬝ ‹enumValuesDefinition›)
      ∣ (kw (str "extend") ⬝ kw (str "enum") ⬝ ‹name› ⬝ ‹directives true›)
  | .inputObjectTypeDefinition =>
      (opt ‹description› ⬝ kw (str "input") ⬝ ‹name› ⬝ opt ‹directives true› ⬝ ‹inputFieldsDefinition›)
      ∣ (opt ‹description› ⬝ kw (str "input") ⬝ ‹name› ⬝ opt ‹directives true›)
  | .inputFieldsDefinition => kind .braceL ⬝ plus ‹inputValueDefinition› ⬝ kind .braceR
  | .inputObjectTypeExtension =>
      (kw (str "extend") ⬝ kw (str "input") ⬝ ‹name› ⬝ opt ‹directives true› ⬝ ‹inputFieldsDefinition›)
      ∣ (kw (str "extend") ⬝ kw (str "input") ⬝ ‹name› ⬝ ‹directives true›)
  | .directiveDefinition =>
      opt ‹description› ⬝ kw (str "directive") ⬝ kind .at ⬝ ‹name› ⬝ opt ‹argumentsDefinition›
        ⬝ opt (kw (str "repeatable")) ⬝ kw (str "on") ⬝ ‹directiveLocations›
  | .directiveLocations =>
      noise (opt (kind .pipe)) ⬝ ‹directiveLocation› ⬝ star (kind .pipe ⬝ ‹directiveLocation›)
  | .directiveLocation => nameIn directiveLocationNames

end Tables

/-- the GraphQL grammar; start symbols `NT.executableDocument` (C05) and `NT.typeSystemDocument` (C06) -/
def gql : Grammar NT := { rules := gqlRules }

/-- C05: the input is an ExecutableDocument -/
def isExecutable (ts : List Tok) : Bool := recognises gql .executableDocument ts
/-- C06: the input is a type-system document -/
def isTypeSystem (ts : List Tok) : Bool := recognises gql .typeSystemDocument ts

end Gql.Grammar
