import GqlModel.Basic.Utf8
import GqlModel.Parser.GoPrintTable
/-
  Model of `strconv.Quote` (used by `lexer.Token.String()` and `parser.expectKeyword` in error
  messages).  `strconv.IsPrint` is table driven in Go; `GoPrintTable.lean` holds the maximal
  printable ranges above Latin-1 computed from the toolchain's own `strconv.IsPrint`
  (regenerate with the program in the header of that file when the toolchain changes).
  Tied to the real function by the `goquote` correspondence op.
-/
namespace Gql.GoQuote
open Gql

/-- `strconv.IsPrint` -/
def isPrint (r : Nat) : Bool :=
  if r ≤ 0xFF then
    (decide (0x20 ≤ r) && decide (r ≤ 0x7E)) || (decide (0xA1 ≤ r) && r != 0xAD)
  else printRanges.any fun (lo, hi) => decide (lo ≤ r) && decide (r ≤ hi)

def lowerHex (n : Nat) : Nat := if n < 10 then 48 + n else 87 + n

/-- `n` lower-case hex digits of `r`, most significant first -/
def hexDigits : Nat → Nat → Bytes
  | 0, _ => []
  | n + 1, r => lowerHex (r / 16 ^ n % 16) :: hexDigits n r

/-- `appendEscapedRune` with quote `"`, ASCIIonly = graphicOnly = false; `r` is a decoded rune
    (so it is a valid scalar value or U+FFFD) -/
def escapedRune (r : Nat) : Bytes :=
  if r = 34 ∨ r = 92 then [92, r]
  else if isPrint r then encodeRune r
  else if r = 7 then str "\\a" else if r = 8 then str "\\b" else if r = 12 then str "\\f"
  else if r = 10 then str "\\n" else if r = 13 then str "\\r" else if r = 9 then str "\\t"
  else if r = 11 then str "\\v"
  else if r < 32 ∨ r = 0x7f then 92 :: 120 :: hexDigits 2 r
  else if r < 0x10000 then 92 :: 117 :: hexDigits 4 r
  else 92 :: 85 :: hexDigits 8 r

def quoteBody : Nat → Bytes → Bytes
  | 0, _ => []
  | _, [] => []
  | fuel + 1, b :: tl =>
    let (r, w) := if b ≥ 0x80 then decodeRune (b :: tl) else (b, 1)
    if w = 1 ∧ r = runeError then 92 :: 120 :: hexDigits 2 b ++ quoteBody fuel tl
    else escapedRune r ++ quoteBody fuel (tl.drop (w - 1))

/-- `strconv.Quote` -/
def quote (s : Bytes) : Bytes := 34 :: quoteBody s.length s ++ [34]

end Gql.GoQuote
