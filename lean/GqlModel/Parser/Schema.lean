import GqlModel.Parser.Query
/-
  Model of parser/schema.go.  `descriptionWithComment` is just the text (comment groups are not
  part of the shared tree).  Fuel as in Query.lean.
-/
namespace Gql.Parser
open Gql Gql.Lexer

def kwScalar : Bytes := str "scalar"
def kwType : Bytes := str "type"
def kwInterface : Bytes := str "interface"
def kwUnion : Bytes := str "union"
def kwEnum : Bytes := str "enum"
def kwInput : Bytes := str "input"
def kwSchema : Bytes := str "schema"
def kwDirective : Bytes := str "directive"
def kwExtend : Bytes := str "extend"
def kwImplements : Bytes := str "implements"
def kwRepeatable : Bytes := str "repeatable"

/-- `parseDescription` -/
def parseDescription : Prog Bytes := do
  let token ← peek
  if token.kind ≠ .blockString ∧ token.kind ≠ .string then pure []
  else
    let t ← next
    pure t.value

/-- `parseOperationTypeDefinition` -/
def parseOperationTypeDefinition : Prog OpTypeDef := do
  let pos ← peekPos
  let op ← parseOperationType
  let _ ← expect .colon
  let ty ← parseName
  pure { op := op, type := ty, pos := pos }

/-- `parseSchemaDefinition` -/
def parseSchemaDefinition (n : Nat) (description : Bytes) : Prog SchemaDef := do
  let _ ← expectKeyword kwSchema
  let pos ← peekPos
  let dirs ← parseDirectives n true
  -- a schema definition (unlike a schema extension) must list its root operation types
  let t ← peek
  if t.kind ≠ .braceL then
    unexpectedError
    pure { desc := description, dirs := dirs, opTypes := [], pos := pos }
  else
    let ots ← pSome .braceL .braceR n parseOperationTypeDefinition
    pure { desc := description, dirs := dirs, opTypes := ots, pos := pos }

/-- `parseScalarTypeDefinition` -/
def parseScalarTypeDefinition (n : Nat) (description : Bytes) : Prog Definition := do
  let _ ← expectKeyword kwScalar
  let pos ← peekPos
  let name ← parseName
  let dirs ← parseDirectives n true
  pure { kind := .scalar, desc := description, name := name, dirs := dirs, interfaces := [], fields := [],
         types := [], enumValues := [], pos := pos, builtIn := false }

/-- `parseImplementsInterfaces` -/
def parseImplementsInterfaces (n : Nat) : Prog (List Name) := do
  let t ← peek
  if t.kind = .name ∧ t.value = kwImplements then
    let _ ← next
    let _ ← skip .amp
    let first ← parseName
    let more ← sepLoop .amp parseName n [first]
    pure more.reverse
  else pure []

/-- `parseArgumentDef` -/
def parseArgumentDef (n : Nat) : Prog ArgDef := do
  let pos ← peekPos
  let desc ← parseDescription
  let _ ← peek                     -- "peek to set p.comment"
  let name ← parseName
  let _ ← expect .colon
  let ty ← parseTypeReference n
  let dv ← do
    if ← skip .equals then
      let v ← parseValueLiteral n true
      pure (Option.some v)
    else pure none
  let dirs ← parseDirectives n true
  pure { desc := desc, name := name, default := dv, type := ty, dirs := dirs, pos := pos }

/-- `parseArgumentDefs` -/
def parseArgumentDefs (n : Nat) : Prog (List ArgDef) := pSome .parenL .parenR n (parseArgumentDef n)

/-- `parseFieldDefinition` -/
def parseFieldDefinition (n : Nat) : Prog FieldDef := do
  let pos ← peekPos
  let desc ← parseDescription
  let _ ← peek
  let name ← parseName
  let args ← parseArgumentDefs n
  let _ ← expect .colon
  let ty ← parseTypeReference n
  let dirs ← parseDirectives n true
  pure { desc := desc, name := name, args := args, default := none, type := ty, dirs := dirs, pos := pos }

/-- `parseFieldsDefinition` -/
def parseFieldsDefinition (n : Nat) : Prog (List FieldDef) := pSome .braceL .braceR n (parseFieldDefinition n)

/-- `parseInputValueDef` -/
def parseInputValueDef (n : Nat) : Prog FieldDef := do
  let pos ← peekPos
  let desc ← parseDescription
  let _ ← peek
  let name ← parseName
  let _ ← expect .colon
  let ty ← parseTypeReference n
  let dv ← do
    if ← skip .equals then
      let v ← parseValueLiteral n true
      pure (Option.some v)
    else pure none
  let dirs ← parseDirectives n true
  pure { desc := desc, name := name, args := [], default := dv, type := ty, dirs := dirs, pos := pos }

/-- `parseInputFieldsDefinition` -/
def parseInputFieldsDefinition (n : Nat) : Prog (List FieldDef) := pSome .braceL .braceR n (parseInputValueDef n)

/-- `parseObjectTypeDefinition` -/
def parseObjectTypeDefinition (n : Nat) (description : Bytes) : Prog Definition := do
  let _ ← expectKeyword kwType
  let pos ← peekPos
  let name ← parseName
  let ifs ← parseImplementsInterfaces n
  let dirs ← parseDirectives n true
  let fields ← parseFieldsDefinition n
  pure { kind := .object, desc := description, name := name, dirs := dirs, interfaces := ifs, fields := fields,
         types := [], enumValues := [], pos := pos, builtIn := false }

/-- `parseInterfaceTypeDefinition` -/
def parseInterfaceTypeDefinition (n : Nat) (description : Bytes) : Prog Definition := do
  let _ ← expectKeyword kwInterface
  let pos ← peekPos
  let name ← parseName
  let ifs ← parseImplementsInterfaces n
  let dirs ← parseDirectives n true
  let fields ← parseFieldsDefinition n
  pure { kind := .interface, desc := description, name := name, dirs := dirs, interfaces := ifs, fields := fields,
         types := [], enumValues := [], pos := pos, builtIn := false }

/-- `parseUnionMemberTypes` -/
def parseUnionMemberTypes (n : Nat) : Prog (List Name) := do
  if ← skip .equals then
    let _ ← skip .pipe
    let first ← parseName
    let more ← sepLoop .pipe parseName n [first]
    pure more.reverse
  else pure []

/-- `parseUnionTypeDefinition` -/
def parseUnionTypeDefinition (n : Nat) (description : Bytes) : Prog Definition := do
  let _ ← expectKeyword kwUnion
  let pos ← peekPos
  let name ← parseName
  let dirs ← parseDirectives n true
  let types ← parseUnionMemberTypes n
  pure { kind := .union, desc := description, name := name, dirs := dirs, interfaces := [], fields := [],
         types := types, enumValues := [], pos := pos, builtIn := false }

/-- `parseEnumValueDefinition` -/
def parseEnumValueDefinition (n : Nat) : Prog EnumValDef := do
  let pos ← peekPos
  let desc ← parseDescription
  let _ ← peek
  let name ← parseName
  let dirs ← parseDirectives n true
  pure { desc := desc, name := name, dirs := dirs, pos := pos }

/-- `parseEnumValuesDefinition` -/
def parseEnumValuesDefinition (n : Nat) : Prog (List EnumValDef) :=
  pSome .braceL .braceR n (parseEnumValueDefinition n)

/-- `parseEnumTypeDefinition` -/
def parseEnumTypeDefinition (n : Nat) (description : Bytes) : Prog Definition := do
  let _ ← expectKeyword kwEnum
  let pos ← peekPos
  let name ← parseName
  let dirs ← parseDirectives n true
  let evs ← parseEnumValuesDefinition n
  pure { kind := .enum, desc := description, name := name, dirs := dirs, interfaces := [], fields := [],
         types := [], enumValues := evs, pos := pos, builtIn := false }

/-- `parseInputObjectTypeDefinition` -/
def parseInputObjectTypeDefinition (n : Nat) (description : Bytes) : Prog Definition := do
  let _ ← expectKeyword kwInput
  let pos ← peekPos
  let name ← parseName
  let dirs ← parseDirectives n true
  let fields ← parseInputFieldsDefinition n
  pure { kind := .inputObject, desc := description, name := name, dirs := dirs, interfaces := [], fields := fields,
         types := [], enumValues := [], pos := pos, builtIn := false }

/-- `parseTypeSystemDefinition` (`nil` is `default`) -/
def parseTypeSystemDefinition (n : Nat) (description : Bytes) : Prog Definition := do
  let tok ← peek
  if tok.kind ≠ .name then
    unexpectedError
    pure default
  else if tok.value = kwScalar then parseScalarTypeDefinition n description
  else if tok.value = kwType then parseObjectTypeDefinition n description
  else if tok.value = kwInterface then parseInterfaceTypeDefinition n description
  else if tok.value = kwUnion then parseUnionTypeDefinition n description
  else if tok.value = kwEnum then parseEnumTypeDefinition n description
  else if tok.value = kwInput then parseInputObjectTypeDefinition n description
  else
    unexpectedError
    pure default

/-- `parseSchemaExtension` -/
def parseSchemaExtension (n : Nat) : Prog SchemaDef := do
  let _ ← expectKeyword kwSchema
  let pos ← peekPos
  let dirs ← parseDirectives n true
  let ots ← pSome .braceL .braceR n parseOperationTypeDefinition
  if dirs.length = 0 ∧ ots.length = 0 then unexpectedError
  pure { desc := [], dirs := dirs, opTypes := ots, pos := pos }

/-- `parseScalarTypeExtension` -/
def parseScalarTypeExtension (n : Nat) : Prog Definition := do
  let _ ← expectKeyword kwScalar
  let pos ← peekPos
  let name ← parseName
  let dirs ← parseDirectives n true
  if dirs.length = 0 then unexpectedError
  pure { kind := .scalar, desc := [], name := name, dirs := dirs, interfaces := [], fields := [],
         types := [], enumValues := [], pos := pos, builtIn := false }

/-- `parseObjectTypeExtension` -/
def parseObjectTypeExtension (n : Nat) : Prog Definition := do
  let _ ← expectKeyword kwType
  let pos ← peekPos
  let name ← parseName
  let ifs ← parseImplementsInterfaces n
  let dirs ← parseDirectives n true
  let fields ← parseFieldsDefinition n
  if ifs.length = 0 ∧ dirs.length = 0 ∧ fields.length = 0 then unexpectedError
  pure { kind := .object, desc := [], name := name, dirs := dirs, interfaces := ifs, fields := fields,
         types := [], enumValues := [], pos := pos, builtIn := false }

/-- `parseInterfaceTypeExtension` -/
def parseInterfaceTypeExtension (n : Nat) : Prog Definition := do
  let _ ← expectKeyword kwInterface
  let pos ← peekPos
  let name ← parseName
  let ifs ← parseImplementsInterfaces n
  let dirs ← parseDirectives n true
  let fields ← parseFieldsDefinition n
  if ifs.length = 0 ∧ dirs.length = 0 ∧ fields.length = 0 then unexpectedError
  pure { kind := .interface, desc := [], name := name, dirs := dirs, interfaces := ifs, fields := fields,
         types := [], enumValues := [], pos := pos, builtIn := false }

/-- `parseUnionTypeExtension` -/
def parseUnionTypeExtension (n : Nat) : Prog Definition := do
  let _ ← expectKeyword kwUnion
  let pos ← peekPos
  let name ← parseName
  let dirs ← parseDirectives n true
  let types ← parseUnionMemberTypes n
  if dirs.length = 0 ∧ types.length = 0 then unexpectedError
  pure { kind := .union, desc := [], name := name, dirs := dirs, interfaces := [], fields := [],
         types := types, enumValues := [], pos := pos, builtIn := false }

/-- `parseEnumTypeExtension` -/
def parseEnumTypeExtension (n : Nat) : Prog Definition := do
  let _ ← expectKeyword kwEnum
  let pos ← peekPos
  let name ← parseName
  let dirs ← parseDirectives n true
  let evs ← parseEnumValuesDefinition n
  if dirs.length = 0 ∧ evs.length = 0 then unexpectedError
  pure { kind := .enum, desc := [], name := name, dirs := dirs, interfaces := [], fields := [],
         types := [], enumValues := evs, pos := pos, builtIn := false }

/-- `parseInputObjectTypeExtension` -/
def parseInputObjectTypeExtension (n : Nat) : Prog Definition := do
  let _ ← expectKeyword kwInput
  let pos ← peekPos
  let name ← parseName
  let dirs ← parseDirectives n true
  let fields ← parseInputFieldsDefinition n
  if dirs.length = 0 ∧ fields.length = 0 then unexpectedError
  pure { kind := .inputObject, desc := [], name := name, dirs := dirs, interfaces := [], fields := fields,
         types := [], enumValues := [], pos := pos, builtIn := false }

/-- `parseTypeSystemExtension` -/
def parseTypeSystemExtension (n : Nat) (doc : SchemaDoc) : Prog SchemaDoc := do
  let _ ← expectKeyword kwExtend
  let t ← peek
  if t.value = kwSchema then
    let d ← parseSchemaExtension n
    pure { doc with schemaExt := doc.schemaExt ++ [d] }
  else if t.value = kwScalar then
    let d ← parseScalarTypeExtension n
    pure { doc with extensions := doc.extensions ++ [d] }
  else if t.value = kwType then
    let d ← parseObjectTypeExtension n
    pure { doc with extensions := doc.extensions ++ [d] }
  else if t.value = kwInterface then
    let d ← parseInterfaceTypeExtension n
    pure { doc with extensions := doc.extensions ++ [d] }
  else if t.value = kwUnion then
    let d ← parseUnionTypeExtension n
    pure { doc with extensions := doc.extensions ++ [d] }
  else if t.value = kwEnum then
    let d ← parseEnumTypeExtension n
    pure { doc with extensions := doc.extensions ++ [d] }
  else if t.value = kwInput then
    let d ← parseInputObjectTypeExtension n
    pure { doc with extensions := doc.extensions ++ [d] }
  else
    unexpectedError
    pure doc

def directiveLocationNames : List Bytes :=
  [str "QUERY", str "MUTATION", str "SUBSCRIPTION", str "FIELD", str "FRAGMENT_DEFINITION",
   str "FRAGMENT_SPREAD", str "INLINE_FRAGMENT", str "VARIABLE_DEFINITION", str "SCHEMA", str "SCALAR",
   str "OBJECT", str "FIELD_DEFINITION", str "ARGUMENT_DEFINITION", str "INTERFACE", str "UNION",
   str "ENUM", str "ENUM_VALUE", str "INPUT_OBJECT", str "INPUT_FIELD_DEFINITION"]

/-- `parseDirectiveLocation` -/
def parseDirectiveLocation : Prog Bytes := do
  let name ← expect .name
  if directiveLocationNames.contains name.value then pure name.value
  else
    unexpectedToken name
    pure []

/-- `parseDirectiveLocations` -/
def parseDirectiveLocations (n : Nat) : Prog (List Bytes) := do
  let _ ← skip .pipe
  let first ← parseDirectiveLocation
  let more ← sepLoop .pipe parseDirectiveLocation n [first]
  pure more.reverse

/-- `parseDirectiveDefinition` -/
def parseDirectiveDefinition (n : Nat) (description : Bytes) : Prog DirectiveDef := do
  let _ ← expectKeyword kwDirective
  let _ ← expect .at
  let pos ← peekPos
  let name ← parseName
  let args ← parseArgumentDefs n
  let pk ← peek
  let rep ← do
    if pk.kind = .name ∧ pk.value = kwRepeatable then
      let _ ← skip .name
      pure true
    else pure false
  let _ ← expectKeyword kwOn
  let locs ← parseDirectiveLocations n
  pure { desc := description, name := name, args := args, locations := locs, repeatable := rep, pos := pos }

/-- `if p.peek().Kind == BlockString || p.peek().Kind == String { description = p.parseDescription() }` -/
def parseOptionalDescription : Prog (Bytes × Bool) := do
  let a ← peek
  if a.kind = .blockString then
    let d ← parseDescription
    pure (d, true)
  else
    let b ← peek
    if b.kind = .string then
      let d ← parseDescription
      pure (d, true)
    else pure ([], false)

/-- `if hasDescription { p.unexpectedToken(p.prev) }` (before an extension) -/
def rejectDescription (hasDescription : Bool) : Prog Unit := do
  if hasDescription then
    let pv ← getPrev
    unexpectedToken pv
  else pure ()

/-- the loop of `parseSchemaDocument` (`return nil` is `default`; the caller looks at the error first) -/
def schemaDocLoop (m : Nat) : Nat → SchemaDoc → Prog SchemaDoc
  | 0, doc => outOfFuel doc
  | n + 1, doc => do
    let t ← peek
    if t.kind ≠ .eof then
      if ← hasErr then pure default
      else
        let (description, hasDescription) ← parseOptionalDescription
        let c ← peek
        if c.kind ≠ .name then
          unexpectedError
          pure doc                                  -- break
        else
          let d ← peek
          if d.value = kwScalar ∨ d.value = kwType ∨ d.value = kwInterface ∨ d.value = kwUnion
              ∨ d.value = kwEnum ∨ d.value = kwInput then
            let df ← parseTypeSystemDefinition m description
            schemaDocLoop m n { doc with definitions := doc.definitions ++ [df] }
          else if d.value = kwSchema then
            let sd ← parseSchemaDefinition m description
            schemaDocLoop m n { doc with schema := doc.schema ++ [sd] }
          else if d.value = kwDirective then
            let dd ← parseDirectiveDefinition m description
            schemaDocLoop m n { doc with directives := doc.directives ++ [dd] }
          else if d.value = kwExtend then
            rejectDescription hasDescription
            let doc' ← parseTypeSystemExtension m doc
            schemaDocLoop m n doc'
          else
            unexpectedError
            pure default
    else pure doc

/-- `parseSchemaDocument` -/
def parseSchemaDocument (n : Nat) : Prog SchemaDoc := do
  let _ ← peekPos
  schemaDocLoop n n SchemaDoc.empty

def setBuiltIn (b : Bool) (d : SchemaDoc) : SchemaDoc :=
  { d with definitions := d.definitions.map fun x => { x with builtIn := b },
           extensions := d.extensions.map fun x => { x with builtIn := b } }

def runSchema (limit src : Nat) (inp : Bytes) : SchemaDoc × PState :=
  run limit (parseSchemaDocument (fuelFor inp)) (PState.init src inp)

/-- `ParseSchema` (`limit = 0`) / `ParseSchemaWithLimit`; `src` is the index of the source and
    `builtIn` its `BuiltIn` flag -/
def parseSchemaSrc (limit src : Nat) (builtIn : Bool) (inp : Bytes) : Result SchemaDoc :=
  match Result.ofRun (runSchema limit src inp) with
  | .ok d => .ok (setBuiltIn builtIn d)
  | r => r

def parseSchema (limit : Nat) (inp : Bytes) : Result SchemaDoc := parseSchemaSrc limit 0 false inp

/-- `ParseSchemas` / `ParseSchemasWithLimit`: parse each source, stop at the first error, merge -/
def parseSchemasFrom (limit : Nat) : Nat → SchemaDoc → List (Bool × Bytes) → Result SchemaDoc
  | _, acc, [] => .ok acc
  | i, acc, (bi, inp) :: rest =>
    match parseSchemaSrc limit i bi inp with
    | .ok d => parseSchemasFrom limit (i + 1) (acc.merge d) rest
    | r => r

def parseSchemas (limit : Nat) (srcs : List (Bool × Bytes)) : Result SchemaDoc :=
  parseSchemasFrom limit 0 SchemaDoc.empty srcs

end Gql.Parser
