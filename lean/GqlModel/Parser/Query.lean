import GqlModel.Parser.Core
/-
  Model of parser/query.go, one definition per Go function, written against `Prog`.

  Fuel.  Every definition that loops or recurses takes a fuel argument `n`.  The Go recursion
  cycles (value → list/object → value, type → type, selection → field/fragment → selection set →
  selection) are tied by *one* fuelled function each (`parseValueLiteral`, `parseTypeReference`,
  `parseSelection`); the other members of a cycle take the recursive callee as a parameter
  (`pv`, `sel`), so one unit of fuel is spent per recursion cycle and one per loop iteration.
  At fuel `n + 1` the recursive callee gets `n`, every loop of the same level gets `n + 1`.
  Go closures that append to a captured slice become programs that return the list.
-/
namespace Gql.Parser
open Gql Gql.Lexer

/-- `parseName` -/
def parseName : Prog Name := do
  let t ← expect .name
  pure t.value

/-- `parseVariable` -/
def parseVariable : Prog Name := do
  let _ ← expect .dollar
  parseName

def kwTrue : Bytes := str "true"
def kwFalse : Bytes := str "false"
def kwNull : Bytes := str "null"
def kwOn : Bytes := str "on"
def kwQuery : Bytes := str "query"
def kwMutation : Bytes := str "mutation"
def kwSubscription : Bytes := str "subscription"
def kwFragment : Bytes := str "fragment"

def nameValueKind (v : Bytes) : ValueKind :=
  if v = kwTrue ∨ v = kwFalse then .boolean else if v = kwNull then .null else .enum

/-- `parseList` -/
def parseListWith (pv : Prog Value) (n : Nat) : Prog Value := do
  let pos ← peekPos
  let vs ← pMany .bracketL .bracketR n (do
    let v ← pv
    pure (([] : Name), v, Pos.zero))
  pure (.mk .list [] (Children.ofList vs) pos)

/-- `parseObjectField` -/
def parseObjectFieldWith (pv : Prog Value) : Prog (Name × Value × Pos) := do
  let pos ← peekPos
  let name ← parseName
  let _ ← expect .colon
  let v ← pv
  pure (name, v, pos)

/-- `parseObject` -/
def parseObjectWith (pv : Prog Value) (n : Nat) : Prog Value := do
  let pos ← peekPos
  let fs ← pMany .braceL .braceR n (parseObjectFieldWith pv)
  pure (.mk .object [] (Children.ofList fs) pos)

/-- the tail of `parseValueLiteral` for scalar literals: `p.next(); return &Value{…}` -/
def litValue (src : Nat) (token : Token) (kind : ValueKind) : Prog Value := do
  let _ ← next
  pure (.mk kind token.value .nil (posOf src token))

/-- `parseValueLiteral` (a `nil` result — only with the error set — is `default`) -/
def parseValueLiteral : Nat → Bool → Prog Value
  | 0, _ => outOfFuel default
  | n + 1, isConst => do
    let token ← peek
    let src ← getSrc
    match token.kind with
    | .bracketL => parseListWith (parseValueLiteral n isConst) (n + 1)
    | .braceL => parseObjectWith (parseValueLiteral n isConst) (n + 1)
    | .dollar =>
      if isConst then
        unexpectedError
        pure default
      else
        let raw ← parseVariable
        pure (.mk .variable raw .nil (posOf src token))
    | .int => litValue src token .int
    | .float => litValue src token .float
    | .string => litValue src token .string
    | .blockString => litValue src token .block
    | .name => litValue src token (nameValueKind token.value)
    | _ =>
      unexpectedError
      pure default

/-- `parseArgument` -/
def parseArgument (n : Nat) (isConst : Bool) : Prog Argument := do
  let pos ← peekPos
  let name ← parseName
  let _ ← expect .colon
  let v ← parseValueLiteral n isConst
  pure { name := name, value := v, pos := pos }

/-- `parseArguments` -/
def parseArguments (n : Nat) (isConst : Bool) : Prog (List Argument) :=
  pSome .parenL .parenR n (parseArgument n isConst)

/-- `parseDirective` -/
def parseDirective (n : Nat) (isConst : Bool) : Prog Directive := do
  let _ ← expect .at
  let pos ← peekPos
  let name ← parseName
  let args ← parseArguments n isConst
  pure { name := name, args := args, pos := pos }

/-- the loop of `parseDirectives`; results in reverse order -/
def directivesLoop (pd : Prog Directive) : Nat → List Directive → Prog (List Directive)
  | 0, acc => outOfFuel acc
  | n + 1, acc => do
    let t ← peek
    if t.kind = .at then
      if ← hasErr then pure acc
      else
        let d ← pd
        directivesLoop pd n (d :: acc)
    else pure acc

/-- `parseDirectives` -/
def parseDirectives (n : Nat) (isConst : Bool) : Prog (List Directive) := do
  let ds ← directivesLoop (parseDirective n isConst) n []
  pure ds.reverse

/-- `parseTypeReference` -/
def parseTypeReference : Nat → Prog GType
  | 0 => outOfFuel default
  | n + 1 => do
    if ← skip .bracketL then
      let pos ← peekPos
      let elem ← parseTypeReference n
      let _ ← expect .bracketR
      let nn ← skip .bang
      pure (.list elem nn pos)
    else
      let pos ← peekPos
      let name ← parseName
      let nn ← skip .bang
      pure (.named name nn pos)

/-- `parseVariableDefinition` -/
def parseVariableDefinition (n : Nat) : Prog VarDef := do
  let pos ← peekPos
  let var ← parseVariable
  let _ ← expect .colon
  let ty ← parseTypeReference n
  let dv ← do
    if ← skip .equals then
      let v ← parseValueLiteral n true
      pure (Option.some v)
    else pure none
  let dirs ← parseDirectives n true
  pure { var := var, type := ty, default := dv, dirs := dirs, pos := pos }

/-- `parseVariableDefinitions` -/
def parseVariableDefinitions (n : Nat) : Prog (List VarDef) :=
  pSome .parenL .parenR n (parseVariableDefinition n)

/-- `parseOptionalSelectionSet` -/
def parseOptionalSelectionSetWith (sel : Prog Selection) (n : Nat) : Prog Selections := do
  let xs ← pSome .braceL .braceR n sel
  pure (Selections.ofList xs)

/-- `parseRequiredSelectionSet` -/
def parseRequiredSelectionSetWith (sel : Prog Selection) (n : Nat) : Prog Selections := do
  let t ← peek
  if t.kind ≠ .braceL then
    let t1 ← peek
    let t2 ← peek
    failAt t1 (msgExpected (kindString .braceL) (kindString t2.kind))
    pure .nil
  else
    let xs ← pSome .braceL .braceR n sel
    pure (Selections.ofList xs)

/-- `parseField` -/
def parseFieldWith (sel : Prog Selection) (n : Nat) : Prog Selection := do
  let pos ← peekPos
  let alias ← parseName
  let name ← do
    if ← skip .colon then parseName else pure alias
  let args ← parseArguments n false
  let dirs ← parseDirectives n false
  let t ← peek
  let ss ← do
    if t.kind = .braceL then parseOptionalSelectionSetWith sel n else pure Selections.nil
  pure (.field alias name args dirs ss pos)

/-- `parseFragmentName` -/
def parseFragmentName : Prog Name := do
  let t ← peek
  if t.value = kwOn then
    unexpectedError
    pure []
  else parseName

/-- `parseFragment` -/
def parseFragmentWith (sel : Prog Selection) (n : Nat) : Prog Selection := do
  let _ ← expect .spread
  let pk ← peek
  if pk.kind = .name ∧ pk.value ≠ kwOn then
    let pos ← peekPos
    let name ← parseFragmentName
    let dirs ← parseDirectives n false
    pure (.spread name dirs pos)
  else
    let pos ← peekPos
    let t ← peek
    let tc ← do
      if t.kind = .name ∧ t.value = kwOn then
        let _ ← next
        parseName
      else pure []
    let dirs ← parseDirectives n false
    let ss ← parseRequiredSelectionSetWith sel n
    pure (.inline tc dirs ss pos)

/-- `parseSelection` -/
def parseSelection : Nat → Prog Selection
  | 0 => outOfFuel default
  | n + 1 => do
    let t ← peek
    if t.kind = .spread then parseFragmentWith (parseSelection n) (n + 1)
    else parseFieldWith (parseSelection n) (n + 1)

/-- `parseRequiredSelectionSet` at top level -/
def parseRequiredSelectionSet (n : Nat) : Prog Selections :=
  parseRequiredSelectionSetWith (parseSelection n) n

/-- `parseOperationType` -/
def parseOperationType : Prog Operation := do
  let tok ← next
  if tok.kind = .name ∧ tok.value = kwQuery then pure kwQuery
  else if tok.kind = .name ∧ tok.value = kwMutation then pure kwMutation
  else if tok.kind = .name ∧ tok.value = kwSubscription then pure kwSubscription
  else
    unexpectedToken tok
    pure []

/-- `parseOperationDefinition` -/
def parseOperationDefinition (n : Nat) : Prog OperationDef := do
  let t ← peek
  if t.kind = .braceL then
    let pos ← peekPos
    let ss ← parseRequiredSelectionSet n
    pure { op := kwQuery, name := [], vars := [], dirs := [], sel := ss, pos := pos }
  else
    let pos ← peekPos
    let op ← parseOperationType
    let t ← peek
    let name ← do
      if t.kind = .name then
        let tk ← next
        pure tk.value
      else pure []
    let vars ← parseVariableDefinitions n
    let dirs ← parseDirectives n false
    let ss ← parseRequiredSelectionSet n
    pure { op := op, name := name, vars := vars, dirs := dirs, sel := ss, pos := pos }

/-- `parseFragmentDefinition` -/
def parseFragmentDefinition (n : Nat) : Prog FragmentDef := do
  let pos ← peekPos
  let _ ← expectKeyword kwFragment
  let name ← parseFragmentName
  let vars ← parseVariableDefinitions n
  let _ ← expectKeyword kwOn
  let tc ← parseName
  let dirs ← parseDirectives n false
  let ss ← parseRequiredSelectionSet n
  pure { name := name, vars := vars, typeCond := tc, dirs := dirs, sel := ss, pos := pos }

/-- the loop of `parseQueryDocument`; `m` is the fuel of the definitions, the second argument the
    loop fuel -/
def queryDocLoop (m : Nat) : Nat → QueryDoc → Prog QueryDoc
  | 0, doc => outOfFuel doc
  | n + 1, doc => do
    let t ← peek
    if t.kind ≠ .eof then
      if ← hasErr then pure doc
      else
        let _ ← peekPos                      -- doc.Position
        let t1 ← peek
        match t1.kind with
        | .name =>
          let t2 ← peek
          if t2.value = kwQuery ∨ t2.value = kwMutation ∨ t2.value = kwSubscription then
            let od ← parseOperationDefinition m
            queryDocLoop m n { doc with ops := doc.ops ++ [od] }
          else if t2.value = kwFragment then
            let fd ← parseFragmentDefinition m
            queryDocLoop m n { doc with frags := doc.frags ++ [fd] }
          else
            unexpectedError
            queryDocLoop m n doc
        | .braceL =>
          let od ← parseOperationDefinition m
          queryDocLoop m n { doc with ops := doc.ops ++ [od] }
        | _ =>
          unexpectedError
          queryDocLoop m n doc
    else pure doc

/-- `parseQueryDocument` -/
def parseQueryDocument (n : Nat) : Prog QueryDoc := queryDocLoop n n { ops := [], frags := [] }

/-- the final state and document of `ParseQuery` (`limit = 0`) / `ParseQueryWithTokenLimit` -/
def runQuery (limit : Nat) (inp : Bytes) : QueryDoc × PState :=
  run limit (parseQueryDocument (fuelFor inp)) (PState.init 0 inp)

/-- `ParseQuery` (`limit = 0`) / `ParseQueryWithTokenLimit` -/
def parseQuery (limit : Nat) (inp : Bytes) : Result QueryDoc := Result.ofRun (runQuery limit inp)

end Gql.Parser
