import GqlModel.Lexer.Model
import GqlModel.Syntax.Ast
import GqlModel.Parser.GoQuote
/-
  Model of parser/parser.go.

  * `PState` is the Go `parser` struct: the embedded lexer (`rest`/`cur` of the lexer model), the
    sticky `err`, the one-token look-ahead (`peeked`, `peekTok`, `peekErr`), `prev`, `tokenCount`,
    `limit` (= `maxTokenLimit`, 0 = unlimited).  Ghost fields: `pulls` (number of `ReadToken`
    calls), `src` (index of the source, only copied into positions) and `oof` (some fuelled loop
    of the model ran out of fuel; theorem `C01_parse_fuel_*`: never set).
    `p.comment` is not kept: comment groups are not part of the shared tree.  Comment *tokens*
    are consumed exactly as in Go (they count against the limit and move `prev`).
  * `commentConsuming` is not a field either.  In Go the flag is true exactly during the loop of
    `consumeCommentGroup`, and its only effect is to make the nested `consumeCommentGroup` calls
    issued by `peek`/`next` from inside that loop return at once.  The model therefore has two
    copies of the primitives: `peekNC`/`nextNC` (what `peek`/`next` do while the flag is set, used
    by `commentLoop`) and `peek`/`next` (flag clear).
  * Parser programs are data (`Prog`, a free monad over the primitives), interpreted by `run`.
    Everything `parser.go` does lives in the `PState.*` primitives and in `run`; the grammar
    functions of query.go / schema.go are written once against `Prog`.
  * A lexer error yields Go's `Token{Kind: Invalid, Pos: …}`; its line/column are those of the
    error (`makeError`), its Start/End are not recoverable from the lexer model's `LexErr` and are
    set to 0 — they can never reach a tree that is observed (consuming the token sets `err`).
  * `p.error` dereferences `tok.Pos.Src`; for the zero `Token` (only `prev` before the first
    `next`) that is a nil dereference.  Lexer tokens have `line ≥ 1`, the zero token has line 0,
    so `line = 0` stands for `Src == nil` and yields the explicit outcome `PErr.panic`.
-/
namespace Gql.Parser
open Gql Gql.Lexer

inductive PErr
  | lex (e : LexErr)                              -- error returned by `ReadToken`
  | syn (msg : Bytes) (line : Nat) (col : Int)    -- `p.error(tok, …)`
  | limit (n : Nat)                               -- "exceeded token limit of %d" (no location)
  | panic                                         -- nil dereference in `p.error`
  deriving DecidableEq, Repr, Inhabited

def PErr.isLimit : PErr → Bool
  | .limit _ => true
  | _ => false

/-- Go's zero `lexer.Token` -/
def zeroTok : Token := { kind := .invalid, value := [], start := 0, stop := 0, line := 0, col := 0 }

/-- the token returned next to a lexer error (`makeError`) -/
def invalidTok (e : LexErr) : Token :=
  { kind := .invalid, value := [], start := 0, stop := 0, line := e.line, col := e.col }

structure PState where
  rest : Bytes
  cur : Cur
  err : Option PErr
  peeked : Bool
  peekTok : Token
  peekErr : Option LexErr
  prev : Token
  tokenCount : Nat
  pulls : Nat
  src : Nat
  oof : Bool
  deriving Repr, Inhabited

def PState.init (src : Nat) (inp : Bytes) : PState :=
  { rest := inp, cur := Cur.init, err := none, peeked := false, peekTok := zeroTok, peekErr := none,
    prev := zeroTok, tokenCount := 0, pulls := 0, src := src, oof := false }

/-- `p.lexer.ReadToken()` -/
def PState.lexRead (s : PState) : Token × Option LexErr × PState :=
  match readToken s.rest s.cur with
  | .tok t rest c => (t, none, { s with rest := rest, cur := c, pulls := s.pulls + 1 })
  | .err e => (invalidTok e, some e, { s with pulls := s.pulls + 1 })

/-! The state updates of `peek`/`next`, one named function each. -/

/-- `p.peekToken, p.peekError = p.lexer.ReadToken(); p.peeked = true` -/
def PState.readPeek (s : PState) : PState :=
  let r := s.lexRead
  { r.2.2 with peeked := true, peekTok := r.1, peekErr := r.2.1 }

/-- `p.tokenCount++; p.err = fmt.Errorf("exceeded token limit of %d", …)` -/
def PState.trip (L : Nat) (s : PState) : PState :=
  { s with tokenCount := s.tokenCount + 1, err := some (.limit L) }

/-- `p.tokenCount++; p.peeked = false; p.prev, p.err = p.peekToken, p.peekError` -/
def PState.takePeeked (s : PState) : PState :=
  { s with tokenCount := s.tokenCount + 1, peeked := false, prev := s.peekTok, err := s.peekErr.map .lex }

/-- `p.tokenCount++; p.prev, p.err = p.lexer.ReadToken()` -/
def PState.readPrev (s : PState) : PState :=
  let r := s.lexRead
  { r.2.2 with tokenCount := s.tokenCount + 1, prev := r.1, err := r.2.1.map .lex }

/-- `p.maxTokenLimit != 0 && p.tokenCount > p.maxTokenLimit` -/
def overLimit (L tc : Nat) : Bool := L != 0 && decide (tc > L)

/-- `peek` while `commentConsuming` is set -/
def PState.peekNC (s : PState) : Token × PState :=
  if s.err.isSome then (s.prev, s)
  else if s.peeked then (s.peekTok, s)
  else (s.readPeek.peekTok, s.readPeek)

/-- `next` while `commentConsuming` is set -/
def PState.nextNC (L : Nat) (s : PState) : Token × PState :=
  if s.err.isSome then (s.prev, s)
  else if overLimit L (s.tokenCount + 1) then (s.prev, s.trip L)
  else if s.peeked then (s.peekTok, s.takePeeked)
  else (s.readPrev.prev, s.readPrev)

/-- the `for { consumeComment() }` loop of `consumeCommentGroup` -/
def commentLoop (L : Nat) : Nat → PState → PState
  | 0, s => { s with oof := true }
  | n + 1, s =>
    if s.err.isSome then s            -- consumeComment: `if p.err != nil { return nil, false }`
    else
      let r := s.peekNC
      if r.1.kind ≠ .comment then r.2 else commentLoop L n (r.2.nextNC L).2

/-- `consumeCommentGroup` (called with `commentConsuming` clear).  Every comment consumed by the
    loop after the first was lexed from `rest`, so `rest.length + 3` units of fuel suffice
    (`GqlProofs/Parser/Fuel.lean`). -/
def PState.consumeCommentGroup (L : Nat) (s : PState) : PState :=
  if s.err.isSome then s else commentLoop L (s.rest.length + 3) s

/-- `if tok.Kind == lexer.Comment { p.consumeCommentGroup() }` -/
def PState.groupIf (L : Nat) (t : Token) (s : PState) : PState :=
  if t.kind = .comment then s.consumeCommentGroup L else s

/-- `peek` -/
def PState.peek (L : Nat) (s : PState) : Token × PState :=
  if s.err.isSome then (s.prev, s)
  else if s.peeked then (s.peekTok, s)
  else
    let s2 := s.readPeek
    let s3 := s2.groupIf L s2.peekTok
    (s3.peekTok, s3)

/-- `next` -/
def PState.next (L : Nat) (s : PState) : Token × PState :=
  if s.err.isSome then (s.prev, s)
  else if overLimit L (s.tokenCount + 1) then (s.prev, s.trip L)
  else if s.peeked then (s.peekTok, s.takePeeked)
  else
    let s2 := s.readPrev
    let s3 := s2.groupIf L s2.prev
    (s3.prev, s3)

/-- `p.error(tok, …)` with the message already formatted -/
def PState.error (s : PState) (tok : Token) (msg : Bytes) : PState :=
  if s.err.isSome then s
  else if tok.line = 0 then { s with err := some .panic }
  else { s with err := some (.syn msg tok.line tok.col) }

/-! ### programs -/

inductive Prog (α : Type) : Type
  | pure (a : α)
  | peek (k : Token → Prog α)
  | next (k : Token → Prog α)
  | hasErr (k : Bool → Prog α)               -- `p.err != nil`
  | getPrev (k : Token → Prog α)             -- `p.prev`
  | getSrc (k : Nat → Prog α)                -- index of `p.lexer.Source`
  | fail (tok : Token) (msg : Bytes) (k : Prog α)   -- `p.error`
  | oof (k : Prog α)                         -- a fuelled loop ran dry

def Prog.bind {α β : Type} : Prog α → (α → Prog β) → Prog β
  | .pure a, f => f a
  | .peek k, f => .peek fun t => (k t).bind f
  | .next k, f => .next fun t => (k t).bind f
  | .hasErr k, f => .hasErr fun b => (k b).bind f
  | .getPrev k, f => .getPrev fun t => (k t).bind f
  | .getSrc k, f => .getSrc fun i => (k i).bind f
  | .fail tok msg k, f => .fail tok msg (k.bind f)
  | .oof k, f => .oof (k.bind f)

instance : Monad Prog where
  pure := Prog.pure
  bind := Prog.bind

/-- the interpreter: the only place where programs touch the state -/
def run {α : Type} (L : Nat) : Prog α → PState → α × PState
  | .pure a, s => (a, s)
  | .peek k, s => let r := s.peek L; run L (k r.1) r.2
  | .next k, s => let r := s.next L; run L (k r.1) r.2
  | .hasErr k, s => run L (k s.err.isSome) s
  | .getPrev k, s => run L (k s.prev) s
  | .getSrc k, s => run L (k s.src) s
  | .fail tok msg k, s => run L k (s.error tok msg)
  | .oof k, s => run L k { s with oof := true }

def peek : Prog Token := .peek .pure
def next : Prog Token := .next .pure
def hasErr : Prog Bool := .hasErr .pure
def getPrev : Prog Token := .getPrev .pure
def getSrc : Prog Nat := .getSrc .pure
def failAt (tok : Token) (msg : Bytes) : Prog Unit := .fail tok msg (.pure ())
def outOfFuel {α : Type} (a : α) : Prog α := .oof (.pure a)

def posOf (src : Nat) (t : Token) : Pos :=
  { start := t.start, stop := t.stop, line := t.line, col := t.col, src := src }

/-- `peekPos` (`nil` prints as the zero position) -/
def peekPos : Prog Pos := do
  if ← hasErr then pure Pos.zero
  else
    let t ← peek
    let i ← getSrc
    pure (posOf i t)

/-! ### messages -/

/-- `lexer.Type.String()` -/
def kindString : Kind → Bytes
  | .invalid => str "<Invalid>" | .eof => str "<EOF>" | .bang => str "!" | .dollar => str "$"
  | .amp => str "&" | .parenL => str "(" | .parenR => str ")" | .spread => str "..."
  | .colon => str ":" | .equals => str "=" | .at => str "@" | .bracketL => str "[" | .bracketR => str "]"
  | .braceL => str "{" | .braceR => str "}" | .pipe => str "|" | .name => str "Name" | .int => str "Int"
  | .float => str "Float" | .string => str "String" | .blockString => str "BlockString"
  | .comment => str "Comment"

/-- `lexer.Token.String()` -/
def tokString (t : Token) : Bytes :=
  if t.value ≠ [] then kindString t.kind ++ 32 :: GoQuote.quote t.value else kindString t.kind

def msgExpected (want : Bytes) (found : Bytes) : Bytes := str "Expected " ++ want ++ str ", found " ++ found

def msgLimit (n : Nat) : Bytes := str "exceeded token limit of " ++ natToDec n

/-! ### the remaining primitives of parser.go, as programs -/

def expectKeyword (value : Bytes) : Prog Token := do
  let tok ← peek
  if tok.kind = .name ∧ tok.value = value then next
  else
    failAt tok (msgExpected (GoQuote.quote value) (tokString tok))
    pure tok

def expect (kind : Kind) : Prog Token := do
  let tok ← peek
  if tok.kind = kind then next
  else
    failAt tok (msgExpected (kindString kind) (kindString tok.kind))
    pure tok

def skip (kind : Kind) : Prog Bool := do
  if ← hasErr then pure false
  else
    let tok ← peek
    if tok.kind ≠ kind then pure false
    else
      let _ ← next
      pure true

def unexpectedToken (tok : Token) : Prog Unit := failAt tok (str "Unexpected " ++ tokString tok)

def unexpectedError : Prog Unit := do
  let tok ← peek
  unexpectedToken tok

/-- `for p.peek().Kind != end && p.err == nil { cb() }`; results in reverse order -/
def itemsLoop {α : Type} (stop : Kind) (cb : Prog α) : Nat → List α → Prog (List α)
  | 0, acc => outOfFuel acc
  | n + 1, acc => do
    let t ← peek
    let e ← hasErr
    if t.kind ≠ stop ∧ !e then
      let a ← cb
      itemsLoop stop cb n (a :: acc)
    else pure acc

/-- `many`; `n` is the loop fuel -/
def pMany {α : Type} (start stop : Kind) (n : Nat) (cb : Prog α) : Prog (List α) := do
  let hasDef ← skip start
  if !hasDef then pure []
  else
    let xs ← itemsLoop stop cb n []
    let _ ← next
    pure xs.reverse

/-- `some` (the returned comment group is not modelled) -/
def pSome {α : Type} (start stop : Kind) (n : Nat) (cb : Prog α) : Prog (List α) := do
  let hasDef ← skip start
  if !hasDef then pure []
  else
    let xs ← itemsLoop stop cb n []
    if xs.isEmpty then          -- `!called`
      let t1 ← peek
      let t2 ← peek
      failAt t1 (str "expected at least one definition, found " ++ kindString t2.kind)
      pure []
    else
      let _ ← next
      pure xs.reverse

/-- `for p.skip(sep) && p.err == nil { item }` (implements / union members / directive locations) -/
def sepLoop {α : Type} (sep : Kind) (item : Prog α) : Nat → List α → Prog (List α)
  | 0, acc => outOfFuel acc
  | n + 1, acc => do
    if ← skip sep then
      if ← hasErr then pure acc
      else
        let a ← item
        sepLoop sep item n (a :: acc)
    else pure acc

/-! ### outcomes -/

inductive Result (α : Type)
  | ok (a : α)
  | error (e : PErr)
  | outOfFuel
  deriving Repr, Inhabited

def Result.isOk {α : Type} : Result α → Bool
  | .ok _ => true
  | _ => false

def Result.ofRun {α : Type} (r : α × PState) : Result α :=
  if r.2.oof then .outOfFuel
  else match r.2.err with
    | some e => .error e
    | none => .ok r.1

/-- fuel handed to every loop and recursion of an entry point -/
def fuelFor (inp : Bytes) : Nat := inp.length + 2

end Gql.Parser
