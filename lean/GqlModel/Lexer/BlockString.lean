import GqlModel.Basic.Bytes
/-
  Model of lexer/blockstring.go: `blockStringValue`, `leadingWhitespace`.
  `none` plays the role of `math.MaxInt32` ("line is made up entirely of whitespace").
-/
namespace Gql.Lexer

def isBlank (b : Nat) : Bool := b == 32 || b == 9

/-- `strings.Split(raw, "\n")`: always at least one line. -/
def splitLines : Bytes → List Bytes
  | [] => [[]]
  | b :: rest =>
    if b = 10 then [] :: splitLines rest
    else match splitLines rest with
      | [] => [[b]]            -- unreachable: splitLines never returns []
      | l :: ls => (b :: l) :: ls

/-- `strings.Join(lines, "\n")` -/
def joinLines : List Bytes → Bytes
  | [] => []
  | [l] => l
  | l :: ls => l ++ 10 :: joinLines ls

/-- `leadingWhitespace`: index of the first non-blank byte, `none` for MaxInt32. -/
def leadingWs : Bytes → Option Nat
  | [] => none
  | b :: rest => if isBlank b then (leadingWs rest).map (· + 1) else some 0

/-- the loop computing `commonIndent` over the given lines (`none` = MaxInt32) -/
def commonIndent : List Bytes → Option Nat
  | [] => none
  | l :: ls =>
    match leadingWs l, commonIndent ls with
    | none, r => r
    | some i, none => some i
    | some i, some j => some (min i j)

def dropBlankFront : List Bytes → List Bytes
  | [] => []
  | l :: ls => if leadingWs l = none then dropBlankFront ls else l :: ls

def dropBlankBack (ls : List Bytes) : List Bytes := (dropBlankFront ls.reverse).reverse

def stripIndent (n : Nat) (l : Bytes) : Bytes := l.drop n   -- `len < n` gives "" either way

/-- the common indent is taken over every line except the first -/
def blockStringValue (raw : Bytes) : Bytes :=
  let lines := splitLines raw
  let lines' :=
    match lines with
    | first :: others =>
      (match commonIndent others with
       | some n => first :: others.map (stripIndent n)
       | none => lines)
    | [] => lines
  joinLines (dropBlankBack (dropBlankFront lines'))

end Gql.Lexer
