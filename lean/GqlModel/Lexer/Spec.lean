import GqlModel.Lexer.Model
/-
  SPECIFICATION of GraphQL lexing (October 2021, "Lexical Tokens" and "Ignored Tokens"), written
  from the grammar over CODE POINTS and independent of `Lexer/Model.lean` (only the `Kind` and
  `Token` carrier types are shared so that observations can be compared).

  Deviations from the October 2021 text, both declared by the library:
   * `SourceCharacter` is every scalar value ≥ U+0020 plus TAB, LF, CR (the 2021 text stops at U+FFFF);
   * comments are `Ignored` in the grammar, but the library's lexer *emits* them as `Comment`
     tokens (its parser treats them as trivia).  The spec therefore lists comments as tokens of kind
     `comment`; `dropComments` gives the grammar's token sequence.
  Representation limit (not a finding): a `\uXXXX` escape naming a surrogate has no UTF-8 encoding;
  the value is compared after `utf8Encode`, which maps it to U+FFFD on both sides.
-/
namespace Gql.Lexer.Spec
open Gql Gql.Lexer

abbrev Cp := Nat

/- ---------- character classes (spec §2.1) ---------- -/
def isSourceChar (c : Cp) : Bool := c == 9 || c == 10 || c == 13 || decide (32 ≤ c)
def isLineTerminatorStart (c : Cp) : Bool := c == 10 || c == 13
def isWhiteSpace (c : Cp) : Bool := c == 9 || c == 32
def isLetter (c : Cp) : Bool := (decide (65 ≤ c) && decide (c ≤ 90)) || (decide (97 ≤ c) && decide (c ≤ 122))
def isDigitC (c : Cp) : Bool := decide (48 ≤ c) && decide (c ≤ 57)
def isNameStartC (c : Cp) : Bool := isLetter c || c == 95
def isNameContinueC (c : Cp) : Bool := isLetter c || isDigitC c || c == 95
def isCommentChar (c : Cp) : Bool := isSourceChar c && !isLineTerminatorStart c

/- ---------- positions (property C04) ---------- -/

/-- State of the line/column count after some prefix of the source: current line (1-based), offset
    at which the current line starts, offset reached, and whether the last character was a CR
    (so that a directly following LF belongs to the same line terminator). -/
structure PState where
  line : Nat
  ls : Nat
  off : Nat
  cr : Bool
  deriving DecidableEq, Repr

def PState.init : PState := { line := 1, ls := 0, off := 0, cr := false }

/-- one character: LF, CR and CRLF are the line terminators; CRLF counts once -/
def posStep (s : PState) (c : Cp) : PState :=
  if c = 10 then
    if s.cr then { s with ls := s.off + 1, off := s.off + 1, cr := false }
    else { line := s.line + 1, ls := s.off + 1, off := s.off + 1, cr := false }
  else if c = 13 then { line := s.line + 1, ls := s.off + 1, off := s.off + 1, cr := true }
  else { s with off := s.off + 1, cr := false }

/-- the count after the first `off` characters of the source -/
def posAt (cps : List Cp) (off : Nat) : PState := (cps.take off).foldl posStep PState.init

/-- line of offset `off`: one plus the number of line terminators before it -/
def lineOf (cps : List Cp) (off : Nat) : Nat := (posAt cps off).line
/-- offset of the first character of the line containing `off` -/
def lineStartOf (cps : List Cp) (off : Nat) : Nat := (posAt cps off).ls
/-- column of offset `off`: distance in characters from the start of its line, plus one -/
def colOfOffset (cps : List Cp) (off : Nat) : Int := (off : Int) - (lineStartOf cps off : Int) + 1

/- ---------- token classes ---------- -/

def punctOf (c : Cp) : Option Kind :=
  if c = 33 then some .bang else if c = 36 then some .dollar else if c = 38 then some .amp
  else if c = 40 then some .parenL else if c = 41 then some .parenR else if c = 58 then some .colon
  else if c = 61 then some .equals else if c = 64 then some .at else if c = 91 then some .bracketL
  else if c = 93 then some .bracketR else if c = 123 then some .braceL else if c = 124 then some .pipe
  else if c = 125 then some .braceR else none

/-- longest prefix of characters satisfying `p` -/
def spanP (p : Cp → Bool) : List Cp → List Cp × List Cp
  | [] => ([], [])
  | c :: rest => if p c then let (a, b) := spanP p rest; (c :: a, b) else ([], c :: rest)

/-- `Digit+` at the head: the digits and the rest, `none` if there is no digit -/
def digits1 (cs : List Cp) : Option (List Cp × List Cp) :=
  let (ds, rest) := spanP isDigitC cs
  if ds.isEmpty then none else some (ds, rest)

/-- IntegerPart :: NegativeSign? 0 | NegativeSign? NonZeroDigit Digit* -/
def integerPart (cs : List Cp) : Option (List Cp × List Cp) :=
  let (sign, cs1) := match cs with
    | 45 :: r => ([45], r)
    | r => ([], r)
  match cs1 with
  | 48 :: r => some (sign ++ [48], r)
  | d :: r => if isDigitC d then let (ds, r') := spanP isDigitC r; some (sign ++ d :: ds, r') else none
  | [] => none

/-- FractionalPart :: . Digit+ -/
def fractionalPart : List Cp → Option (List Cp × List Cp)
  | 46 :: r => (digits1 r).map fun (ds, r') => (46 :: ds, r')
  | _ => none

/-- ExponentPart :: ExponentIndicator Sign? Digit+ -/
def exponentPart : List Cp → Option (List Cp × List Cp)
  | e :: r =>
    if e = 101 ∨ e = 69 then
      let (sg, r1) := match r with
        | s :: r' => if s = 43 ∨ s = 45 then ([s], r') else ([], r)
        | [] => ([], r)
      (digits1 r1).map fun (ds, r') => (e :: sg ++ ds, r')
    else none
  | [] => none

/-- the look-ahead restriction shared by IntValue and FloatValue: not followed by Digit, `.` or NameStart -/
def numberFollowOk : List Cp → Bool
  | [] => true
  | c :: _ => !(isDigitC c || c == 46 || isNameStartC c)

/-- IntValue / FloatValue at the head (longest alternative), with the look-ahead restriction. -/
def numberToken (cs : List Cp) : Option (Kind × List Cp × List Cp) :=
  match integerPart cs with
  | none => none
  | some (ip, r) =>
    let (k, lex, rest) : Kind × List Cp × List Cp :=
      match fractionalPart r with
      | some (fp, r1) =>
        match exponentPart r1 with
        | some (ep, r2) => (.float, ip ++ fp ++ ep, r2)
        | none => (.float, ip ++ fp, r1)
      | none =>
        match exponentPart r with
        | some (ep, r2) => (.float, ip ++ ep, r2)
        | none => (.int, ip, r)
    if numberFollowOk rest then some (k, lex, rest) else none

def hexC (c : Cp) : Option Nat :=
  if 48 ≤ c ∧ c ≤ 57 then some (c - 48)
  else if 65 ≤ c ∧ c ≤ 70 then some (c - 55)
  else if 97 ≤ c ∧ c ≤ 102 then some (c - 87)
  else none

def escapedChar (c : Cp) : Option Cp :=
  if c = 34 then some 34 else if c = 92 then some 92 else if c = 47 then some 47
  else if c = 98 then some 8 else if c = 102 then some 12 else if c = 110 then some 10
  else if c = 114 then some 13 else if c = 116 then some 9 else none

/-- StringCharacter* followed by the closing quote: (semantic value, characters consumed incl. the
    closing quote, rest); `none` if the string is not well formed. -/
def stringBody : List Cp → Option (List Cp × Nat × List Cp)
  | [] => none
  | 34 :: rest => some ([], 1, rest)
  | 92 :: 117 :: a :: b :: c :: d :: rest => do
    let v := ((← hexC a) * 16 + (← hexC b)) * 16 + (← hexC c)
    let v := v * 16 + (← hexC d)
    let (val, n, r) ← stringBody rest
    pure (v :: val, n + 6, r)
  | 92 :: e :: rest => do
    let v ← escapedChar e
    let (val, n, r) ← stringBody rest
    pure (v :: val, n + 2, r)
  | c :: rest =>
    if c = 92 ∨ isLineTerminatorStart c ∨ !isSourceChar c then none
    else do
      let (val, n, r) ← stringBody rest
      pure (c :: val, n + 1, r)

/-- BlockStringCharacter* followed by the closing `"""`: (raw value, characters consumed incl. the
    closing quotes, rest). The block string ends at the FIRST unescaped `"""`. -/
def blockBody : List Cp → Option (List Cp × Nat × List Cp)
  | [] => none
  | 34 :: 34 :: 34 :: rest => some ([], 3, rest)
  | 92 :: 34 :: 34 :: 34 :: rest => do
    let (val, n, r) ← blockBody rest
    pure (34 :: 34 :: 34 :: val, n + 4, r)
  | c :: rest =>
    if !isSourceChar c then none
    else do
      let (val, n, r) ← blockBody rest
      pure (c :: val, n + 1, r)

/- BlockStringValue(rawValue), spec §2.9.4, transcribed step by step. -/

/-- split on LineTerminator (LF, CRLF, CR) -/
def splitLinesC : List Cp → List (List Cp)
  | [] => [[]]
  | 13 :: 10 :: rest => [] :: splitLinesC rest
  | c :: rest =>
    if c = 10 ∨ c = 13 then [] :: splitLinesC rest
    else match splitLinesC rest with
      | [] => [[c]]
      | l :: ls => (c :: l) :: ls

def leadingWsCount : List Cp → Nat
  | [] => 0
  | c :: rest => if isWhiteSpace c then leadingWsCount rest + 1 else 0

def isBlankLine (l : List Cp) : Bool := l.all isWhiteSpace

/-- commonIndent over all lines EXCEPT the first (callers pass `lines.tail`) -/
def commonIndentOf : List (List Cp) → Option Nat
  | [] => none
  | l :: ls =>
    let rest := commonIndentOf ls
    let indent := leadingWsCount l
    if indent < l.length then
      match rest with
      | none => some indent
      | some r => some (min indent r)
    else rest

def dropWhileBlank : List (List Cp) → List (List Cp)
  | [] => []
  | l :: ls => if isBlankLine l then dropWhileBlank ls else l :: ls

def joinLF : List (List Cp) → List Cp
  | [] => []
  | [l] => l
  | l :: ls => l ++ 10 :: joinLF ls

def blockStringValue (raw : List Cp) : List Cp :=
  let lines := splitLinesC raw
  let lines := match lines with
    | [] => []
    | first :: others =>
      match commonIndentOf others with
      | none => first :: others
      | some n => first :: others.map (·.drop n)
  joinLF (dropWhileBlank (dropWhileBlank lines).reverse).reverse

/- ---------- the lexer of the specification ---------- -/

structure STok where
  kind : Kind
  value : List Cp      -- semantic value (names, numbers: the lexeme; strings: decoded)
  start : Nat          -- offsets in code points
  stop : Nat
  deriving Repr, DecidableEq

inductive Item
  | ignored (n : Nat)                         -- n characters of Ignored (not a comment)
  | token (k : Kind) (value : List Cp) (n : Nat)
  | eof
  | error

/-- one lexical item at the head of the input (maximal munch) -/
def item : List Cp → Item
  | [] => .eof
  | c :: rest =>
    if c = 0xFEFF ∨ isWhiteSpace c ∨ c = 44 ∨ c = 10 then .ignored 1
    else if c = 13 then (match rest with | 10 :: _ => .ignored 2 | _ => .ignored 1)
    else if c = 35 then
      let (body, _) := spanP isCommentChar rest
      .token .comment (c :: body) (body.length + 1)
    else match punctOf c with
    | some k => .token k [] 1
    | none =>
      if c = 46 then (match rest with | 46 :: 46 :: _ => .token .spread [] 3 | _ => .error)
      else if isNameStartC c then
        let (body, _) := spanP isNameContinueC rest
        .token .name (c :: body) (body.length + 1)
      else if c = 45 ∨ isDigitC c then
        match numberToken (c :: rest) with
        | some (k, lex, _) => .token k lex lex.length
        | none => .error
      else if c = 34 then
        match rest with
        | 34 :: 34 :: body =>
          (match blockBody body with
           | some (raw, n, _) => .token .blockString (blockStringValue raw) (n + 3)
           | none => .error)
        | body =>
          (match stringBody body with
           | some (val, n, _) => .token .string val (n + 1)
           | none => .error)
      else .error

inductive Out
  | ok (toks : List STok)
  | error (toks : List STok)      -- the tokens lexed before the point where no token is admitted
  deriving Repr

def lexGo : Nat → List Cp → Nat → List STok → Out
  | 0, _, _, acc => .error acc.reverse      -- unreachable: every item consumes ≥ 1 character
  | fuel + 1, cs, off, acc =>
    match item cs with
    | .eof => .ok acc.reverse
    | .error => .error acc.reverse
    | .ignored n => lexGo fuel (cs.drop n) (off + n) acc
    | .token k v n => lexGo fuel (cs.drop n) (off + n) ({ kind := k, value := v, start := off, stop := off + n } :: acc)

def lex (cps : List Cp) : Out := lexGo (cps.length + 1) cps 0 []

def dropComments (ts : List STok) : List STok := ts.filter (·.kind ≠ .comment)

/-- The observation the specification prescribes for a token: same carrier as the model's `Token`. -/
def toToken (cps : List Cp) (t : STok) : Token :=
  { kind := t.kind, value := utf8Encode t.value, start := t.start, stop := t.stop,
    line := lineOf cps t.start, col := colOfOffset cps t.start }

end Gql.Lexer.Spec
