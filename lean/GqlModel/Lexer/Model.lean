import GqlModel.Basic.Utf8
import GqlModel.Lexer.BlockString
/-
  Model of lexer/lexer.go.  One Lean function per Go function; the cursor is the remaining
  suffix of the input (`rest`) plus the counters the Go struct keeps (`end` in bytes, `endRunes`,
  `line`, `lineStartRunes`).  Go's guarded look-aheads `s.Input[s.end+k]` are list patterns.
  Columns are `Int`: nothing in the Go code keeps `startRunes - lineStartRunes + 1` positive.
-/
namespace Gql.Lexer

inductive Kind
  | invalid | eof | bang | dollar | amp | parenL | parenR | spread | colon | equals | at
  | bracketL | bracketR | braceL | braceR | pipe | name | int | float | string | blockString | comment
  deriving DecidableEq, Repr, Inhabited

def Kind.toNat : Kind → Nat
  | .invalid => 0 | .eof => 1 | .bang => 2 | .dollar => 3 | .amp => 4 | .parenL => 5 | .parenR => 6
  | .spread => 7 | .colon => 8 | .equals => 9 | .at => 10 | .bracketL => 11 | .bracketR => 12
  | .braceL => 13 | .braceR => 14 | .pipe => 15 | .name => 16 | .int => 17 | .float => 18
  | .string => 19 | .blockString => 20 | .comment => 21

structure Cur where
  endB : Nat
  endR : Nat
  line : Nat
  ls : Nat          -- lineStartRunes
  deriving DecidableEq, Repr, Inhabited

def Cur.init : Cur := { endB := 0, endR := 0, line := 1, ls := 0 }

def Cur.adv (c : Cur) (b r : Nat) : Cur := { c with endB := c.endB + b, endR := c.endR + r }

def Cur.newline (c : Cur) : Cur := { c with line := c.line + 1, ls := c.endR }

structure Token where
  kind : Kind
  value : Bytes
  start : Nat
  stop : Nat
  line : Nat
  col : Int
  deriving DecidableEq, Repr, Inhabited

structure LexErr where
  msg : Bytes
  line : Nat
  col : Int
  deriving DecidableEq, Repr, Inhabited

inductive Step
  | tok (t : Token) (rest : Bytes) (c : Cur)
  | err (e : LexErr)
  deriving Repr, Inhabited

def isDigit (b : Nat) : Bool := decide (48 ≤ b) && decide (b ≤ 57)
def isNameStart (b : Nat) : Bool :=
  (decide (65 ≤ b) && decide (b ≤ 90)) || (decide (97 ≤ b) && decide (b ≤ 122)) || b == 95
def isNameCont (b : Nat) : Bool := isNameStart b || isDigit b

/-- column of rune offset `r` given the line start -/
def colOf (r ls : Nat) : Int := (r : Int) - (ls : Int) + 1

/-- `makeError`: line/column of the *end* cursor -/
def mkErr (c : Cur) (msg : Bytes) : Step := .err { msg := msg, line := c.line, col := colOf c.endR c.ls }

/-- `ws`: skip blanks, commas, line terminators and BOMs. -/
def ws : Bytes → Cur → Bytes × Cur
  | [], c => ([], c)
  | b :: r, c =>
    if b = 9 ∨ b = 32 ∨ b = 44 then ws r (c.adv 1 1)
    else if b = 10 then ws r (c.adv 1 1).newline
    else if b = 13 then
      match r with
      | 10 :: r' => ws r' (c.adv 2 2).newline             -- CRLF is one terminator
      | r' => ws r' (c.adv 1 1).newline
    else if b = 0xEF then
      match r with
      | 0xBB :: 0xBF :: r' => ws r' (c.adv 3 1)
      | r' => (b :: r', c)
    else (b :: r, c)

/-- `readComment` loop: consumes SourceCharacters but not line terminators; returns
    (bytes consumed, runes consumed, rest). -/
def commentSpan : Bytes → Nat × Nat × Bytes
  | [] => (0, 0, [])
  | b :: tl =>
    let (r, w) := decodeRune (b :: tl)
    if r > 0x1f ∨ r = 9 then
      let (nb, nr, rest) := commentSpan (tl.drop (w - 1))
      (nb + w, nr + 1, rest)
    else (0, 0, b :: tl)
termination_by l => l.length
decreasing_by simp [List.length_drop]; omega

/-- `readName` loop (the rune test only admits ASCII, so it is a byte test). -/
def nameSpan : Bytes → Bytes × Bytes
  | [] => ([], [])
  | b :: tl => if isNameCont b then let (n, r) := nameSpan tl; (b :: n, r) else ([], b :: tl)

/-- `acceptDigits` -/
def digitSpan : Bytes → Bytes × Bytes
  | [] => ([], [])
  | b :: tl => if isDigit b then let (n, r) := digitSpan tl; (b :: n, r) else ([], b :: tl)

/-- `describeNext` -/
def describeNext : Bytes → Bytes
  | [] => str "<EOF>"
  | b :: _ => 34 :: encodeRune b ++ [34]

def msgExpectedDigit (r : Bytes) : Bytes :=
  str "Invalid number, expected digit but got: " ++ describeNext r ++ [46]

/-- the look-ahead restriction of IntValue / FloatValue -/
def numFollowBad : Bytes → Bool
  | [] => false
  | b :: _ => b == 46 || isNameCont b

/-- exponent part and final token of `readNumber`; `n` = bytes consumed so far -/
def numExp (start : Cur) (rest0 : Bytes) (n : Nat) (r : Bytes) (isFloat : Bool) : Step :=
  let fin (n : Nat) (r : Bytes) (isFloat : Bool) : Step :=
    -- a number must not be followed by a digit, a dot or the start of a name
    if numFollowBad r then mkErr (start.adv n n) (msgExpectedDigit r) else
    .tok { kind := if isFloat then .float else .int, value := rest0.take n,
           start := start.endR, stop := start.endR + n, line := start.line,
           col := colOf start.endR start.ls } r (start.adv n n)
  match r with
  | b :: t =>
    if b = 101 ∨ b = 69 then
      let (n1, t1) := match t with
        | s :: t' => if s = 45 ∨ s = 43 then (n + 2, t') else (n + 1, t)
        | [] => (n + 1, t)
      let (ds, t2) := digitSpan t1
      if ds.isEmpty then mkErr (start.adv n1 n1) (msgExpectedDigit t1)
      else fin (n1 + ds.length) t2 true
    else fin n r isFloat
  | [] => fin n r isFloat

/-- fraction part of `readNumber` -/
def numFrac (start : Cur) (rest0 : Bytes) (n : Nat) (r : Bytes) : Step :=
  match r with
  | 46 :: t =>
    let (ds, t') := digitSpan t
    if ds.isEmpty then mkErr (start.adv (n + 1) (n + 1)) (msgExpectedDigit t)
    else numExp start rest0 (n + 1 + ds.length) t' true
  | _ => numExp start rest0 n r false

/-- `acceptByte('-')`: bytes consumed and the rest -/
def stripSign : Bytes → Nat × Bytes
  | 45 :: t => (1, t)
  | r => (0, r)

/-- the part of `readNumber` after the optional sign (`n1` bytes consumed, `r1` remaining) -/
def readNumberCore (start : Cur) (rest0 : Bytes) (n1 : Nat) (r1 : Bytes) : Step :=
  match r1 with
  | 48 :: t =>
    if !(digitSpan t).1.isEmpty then
      mkErr (start.adv (n1 + 1) (n1 + 1))
        (str "Invalid number, unexpected digit after 0: " ++ describeNext t ++ [46])
    else numFrac start rest0 (n1 + 1) t
  | _ =>
    if (digitSpan r1).1.isEmpty then mkErr (start.adv n1 n1) (msgExpectedDigit r1)
    else numFrac start rest0 (n1 + (digitSpan r1).1.length) (digitSpan r1).2

/-- `readNumber`; `rest0` starts at the first character of the number, `start` is the cursor there -/
def readNumber (start : Cur) (rest0 : Bytes) : Step :=
  readNumberCore start rest0 (stripSign rest0).1 (stripSign rest0).2

def hexValue (b : Nat) : Option Nat :=
  if 48 ≤ b ∧ b ≤ 57 then some (b - 48)
  else if 97 ≤ b ∧ b ≤ 102 then some (b - 87)
  else if 65 ≤ b ∧ b ≤ 70 then some (b - 55)
  else none

/-- `unhex` on exactly four bytes -/
def unhex4 (a b c d : Nat) : Option Nat := do
  let a ← hexValue a; let b ← hexValue b; let c ← hexValue c; let d ← hexValue d
  pure (((a * 16 + b) * 16 + c) * 16 + d)

def msgInvalidInString (r : Nat) : Bytes :=
  str "Invalid character within String: \"\\u" ++ natToDec4 r ++ str "\"."

def msgEscape (what : Bytes) : Bytes := str "Invalid character escape sequence: \\" ++ what ++ [46]

/-- the single-character escapes of `readString` (regenerated from source as
    `Gen.stringEscapes` and compared by `C03_gen_escapes_agree`) -/
def escapeOut (e : Nat) : Option Nat :=
  if e = 34 ∨ e = 47 ∨ e = 92 then some e
  else if e = 98 then some 8 else if e = 102 then some 12 else if e = 110 then some 10
  else if e = 114 then some 13 else if e = 116 then some 9 else none

/-- The body loop of `readString`.  `c` is the end cursor, `acc` the bytes of the value so
    far (reversed), `buf` whether the Go code has switched to its `bytes.Buffer` (after the
    first escape).  Since the repair of `readString` (the default branch appends the SOURCE BYTES
    `s.Input[s.end:s.end+w]` to the buffer instead of re-encoding the decoded rune) `buf` no longer
    influences the result (`readStringLoop_buf_irrelevant`): with or without a buffer the value
    keeps the raw bytes of every unescaped character, ill-formed UTF-8 included.  The parameter is
    kept because every theorem about the loop is stated with it; removing it would only rename.
    `q` is the cursor at the opening quote. -/
def readStringLoop (q : Cur) : Bytes → Cur → Bytes → Bool → Step
  | [], c, _, _ => mkErr c (str "Unterminated string.")
  | b :: tl, c, acc, buf =>
    if b = 10 ∨ b = 13 then mkErr c (str "Unterminated string.")
    else if b < 32 ∧ b ≠ 9 then mkErr c (msgInvalidInString b)
    else if b = 34 then
      .tok { kind := .string, value := acc.reverse, start := q.endR, stop := c.endR + 1,
             line := c.line, col := colOf (q.endR + 1) c.ls } tl (c.adv 1 1)
    else if b = 92 then
      match tl with
      | [] => mkErr (c.adv 1 1) (str "Invalid character escape sequence.")
      | e :: tl' =>
        if e = 117 then
          match tl' with
          | h1 :: h2 :: h3 :: h4 :: x :: tl'' =>
            match unhex4 h1 h2 h3 h4 with
            | some r => readStringLoop q (x :: tl'') (c.adv 6 6) ((encodeRune r).reverse ++ acc) true
            | none => mkErr (c.adv 1 1) (msgEscape [117, h1, h2, h3, h4])
          | _ => mkErr (c.adv 1 1) (msgEscape (e :: tl'))
        else
          match escapeOut e with
          | some o => readStringLoop q tl' (c.adv 2 2) (o :: acc) true
          | none => mkErr (c.adv 1 1) (msgEscape (encodeRune e))
    else
      let (_, w) := if b ≥ 127 then decodeRune (b :: tl) else (b, 1)
      let taken := (b :: tl).take w
      readStringLoop q (tl.drop (w - 1)) (c.adv w 1) (taken.reverse ++ acc) buf
termination_by l => l.length
decreasing_by all_goals (simp [List.length_drop]; try omega)

/-- number of consecutive `"` at the head -/
def quoteRun : Bytes → Nat
  | 34 :: t => quoteRun t + 1
  | _ => 0

/-- body loop of `readBlockString`; `q` is the cursor at the opening `"""`, `c` the end cursor,
    `acc` the raw value (reversed). -/
def readBlockLoop (q : Cur) : Bytes → Cur → Bytes → Step
  | [], c, _ => mkErr c (str "Unterminated string.")
  | b :: tl, c, acc =>
    let n := quoteRun (b :: tl)
    if b = 34 ∧ n ≥ 3 then
      -- a run of three or more quotes closes the string with its last three
      let raw := (List.replicate (n - 3) 34 ++ acc).reverse
      .tok { kind := .blockString, value := blockStringValue raw, start := q.endR,
             stop := c.endR + 3, line := q.line, col := colOf q.endR q.ls }
           ((b :: tl).drop n) (c.adv n n)
    else if b < 32 ∧ b ≠ 9 ∧ b ≠ 10 ∧ b ≠ 13 then mkErr c (msgInvalidInString b)
    else if b = 92 then
      match tl with
      | 34 :: 34 :: 34 :: tl' => readBlockLoop q tl' (c.adv 4 4) (34 :: 34 :: 34 :: acc)
      | tl' => readBlockLoop q tl' (c.adv 1 1) (92 :: acc)
    else if b = 13 then
      match tl with
      | 10 :: tl' => readBlockLoop q tl' (c.adv 2 2).newline (10 :: acc)
      | tl' => readBlockLoop q tl' (c.adv 1 1).newline (10 :: acc)
    else
      let (r, w) := if b ≥ 127 then decodeRune (b :: tl) else (b, 1)
      let c' := c.adv w 1
      readBlockLoop q (tl.drop (w - 1)) (if b = 10 then c'.newline else c') ((encodeRune r).reverse ++ acc)
termination_by l => l.length
decreasing_by all_goals (simp [List.length_drop]; try omega)

/-- the single-byte punctuators of `ReadToken`'s switch (regenerated from source as
    `Gen.punctTable` and compared by `gen_punctuators_agree`) -/
def punctTable : List (Nat × Kind) :=
  [(33, .bang), (36, .dollar), (38, .amp), (40, .parenL), (41, .parenR), (58, .colon), (61, .equals),
   (64, .at), (91, .bracketL), (93, .bracketR), (123, .braceL), (125, .braceR), (124, .pipe)]

def punct (b : Nat) : Option Kind := punctTable.lookup b

/-- the three error messages at the end of `ReadToken` -/
def unexpectedChar (c : Cur) (b : Nat) : Step :=
  if b < 32 ∧ b ≠ 9 ∧ b ≠ 10 ∧ b ≠ 13 then
    mkErr c (str "Cannot contain the invalid character \"\\u" ++ natToDec4 b ++ [34])
  else if b = 39 then
    mkErr c (str "Unexpected single quote character ('), did you mean to use a double quote (\")?")
  else mkErr c (str "Cannot parse the unexpected character \"" ++ encodeRune b ++ str "\".")

def simpleTok (k : Kind) (value : Bytes) (c : Cur) (nb nr : Nat) (rest : Bytes) : Step :=
  .tok { kind := k, value := value, start := c.endR, stop := c.endR + nr, line := c.line,
         col := colOf c.endR c.ls } rest (c.adv nb nr)

/-- `ReadToken` after `ws`: dispatch on the first byte -/
def readTokenBody (rest : Bytes) (c : Cur) : Step :=
  match rest with
  | [] => simpleTok .eof [] c 0 0 []
  | b :: tl =>
    match punct b with
    | some k => simpleTok k [] c 1 1 tl
    | none =>
      if b = 46 then
        match tl with
        | 46 :: 46 :: tl' => simpleTok .spread [] c 3 3 tl'
        | _ => unexpectedChar c b
      else if b = 35 then
        simpleTok .comment ((b :: tl).take ((commentSpan tl).1 + 1)) c ((commentSpan tl).1 + 1)
          ((commentSpan tl).2.1 + 1) (commentSpan tl).2.2
      else if isNameStart b then
        simpleTok .name (b :: (nameSpan tl).1) c ((nameSpan tl).1.length + 1) ((nameSpan tl).1.length + 1)
          (nameSpan tl).2
      else if b = 45 ∨ isDigit b then readNumber c (b :: tl)
      else if b = 34 then
        match tl with
        | 34 :: 34 :: tl' => readBlockLoop c tl' (c.adv 3 3) []
        | _ => readStringLoop c tl (c.adv 1 1) [] false
      else unexpectedChar c b

/-- `ReadToken` -/
def readToken (rest : Bytes) (c : Cur) : Step :=
  readTokenBody (ws rest c).1 (ws rest c).2

inductive LexOut
  | done (toks : List Token)                       -- ends with the EOF token
  | fail (toks : List Token) (e : LexErr)          -- tokens before the error
  | outOfFuel (toks : List Token)
  deriving Repr, Inhabited

def LexOut.tokens : LexOut → List Token
  | .done ts => ts
  | .fail ts _ => ts
  | .outOfFuel ts => ts

def lexFuel : Nat → Bytes → Cur → List Token → LexOut
  | 0, _, _, acc => .outOfFuel acc.reverse
  | fuel + 1, rest, c, acc =>
    match readToken rest c with
    | .err e => .fail acc.reverse e
    | .tok t rest' c' =>
      if t.kind = .eof then .done (t :: acc).reverse
      else lexFuel fuel rest' c' (t :: acc)

/-- lex to the end; every non-EOF token consumes at least one byte so `length + 1` pulls suffice
    (theorem `C01_lexAll_fuel`). -/
def lexAll (inp : Bytes) : LexOut := lexFuel (inp.length + 1) inp Cur.init []

end Gql.Lexer
