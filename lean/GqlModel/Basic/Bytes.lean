/-
  Byte strings are `List Nat` (every element < 256 by convention; plain `Nat` so that
  `omega` sees the arithmetic).  Helpers for the wire protocol (hex) and for rendering
  Go `fmt` verbs used in messages.
-/
namespace Gql

abbrev Bytes := List Nat

def hexDigit (n : Nat) : Char :=
  if n < 10 then Char.ofNat (48 + n) else Char.ofNat (87 + n)

def hexVal (c : Char) : Option Nat :=
  let n := c.toNat
  if 48 ≤ n ∧ n ≤ 57 then some (n - 48)
  else if 97 ≤ n ∧ n ≤ 102 then some (n - 87)
  else if 65 ≤ n ∧ n ≤ 70 then some (n - 55)
  else none

def toHex (bs : Bytes) : String :=
  String.ofList (bs.flatMap fun b => [hexDigit (b / 16 % 16), hexDigit (b % 16)])

def fromHexChars : List Char → Option Bytes
  | [] => some []
  | [_] => none
  | a :: b :: rest => do
    let x ← hexVal a
    let y ← hexVal b
    let r ← fromHexChars rest
    pure ((x * 16 + y) :: r)

/-- `-` denotes the empty byte string on the wire (so that fields are never empty). -/
def fromHex (s : String) : Option Bytes :=
  if s = "-" then some [] else fromHexChars s.toList

def toHexW (bs : Bytes) : String := if bs.isEmpty then "-" else toHex bs

/-- ASCII string literal to bytes (model-side message templates are ASCII). -/
def str (s : String) : Bytes := s.toList.map Char.toNat

/-- bytes back to a `String` for display (only used for ASCII data). -/
def bytesToString (bs : Bytes) : String := String.ofList (bs.map Char.ofNat)

def digitsRev : Nat → Nat → List Nat
  | 0, _ => []
  | fuel + 1, n => if n < 10 then [48 + n] else (48 + n % 10) :: digitsRev fuel (n / 10)

/-- decimal rendering, as `strconv.Itoa` / `%d` for a natural number -/
def natToDec (n : Nat) : Bytes := (digitsRev (n + 1) n).reverse

def intToDec (i : Int) : Bytes :=
  if i < 0 then 45 :: natToDec i.natAbs else natToDec i.natAbs

/-- `%04d` for a natural number -/
def natToDec4 (n : Nat) : Bytes :=
  let d := natToDec n
  List.replicate (4 - d.length) 48 ++ d

end Gql
