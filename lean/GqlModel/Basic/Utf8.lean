import GqlModel.Basic.Bytes
/-
  Go-faithful UTF-8: `decodeRune` mirrors `utf8.DecodeRuneInString` (returns (0xFFFD, 1) on
  every invalid sequence, (0xFFFD, 0) on the empty string) and `encodeRune` mirrors
  `utf8.AppendRune` / `bytes.Buffer.WriteRune` / `string(rune)` (surrogates and values beyond
  U+10FFFF are replaced by U+FFFD).  Tied to the Go functions by the `utf8` correspondence
  op (all 1- and 2-byte sequences exhaustively, 3/4-byte boundaries, random).
-/
namespace Gql

def runeError : Nat := 0xFFFD

def isCont (b : Nat) : Bool := decide (0x80 ≤ b) && decide (b ≤ 0xBF)

/-- `(rune, width)` of the first rune of a byte string. -/
def decodeRune : Bytes → Nat × Nat
  | [] => (runeError, 0)
  | b0 :: rest =>
    if b0 < 0x80 then (b0, 1)
    else if b0 < 0xC2 then (runeError, 1)
    else if b0 < 0xE0 then
      match rest with
      | b1 :: _ => if isCont b1 then ((b0 % 32) * 64 + b1 % 64, 2) else (runeError, 1)
      | [] => (runeError, 1)
    else if b0 < 0xF0 then
      match rest with
      | b1 :: b2 :: _ =>
        let lo := if b0 = 0xE0 then 0xA0 else 0x80
        let hi := if b0 = 0xED then 0x9F else 0xBF
        if decide (lo ≤ b1) && decide (b1 ≤ hi) && isCont b2 then
          ((b0 % 16) * 4096 + (b1 % 64) * 64 + b2 % 64, 3)
        else (runeError, 1)
      | _ => (runeError, 1)
    else if b0 < 0xF5 then
      match rest with
      | b1 :: b2 :: b3 :: _ =>
        let lo := if b0 = 0xF0 then 0x90 else 0x80
        let hi := if b0 = 0xF4 then 0x8F else 0xBF
        if decide (lo ≤ b1) && decide (b1 ≤ hi) && isCont b2 && isCont b3 then
          ((b0 % 8) * 262144 + (b1 % 64) * 4096 + (b2 % 64) * 64 + b3 % 64, 4)
        else (runeError, 1)
      | _ => (runeError, 1)
    else (runeError, 1)

def encodeRune (r : Nat) : Bytes :=
  if r < 0x80 then [r]
  else if r < 0x800 then [0xC0 + r / 64, 0x80 + r % 64]
  else if (decide (0xD800 ≤ r) && decide (r ≤ 0xDFFF)) || decide (0x10FFFF < r) then [0xEF, 0xBF, 0xBD]
  else if r < 0x10000 then [0xE0 + r / 4096, 0x80 + r / 64 % 64, 0x80 + r % 64]
  else [0xF0 + r / 262144, 0x80 + r / 4096 % 64, 0x80 + r / 64 % 64, 0x80 + r % 64]

/-- number of runes Go's `range`/`utf8.RuneCountInString` sees (invalid bytes count one each) -/
def runeCount : Nat → Bytes → Nat
  | 0, _ => 0
  | _, [] => 0
  | fuel + 1, bs => let w := (decodeRune bs).2; 1 + runeCount fuel (bs.drop (max w 1))

/-- all runes of a byte string, Go `range` semantics -/
def runesOf : Nat → Bytes → List Nat
  | 0, _ => []
  | _, [] => []
  | fuel + 1, bs => let (r, w) := decodeRune bs; r :: runesOf fuel (bs.drop (max w 1))

def utf8Encode (cps : List Nat) : Bytes := cps.flatMap encodeRune

end Gql
