import GqlModel.Basic.Bytes
/-
  Canonical S-expressions of the wire protocol: atoms are naturals/integers (`12`, `-3`), byte
  strings (`x` followed by hex, `x` alone is empty) and bare tags (`[A-Za-z_]+`); lists are
  `( … )`; exactly one space between items, none after `(` or before `)`.
-/
namespace Gql

inductive Sexp
  | int (i : Int)
  | bytes (b : Bytes)
  | tag (t : String)
  | list (xs : List Sexp)
  deriving Repr, Inhabited

partial def Sexp.render : Sexp → String
  | .int i => toString i
  | .bytes b => "x" ++ toHex b
  | .tag t => t
  | .list xs => "(" ++ " ".intercalate (xs.map Sexp.render) ++ ")"

namespace SexpParse

def atomOf (cs : List Char) : Option Sexp :=
  match cs with
  | [] => none
  | 'x' :: h =>
    -- a tag may also start with x; hex strings only contain [0-9a-f] and have even length
    match fromHexChars h with
    | some b => some (.bytes b)
    | none => some (.tag (String.ofList cs))
  | '-' :: ds => (String.ofList ds).toNat?.map fun n => .int (-(n : Int))
  | c :: _ => if c.isDigit then (String.ofList cs).toNat?.map fun n => .int n else some (.tag (String.ofList cs))

/-- tokens: "(" ")" and atoms -/
def tokens (s : String) : List (List Char) :=
  let rec go (cs : List Char) (cur : List Char) (acc : List (List Char)) : List (List Char) :=
    let push (acc : List (List Char)) := if cur.isEmpty then acc else cur.reverse :: acc
    match cs with
    | [] => (push acc).reverse
    | c :: rest =>
      if c = '(' ∨ c = ')' then go rest [] ([c] :: push acc)
      else if c = ' ' ∨ c = '\n' ∨ c = '\r' ∨ c = '\t' then go rest [] (push acc)
      else go rest (c :: cur) acc
  go s.toList [] []

/-- parse one expression from the token list, with a stack of open lists -/
def parseToks : List (List Char) → List (List Sexp) → Option Sexp
  | [], _ => none
  | t :: rest, stack =>
    if t = ['('] then parseToks rest ([] :: stack)
    else if t = [')'] then
      match stack with
      | [] => none
      | top :: below =>
        let v := Sexp.list top.reverse
        match below with
        | [] => if rest.isEmpty then some v else none
        | top' :: below' => parseToks rest ((v :: top') :: below')
    else
      match atomOf t with
      | none => none
      | some v =>
        match stack with
        | [] => if rest.isEmpty then some v else none
        | top :: below => parseToks rest ((v :: top) :: below)

end SexpParse

def Sexp.parse (s : String) : Option Sexp := SexpParse.parseToks (SexpParse.tokens s) []

end Gql
