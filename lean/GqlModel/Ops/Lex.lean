import GqlModel.Lexer.Model
/-  Wire observations for the lexer ops of the driver. -/
namespace Gql.Ops
open Gql Gql.Lexer

def showInt (i : Int) : String := toString i

def obsToken (t : Token) : String :=
  s!"{t.kind.toNat},{t.start},{t.stop},{t.line},{showInt t.col},{toHexW t.value}"

def obsTokens (ts : List Token) : String := ";".intercalate (ts.map obsToken)

def obsLexOut : LexOut → String
  | .done ts => obsTokens ts ++ "|OK"
  | .fail ts e => obsTokens ts ++ s!"|E,{e.line},{showInt e.col},{toHexW e.msg}"
  | .outOfFuel ts => obsTokens ts ++ "|FUEL"

def opLex : List String → String
  | [h] => match fromHex h with
    | some bs => obsLexOut (lexAll bs)
    | none => "bad-hex"
  | _ => "bad-args"

def opBsv : List String → String
  | [h] => match fromHex h with
    | some bs => toHexW (blockStringValue bs)
    | none => "bad-hex"
  | _ => "bad-args"

def opUtf8 : List String → String
  | [h] => match fromHex h with
    | some bs => let (r, w) := decodeRune bs; s!"{r},{w},{toHexW (encodeRune r)}"
    | none => "bad-hex"
  | _ => "bad-args"

def lexOps : List (String × (List String → String)) :=
  [("lex", opLex), ("bsv", opBsv), ("utf8", opUtf8)]

end Gql.Ops
