import GqlModel.Lexer.Model
import GqlModel.Lexer.Spec
/-  Wire observations for the lexer ops of the driver. -/
namespace Gql.Ops
open Gql Gql.Lexer

def showInt (i : Int) : String := toString i

def obsToken (t : Token) : String :=
  s!"{t.kind.toNat},{t.start},{t.stop},{t.line},{showInt t.col},{toHexW t.value}"

def obsTokens (ts : List Token) : String := ";".intercalate (ts.map obsToken)

def obsLexOut : LexOut → String
  | .done ts => obsTokens ts ++ "|OK"
  | .fail ts e => obsTokens ts ++ s!"|E,{e.line},{showInt e.col},{toHexW e.msg}"
  | .outOfFuel ts => obsTokens ts ++ "|FUEL"

def opLex : List String → String
  | [h] => match fromHex h with
    | some bs => obsLexOut (lexAll bs)
    | none => "bad-hex"
  | _ => "bad-args"

def opBsv : List String → String
  | [h] => match fromHex h with
    | some bs => toHexW (blockStringValue bs)
    | none => "bad-hex"
  | _ => "bad-args"

def opUtf8 : List String → String
  | [h] => match fromHex h with
    | some bs => let (r, w) := decodeRune bs; s!"{r},{w},{toHexW (encodeRune r)}"
    | none => "bad-hex"
  | _ => "bad-args"

/-- `lexspec <hex>`: what the SPECIFICATION prescribes for a valid UTF-8 input, in the format of `lex`
    (tokens incl. comments and the final EOF, then `|OK`, or the tokens before the failure and `|E`). -/
def opLexSpec : List String → String
  | [h] => match fromHex h with
    | some bs =>
      let cps := runesOf bs.length bs
      if utf8Encode cps ≠ bs then "NOTUTF8"
      else match Spec.lex cps with
        | .ok ts =>
          let eof : Spec.STok := { kind := .eof, value := [], start := cps.length, stop := cps.length }
          obsTokens ((ts ++ [eof]).map (Spec.toToken cps)) ++ "|OK"
        | .error ts => obsTokens (ts.map (Spec.toToken cps)) ++ "|E"
    | none => "bad-hex"
  | _ => "bad-args"

/-- `bsvspec <hex>`: BlockStringValue() of the specification on a raw value (valid UTF-8) -/
def opBsvSpec : List String → String
  | [h] => match fromHex h with
    | some bs =>
      let cps := runesOf bs.length bs
      if utf8Encode cps ≠ bs then "NOTUTF8" else toHexW (utf8Encode (Spec.blockStringValue cps))
    | none => "bad-hex"
  | _ => "bad-args"

def lexOps : List (String × (List String → String)) :=
  [("lex", opLex), ("bsv", opBsv), ("utf8", opUtf8), ("lexspec", opLexSpec), ("bsvspec", opBsvSpec)]

end Gql.Ops
