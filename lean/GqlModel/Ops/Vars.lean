import GqlModel.Ops.WireOps
import GqlModel.Vars.Model
import GqlModel.Vars.Spec
/-
  Driver ops for variable coercion and argument maps.

  vars <opIndex> (list <schema> <querydoc> <goval>…)   → one observation per goval, joined by ";":
        OK <goval (map, keys sorted)> | ERR <hex message> <path>[ ALT <key>…] | PANIC <hex message> | FUEL
  argmap (list <argdefs | nodef> <args> <vardefs> <goval>)  → OK <goval> | PANIC <hex message> | DIVERGE
  conforms (list <schema> <gtype> <goval>…)            → one 0/1 per goval, joined by ";"
  coercible (list <schema> <gtype> <goval>…)           → likewise for `Coercible`
  argspec (list <argdefs> <args> <vardefs> <goval>)     → OK <goval> | NONE   (the C15 specification)
  judge <readings> <readings> (list <schema> <gtype> (list <result>…) (list <supplied>…))  → 0/1 strings, see `opJudgeMany`
  conformsl <5 bits: typenameKey single strictNumStr strictFracInt strictJsonNumber> (list <schema> <gtype> <goval>…)
  strconv pi|pf|pb|quote <hex>
-/
namespace Gql.Ops
open Gql

def pathSexp (p : Path) : Sexp :=
  .list (p.map fun
    | .name n => .bytes n
    | .idx i => .int i)

def obsRes : Res GoFields → String
  | .ok m => "OK " ++ (Wire.goVal (.map .iface m)).render
  | .err msg path alts =>
    "ERR " ++ toHexW msg ++ " " ++ (pathSexp path).render ++
      (if alts.isEmpty then "" else " ALT " ++ " ".intercalate (alts.map fun k => (Sexp.bytes k).render))
  | .panic msg => "PANIC " ++ toHexW msg
  | .outOfFuel => "FUEL"

def dVarMap : Sexp → Option VarMap
  | s => match Wire.dGoVal s with
    | some (.map _ kvs) => some kvs
    | _ => none

def opVars : List String → String
  | idx :: rest =>
    match idx.toNat?, Sexp.parse (joinArgs rest) with
    | some i, some (.list (.tag "list" :: sch :: doc :: vals)) =>
      match Wire.dSchema sch, Wire.dQueryDoc doc with
      | some s, some d =>
        match d.ops[i]? with
        | none => "bad-op-index"
        | some op =>
          ";".intercalate (vals.map fun v =>
            match dVarMap v with
            | none => "bad-vars"
            | some m => obsRes (coerce s op m))
      | _, _ => "bad-tree"
    | _, _ => "bad-sexp"
  | _ => "bad-args"

def obsArgRes : ArgRes → String
  | .ok m => "OK " ++ (Wire.goVal (.map .iface m)).render
  | .panic msg => "PANIC " ++ toHexW msg
  | .diverge => "DIVERGE"

def dArgDefsOpt : Sexp → Option (Option (List ArgDef))
  | .tag "nodef" => some none
  | s => (Wire.dList Wire.dArgDef s).map some

def opArgMap (args : List String) : String :=
  match Sexp.parse (joinArgs args) with
  | some (.list [.tag "list", defs, as, vds, vars]) =>
    match dArgDefsOpt defs, Wire.dList Wire.dArgument as, Wire.dList Wire.dVarDef vds, dVarMap vars with
    | some defs, some as, some vds, some m => obsArgRes (argumentMap vds defs as m)
    | _, _, _, _ => "bad-tree"
  | _ => "bad-sexp"

def opArgSpec (args : List String) : String :=
  match Sexp.parse (joinArgs args) with
  | some (.list [.tag "list", defs, as, vds, vars]) =>
    match Wire.dList Wire.dArgDef defs, Wire.dList Wire.dArgument as, Wire.dList Wire.dVarDef vds, dVarMap vars with
    | some defs, some as, some vds, some m =>
      match argSpec vds defs as m with
      | some r => "OK " ++ (Wire.goVal (.map .iface r)).render
      | none => "NONE"
    | _, _, _, _ => "bad-tree"
  | _ => "bad-sexp"

def opJudge (judge : Schema → GType → GoVal → Bool) (args : List String) : String :=
  match Sexp.parse (joinArgs args) with
  | some (.list (.tag "list" :: sch :: ty :: vals)) =>
    match Wire.dSchema sch, Wire.dType ty with
    | some s, some t =>
      ";".intercalate (vals.map fun v =>
        match Wire.dGoVal v with
        | none => "bad-val"
        | some x => if judge s t x then "1" else "0")
    | _, _ => "bad-tree"
  | _ => "bad-sexp"

/-- 5 bits: typenameKey single strictNumStr strictFracInt strictJsonNumber -/
def bitsReading (bits : String) : Option Reading :=
  match bits.toList.map (fun c => c == '1') with
  | [a, b, c, d, e] => some { typenameKey := a, single := b, strictNumStr := c, strictFracInt := d, strictJsonNumber := e }
  | _ => none

/-- conformsl <5 bits> (list schema type val…) -/
def opConformsL : List String → String
  | bits :: rest =>
    match bitsReading bits with
    | some L => opJudge (conformsWith L) rest
    | none => "bad-bits"
  | _ => "bad-args"

/-- judge <bits,bits,…> <bits,bits,…> (list schema type (list result…) (list supplied…)):
    for every reading of the first group the verdicts on the results, then for every reading of
    the second group the verdicts on the supplied values; groups separated by "|", verdicts are 0/1 characters -/
def opJudgeMany : List String → String
  | rb :: sb :: rest =>
    match Sexp.parse (joinArgs rest) with
    | some (.list [.tag "list", sch, ty, .list (.tag "list" :: rs), .list (.tag "list" :: ss)]) =>
      match Wire.dSchema sch, Wire.dType ty, rs.mapM Wire.dGoVal, ss.mapM Wire.dGoVal with
      | some s, some t, some rs, some ss =>
        let run (bits : String) (vals : List GoVal) : String :=
          match bitsReading bits with
          | none => "bad-bits"
          | some L => String.ofList (vals.map fun v => if conformsWith L s t v then '1' else '0')
        "|".intercalate (((rb.splitOn ",").map fun b => run b rs) ++ ((sb.splitOn ",").map fun b => run b ss))
      | _, _, _, _ => "bad-tree"
    | _ => "bad-sexp"
  | _ => "bad-args"

def opStrconv : List String → String
  | ["pi", h] => match fromHex h with
    | some b => (match Strconv.parseInt b with
      | .ok n => s!"OK {n}" | .syntax => "SYN" | .range c => s!"RNG {c}")
    | none => "bad-hex"
  | ["pf", h] => match fromHex h with
    | some b => (match Strconv.parseFloat b with
      | .ok => "OK" | .syntax => "SYN" | .range neg => if neg then "RNG-" else "RNG+")
    | none => "bad-hex"
  | ["pb", h] => match fromHex h with
    | some b => (match Strconv.parseBool b with
      | some true => "OK 1" | some false => "OK 0" | none => "SYN")
    | none => "bad-hex"
  | ["quote", h] => match fromHex h with
    | some b => toHexW (Strconv.quote b)
    | none => "bad-hex"
  | _ => "bad-args"

def varsOps : List (String × (List String → String)) :=
  [("vars", opVars), ("argmap", opArgMap), ("argspec", opArgSpec),
   ("conforms", opJudge conformsB), ("coercible", opJudge coercibleB), ("conformsl", opConformsL), ("judge", opJudgeMany), ("strconv", opStrconv)]

end Gql.Ops
