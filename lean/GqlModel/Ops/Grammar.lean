import GqlModel.Syntax.Grammar
import GqlModel.Syntax.Print
import GqlModel.Syntax.Wire
import GqlModel.Ops.WireOps
/-
  Driver ops of the grammar specification (C05 / C06):

    gq <hex>   / gs <hex>     `1` derivable as ExecutableDocument / type-system document, `0` not
                              derivable, `LEXERR` when the lexer model fails
    gqc <hex>  / gsc <hex>    canonical form of the input's token sequence (token list), `0`, `LEXERR`
    gqf <k> <hex> / gsf …     as gq / gs with `k` times the standard fuel (fuel-sufficiency probe)
    canonq <toks> / canons <toks>   canonical form of a token list given as such, or `0`
    gtoks <hex>               the comment-free token sequence, or `LEXERR`
    unparseq <querydoc sexp>  `Print.printQuery` of a tree (token list)
    unparses <schemadoc sexp> `Print.printSchema` of a tree (token list)

  A token list prints as `<kind number>.<value hexW>` joined by `,` (`-` for the empty list).
-/
namespace Gql.Ops
open Gql Gql.Grammar

def obsTok (t : Tok) : String := s!"{t.kind.toNat}.{toHexW t.value}"

def obsToks (ts : List Tok) : String := if ts.isEmpty then "-" else ",".intercalate (ts.map obsTok)

def withToks (h : String) (f : List Tok → String) : String :=
  match fromHex h with
  | none => "bad-hex"
  | some bs => match tokensOf bs with
    | none => "LEXERR"
    | some ts => f ts

def opRecognise (start : NT) : List String → String
  | [h] => withToks h fun ts => if recognises gql start ts then "1" else "0"
  | _ => "bad-args"

def opCanonical (start : NT) : List String → String
  | [h] => withToks h fun ts => match canonical gql start ts with
    | some out => obsToks out
    | none => "0"
  | _ => "bad-args"

def opRecogniseFuel (start : NT) : List String → String
  | [k, h] => match k.toNat? with
    | some k => withToks h fun ts => if (parseWith gql (k * fuelFor ts) start ts).isSome then "1" else "0"
    | none => "bad-args"
  | _ => "bad-args"

def opGtoks : List String → String
  | [h] => withToks h obsToks
  | _ => "bad-args"

def opUnparseQ (args : List String) : String :=
  match Sexp.parse (joinArgs args) with
  | none => "bad-sexp"
  | some s => match Wire.dQueryDoc s with
    | none => "bad-tree"
    | some d => obsToks (Print.printQuery d)

def opUnparseS (args : List String) : String :=
  match Sexp.parse (joinArgs args) with
  | none => "bad-sexp"
  | some s => match Wire.dSchemaDoc s with
    | none => "bad-tree"
    | some d => obsToks (Print.printSchema d)

def kindOfNat (n : Nat) : Option Lexer.Kind :=
  [Lexer.Kind.invalid, .eof, .bang, .dollar, .amp, .parenL, .parenR, .spread, .colon, .equals, .at, .bracketL,
   .bracketR, .braceL, .braceR, .pipe, .name, .int, .float, .string, .blockString, .comment][n]?

/-- inverse of `obsToks` -/
def readToks (s : String) : Option (List Tok) :=
  if s = "-" then some [] else
  (s.splitOn ",").mapM fun w =>
    match w.splitOn "." with
    | [k, v] => do
      let k ← k.toNat?
      let kind ← kindOfNat k
      let value ← if v = "-" then some [] else fromHex v
      pure { kind := kind, value := value }
    | _ => none

/-- `canonq <token list>` / `canons <token list>`: canonical form of a token sequence given as
    such (used to check that printed trees are their own canonical form), or `0` -/
def opCanonToks (start : NT) : List String → String
  | [w] => match readToks w with
    | none => "bad-tokens"
    | some ts => match canonical gql start ts with
      | some out => obsToks out
      | none => "0"
  | _ => "bad-args"

def grammarOps : List (String × (List String → String)) :=
  [("gq", opRecognise .executableDocument), ("gs", opRecognise .typeSystemDocument),
   ("gqc", opCanonical .executableDocument), ("gsc", opCanonical .typeSystemDocument),
   ("gqf", opRecogniseFuel .executableDocument), ("gsf", opRecogniseFuel .typeSystemDocument),
   ("canonq", opCanonToks .executableDocument), ("canons", opCanonToks .typeSystemDocument),
   ("gtoks", opGtoks), ("unparseq", opUnparseQ), ("unparses", opUnparseS)]

end Gql.Ops
