import GqlModel.Json.Spec
import GqlModel.Ops.WireOps
/-
  Driver ops of the JSON layer (C19).
    jsonrt  <query document sexp>  → sexp (positions zero) of decodeQueryDoc (encodeQueryDoc d), or E,<error>
    jsonrt2 <query document sexp>  → the same with the repaired discriminator (`repairedDisc`)
    jsonenc <query document sexp>  → hex of the JSON text of encodeQueryDoc d (= json.Marshal)
    jsonstr <hex>                  → hex of renderString (one JSON string literal)
    jsonsan <hex>                  → hex of sanitize (what the string reads back as)
    jsondec <json tree sexp>       → sexp (positions zero) of decodeQueryDoc j, or E,<error>
                                     (json tree: N | T | F | <int> | x<hex> | (A item…) | (O x<key> value …))
    jsonwf  <query document sexp>  → 1 / 0 : utf8CleanB d (the hypothesis of C19_roundtrip)
    jsonsrcwf <hex source text>    → 1 / 0 : sourceCleanB (every token of the lexer model has a well-formed UTF-8 value)
    jsonlegacy <query document sexp> → jsonrt with the discriminator decode.go had before its repair (history)
-/
namespace Gql.Ops
open Gql Gql.Json

def withQueryDoc (args : List String) (f : QueryDoc → String) : String :=
  match Sexp.parse (joinArgs args) with
  | none => "bad-sexp"
  | some s => match Wire.dQueryDoc s with
    | none => "bad-tree"
    | some d => f d

def rtWith (disc : Disc) (d : QueryDoc) : String :=
  match decodeQueryDocWith disc (encodeQueryDoc d) with
  | .ok d' => (Wire.queryDoc d').render
  | .error e => "E," ++ e

def opJsonRt (args : List String) : String := withQueryDoc args (rtWith currentDisc)
def opJsonRt2 (args : List String) : String := withQueryDoc args (rtWith repairedDisc)
def opJsonEnc (args : List String) : String := withQueryDoc args fun d => toHexW (encodeQueryDoc d).render

def opJsonStr : List String → String
  | [h] => match fromHex h with
    | some bs => toHexW (renderString bs)
    | none => "bad-hex"
  | _ => "bad-args"

def opJsonSan : List String → String
  | [h] => match fromHex h with
    | some bs => toHexW (sanitize bs)
    | none => "bad-hex"
  | _ => "bad-args"

mutual
  partial def jsonOfSexp : Sexp → Option Json
    | .tag "N" => some .null
    | .tag "T" => some (.bool true)
    | .tag "F" => some (.bool false)
    | .int i => some (.num i)
    | .bytes b => some (.str b)
    | .list (.tag "A" :: xs) => (xs.mapM jsonOfSexp).map fun l => .arr (JList.ofList l)
    | .list (.tag "O" :: kvs) => (jfieldsOfSexp kvs).map fun l => .obj (JFields.ofList l)
    | _ => none
  partial def jfieldsOfSexp : List Sexp → Option (List (Bytes × Json))
    | [] => some []
    | .bytes k :: v :: rest => do
      let v' ← jsonOfSexp v
      let r ← jfieldsOfSexp rest
      pure ((k, v') :: r)
    | _ => none
end

def opJsonDec (args : List String) : String :=
  match Sexp.parse (joinArgs args) with
  | none => "bad-sexp"
  | some s => match jsonOfSexp s with
    | none => "bad-json-tree"
    | some j => match decodeQueryDoc j with
      | .ok d => (Wire.queryDoc d).render
      | .error e => "E," ++ e

def opJsonWf (args : List String) : String := withQueryDoc args fun d => if utf8CleanB d then "1" else "0"
def opJsonSrcWf : List String → String
  | [h] => match fromHex h with
    | some bs => if sourceCleanB bs then "1" else "0"
    | none => "bad-hex"
  | _ => "bad-args"
def opJsonLegacy (args : List String) : String := withQueryDoc args (rtWith legacyDisc)

def jsonOps : List (String × (List String → String)) :=
  [("jsonrt", opJsonRt), ("jsonrt2", opJsonRt2), ("jsonenc", opJsonEnc), ("jsonstr", opJsonStr), ("jsonsan", opJsonSan),
   ("jsondec", opJsonDec), ("jsonwf", opJsonWf), ("jsonsrcwf", opJsonSrcWf), ("jsonlegacy", opJsonLegacy)]

end Gql.Ops
