import GqlModel.Json.Model
import GqlModel.Ops.WireOps
/-
  Driver ops of the JSON layer (C19).
    jsonrt  <query document sexp>  → sexp (positions zero) of decodeQueryDoc (encodeQueryDoc d), or E,<error>
    jsonrt2 <query document sexp>  → the same with the repaired discriminator (`repairedDisc`)
    jsonenc <query document sexp>  → hex of the JSON text of encodeQueryDoc d (= json.Marshal)
    jsonstr <hex>                  → hex of renderString (one JSON string literal)
    jsonsan <hex>                  → hex of sanitize (what the string reads back as)
-/
namespace Gql.Ops
open Gql Gql.Json

def withQueryDoc (args : List String) (f : QueryDoc → String) : String :=
  match Sexp.parse (joinArgs args) with
  | none => "bad-sexp"
  | some s => match Wire.dQueryDoc s with
    | none => "bad-tree"
    | some d => f d

def rtWith (disc : Disc) (d : QueryDoc) : String :=
  match decodeQueryDocWith disc (encodeQueryDoc d) with
  | .ok d' => (Wire.queryDoc d').render
  | .error e => "E," ++ e

def opJsonRt (args : List String) : String := withQueryDoc args (rtWith currentDisc)
def opJsonRt2 (args : List String) : String := withQueryDoc args (rtWith repairedDisc)
def opJsonEnc (args : List String) : String := withQueryDoc args fun d => toHexW (encodeQueryDoc d).render

def opJsonStr : List String → String
  | [h] => match fromHex h with
    | some bs => toHexW (renderString bs)
    | none => "bad-hex"
  | _ => "bad-args"

def opJsonSan : List String → String
  | [h] => match fromHex h with
    | some bs => toHexW (sanitize bs)
    | none => "bad-hex"
  | _ => "bad-args"

def jsonOps : List (String × (List String → String)) :=
  [("jsonrt", opJsonRt), ("jsonrt2", opJsonRt2), ("jsonenc", opJsonEnc), ("jsonstr", opJsonStr), ("jsonsan", opJsonSan)]

end Gql.Ops
