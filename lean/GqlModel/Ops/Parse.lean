import GqlModel.Parser.Schema
import GqlModel.Syntax.Wire
/-
  Driver ops of the parser model: `pq <limit|-1> <hex>`, `ps <limit|-1> <hex>`,
  `pss <limit|-1> <hex> <hex> …`, `goquote <hex>`.  Replies are byte-identical to the Go ops of
  the same names (harness/internal/impl/parse.go, parse_multi.go).
-/
namespace Gql.Ops
open Gql Gql.Parser

/-- `impl.ErrObs` -/
def obsPErr : PErr → String
  | .lex e => s!"E,{e.line},{e.col},{toHexW e.msg}"
  | .syn msg line col => s!"E,{line},{col},{toHexW msg}"
  | .limit n => s!"E,0,0,{toHexW (msgLimit n)}"
  | .panic => "PANIC"

def obsResult {α : Type} (f : α → Sexp) : Result α → String
  | .ok a => (f a).render
  | .error e => obsPErr e
  | .outOfFuel => "FUEL"

/-- `-1` selects the API without a limit, which is the limit 0 -/
def parseLimit (s : String) : Option Nat :=
  if s = "-1" then some 0 else s.toNat?

def opPq : List String → String
  | [l, h] => match parseLimit l, fromHex h with
    | some lim, some bs => obsResult Wire.queryDoc (parseQuery lim bs)
    | _, _ => "bad-args"
  | _ => "bad-args"

def opPs : List String → String
  | [l, h] => match parseLimit l, fromHex h with
    | some lim, some bs => obsResult Wire.schemaDoc (parseSchema lim bs)
    | _, _ => "bad-args"
  | _ => "bad-args"

def opPss : List String → String
  | l :: hs => match parseLimit l, hs.mapM fromHex with
    | some lim, some srcs => obsResult Wire.schemaDoc (parseSchemas lim (srcs.map fun b => (false, b)))
    | _, _ => "bad-args"
  | _ => "bad-args"

/-- `psb <limit|-1> <flags> <hex>…`: `ParseSchemas[WithLimit]` over sources whose `BuiltIn` flag is
    the corresponding character of `flags` (`1` = built-in) -/
def opPsb : List String → String
  | l :: flags :: hs => match parseLimit l, hs.mapM fromHex with
    | some lim, some srcs =>
      let fl := flags.toList.map (· == '1')
      obsResult Wire.schemaDoc (parseSchemas lim ((List.range srcs.length).zip srcs |>.map fun (i, b) => (fl.getD i false, b)))
    | _, _ => "bad-args"
  | _ => "bad-args"

def opGoQuote : List String → String
  | [h] => match fromHex h with
    | some bs => toHexW (GoQuote.quote bs)
    | none => "bad-hex"
  | _ => "bad-args"

def parseOps : List (String × (List String → String)) :=
  [("pq", opPq), ("ps", opPs), ("pss", opPss), ("psb", opPsb), ("goquote", opGoQuote)]

end Gql.Ops
