import GqlModel.Errors
/-
  Driver ops of the error layer (C20).  Wire forms:
    <path>  `-` (empty) or elements joined by `,`: `n<hex>` (a name, `n` alone = "") | `i<int>`
    <locs>  `-` or `line:col` joined by `,`
    <ext>   `-` (no extensions) or `f<hex>` (extensions = {"file": …})
  Ops:
    pathrt  <path>                       → `ok <path>` for decPath (encPath p), or `E,<hex message>`
    pathenc <path>                       → hex of the JSON text of encPath p
    pathstr <path>                       → hex of Path.String()
    f64int  <int>                        → indexOfNumber i  (the index a JSON integer decodes to)
    errjson <hex message> <path> <locs> <ext>  → hex of the JSON text of encError, then ` ` and 1/0 for responseShape
    errstr  <hex message> <path> <locs> <ext>  → hex of Error()
-/
namespace Gql.Ops
open Gql Gql.Json Gql.Errors

def parseInt (s : String) : Option Int :=
  if s.startsWith "-" then (s.drop 1).toNat?.map fun n => -(n : Int) else s.toNat?.map fun n => (n : Int)

def parseElem (s : String) : Option PathElem :=
  if s.startsWith "n" then
    let h := (s.drop 1).toString
    if h = "" then some (.name []) else (fromHexChars h.toList).map .name
  else if s.startsWith "i" then (parseInt (s.drop 1).toString).map .index
  else none

def parsePath (s : String) : Option Path :=
  if s = "-" then some [] else (s.splitOn ",").mapM parseElem

def showElem : PathElem → String
  | .name n => "n" ++ toHex n
  | .index i => "i" ++ toString i

def showPath (p : Path) : String := if p.isEmpty then "-" else ",".intercalate (p.map showElem)

def parseLocs (s : String) : Option (List Location) :=
  if s = "-" then some [] else (s.splitOn ",").mapM fun lc =>
    match lc.splitOn ":" with
    | [l, c] => do pure ⟨← parseInt l, ← parseInt c⟩
    | _ => none

def parseExt (s : String) : Option (List (Bytes × Json)) :=
  if s = "-" then some []
  else if s.startsWith "f" then (fromHex (s.drop 1).toString).map fun f => [(kFile, Json.str f)]
  else none

def parseError : List String → Option Error
  | [m, p, l, x] => do
    pure { message := ← fromHex m, path := ← parsePath p, locations := ← parseLocs l, extensions := ← parseExt x }
  | _ => none

def opPathRt : List String → String
  | [p] => match parsePath p with
    | some p => match decPath (encPath p) with
      | .ok q => "ok " ++ showPath q
      | .error e => "E," ++ toHexW (str e)
    | none => "bad-path"
  | _ => "bad-args"

def opPathEnc : List String → String
  | [p] => match parsePath p with
    | some p => toHexW (encPath p).render
    | none => "bad-path"
  | _ => "bad-args"

def opPathStr : List String → String
  | [p] => match parsePath p with
    | some p => toHexW p.render
    | none => "bad-path"
  | _ => "bad-args"

def opF64Int : List String → String
  | [i] => match parseInt i with
    | some i => toString (indexOfNumber i)
    | none => "bad-int"
  | _ => "bad-args"

def opErrJson (args : List String) : String :=
  match parseError args with
  | some e => let j := encError e; toHexW j.render ++ " " ++ (if responseShape j then "1" else "0")
  | none => "bad-error"

def opErrStr (args : List String) : String :=
  match parseError args with
  | some e => toHexW e.render
  | none => "bad-error"

def errorOps : List (String × (List String → String)) :=
  [("pathrt", opPathRt), ("pathenc", opPathEnc), ("pathstr", opPathStr), ("f64int", opF64Int),
   ("errjson", opErrJson), ("errstr", opErrStr)]

end Gql.Ops
