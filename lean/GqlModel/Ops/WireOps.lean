import GqlModel.Syntax.Wire
import GqlModel.Schema.Types
/- echo ops: decode a tree from the wire and print it again (validates both codecs against Go's printer) -/
namespace Gql.Ops
open Gql

/-- ops receive space-separated words; an S-expression argument is the words re-joined -/
def joinArgs (args : List String) : String := " ".intercalate args

def opEchoQ (args : List String) : String :=
  match Sexp.parse (joinArgs args) with
  | none => "bad-sexp"
  | some s => match Wire.dQueryDoc s with
    | none => "bad-tree"
    | some d => (Wire.queryDoc d).render

def opEchoS (args : List String) : String :=
  match Sexp.parse (joinArgs args) with
  | none => "bad-sexp"
  | some s => match Wire.dSchemaDoc s with
    | none => "bad-tree"
    | some d => (Wire.schemaDoc d).render

def opEchoL (args : List String) : String :=
  match Sexp.parse (joinArgs args) with
  | none => "bad-sexp"
  | some s => match Wire.dSchema s with
    | none => "bad-tree"
    | some d => (Wire.schema d).render

def wireOps : List (String × (List String → String)) := [("echoq", opEchoQ), ("echos", opEchoS), ("echol", opEchoL)]

end Gql.Ops
