import GqlModel.Validate.Spec.Valid
import GqlModel.Validate.Spec.Links
import GqlModel.Validate.Spec.Diag
import GqlModel.Ops.Validate
/-
  driver ops of the validation SPEC (C08 / C09):
    specvalid <sexp (schema querydoc)>
        → `name=0/1` for every spec predicate (Spec.specVerdicts), then the auxiliary sub-verdicts
          `aux.…=0/1` and the classification hints `diag.…=1` (Spec.Diag), space separated
    linkscheck <sexp (schema querydoc)> <links dump words…>
        → `OK` or the defects, `;` separated, the first one of every (node kind, link) class:
          `MISSING|WRONG,<node kind>,<link>,<start>,<expected>,<got>`
    specall <sexp (schema querydoc)> <links dump words…>
        → `<specvalid reply> # <linkscheck reply>` with one decode (`-` for the second part when no
          dump is given)
-/
namespace Gql.Ops
open Gql Gql.Validate

def renderVerdicts (vs : List (String × Bool)) : String :=
  " ".intercalate (vs.map fun (n, b) => n ++ "=" ++ (if b then "1" else "0"))

def specReply (s : Schema) (d : QueryDoc) : String :=
  " ".intercalate (renderVerdicts (Spec.specVerdicts s d ++ Spec.auxVerdicts s d) :: Spec.diagWords s d)

def opSpecValid (args : List String) : String :=
  match decodePair args with
  | .error m => m
  | .ok (s, d) => specReply s d

/-- split the argument words after the first complete S-expression -/
def splitSexpWords : List String → Int → List String → List String × List String
  | [], _, acc => (acc.reverse, [])
  | w :: rest, depth, acc =>
    let opens := (w.toList.filter (· == '(')).length
    let closes := (w.toList.filter (· == ')')).length
    let depth' := depth + (opens : Int) - (closes : Int)
    if depth' ≤ 0 then ((w :: acc).reverse, rest) else splitSexpWords rest depth' (w :: acc)

def firstPerClass : List String → List String → List String
  | [], acc => acc.reverse
  | p :: rest, acc =>
    let cls := ",".intercalate ((p.splitOn ",").take 3)
    if acc.any (fun q => ",".intercalate ((q.splitOn ",").take 3) == cls) then firstPerClass rest acc
    else firstPerClass rest (p :: acc)

def opLinksCheck (args : List String) : String :=
  let (sx, dump) := splitSexpWords args 0 []
  match decodePair sx with
  | .error m => m
  | .ok (s, d) =>
    match firstPerClass (Spec.linkProblems s d (" ".intercalate dump)) [] with
    | [] => "OK"
    | ps => ";".intercalate ps

def opSpecAll (args : List String) : String :=
  let (sx, dump) := splitSexpWords args 0 []
  match decodePair sx with
  | .error m => m
  | .ok (s, d) =>
    specReply s d ++ " # " ++
      (if dump.isEmpty then "-"
       else match firstPerClass (Spec.linkProblems s d (" ".intercalate dump)) [] with
         | [] => "OK"
         | ps => ";".intercalate ps)

def valSpecOps : List (String × (List String → String)) :=
  [("specvalid", opSpecValid), ("linkscheck", opLinksCheck), ("specall", opSpecAll)]

end Gql.Ops
