import GqlModel.Format.Model
import GqlModel.Ops.WireOps
/-
  Driver ops of the formatter model.
    fmtq  <cfg> <query document sexp>     → hex of the formatted text
    fmtsd <cfg> <schema document sexp>    → hex
    fmts  <cfg> <loaded schema sexp>      → hex
    quote <hex>                           → hex of `goQuote` (strconv.Quote model, default isPrint)
    gqlquote <hex>                        → hex of `gqlQuote`
    isprint <rune>                        → 0/1 (`isPrintDefault`)
  <cfg> = <hex indent>,<builtin 0/1>,<omitDescription 0/1>,<compacted 0/1>
  In the trees, source index 0 means "built-in source" (`Position.Src.BuiltIn`).
-/
namespace Gql.Ops
open Gql Gql.Format

def parseCfg (s : String) : Option Cfg :=
  match s.splitOn "," with
  | [ind, bi, od, cp] => do
    let indent ← fromHex ind
    let flag (x : String) : Option Bool := if x = "1" then some true else if x = "0" then some false else none
    pure { indent := indent, emitBuiltin := ← flag bi, emitComments := false, omitDescription := ← flag od,
           compacted := ← flag cp }
  | _ => none

/-- `<cfgs>` may list several configurations separated by `;`; the reply lists the outputs
    in the same order, separated by `;` (the tree is decoded once). -/
def fmtOp {α} (dec : Sexp → Option α) (f : Cfg → α → Bytes) : List String → String
  | c :: rest =>
    match (c.splitOn ";").mapM parseCfg with
    | none => "bad-cfg"
    | some cfgs =>
      match Sexp.parse (joinArgs rest) with
      | none => "bad-sexp"
      | some s => match dec s with
        | none => "bad-tree"
        | some d => ";".intercalate (cfgs.map fun cfg => toHexW (f cfg d))
  | _ => "bad-args"

def opQuote : List String → String
  | [h] => match fromHex h with
    | some bs => toHexW (goQuote bs)
    | none => "bad-hex"
  | _ => "bad-args"

def opGqlQuote : List String → String
  | [h] => match fromHex h with
    | some bs => toHexW (gqlQuote bs)
    | none => "bad-hex"
  | _ => "bad-args"

def opIsPrint : List String → String
  | [n] => match n.toNat? with
    | some r => if isPrintDefault r then "1" else "0"
    | none => "bad-args"
  | _ => "bad-args"

def formatOps : List (String × (List String → String)) :=
  [("fmtq", fmtOp Wire.dQueryDoc fmtQuery), ("fmtsd", fmtOp Wire.dSchemaDoc fmtSchemaDoc),
   ("fmts", fmtOp Wire.dSchema fmtSchema), ("quote", opQuote), ("gqlquote", opGqlQuote),
   ("isprint", opIsPrint)]

end Gql.Ops
