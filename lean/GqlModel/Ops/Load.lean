import GqlModel.Ops.WireOps
import GqlModel.Schema.Model
import GqlModel.Schema.Spec
import GqlModel.Schema.Merged
/- driver op `load <S-expression of the merged SchemaDoc>` -/
namespace Gql.Ops
open Gql Gql.Load

def sortByKey {α} (xs : List (Name × α)) : List (Name × α) := xs.mergeSort (fun a b => bytesLe a.1 b.1)

/-- canonical form: maps sorted by key (as Go's observer does with `sort.Strings`) -/
def canonSchema (s : Schema) : Schema :=
  { s with types := sortByKey s.types, directives := sortByKey s.directives,
           possibleTypes := sortByKey s.possibleTypes, implements := sortByKey s.implements }

def renderErr (e : LoadError) : String :=
  "E," ++ toString e.line ++ "," ++ toString e.col ++ "," ++ toString e.src ++ "," ++ toHexW e.msg

def renderLoad : LoadResult → String
  | .ok s => (Wire.schema (canonSchema s)).render
  | .err e => renderErr e
  | .panic => "PANIC"

def opLoad (args : List String) : String :=
  match Sexp.parse (joinArgs args) with
  | none => "bad-sexp"
  | some s => match Wire.dSchemaDoc s with
    | none => "bad-tree"
    | some d => renderLoad (load d)

def renderClauses (cs : List (String × Bool)) : String :=
  " ".intercalate (cs.map fun (n, v) => n ++ "=" ++ (if v then "1" else "0"))

/-- `wf <schemadoc sexp>`: verdict of every clause of `Spec.WellFormed` -/
def opWf (args : List String) : String :=
  match Sexp.parse (joinArgs args) with
  | none => "bad-sexp"
  | some s => match Wire.dSchemaDoc s with
    | none => "bad-tree"
    | some d => renderClauses (Spec.clauses d)

/-- `closed <loaded schema sexp>`: verdict of every clause of `Closed`, `RelationsExact`, `HasBuiltins`,
    `IntrospectionFields` on a loaded schema (the harness sends the REAL loader's output) -/
def opClosed (args : List String) : String :=
  match Sexp.parse (joinArgs args) with
  | none => "bad-sexp"
  | some s => match Wire.dSchema s with
    | none => "bad-tree"
    | some d => renderClauses (Spec.loadedClauses d)

/-- `merged <schemadoc sexp>`: verdict of every condition of `Spec.mergedClauses` (the hypothesis
    `MergedDoc` of the completeness theorem) on a document the real parser merged -/
def opMerged (args : List String) : String :=
  match Sexp.parse (joinArgs args) with
  | none => "bad-sexp"
  | some s => match Wire.dSchemaDoc s with
    | none => "bad-tree"
    | some d => renderClauses (Spec.mergedClauses d)

def loadOps : List (String × (List String → String)) :=
  [("load", opLoad), ("wf", opWf), ("closed", opClosed), ("merged", opMerged)]

end Gql.Ops
