import GqlModel.Validate.Rules
import GqlModel.Ops.WireOps
/-
  driver ops of the validation layer:
    validate <rules> <sexp (schema querydoc)>   rules = `default` | comma-separated rule names
        → `OK` | errors joined by `;`, each `<hex rule>,<hex message>,<line>:<col>|<line>:<col>…`
          | `PANIC,<hex>` | `OUTOFFUEL` | `UNKNOWN-RULE,<name>`
    links <sexp (schema querydoc)>     → canonical link dump (Annot.linkDump)
    events <sexp (schema querydoc)>    → `kind@start` of every observer call in walk order, comma separated
    validatelinks <rules> <sexp>       → `<validate reply> # <links reply> # <events reply>` (one decode)
-/
namespace Gql.Ops
open Gql Gql.Validate

def decodePair (args : List String) : Except String (Schema × QueryDoc) :=
  match Sexp.parse (joinArgs args) with
  | some (.list [a, b]) =>
    match Wire.dSchema a, Wire.dQueryDoc b with
    | some s, some d => .ok (s, d)
    | none, _ => .error "bad-schema"
    | _, none => .error "bad-doc"
  | _ => .error "bad-sexp"

def renderVErr (e : Err) : String :=
  toHexW e.rule ++ "," ++ toHexW e.msg ++ "," ++
    "|".intercalate (e.locs.map fun (l, c) => toString l ++ ":" ++ toString c)

def resolveRules (spec : String) : Except String (List Rule) :=
  if spec = "default" then .ok defaultRules
  else (spec.splitOn ",").mapM fun n =>
    match ruleByName n with
    | some r => .ok r
    | none => .error ("UNKNOWN-RULE," ++ n)

def opValidate (args : List String) : String :=
  match args with
  | [] => "bad-args"
  | spec :: rest =>
    match resolveRules spec with
    | .error m => m
    | .ok rules =>
      match decodePair rest with
      | .error m => m
      | .ok (s, d) =>
        match validate rules s d with
        | .ok [] => "OK"
        | .ok errs => ";".intercalate (errs.map renderVErr)
        | .panic m => "PANIC," ++ toHexW m
        | .outOfFuel => "OUTOFFUEL"

def opLinks (args : List String) : String :=
  match decodePair args with
  | .error m => m
  | .ok (s, d) =>
    match walkDoc s.view d with
    | none => "OUTOFFUEL"
    | some evs => linkDump evs

def opEvents (args : List String) : String :=
  match decodePair args with
  | .error m => m
  | .ok (s, d) =>
    match walkDoc s.view d with
    | none => "OUTOFFUEL"
    | some evs => ",".intercalate (evs.map Event.tag)

/-- `validatelinks <rules> <sexp>` → `<validate reply> # <links reply> # <events reply>` -/
def opValidateLinks (args : List String) : String :=
  match args with
  | [] => "bad-args"
  | spec :: rest =>
    match resolveRules spec with
    | .error m => m
    | .ok rules =>
      match decodePair rest with
      | .error m => m
      | .ok (s, d) =>
        match walkDoc s.view d with
        | none => "OUTOFFUEL"
        | some evs =>
          let v := match runAll s.view d (rules.map Rule.start) evs with
            | .ok [] => "OK"
            | .ok errs => ";".intercalate (errs.map renderVErr)
            | .error m => "PANIC," ++ toHexW m
          v ++ " # " ++ linkDump evs ++ " # " ++ ",".intercalate (evs.map Event.tag)

def validateOps : List (String × (List String → String)) :=
  [("validate", opValidate), ("links", opLinks), ("events", opEvents), ("validatelinks", opValidateLinks)]

end Gql.Ops
