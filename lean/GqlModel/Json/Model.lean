import GqlModel.Json.Json
import GqlModel.Syntax.Ast
/-
  JSON encoding and decoding of executable documents (property C19).

  * `enc…`  : what `json.Marshal` does with the `ast` node types: default struct encoding — one
    object per struct, fields in declaration order under their Go names, `json:"-"` fields
    (every `Position`) left out, nil slices and nil pointers as `null`, a `Selection` interface
    value as the object of its concrete struct WITHOUT a type tag.  The "Require validation"
    link fields (`Definition`, `ObjectDefinition`, `ParentDefinition`, `VariableDefinition`,
    `ExpectedType`) and `Comment` are nil in the documents of the model (parsed, not validated,
    comment-free), so they encode as `null`; `Directive.Location` is "" and
    `VariableDefinition.Used` is false.
  * `dec…`  : /repo/ast/decode.go — `UnmarshalSelectionSet` and the four `UnmarshalJSON`
    (each a loop over the keys of the object, one `switch` case per known key, unknown keys
    ignored, an error of any case aborts) — and the default struct decoding of `encoding/json`
    for the node types without a custom decoder (`QueryDocument`, `FragmentSpread`, `Argument`,
    `Directive`, `Value`, `ChildValue`, `VariableDefinition`, `Type`): `null` leaves the target
    untouched, a JSON value of the wrong type is an error.

  Domain of the decoder model (everything `enc…` produces is inside): keys are matched exactly
  (the case-folding fallback of default struct decoding is not modelled), an object has no
  duplicate keys (Go keeps the last one in the four map-based decoders and merges in the default
  struct decoders), numbers are integer literals, and shapes the tree type cannot hold (`null`
  list elements = nil pointers, a missing `Type`/`Value`, a `Kind` outside 0..9, an OBJECT under a
  link key or under `Comment`/`Position`: `decLink`) are reported as the error `unmodelled`.  Check C19 compares the decoder with the real one on
  hand-written and mutated JSON inside this domain (op `jsondec`).

  How a selection object is classified lives in ONE place: `currentDisc`.
-/
namespace Gql.Json
open Gql

/- ---------------- keys ---------------- -/
def kAlias := str "Alias"
def kName := str "Name"
def kArguments := str "Arguments"
def kDirectives := str "Directives"
def kSelectionSet := str "SelectionSet"
def kComment := str "Comment"
def kDefinition := str "Definition"
def kObjectDefinition := str "ObjectDefinition"
def kParentDefinition := str "ParentDefinition"
def kLocation := str "Location"
def kValue := str "Value"
def kRaw := str "Raw"
def kChildren := str "Children"
def kKind := str "Kind"
def kVariableDefinition := str "VariableDefinition"
def kVariableDefinitions := str "VariableDefinitions"
def kExpectedType := str "ExpectedType"
def kTypeCondition := str "TypeCondition"
def kOperation := str "Operation"
def kOperations := str "Operations"
def kFragments := str "Fragments"
def kVariable := str "Variable"
def kType := str "Type"
def kDefaultValue := str "DefaultValue"
def kUsed := str "Used"
def kNamedType := str "NamedType"
def kElem := str "Elem"
def kNonNull := str "NonNull"
def kPosition := str "Position"

def mkObj (kvs : List (Bytes × Json)) : Json := .obj (JFields.ofList kvs)

/-- a Go slice: nil (nothing appended) encodes as `null` -/
def nullIfEmpty : JList → Json
  | .nil => .null
  | .cons x rest => .arr (.cons x rest)

/-- a Go string, as handed to `json.Marshal` (which writes ill-formed bytes as `\ufffd`: see
    `renderString`; reading the text back gives `sanitize b`: see `decString`) -/
def encStr (b : Bytes) : Json := .str b

/- ---------------- encoding ---------------- -/

def encType : GType → Json
  | .named n nn _ => mkObj [(kNamedType, encStr n), (kElem, .null), (kNonNull, .bool nn)]
  | .list e nn _ => mkObj [(kNamedType, encStr []), (kElem, encType e), (kNonNull, .bool nn)]

mutual
  def encValue : Value → Json
    | .mk k raw ch _ =>
      mkObj [(kRaw, encStr raw), (kChildren, nullIfEmpty (encChildren ch)), (kKind, .num k.toNat),
             (kComment, .null), (kDefinition, .null), (kVariableDefinition, .null), (kExpectedType, .null)]
  def encChildren : Children → JList
    | .nil => .nil
    | .cons n v _ rest =>
      .cons (mkObj [(kName, encStr n), (kValue, encValue v), (kComment, .null)]) (encChildren rest)
end

def encArgument (a : Argument) : Json :=
  mkObj [(kName, encStr a.name), (kValue, encValue a.value), (kComment, .null)]

def encArgs (as : List Argument) : Json := nullIfEmpty (JList.ofList (as.map encArgument))

def encDirective (d : Directive) : Json :=
  mkObj [(kName, encStr d.name), (kArguments, encArgs d.args), (kParentDefinition, .null),
         (kDefinition, .null), (kLocation, .str [])]

def encDirs (ds : List Directive) : Json := nullIfEmpty (JList.ofList (ds.map encDirective))

mutual
  def encSelection : Selection → Json
    | .field al nm args ds sel _ =>
      mkObj [(kAlias, encStr al), (kName, encStr nm), (kArguments, encArgs args), (kDirectives, encDirs ds),
             (kSelectionSet, nullIfEmpty (encSelections sel)), (kComment, .null), (kDefinition, .null),
             (kObjectDefinition, .null)]
    | .spread nm ds _ =>
      mkObj [(kName, encStr nm), (kDirectives, encDirs ds), (kObjectDefinition, .null), (kDefinition, .null),
             (kComment, .null)]
    | .inline tc ds sel _ =>
      mkObj [(kTypeCondition, encStr tc), (kDirectives, encDirs ds),
             (kSelectionSet, nullIfEmpty (encSelections sel)), (kObjectDefinition, .null), (kComment, .null)]
  def encSelections : Selections → JList
    | .nil => .nil
    | .cons s rest => .cons (encSelection s) (encSelections rest)
end

def encOptValue : Option Value → Json
  | none => .null
  | some v => encValue v

def encVarDef (v : VarDef) : Json :=
  mkObj [(kVariable, encStr v.var), (kType, encType v.type), (kDefaultValue, encOptValue v.default),
         (kDirectives, encDirs v.dirs), (kComment, .null), (kDefinition, .null), (kUsed, .bool false)]

def encVarDefs (vs : List VarDef) : Json := nullIfEmpty (JList.ofList (vs.map encVarDef))

def encOperation (o : OperationDef) : Json :=
  mkObj [(kOperation, encStr o.op), (kName, encStr o.name), (kVariableDefinitions, encVarDefs o.vars),
         (kDirectives, encDirs o.dirs), (kSelectionSet, nullIfEmpty (encSelections o.sel)), (kComment, .null)]

def encFragment (f : FragmentDef) : Json :=
  mkObj [(kName, encStr f.name), (kVariableDefinition, encVarDefs f.vars), (kTypeCondition, encStr f.typeCond),
         (kDirectives, encDirs f.dirs), (kSelectionSet, nullIfEmpty (encSelections f.sel)), (kDefinition, .null),
         (kComment, .null)]

/-- `json.Marshal(doc)` for a parsed `*ast.QueryDocument` -/
def encodeQueryDoc (d : QueryDoc) : Json :=
  mkObj [(kOperations, nullIfEmpty (JList.ofList (d.ops.map encOperation))),
         (kFragments, nullIfEmpty (JList.ofList (d.frags.map encFragment))), (kComment, .null)]

/- ---------------- decoding: leaves ---------------- -/

abbrev Dec (α : Type) := Except String α

def errType : String := "type-mismatch"
def errUnmodelled : String := "unmodelled"

/-- a Go `string` target: `null` leaves the current value.  A `Json.str` holds the bytes of the Go
    string that was marshalled; the JSON text in between carries its coercion to valid UTF-8, which
    is what the decoder reads. -/
def decString (cur : Bytes) : Json → Dec Bytes
  | .null => .ok cur
  | .str s => .ok (sanitize s)
  | _ => .error errType

def decBool (cur : Bool) : Json → Dec Bool
  | .null => .ok cur
  | .bool b => .ok b
  | _ => .error errType

def kindOfNat (n : Nat) : Option ValueKind :=
  [ValueKind.variable, .int, .float, .string, .block, .boolean, .null, .enum, .list, .object][n]?

/-- `ValueKind` is an `int`; only the ten declared kinds fit the tree type -/
def decKind (cur : ValueKind) : Json → Dec ValueKind
  | .null => .ok cur
  | .num i => if i < 0 then .error errUnmodelled else
      match kindOfNat i.toNat with
      | some k => .ok k
      | none => .error errUnmodelled
  | _ => .error errType

/-- one element of a slice of pointers: a `null` element is a nil pointer, which the tree type
    cannot hold -/
def decElem {α} (f : Json → Dec α) : Json → Dec α
  | .null => .error errUnmodelled
  | x => f x

/-- a slice of pointers decoded element by element: `null` → nil slice -/
def decList {α} (f : Json → Dec α) : Json → Dec (List α)
  | .null => .ok []
  | .arr xs => xs.toList.mapM (decElem f)
  | _ => .error errType

/-- a pointer to a struct the tree type does not hold — the validation links (`Definition`,
    `ObjectDefinition`, `ParentDefinition`, `VariableDefinition` of a value, `ExpectedType`), `Comment`,
    and `Position` in the four hand-written decoders (default struct decoding skips it: `json:"-"`):
    `null` → nil; an object would be decoded into the struct (not modelled); anything else is a type
    error -/
def decLink : Json → Dec Unit
  | .null => .ok ()
  | .obj _ => .error errUnmodelled
  | _ => .error errType

/-- Go `Type{NamedType, Elem, NonNull}` as the tree sees it (`Sx.Type` of the harness) -/
def mkType (named : Bytes) (elem : Option GType) (nn : Bool) : GType :=
  match elem with
  | none => .named named nn Pos.zero
  | some e => if named ≠ [] then .named named nn Pos.zero else .list e nn Pos.zero

mutual
  /-- `*Type` target: `null` → nil -/
  def decType : Json → Dec (Option GType)
    | .null => .ok none
    | .obj kvs => do
      let (nm, el, nn) ← decTypeKeys kvs ([], none, false)
      pure (some (mkType nm el nn))
    | _ => .error errType
  def decTypeKeys : JFields → Bytes × Option GType × Bool → Dec (Bytes × Option GType × Bool)
    | .nil, acc => .ok acc
    | .cons k v rest, (nm, el, nn) =>
      if k = kNamedType then do let nm' ← decString nm v; decTypeKeys rest (nm', el, nn)
      else if k = kElem then do let el' ← decType v; decTypeKeys rest (nm, el', nn)
      else if k = kNonNull then do let nn' ← decBool nn v; decTypeKeys rest (nm, el, nn')
      else decTypeKeys rest (nm, el, nn)
end

mutual
  /-- `*Value` target -/
  def decValue : Json → Dec (Option Value)
    | .null => .ok none
    | .obj kvs => do
      let (raw, ch, k) ← decValueKeys kvs ([], .nil, .variable)
      pure (some (.mk k raw ch Pos.zero))
    | _ => .error errType
  def decValueKeys : JFields → Bytes × Children × ValueKind → Dec (Bytes × Children × ValueKind)
    | .nil, acc => .ok acc
    | .cons k v rest, (raw, ch, kd) =>
      if k = kRaw then do let raw' ← decString raw v; decValueKeys rest (raw', ch, kd)
      else if k = kChildren then do let ch' ← decChildren v; decValueKeys rest (raw, ch', kd)
      else if k = kKind then do let kd' ← decKind kd v; decValueKeys rest (raw, ch, kd')
      else if k = kComment ∨ k = kDefinition ∨ k = kVariableDefinition ∨ k = kExpectedType then do
        let _ ← decLink v
        decValueKeys rest (raw, ch, kd)
      else decValueKeys rest (raw, ch, kd)
  /-- `ChildValueList` target -/
  def decChildren : Json → Dec Children
    | .null => .ok .nil
    | .arr xs => decChildItems xs
    | _ => .error errType
  def decChildItems : JList → Dec Children
    | .nil => .ok .nil
    | .cons x rest => do
      let (nm, v) ← decChild x
      let r ← decChildItems rest
      pure (.cons nm v Pos.zero r)
  /-- `*ChildValue` element -/
  def decChild : Json → Dec (Name × Value)
    | .obj kvs => do
      let (nm, v) ← decChildKeys kvs ([], none)
      match v with
      | some v => pure (nm, v)
      | none => .error errUnmodelled
    | .null => .error errUnmodelled
    | _ => .error errType
  def decChildKeys : JFields → Name × Option Value → Dec (Name × Option Value)
    | .nil, acc => .ok acc
    | .cons k v rest, (nm, val) =>
      if k = kName then do let nm' ← decString nm v; decChildKeys rest (nm', val)
      else if k = kValue then do let val' ← decValue v; decChildKeys rest (nm, val')
      else if k = kComment then do let _ ← decLink v; decChildKeys rest (nm, val)
      else decChildKeys rest (nm, val)
end

def decArgumentKeys : JFields → Name × Option Value → Dec (Name × Option Value)
  | .nil, acc => .ok acc
  | .cons k v rest, (nm, val) =>
    if k = kName then do let nm' ← decString nm v; decArgumentKeys rest (nm', val)
    else if k = kValue then do let val' ← decValue v; decArgumentKeys rest (nm, val')
    else if k = kComment then do let _ ← decLink v; decArgumentKeys rest (nm, val)
    else decArgumentKeys rest (nm, val)

def decArgument : Json → Dec Argument
  | .obj kvs => do
    let (nm, v) ← decArgumentKeys kvs ([], none)
    match v with
    | some v => pure { name := nm, value := v, pos := Pos.zero }
    | none => .error errUnmodelled
  | _ => .error errType

def decArgs : Json → Dec (List Argument) := decList decArgument

def decDirectiveKeys : JFields → Name × List Argument → Dec (Name × List Argument)
  | .nil, acc => .ok acc
  | .cons k v rest, (nm, args) =>
    if k = kName then do let nm' ← decString nm v; decDirectiveKeys rest (nm', args)
    else if k = kArguments then do let args' ← decArgs v; decDirectiveKeys rest (nm, args')
    else if k = kLocation then do let _ ← decString [] v; decDirectiveKeys rest (nm, args)
    else if k = kParentDefinition ∨ k = kDefinition then do let _ ← decLink v; decDirectiveKeys rest (nm, args)
    else decDirectiveKeys rest (nm, args)

def decDirective : Json → Dec Directive
  | .obj kvs => do
    let (nm, args) ← decDirectiveKeys kvs ([], [])
    pure { name := nm, args := args, pos := Pos.zero }
  | _ => .error errType

def decDirs : Json → Dec (List Directive) := decList decDirective

/- ---------------- decoding: selections ---------------- -/

inductive SelKind
  | field | spread | inline
  deriving DecidableEq, Repr

/-- A discriminator lists, for one element of a `SelectionSet` array, the decoders that
    `UnmarshalSelectionSet` tries, in order; the first that returns no error wins, and an
    element every listed decoder rejects is dropped without an error. -/
abbrev Disc := Json → List SelKind

/-- HISTORY — /repo/ast/decode.go before the commit "JSON-decoded selections keep their kind":
    `Field`, then `FragmentSpread`, then `InlineFragment` (the first never fails on an object). -/
def legacyDisc : Disc := fun _ => [.field, .spread, .inline]

/-- /repo/ast/decode.go as it stands (`UnmarshalSelectionSet`): the item is first decoded into
    `keys map[string]json.RawMessage` (error ignored), then ONE decoder is chosen —
    `keys["Alias"]` present, or `keys == nil` (the item is `null` or not a JSON object) ⇒ `Field`;
    else `keys["TypeCondition"]` present ⇒ `InlineFragment`; else ⇒ `FragmentSpread`.  An item the
    chosen decoder rejects is dropped (`pick` on a one-element list). -/
def repairedDisc : Disc
  | .obj kvs =>
    if kvs.hasKey kAlias then [.field]
    else if kvs.hasKey kTypeCondition then [.inline]
    else [.spread]
  | _ => [.field]

/-- THE discriminator of the modelled code. -/
def currentDisc : Disc := repairedDisc

structure FieldAcc where
  alias : Name := []
  name : Name := []
  args : List Argument := []
  dirs : List Directive := []
  sel : Selections := .nil

def FieldAcc.toSel (a : FieldAcc) : Selection := .field a.alias a.name a.args a.dirs a.sel Pos.zero

structure InlineAcc where
  typeCond : Name := []
  dirs : List Directive := []
  sel : Selections := .nil

def InlineAcc.toSel (a : InlineAcc) : Selection := .inline a.typeCond a.dirs a.sel Pos.zero

/-- default struct decoding of `FragmentSpread` -/
def decSpreadKeys : JFields → Name × List Directive → Dec (Name × List Directive)
  | .nil, acc => .ok acc
  | .cons k v rest, (nm, ds) =>
    if k = kName then do let nm' ← decString nm v; decSpreadKeys rest (nm', ds)
    else if k = kDirectives then do let ds' ← decDirs v; decSpreadKeys rest (nm, ds')
    else if k = kObjectDefinition ∨ k = kDefinition ∨ k = kComment then do
      let _ ← decLink v
      decSpreadKeys rest (nm, ds)
    else decSpreadKeys rest (nm, ds)

def spreadOf (r : Name × List Directive) : Selection := .spread r.1 r.2 Pos.zero

/-- first listed decoder that succeeds -/
def pick (order : List SelKind) (f s i : Unit → Dec Selection) : Option Selection :=
  match order with
  | [] => none
  | k :: rest =>
    let r := match k with
      | .field => f ()
      | .spread => s ()
      | .inline => i ()
    match r with
    | .ok sel => some sel
    | .error _ => pick rest f s i

/-- `result = append(result, &x)` when some decoder accepted the item, `continue` otherwise -/
def consOpt : Option Selection → Selections → Selections
  | some s, rest => .cons s rest
  | none, rest => rest

mutual
  /-- `UnmarshalSelectionSet` -/
  def decSelectionSet (disc : Disc) : Json → Dec Selections
    | .null => .ok .nil
    | .arr xs => .ok (decSelItems disc xs)
    | _ => .error errType
  /-- the loop over the raw items -/
  def decSelItems (disc : Disc) : JList → Selections
    | .nil => .nil
    | .cons (.obj kvs) rest =>
      consOpt
        (pick (disc (.obj kvs))
          (fun _ => (decFieldKeys disc kvs {}).map FieldAcc.toSel)
          (fun _ => (decSpreadKeys kvs ([], [])).map spreadOf)
          (fun _ => (decInlineKeys disc kvs {}).map InlineAcc.toSel))
        (decSelItems disc rest)
    | .cons .null rest =>
      -- `null` reaches every decoder as "no keys"
      consOpt
        (pick (disc .null) (fun _ => .ok (FieldAcc.toSel {})) (fun _ => .ok (spreadOf ([], [])))
          (fun _ => .ok (InlineAcc.toSel {})))
        (decSelItems disc rest)
    | .cons (.bool _) rest => decSelItems disc rest
    | .cons (.num _) rest => decSelItems disc rest
    | .cons (.str _) rest => decSelItems disc rest
    | .cons (.arr _) rest => decSelItems disc rest
  /-- `(*Field).UnmarshalJSON`: `for k := range tmp { switch k { … } }` -/
  def decFieldKeys (disc : Disc) : JFields → FieldAcc → Dec FieldAcc
    | .nil, acc => .ok acc
    | .cons k v rest, acc =>
      if k = kAlias then do let x ← decString acc.alias v; decFieldKeys disc rest { acc with alias := x }
      else if k = kName then do let x ← decString acc.name v; decFieldKeys disc rest { acc with name := x }
      else if k = kArguments then do let x ← decArgs v; decFieldKeys disc rest { acc with args := x }
      else if k = kDirectives then do let x ← decDirs v; decFieldKeys disc rest { acc with dirs := x }
      else if k = kSelectionSet then do
        let x ← decSelectionSet disc v
        decFieldKeys disc rest { acc with sel := x }
      else if k = kPosition ∨ k = kDefinition ∨ k = kObjectDefinition then do
        let _ ← decLink v
        decFieldKeys disc rest acc
      else decFieldKeys disc rest acc
  /-- `(*InlineFragment).UnmarshalJSON` -/
  def decInlineKeys (disc : Disc) : JFields → InlineAcc → Dec InlineAcc
    | .nil, acc => .ok acc
    | .cons k v rest, acc =>
      if k = kTypeCondition then do
        let x ← decString acc.typeCond v
        decInlineKeys disc rest { acc with typeCond := x }
      else if k = kDirectives then do let x ← decDirs v; decInlineKeys disc rest { acc with dirs := x }
      else if k = kSelectionSet then do
        let x ← decSelectionSet disc v
        decInlineKeys disc rest { acc with sel := x }
      else if k = kObjectDefinition ∨ k = kPosition then do
        let _ ← decLink v
        decInlineKeys disc rest acc
      else decInlineKeys disc rest acc
end

/- ---------------- decoding: definitions and the document ---------------- -/

structure VarDefAcc where
  var : Name := []
  type : Option GType := none
  default : Option Value := none
  dirs : List Directive := []

def decVarDefKeys : JFields → VarDefAcc → Dec VarDefAcc
  | .nil, acc => .ok acc
  | .cons k v rest, acc =>
    if k = kVariable then do let x ← decString acc.var v; decVarDefKeys rest { acc with var := x }
    else if k = kType then do let x ← decType v; decVarDefKeys rest { acc with type := x }
    else if k = kDefaultValue then do let x ← decValue v; decVarDefKeys rest { acc with default := x }
    else if k = kDirectives then do let x ← decDirs v; decVarDefKeys rest { acc with dirs := x }
    else if k = kUsed then do let _ ← decBool false v; decVarDefKeys rest acc
    else if k = kComment ∨ k = kDefinition then do let _ ← decLink v; decVarDefKeys rest acc
    else decVarDefKeys rest acc

def decVarDef : Json → Dec VarDef
  | .obj kvs => do
    let a ← decVarDefKeys kvs {}
    match a.type with
    | some t => pure { var := a.var, type := t, default := a.default, dirs := a.dirs, pos := Pos.zero }
    | none => .error errUnmodelled
  | _ => .error errType

def decVarDefs : Json → Dec (List VarDef) := decList decVarDef

/-- `(*OperationDefinition).UnmarshalJSON` -/
def decOperationKeys (disc : Disc) : JFields → OperationDef → Dec OperationDef
  | .nil, acc => .ok acc
  | .cons k v rest, acc =>
    if k = kOperation then do let x ← decString acc.op v; decOperationKeys disc rest { acc with op := x }
    else if k = kName then do let x ← decString acc.name v; decOperationKeys disc rest { acc with name := x }
    else if k = kVariableDefinitions then do
      let x ← decVarDefs v
      decOperationKeys disc rest { acc with vars := x }
    else if k = kDirectives then do let x ← decDirs v; decOperationKeys disc rest { acc with dirs := x }
    else if k = kSelectionSet then do
      let x ← decSelectionSet disc v
      decOperationKeys disc rest { acc with sel := x }
    else if k = kPosition then do let _ ← decLink v; decOperationKeys disc rest acc
    else decOperationKeys disc rest acc

def emptyOperation : OperationDef := { op := [], name := [], vars := [], dirs := [], sel := .nil, pos := Pos.zero }

def decOperation (disc : Disc) : Json → Dec OperationDef
  | .obj kvs => decOperationKeys disc kvs emptyOperation
  | _ => .error errType

/-- `(*FragmentDefinition).UnmarshalJSON` -/
def decFragmentKeys (disc : Disc) : JFields → FragmentDef → Dec FragmentDef
  | .nil, acc => .ok acc
  | .cons k v rest, acc =>
    if k = kName then do let x ← decString acc.name v; decFragmentKeys disc rest { acc with name := x }
    else if k = kVariableDefinition then do
      let x ← decVarDefs v
      decFragmentKeys disc rest { acc with vars := x }
    else if k = kTypeCondition then do
      let x ← decString acc.typeCond v
      decFragmentKeys disc rest { acc with typeCond := x }
    else if k = kDirectives then do let x ← decDirs v; decFragmentKeys disc rest { acc with dirs := x }
    else if k = kSelectionSet then do
      let x ← decSelectionSet disc v
      decFragmentKeys disc rest { acc with sel := x }
    else if k = kDefinition ∨ k = kPosition then do let _ ← decLink v; decFragmentKeys disc rest acc
    else decFragmentKeys disc rest acc

def emptyFragment : FragmentDef :=
  { name := [], vars := [], typeCond := [], dirs := [], sel := .nil, pos := Pos.zero }

def decFragment (disc : Disc) : Json → Dec FragmentDef
  | .obj kvs => decFragmentKeys disc kvs emptyFragment
  | _ => .error errType

def decDocKeys (disc : Disc) : JFields → QueryDoc → Dec QueryDoc
  | .nil, acc => .ok acc
  | .cons k v rest, acc =>
    if k = kOperations then do
      let x ← decList (decOperation disc) v
      decDocKeys disc rest { acc with ops := x }
    else if k = kFragments then do
      let x ← decList (decFragment disc) v
      decDocKeys disc rest { acc with frags := x }
    else if k = kComment then do let _ ← decLink v; decDocKeys disc rest acc
    else decDocKeys disc rest acc

/-- `json.Unmarshal(data, &doc)` with `doc` a fresh `ast.QueryDocument` -/
def decodeQueryDocWith (disc : Disc) : Json → Dec QueryDoc
  | .null => .ok { ops := [], frags := [] }
  | .obj kvs => decDocKeys disc kvs { ops := [], frags := [] }
  | _ => .error errType

/-- the decoder of the modelled code -/
def decodeQueryDoc : Json → Dec QueryDoc := decodeQueryDocWith currentDisc

/-- one selection alone (an array of one element) -/
def decodeSelectionRepaired (j : Json) : Option Selection :=
  match decSelItems repairedDisc (.cons j .nil) with
  | .cons s _ => some s
  | .nil => none

def decodeSelectionLegacy (j : Json) : Option Selection :=
  match decSelItems legacyDisc (.cons j .nil) with
  | .cons s _ => some s
  | .nil => none

end Gql.Json
