import GqlModel.Basic.Bytes
import GqlModel.Basic.Utf8
/-
  A small JSON value type and the text `encoding/json` (`json.Marshal`, Go 1.23, HTML escaping
  on) writes for it.  Objects are ordered association lists (struct encoding writes the fields in
  declaration order; `map[string]…` values are written with sorted keys — the caller sorts).
  Lists inside the recursive type are explicit mutual cons-lists (as in `Syntax/Ast.lean`) so that
  structural recursion and mutual induction stay available.

  Numbers: only integers are ever *written* by the modelled code (`ValueKind`, `PathIndex`,
  `Location.Line/Column`).  What happens when such a number is *read back* through a `float64`
  (`Path.UnmarshalJSON`) is modelled in `GqlModel/Errors.lean` (`float64OfInt`).

  Strings: a Go string is an arbitrary byte string; `json.Marshal` coerces it to valid UTF-8
  (every ill-formed byte becomes U+FFFD).  `sanitize` is that coercion; `Json.str` values hold the
  bytes as given and `renderString` escapes them exactly as `encodeState.string` does, so
  `renderString bs` and `renderString (sanitize bs)` denote the same JSON string.
-/
namespace Gql.Json
open Gql

mutual
  inductive Json
    | null
    | bool (b : Bool)
    | num (i : Int)
    | str (s : Bytes)
    | arr (xs : JList)
    | obj (kvs : JFields)
  inductive JList
    | nil
    | cons (x : Json) (rest : JList)
  inductive JFields
    | nil
    | cons (k : Bytes) (v : Json) (rest : JFields)
end

instance : Inhabited Json := ⟨.null⟩
instance : Inhabited JList := ⟨.nil⟩
instance : Inhabited JFields := ⟨.nil⟩

def JList.ofList : List Json → JList
  | [] => .nil
  | x :: rest => .cons x (JList.ofList rest)

def JList.toList : JList → List Json
  | .nil => []
  | .cons x rest => x :: rest.toList

def JFields.ofList : List (Bytes × Json) → JFields
  | [] => .nil
  | (k, v) :: rest => .cons k v (JFields.ofList rest)

def JFields.toList : JFields → List (Bytes × Json)
  | .nil => []
  | .cons k v rest => (k, v) :: rest.toList

/-- does the object have the key (exact, case-sensitive match) -/
def JFields.hasKey (k : Bytes) : JFields → Bool
  | .nil => false
  | .cons k' _ rest => k' == k || rest.hasKey k

/-- value of the LAST occurrence of a key (what decoding into a Go map keeps) -/
def JFields.get? (k : Bytes) : JFields → Option Json
  | .nil => none
  | .cons k' v rest =>
    match rest.get? k with
    | some v' => some v'
    | none => if k' == k then some v else none

/- ---------------- strings ---------------- -/

/-- `string([]rune(s))`-style coercion to valid UTF-8 done by `json.Marshal` on every string:
    each ill-formed byte is replaced by U+FFFD (EF BF BD). -/
def sanitizeFuel : Nat → Bytes → Bytes
  | 0, _ => []
  | _, [] => []
  | fuel + 1, b :: rest =>
    let (r, w) := decodeRune (b :: rest)
    if r = runeError ∧ w ≤ 1 then [0xEF, 0xBF, 0xBD] ++ sanitizeFuel fuel rest
    else (b :: rest).take w ++ sanitizeFuel fuel ((b :: rest).drop w)

def sanitize (bs : Bytes) : Bytes := sanitizeFuel bs.length bs

def hex4 (n : Nat) : Bytes :=
  let d (x : Nat) : Nat := if x < 10 then 48 + x else 87 + x
  [d (n / 4096 % 16), d (n / 256 % 16), d (n / 16 % 16), d (n % 16)]

/-- body of `encodeState.string` (escapeHTML = true) -/
def escapeFuel : Nat → Bytes → Bytes
  | 0, _ => []
  | _, [] => []
  | fuel + 1, b :: rest =>
    if b < 0x80 then
      (if b = 0x22 then [0x5C, 0x22]                      -- \"
       else if b = 0x5C then [0x5C, 0x5C]                 -- \\
       else if b = 0x08 then [0x5C, 0x62]                 -- \b
       else if b = 0x0C then [0x5C, 0x66]                 -- \f
       else if b = 0x0A then [0x5C, 0x6E]                 -- \n
       else if b = 0x0D then [0x5C, 0x72]                 -- \r
       else if b = 0x09 then [0x5C, 0x74]                 -- \t
       else if b < 0x20 ∨ b = 0x3C ∨ b = 0x3E ∨ b = 0x26 then [0x5C, 0x75] ++ hex4 b   -- \u00XX, < > &
       else [b]) ++ escapeFuel fuel rest
    else
      let (r, w) := decodeRune (b :: rest)
      if r = runeError ∧ w ≤ 1 then str "\\ufffd" ++ escapeFuel fuel rest
      else if r = 0x2028 ∨ r = 0x2029 then [0x5C, 0x75] ++ hex4 r ++ escapeFuel fuel ((b :: rest).drop w)
      else (b :: rest).take w ++ escapeFuel fuel ((b :: rest).drop w)

def renderString (bs : Bytes) : Bytes := 0x22 :: escapeFuel bs.length bs ++ [0x22]

/- ---------------- values ---------------- -/

mutual
  /-- the text `json.Marshal` writes (no white space) -/
  def Json.render : Json → Bytes
    | .null => str "null"
    | .bool true => str "true"
    | .bool false => str "false"
    | .num i => intToDec i
    | .str s => renderString s
    | .arr xs => 0x5B :: xs.render ++ [0x5D]
    | .obj kvs => 0x7B :: kvs.render ++ [0x7D]
  def JList.render : JList → Bytes
    | .nil => []
    | .cons x .nil => x.render
    | .cons x rest => x.render ++ 0x2C :: rest.render
  def JFields.render : JFields → Bytes
    | .nil => []
    | .cons k v .nil => renderString k ++ 0x3A :: v.render
    | .cons k v rest => renderString k ++ 0x3A :: v.render ++ 0x2C :: rest.render
end

/-- a Go slice: `nil` (what the parser leaves when nothing was appended) encodes as `null` -/
def arrOrNull (xs : List Json) : Json :=
  match xs with
  | [] => .null
  | _ => .arr (JList.ofList xs)

end Gql.Json
