import GqlModel.Json.Model
/-
  Specification side of C19: the IMAGE of a document under encode-then-decode.

  `imgDoc f legacy d` is `d` with every position zeroed (positions are `json:"-"`), every string
  passed through `f` (`sanitize` for the real round trip, `id` for "the same document modulo
  positions") and — when `legacy` — every fragment spread and inline fragment turned into the
  `Field` that `(*Field).UnmarshalJSON` builds from its object (the keys it knows: `Name`,
  `Directives`, `SelectionSet`; everything else zero).
-/
namespace Gql.Json
open Gql

def imgType (f : Bytes → Bytes) : GType → GType
  | .named n nn _ => .named (f n) nn Pos.zero
  | .list e nn _ => .list (imgType f e) nn Pos.zero

mutual
  def imgValue (f : Bytes → Bytes) : Value → Value
    | .mk k raw ch _ => .mk k (f raw) (imgChildren f ch) Pos.zero
  def imgChildren (f : Bytes → Bytes) : Children → Children
    | .nil => .nil
    | .cons n v _ rest => .cons (f n) (imgValue f v) Pos.zero (imgChildren f rest)
end

def imgArg (f : Bytes → Bytes) (a : Argument) : Argument :=
  { name := f a.name, value := imgValue f a.value, pos := Pos.zero }

def imgDir (f : Bytes → Bytes) (d : Directive) : Directive :=
  { name := f d.name, args := d.args.map (imgArg f), pos := Pos.zero }

mutual
  def imgSel (f : Bytes → Bytes) (legacy : Bool) : Selection → Selection
    | .field al nm args ds sel _ =>
      .field (f al) (f nm) (args.map (imgArg f)) (ds.map (imgDir f)) (imgSels f legacy sel) Pos.zero
    | .spread nm ds _ =>
      if legacy then .field [] (f nm) [] (ds.map (imgDir f)) .nil Pos.zero
      else .spread (f nm) (ds.map (imgDir f)) Pos.zero
    | .inline tc ds sel _ =>
      if legacy then .field [] [] [] (ds.map (imgDir f)) (imgSels f legacy sel) Pos.zero
      else .inline (f tc) (ds.map (imgDir f)) (imgSels f legacy sel) Pos.zero
  def imgSels (f : Bytes → Bytes) (legacy : Bool) : Selections → Selections
    | .nil => .nil
    | .cons s rest => .cons (imgSel f legacy s) (imgSels f legacy rest)
end

def imgVarDef (f : Bytes → Bytes) (v : VarDef) : VarDef :=
  { var := f v.var, type := imgType f v.type, default := v.default.map (imgValue f),
    dirs := v.dirs.map (imgDir f), pos := Pos.zero }

def imgOp (f : Bytes → Bytes) (legacy : Bool) (o : OperationDef) : OperationDef :=
  { op := f o.op, name := f o.name, vars := o.vars.map (imgVarDef f), dirs := o.dirs.map (imgDir f),
    sel := imgSels f legacy o.sel, pos := Pos.zero }

def imgFrag (f : Bytes → Bytes) (legacy : Bool) (fr : FragmentDef) : FragmentDef :=
  { name := f fr.name, vars := fr.vars.map (imgVarDef f), typeCond := f fr.typeCond,
    dirs := fr.dirs.map (imgDir f), sel := imgSels f legacy fr.sel, pos := Pos.zero }

def imgDoc (f : Bytes → Bytes) (legacy : Bool) (d : QueryDoc) : QueryDoc :=
  { ops := d.ops.map (imgOp f legacy), frags := d.frags.map (imgFrag f legacy) }

/-- the document itself, positions dropped: what a faithful round trip returns -/
def stripDoc (d : QueryDoc) : QueryDoc := imgDoc id false d
def stripSel (s : Selection) : Selection := imgSel id false s

/- ---------------- "every string is fixed by f" ---------------- -/

def FixType (f : Bytes → Bytes) : GType → Prop
  | .named n _ _ => f n = n
  | .list e _ _ => FixType f e

mutual
  def FixValue (f : Bytes → Bytes) : Value → Prop
    | .mk _ raw ch _ => f raw = raw ∧ FixChildren f ch
  def FixChildren (f : Bytes → Bytes) : Children → Prop
    | .nil => True
    | .cons n v _ rest => f n = n ∧ FixValue f v ∧ FixChildren f rest
end

def FixArg (f : Bytes → Bytes) (a : Argument) : Prop := f a.name = a.name ∧ FixValue f a.value
def FixDir (f : Bytes → Bytes) (d : Directive) : Prop := f d.name = d.name ∧ ∀ a ∈ d.args, FixArg f a

mutual
  def FixSel (f : Bytes → Bytes) : Selection → Prop
    | .field al nm args ds sel _ =>
      f al = al ∧ f nm = nm ∧ (∀ a ∈ args, FixArg f a) ∧ (∀ d ∈ ds, FixDir f d) ∧ FixSels f sel
    | .spread nm ds _ => f nm = nm ∧ ∀ d ∈ ds, FixDir f d
    | .inline tc ds sel _ => f tc = tc ∧ (∀ d ∈ ds, FixDir f d) ∧ FixSels f sel
  def FixSels (f : Bytes → Bytes) : Selections → Prop
    | .nil => True
    | .cons s rest => FixSel f s ∧ FixSels f rest
end

def FixVarDef (f : Bytes → Bytes) (v : VarDef) : Prop :=
  f v.var = v.var ∧ FixType f v.type ∧ (∀ x, v.default = some x → FixValue f x) ∧ ∀ d ∈ v.dirs, FixDir f d

def FixOp (f : Bytes → Bytes) (o : OperationDef) : Prop :=
  f o.op = o.op ∧ f o.name = o.name ∧ (∀ v ∈ o.vars, FixVarDef f v) ∧ (∀ d ∈ o.dirs, FixDir f d) ∧ FixSels f o.sel

def FixFrag (f : Bytes → Bytes) (fr : FragmentDef) : Prop :=
  f fr.name = fr.name ∧ (∀ v ∈ fr.vars, FixVarDef f v) ∧ f fr.typeCond = fr.typeCond ∧
    (∀ d ∈ fr.dirs, FixDir f d) ∧ FixSels f fr.sel

def FixDoc (f : Bytes → Bytes) (d : QueryDoc) : Prop :=
  (∀ o ∈ d.ops, FixOp f o) ∧ ∀ fr ∈ d.frags, FixFrag f fr

/-- every name, raw value and type condition of the document is well-formed UTF-8 (fixed by the
    coercion `json.Marshal` applies).  True of every document parsed from UTF-8 text. -/
def Utf8Clean (d : QueryDoc) : Prop := FixDoc sanitize d

/- ---------------- selection kinds ---------------- -/

mutual
  def fieldsOnlySel : Selection → Bool
    | .field _ _ _ _ sel _ => fieldsOnlySels sel
    | .spread _ _ _ => false
    | .inline _ _ _ _ => false
  def fieldsOnlySels : Selections → Bool
    | .nil => true
    | .cons s rest => fieldsOnlySel s && fieldsOnlySels rest
end

/-- no fragment spread and no inline fragment anywhere -/
def FieldsOnly (d : QueryDoc) : Prop :=
  (∀ o ∈ d.ops, fieldsOnlySels o.sel = true) ∧ ∀ fr ∈ d.frags, fieldsOnlySels fr.sel = true

mutual
  /-- the kinds of all selections, in document (pre-)order, at every depth -/
  def selKinds : Selection → List SelKind
    | .field _ _ _ _ sel _ => .field :: selsKinds sel
    | .spread _ _ _ => [.spread]
    | .inline _ _ sel _ => .inline :: selsKinds sel
  def selsKinds : Selections → List SelKind
    | .nil => []
    | .cons s rest => selKinds s ++ selsKinds rest
end

def docKinds (d : QueryDoc) : List SelKind :=
  d.ops.flatMap (fun o => selsKinds o.sel) ++ d.frags.flatMap (fun fr => selsKinds fr.sel)

end Gql.Json
