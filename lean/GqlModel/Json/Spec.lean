import GqlModel.Json.Model
import GqlModel.Lexer.Model
/-
  Specification side of C19: the IMAGE of a document under encode-then-decode.

  `imgDoc f legacy d` is `d` with every position zeroed (positions are `json:"-"`), every string
  passed through `f` (`sanitize` for the real round trip, `id` for "the same document modulo
  positions") and — when `legacy`, i.e. for the decoder as it stood BEFORE the repair of
  `UnmarshalSelectionSet` (history) — every fragment spread and inline fragment turned into the
  `Field` that `(*Field).UnmarshalJSON` builds from its object (the keys it knows: `Name`,
  `Directives`, `SelectionSet`; everything else zero).

  What `stripDoc = imgDoc id false` forgets, exactly: the seven kinds of `Pos` fields of the tree
  (of types, values, object fields, arguments, directives, selections, variable definitions,
  operations and fragments), all set to `Pos.zero`.  Nothing else: the tree type has no comments
  (Go: `Comment *CommentGroup`, nil in a comment-free parsed document, and not compared by C19),
  no validation links (nil before validation) and does not distinguish a nil slice from an empty
  one (Go: the parser leaves nil slices, the decoder makes `SelectionSet` an empty non-nil slice
  and leaves the other absent lists nil — both are the empty list of the tree).
-/
namespace Gql.Json
open Gql

def imgType (f : Bytes → Bytes) : GType → GType
  | .named n nn _ => .named (f n) nn Pos.zero
  | .list e nn _ => .list (imgType f e) nn Pos.zero

mutual
  def imgValue (f : Bytes → Bytes) : Value → Value
    | .mk k raw ch _ => .mk k (f raw) (imgChildren f ch) Pos.zero
  def imgChildren (f : Bytes → Bytes) : Children → Children
    | .nil => .nil
    | .cons n v _ rest => .cons (f n) (imgValue f v) Pos.zero (imgChildren f rest)
end

def imgArg (f : Bytes → Bytes) (a : Argument) : Argument :=
  { name := f a.name, value := imgValue f a.value, pos := Pos.zero }

def imgDir (f : Bytes → Bytes) (d : Directive) : Directive :=
  { name := f d.name, args := d.args.map (imgArg f), pos := Pos.zero }

mutual
  def imgSel (f : Bytes → Bytes) (legacy : Bool) : Selection → Selection
    | .field al nm args ds sel _ =>
      .field (f al) (f nm) (args.map (imgArg f)) (ds.map (imgDir f)) (imgSels f legacy sel) Pos.zero
    | .spread nm ds _ =>
      if legacy then .field [] (f nm) [] (ds.map (imgDir f)) .nil Pos.zero
      else .spread (f nm) (ds.map (imgDir f)) Pos.zero
    | .inline tc ds sel _ =>
      if legacy then .field [] [] [] (ds.map (imgDir f)) (imgSels f legacy sel) Pos.zero
      else .inline (f tc) (ds.map (imgDir f)) (imgSels f legacy sel) Pos.zero
  def imgSels (f : Bytes → Bytes) (legacy : Bool) : Selections → Selections
    | .nil => .nil
    | .cons s rest => .cons (imgSel f legacy s) (imgSels f legacy rest)
end

def imgVarDef (f : Bytes → Bytes) (v : VarDef) : VarDef :=
  { var := f v.var, type := imgType f v.type, default := v.default.map (imgValue f),
    dirs := v.dirs.map (imgDir f), pos := Pos.zero }

def imgOp (f : Bytes → Bytes) (legacy : Bool) (o : OperationDef) : OperationDef :=
  { op := f o.op, name := f o.name, vars := o.vars.map (imgVarDef f), dirs := o.dirs.map (imgDir f),
    sel := imgSels f legacy o.sel, pos := Pos.zero }

def imgFrag (f : Bytes → Bytes) (legacy : Bool) (fr : FragmentDef) : FragmentDef :=
  { name := f fr.name, vars := fr.vars.map (imgVarDef f), typeCond := f fr.typeCond,
    dirs := fr.dirs.map (imgDir f), sel := imgSels f legacy fr.sel, pos := Pos.zero }

def imgDoc (f : Bytes → Bytes) (legacy : Bool) (d : QueryDoc) : QueryDoc :=
  { ops := d.ops.map (imgOp f legacy), frags := d.frags.map (imgFrag f legacy) }

/-- the document itself, positions dropped: what a faithful round trip returns -/
def stripDoc (d : QueryDoc) : QueryDoc := imgDoc id false d
def stripSel (s : Selection) : Selection := imgSel id false s

/- ---------------- "every string is fixed by f" ---------------- -/

def FixType (f : Bytes → Bytes) : GType → Prop
  | .named n _ _ => f n = n
  | .list e _ _ => FixType f e

mutual
  def FixValue (f : Bytes → Bytes) : Value → Prop
    | .mk _ raw ch _ => f raw = raw ∧ FixChildren f ch
  def FixChildren (f : Bytes → Bytes) : Children → Prop
    | .nil => True
    | .cons n v _ rest => f n = n ∧ FixValue f v ∧ FixChildren f rest
end

def FixArg (f : Bytes → Bytes) (a : Argument) : Prop := f a.name = a.name ∧ FixValue f a.value
def FixDir (f : Bytes → Bytes) (d : Directive) : Prop := f d.name = d.name ∧ ∀ a ∈ d.args, FixArg f a

mutual
  def FixSel (f : Bytes → Bytes) : Selection → Prop
    | .field al nm args ds sel _ =>
      f al = al ∧ f nm = nm ∧ (∀ a ∈ args, FixArg f a) ∧ (∀ d ∈ ds, FixDir f d) ∧ FixSels f sel
    | .spread nm ds _ => f nm = nm ∧ ∀ d ∈ ds, FixDir f d
    | .inline tc ds sel _ => f tc = tc ∧ (∀ d ∈ ds, FixDir f d) ∧ FixSels f sel
  def FixSels (f : Bytes → Bytes) : Selections → Prop
    | .nil => True
    | .cons s rest => FixSel f s ∧ FixSels f rest
end

def FixVarDef (f : Bytes → Bytes) (v : VarDef) : Prop :=
  f v.var = v.var ∧ FixType f v.type ∧ (∀ x, v.default = some x → FixValue f x) ∧ ∀ d ∈ v.dirs, FixDir f d

def FixOp (f : Bytes → Bytes) (o : OperationDef) : Prop :=
  f o.op = o.op ∧ f o.name = o.name ∧ (∀ v ∈ o.vars, FixVarDef f v) ∧ (∀ d ∈ o.dirs, FixDir f d) ∧ FixSels f o.sel

def FixFrag (f : Bytes → Bytes) (fr : FragmentDef) : Prop :=
  f fr.name = fr.name ∧ (∀ v ∈ fr.vars, FixVarDef f v) ∧ f fr.typeCond = fr.typeCond ∧
    (∀ d ∈ fr.dirs, FixDir f d) ∧ FixSels f fr.sel

def FixDoc (f : Bytes → Bytes) (d : QueryDoc) : Prop :=
  (∀ o ∈ d.ops, FixOp f o) ∧ ∀ fr ∈ d.frags, FixFrag f fr

/-- every name, raw value and type condition of the document is well-formed UTF-8 (fixed by the
    coercion `json.Marshal` applies).  True of every document parsed from UTF-8 text. -/
def Utf8Clean (d : QueryDoc) : Prop := FixDoc sanitize d

/- ---------------- the same, as a decision procedure ---------------- -/

def fixTypeB (f : Bytes → Bytes) : GType → Bool
  | .named n _ _ => decide (f n = n)
  | .list e _ _ => fixTypeB f e

mutual
  def fixValueB (f : Bytes → Bytes) : Value → Bool
    | .mk _ raw ch _ => decide (f raw = raw) && fixChildrenB f ch
  def fixChildrenB (f : Bytes → Bytes) : Children → Bool
    | .nil => true
    | .cons n v _ rest => decide (f n = n) && (fixValueB f v && fixChildrenB f rest)
end

def fixArgB (f : Bytes → Bytes) (a : Argument) : Bool := decide (f a.name = a.name) && fixValueB f a.value
def fixDirB (f : Bytes → Bytes) (d : Directive) : Bool := decide (f d.name = d.name) && d.args.all (fixArgB f)

mutual
  def fixSelB (f : Bytes → Bytes) : Selection → Bool
    | .field al nm args ds sel _ =>
      decide (f al = al) && (decide (f nm = nm) && (args.all (fixArgB f) && (ds.all (fixDirB f) && fixSelsB f sel)))
    | .spread nm ds _ => decide (f nm = nm) && ds.all (fixDirB f)
    | .inline tc ds sel _ => decide (f tc = tc) && (ds.all (fixDirB f) && fixSelsB f sel)
  def fixSelsB (f : Bytes → Bytes) : Selections → Bool
    | .nil => true
    | .cons s rest => fixSelB f s && fixSelsB f rest
end

def fixOptValueB (f : Bytes → Bytes) : Option Value → Bool
  | none => true
  | some x => fixValueB f x

def fixVarDefB (f : Bytes → Bytes) (v : VarDef) : Bool :=
  decide (f v.var = v.var) && (fixTypeB f v.type && (fixOptValueB f v.default && v.dirs.all (fixDirB f)))

def fixOpB (f : Bytes → Bytes) (o : OperationDef) : Bool :=
  decide (f o.op = o.op) && (decide (f o.name = o.name) && (o.vars.all (fixVarDefB f) &&
    (o.dirs.all (fixDirB f) && fixSelsB f o.sel)))

def fixFragB (f : Bytes → Bytes) (fr : FragmentDef) : Bool :=
  decide (f fr.name = fr.name) && (fr.vars.all (fixVarDefB f) && (decide (f fr.typeCond = fr.typeCond) &&
    (fr.dirs.all (fixDirB f) && fixSelsB f fr.sel)))

def fixDocB (f : Bytes → Bytes) (d : QueryDoc) : Bool := d.ops.all (fixOpB f) && d.frags.all (fixFragB f)

/-- THE well-formedness predicate of the round-trip theorem, as an executable test (driver op
    `jsonwf`): every string of the document — operation types, names, aliases, variables, type
    names, type conditions, raw values, object-field names — is well-formed UTF-8.
    `utf8CleanB d = true ↔ Utf8Clean d` (`utf8CleanB_iff`).  Nothing else is needed: the encoder
    is total on the tree type, and what the tree type cannot express (comments, the validation
    links, nil pointers inside lists) does not occur in a parsed document. -/
def utf8CleanB (d : QueryDoc) : Bool := fixDocB sanitize d

/- ---------------- the same at the level of the source text ---------------- -/

/-- Every token the lexer model produces from `(rest, cur)` has a value that is well-formed UTF-8:
    follow `readToken` until it errors or reaches its fixed point (the EOF token, which leaves the
    state unchanged).  `false` when the fuel runs out first (`inp.length + 2` always suffices: every
    token but EOF consumes a byte).  Sufficient for the parsed document to be `utf8CleanB`
    (`parseQuery_clean`); it also looks at comments, which never reach the tree. -/
def lexCleanB : Nat → Bytes → Lexer.Cur → Bool
  | 0, _, _ => false
  | n + 1, rest, cur =>
    match Lexer.readToken rest cur with
    | .err _ => true
    | .tok t r c =>
      decide (sanitize t.value = t.value) && (if r = rest ∧ c = cur then true else lexCleanB n r c)

def sourceCleanB (inp : Bytes) : Bool := lexCleanB (inp.length + 2) inp Lexer.Cur.init

/- ---------------- selection kinds ---------------- -/

mutual
  def fieldsOnlySel : Selection → Bool
    | .field _ _ _ _ sel _ => fieldsOnlySels sel
    | .spread _ _ _ => false
    | .inline _ _ _ _ => false
  def fieldsOnlySels : Selections → Bool
    | .nil => true
    | .cons s rest => fieldsOnlySel s && fieldsOnlySels rest
end

/-- no fragment spread and no inline fragment anywhere -/
def FieldsOnly (d : QueryDoc) : Prop :=
  (∀ o ∈ d.ops, fieldsOnlySels o.sel = true) ∧ ∀ fr ∈ d.frags, fieldsOnlySels fr.sel = true

mutual
  /-- the kinds of all selections, in document (pre-)order, at every depth -/
  def selKinds : Selection → List SelKind
    | .field _ _ _ _ sel _ => .field :: selsKinds sel
    | .spread _ _ _ => [.spread]
    | .inline _ _ sel _ => .inline :: selsKinds sel
  def selsKinds : Selections → List SelKind
    | .nil => []
    | .cons s rest => selKinds s ++ selsKinds rest
end

def docKinds (d : QueryDoc) : List SelKind :=
  d.ops.flatMap (fun o => selsKinds o.sel) ++ d.frags.flatMap (fun fr => selsKinds fr.sel)

/- ---------------- addressing a selection at any depth ---------------- -/

def kindOf : Selection → SelKind
  | .field _ _ _ _ _ _ => .field
  | .spread _ _ _ => .spread
  | .inline _ _ _ _ => .inline

/-- the selection set nested in a selection (a fragment spread has none) -/
def subsOf : Selection → Selections
  | .field _ _ _ _ sel _ => sel
  | .spread _ _ _ => .nil
  | .inline _ _ sel _ => sel

def nth? : Selections → Nat → Option Selection
  | .nil, _ => none
  | .cons s _, 0 => some s
  | .cons _ rest, i + 1 => nth? rest i

/-- `selAt ss i [j, k, …]`: the `i`-th selection of `ss`, then the `j`-th selection of ITS
    selection set, then the `k`-th of that one, … (nesting depth = 1 + length of the path) -/
def selAt : Selections → Nat → List Nat → Option Selection
  | ss, i, [] => nth? ss i
  | ss, i, j :: path =>
    match nth? ss i with
    | none => none
    | some s => selAt (subsOf s) j path

/-- where a top-level selection set of a document hangs: the `i`-th operation or fragment -/
inductive Root
  | op (i : Nat)
  | frag (i : Nat)
  deriving DecidableEq, Repr

def docRoot (d : QueryDoc) : Root → Option Selections
  | .op i => d.ops[i]?.map (·.sel)
  | .frag i => d.frags[i]?.map (·.sel)

/-- the selection at position `i :: path` under root `r` (any nesting depth) -/
def docSelAt (d : QueryDoc) (r : Root) (i : Nat) (path : List Nat) : Option Selection :=
  match docRoot d r with
  | none => none
  | some ss => selAt ss i path

end Gql.Json
