import GqlModel.Basic.Utf8
/-
  String quoting used by `ast.Value.String()`.

  * `goQuote isPrint` models `strconv.Quote` (Go 1.23 `appendQuotedWith … '"' false false`):
    printable runes verbatim, `\"` `\\`, `\a \b \f \n \r \t \v`, other control bytes and DEL as
    `\x..`, invalid UTF-8 bytes as `\x..`, non-printable valid runes as `\u....` / `\U........`.
    `unicode.IsPrint` is a table lookup in Go; the table is NOT transcribed: `isPrint` is a
    parameter.  The default `isPrintDefault` is exact on U+0000..U+00FF and says "printable" for
    every other rune except a short explicit list (below).  The domain on which
    `isPrintDefault r = strconv.IsPrint r` is measured exhaustively over all 0x110000 runes by the
    correspondence check `X-format` (Go side, `props.isPrintModel`), and the generators only emit
    runes of that domain.
  * `gqlQuote` is the GraphQL-correct quoting a repair of finding R12a would use.
-/
namespace Gql.Format
open Gql

def lowerHex (n : Nat) : Nat := if n < 10 then 48 + n else 87 + n

/-- two lower-case hex digits of a byte -/
def hex2 (b : Nat) : Bytes := [lowerHex (b / 16 % 16), lowerHex (b % 16)]

/-- four lower-case hex digits -/
def hex4 (r : Nat) : Bytes :=
  [lowerHex (r / 4096 % 16), lowerHex (r / 256 % 16), lowerHex (r / 16 % 16), lowerHex (r % 16)]

/-- eight lower-case hex digits -/
def hex8 (r : Nat) : Bytes := hex4 (r / 65536 % 65536) ++ hex4 (r % 65536)

def inRange (lo hi r : Nat) : Bool := decide (lo ≤ r) && decide (r ≤ hi)

/-- Runes ≥ U+0100 that the default treats as NOT printable (categories Zs, Zl, Zp, Cf, Cs, Co and
    the non-characters that matter in practice).  Everything else ≥ U+0100 is taken as printable,
    which is wrong exactly for the unassigned code points and the few format characters not
    listed — those are outside the verified domain. -/
def notPrintHigh (r : Nat) : Bool :=
  inRange 0x0600 0x0605 r || r == 0x061C || r == 0x06DD || r == 0x070F || r == 0x1680 || r == 0x180E ||
  inRange 0x2000 0x200F r || inRange 0x2028 0x202F r || inRange 0x205F 0x206F r || r == 0x3000 ||
  inRange 0xD800 0xF8FF r || r == 0xFEFF || inRange 0xFFF9 0xFFFB r || r == 0xFFFE || r == 0xFFFF ||
  inRange 0xE0000 0xE0FFF r || inRange 0xF0000 0x10FFFF r

/-- default stand-in for `strconv.IsPrint`: exact on Latin-1 (U+0000..U+00FF). -/
def isPrintDefault (r : Nat) : Bool :=
  if r ≤ 0xFF then inRange 0x20 0x7E r || (inRange 0xA1 0xFF r && r != 0xAD)
  else !notPrintHigh r

/-- `appendEscapedRune buf r '"' false false` -/
def escapedRune (isPrint : Nat → Bool) (r : Nat) : Bytes :=
  if r = 34 ∨ r = 92 then [92, r]
  else if isPrint r then encodeRune r
  else if r = 7 then [92, 97] else if r = 8 then [92, 98] else if r = 12 then [92, 102]
  else if r = 10 then [92, 110] else if r = 13 then [92, 114] else if r = 9 then [92, 116]
  else if r = 11 then [92, 118]
  else if r < 32 ∨ r = 127 then 92 :: 120 :: hex2 r
  else if (decide (0xD800 ≤ r) && decide (r ≤ 0xDFFF)) || decide (0x10FFFF < r) then 92 :: 117 :: hex4 0xFFFD
  else if r < 0x10000 then 92 :: 117 :: hex4 r
  else 92 :: 85 :: hex8 r

/-- the loop of `appendQuotedWith` (without the surrounding quotes) -/
def goQuoteBody (isPrint : Nat → Bool) : Bytes → Bytes
  | [] => []
  | b :: tl =>
    let (r, w) := if b ≥ 0x80 then decodeRune (b :: tl) else (b, 1)
    if w = 1 ∧ r = runeError then 92 :: 120 :: hex2 b ++ goQuoteBody isPrint tl
    else escapedRune isPrint r ++ goQuoteBody isPrint (tl.drop (w - 1))
termination_by l => l.length
decreasing_by all_goals (simp [List.length_drop]; try omega)

/-- `strconv.Quote` -/
def goQuote (bs : Bytes) (isPrint : Nat → Bool := isPrintDefault) : Bytes :=
  34 :: goQuoteBody isPrint bs ++ [34]

/-- GraphQL-correct escaping of one byte: `\"`, `\\`, `\b \f \n \r \t`, other bytes < 0x20 and DEL
    as `\u00XX` (lower-case hex, as ast.quoteString writes), everything else verbatim. -/
def gqlEscapeByte (b : Nat) : Bytes :=
  if b = 34 then [92, 34] else if b = 92 then [92, 92]
  else if b = 8 then [92, 98] else if b = 12 then [92, 102] else if b = 10 then [92, 110]
  else if b = 13 then [92, 114] else if b = 9 then [92, 116]
  else if b < 32 ∨ b = 127 then
    [92, 117, 48, 48, (if b / 16 % 16 < 10 then 48 + b / 16 % 16 else 87 + b / 16 % 16),
      (if b % 16 < 10 then 48 + b % 16 else 87 + b % 16)]
  else [b]

def gqlQuoteBody : Bytes → Bytes
  | [] => []
  | b :: tl => gqlEscapeByte b ++ gqlQuoteBody tl

/-- the quoting a repair of R12a would use: the lexer reads `gqlQuote bs` back as `bs`
    (theorem `C12_quote_roundtrip_gql`). -/
def gqlQuote (bs : Bytes) : Bytes := 34 :: gqlQuoteBody bs ++ [34]

end Gql.Format
