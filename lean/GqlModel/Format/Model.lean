import GqlModel.Syntax.Ast
import GqlModel.Schema.Types
import GqlModel.Lexer.BlockString
import GqlModel.Format.Quote
/-
  Model of formatter/formatter.go (and of `Value.String()` / `Type.String()` in package ast),
  one Lean function per Go function, comments OFF (`emitComments = false`: the shared AST carries
  no comments, and every `FormatCommentGroup` call is then a no-op, so it is not written out).

  The writer state `W` is the mutable part of the Go `formatter` struct; the output is kept as a
  list of chunks (most recent first) so that a write is O(1); `W.text` is the text written so far.

  Nothing in this model can panic: the Go panic sites are `FormatSelection`'s `default:` (no such
  constructor in `Selection`), `Type.String()` on a type with neither name nor element (no such
  `GType`), `strings.Repeat` with a negative count (`IncrementIndent`/`DecrementIndent` are always
  paired, `indentSize` is a `Nat`), `def.Position.Src` on a directive definition without position
  (parsed and loaded definitions always have one) and nil documents / nil values (not
  representable).

  LEGACY QUIRKS of the unchanged tree are isolated in the section `Legacy` right below: a repair
  of /repo is followed by editing only these definitions.
-/
namespace Gql.Format
open Gql

/- ------------------------------------------------------------------------------------------
   Definitions that changed with the repairs of /repo (DESIGN §7 R12a, R12b, R13a–R13d).
   ------------------------------------------------------------------------------------------ -/
section Repaired

/-- `Value.String()` quotes string values with the GraphQL escapes only (repair of R12a). -/
def quoteString (bs : Bytes) : Bytes := gqlQuote bs

/-- `FormatFieldDefinition` hides the introspection fields the loader appends to the query type:
    name starting with `__` AND no source position (`Position == nil` travels as line 0; every
    parsed node has line ≥ 1) — repair of R13d. -/
def fieldSuppressed (emitBuiltin : Bool) (name : Bytes) (pos : Pos) : Bool :=
  !emitBuiltin && pos.line == 0 && (match name with | 95 :: 95 :: _ => true | _ => false)

/-- `isDefaultRoot` of `FormatSchema`: would loading without a schema definition give this root? -/
def isDefaultRoot (s : Schema) (root : Option Name) (dflt : Bytes) : Bool :=
  match root with
  | some n => n == dflt
  | none => (s.type? dflt).isNone

/-- `needSchema` of `FormatSchema` (repair of R13c and of the dropped default-named roots) -/
def needSchema (s : Schema) : Bool :=
  (!isDefaultRoot s s.query (str "Query") || !isDefaultRoot s s.mutation (str "Mutation") ||
    !isDefaultRoot s s.subscription (str "Subscription")) &&
  !(s.query.isNone && s.mutation.isNone && s.subscription.isNone)

/-- KNOWN FINDING R13e (pinned by the formatter's golden files): `FormatSchema` never prints
    `Schema.Description`. -/
def schemaDescriptionPrinted : Bool := false

end Repaired

structure Cfg where
  indent : Bytes := [9]
  emitBuiltin : Bool := false
  emitComments : Bool := false      -- only `false` is modelled
  omitDescription : Bool := false
  compacted : Bool := false
  deriving Repr, Inhabited

/-- mutable part of the Go `formatter` struct -/
structure W where
  chunks : List Bytes := []         -- what was written, most recent first
  indentSize : Nat := 0
  padNext : Bool := false
  lineHead : Bool := false
  deriving Repr, Inhabited

/-- the text written so far -/
def W.text (w : W) : Bytes := w.chunks.reverse.flatten

/-- `f.writeString(s)` (the unexported raw write) -/
def W.raw (w : W) (s : Bytes) : W := { w with chunks := s :: w.chunks }

/-- `strings.Repeat` -/
def repeatBytes (s : Bytes) (n : Nat) : Bytes := (List.replicate n s).flatten

def isAsciiSpace (b : Nat) : Bool := b == 32 || b == 9 || b == 10 || b == 11 || b == 12 || b == 13

def trimLeft : Bytes → Bytes
  | [] => []
  | b :: tl => if isAsciiSpace b then trimLeft tl else b :: tl

/-- `strings.TrimSpace`, exact for words that neither start nor end with a non-ASCII Unicode
    space (every word the formatter passes is made of name characters, `[ ] ! & |` and blanks). -/
def trimSpace (s : Bytes) : Bytes := (trimLeft (trimLeft s).reverse).reverse

def writeIndent (cfg : Cfg) (w : W) : W :=
  let w := if w.lineHead then w.raw (repeatBytes cfg.indent w.indentSize) else w
  { w with lineHead := false, padNext := false }

def writeNewline (w : W) : W := { w.raw [10] with lineHead := true, padNext := false }

def writeWord (cfg : Cfg) (word : Bytes) (w : W) : W :=
  let w := if w.lineHead then writeIndent cfg w else w
  let w := if w.padNext then w.raw [32] else w
  { w.raw (trimSpace word) with padNext := true }

def writeStr (cfg : Cfg) (s : Bytes) (w : W) : W :=
  let w := if w.lineHead then writeIndent cfg w else w
  let w := if w.padNext then w.raw [32] else w
  { w.raw s with padNext := false }

def incIndent (w : W) : W := { w with indentSize := w.indentSize + 1 }
def decIndent (w : W) : W := { w with indentSize := w.indentSize - 1 }
def noPadding (w : W) : W := { w with padNext := false }
def needPadding (w : W) : W := { w with padNext := true }

def tripleQuote : Bytes := [34, 34, 34]

/-- `strings.ReplaceAll(s, "\"\"\"", "\\\"\"\"")` -/
def escapeTriple : Bytes → Bytes
  | 34 :: 34 :: 34 :: rest => 92 :: 34 :: 34 :: 34 :: escapeTriple rest
  | b :: rest => b :: escapeTriple rest
  | [] => []

def isBlankLine (l : Bytes) : Bool := l.all fun b => b == 32 || b == 9

/-- `blockStringRepresentable`: no control character except TAB and LF, first and last line not
    blank, and some non-blank line without indentation. -/
def blockStringRepresentable (s : Bytes) : Bool :=
  let lines := Lexer.splitLines s
  s.all (fun c => !(c < 32 && c != 9 && c != 10)) &&
  !isBlankLine (lines.headD []) && !isBlankLine (lines.getLastD []) &&
  lines.any fun l => !isBlankLine l && (match l with | b :: _ => b != 32 && b != 9 | [] => false)

/-- `WriteDescription`: a block string with `"""` escaped, or a quoted string when a block string
    would not read back as `s` (repair of R13a / R13b). -/
def writeDescription (cfg : Cfg) (s : Bytes) (w : W) : W :=
  if s.isEmpty || cfg.omitDescription then w
  else if !blockStringRepresentable s then writeNewline (writeStr cfg (quoteString s) w)
  else
    let w := writeNewline (writeStr cfg tripleQuote w)
    let w := (Lexer.splitLines (escapeTriple s)).foldl (fun w l => writeNewline (writeStr cfg l w)) w
    writeNewline (writeStr cfg tripleQuote w)

/- ---------------- `Value.String()` ---------------- -/

mutual
  /-- `(*Value).String()` -/
  def renderValue : Value → Bytes
    | .mk k raw ch _ =>
      match k with
      | .variable => 36 :: raw
      | .int | .float | .enum | .boolean | .null => raw
      | .string | .block => quoteString raw
      | .list => 91 :: renderListItems true ch ++ [93]
      | .object => 123 :: renderObjFields true ch ++ [125]
  /-- `strings.Join(items, ",")` of a list value -/
  def renderListItems (first : Bool) : Children → Bytes
    | .nil => []
    | .cons _ v _ rest => (if first then [] else [44]) ++ renderValue v ++ renderListItems false rest
  /-- `strings.Join(name:value, ",")` of an object value -/
  def renderObjFields (first : Bool) : Children → Bytes
    | .nil => []
    | .cons n v _ rest =>
      (if first then [] else [44]) ++ n ++ 58 :: renderValue v ++ renderObjFields false rest
end

/-- `strings.Join(names, sep)` -/
def joinNames (sep : Bytes) : List Name → Bytes
  | [] => []
  | [n] => n
  | n :: rest => n ++ sep ++ joinNames sep rest

/- ---------------- shared pieces ---------------- -/

/-- `FormatType` -/
def formatType (cfg : Cfg) (t : GType) (w : W) : W := writeWord cfg t.render w

/-- `FormatValue` -/
def formatValue (cfg : Cfg) (v : Value) (w : W) : W := writeStr cfg (renderValue v) w

/-- `FormatArgument` -/
def formatArgument (cfg : Cfg) (a : Argument) (w : W) : W :=
  w |> writeWord cfg a.name |> noPadding |> writeStr cfg [58] |> needPadding
    |> writeStr cfg (renderValue a.value)

/-- loop of `FormatArgumentList` -/
def formatArguments (cfg : Cfg) : List Argument → W → W
  | [], w => w
  | [a], w => formatArgument cfg a w
  | a :: rest, w => formatArguments cfg rest (w |> formatArgument cfg a |> noPadding |> writeWord cfg [44])

/-- `FormatArgumentList` -/
def formatArgumentList (cfg : Cfg) (as : List Argument) (w : W) : W :=
  if as.isEmpty then w
  else w |> noPadding |> writeStr cfg [40] |> formatArguments cfg as |> writeStr cfg [41] |> needPadding

/-- `FormatDirective` -/
def formatDirective (cfg : Cfg) (d : Directive) (w : W) : W :=
  w |> writeStr cfg [64] |> writeWord cfg d.name |> formatArgumentList cfg d.args

/-- `FormatDirectiveList` -/
def formatDirectiveList (cfg : Cfg) (ds : List Directive) (w : W) : W :=
  ds.foldl (fun w d => formatDirective cfg d w) w

/- ---------------- executable documents ---------------- -/

/-- `FormatVariableDefinition` -/
def formatVariableDefinition (cfg : Cfg) (d : VarDef) (w : W) : W :=
  let w := w |> writeStr cfg [36] |> writeWord cfg d.var |> noPadding |> writeStr cfg [58] |> needPadding
    |> formatType cfg d.type
  let w := match d.default with
    | some v => w |> writeWord cfg [61] |> formatValue cfg v
    | none => w
  w |> needPadding |> formatDirectiveList cfg d.dirs

def formatVariableDefinitions (cfg : Cfg) : List VarDef → W → W
  | [], w => w
  | [d], w => formatVariableDefinition cfg d w
  | d :: rest, w =>
    formatVariableDefinitions cfg rest (w |> formatVariableDefinition cfg d |> noPadding |> writeWord cfg [44])

/-- `FormatVariableDefinitionList` -/
def formatVariableDefinitionList (cfg : Cfg) (ds : List VarDef) (w : W) : W :=
  if ds.isEmpty then w
  else w |> writeStr cfg [40] |> formatVariableDefinitions cfg ds |> noPadding |> writeStr cfg [41] |> needPadding

def spreadDots : Bytes := [46, 46, 46]

mutual
  /-- `FormatSelection` (with `FormatField`, `FormatFragmentSpread`, `FormatInlineFragment`) -/
  def formatSelection (cfg : Cfg) : Selection → W → W
    | .field al nm args ds sel _, w =>
      let w := if !al.isEmpty && al != nm then
          w |> writeWord cfg al |> noPadding |> writeStr cfg [58] |> needPadding
        else w
      let w := writeWord cfg nm w
      let w := if !args.isEmpty then w |> noPadding |> formatArgumentList cfg args |> needPadding else w
      w |> formatDirectiveList cfg ds |> formatSelectionSet cfg sel |> writeNewline
    | .spread nm ds _, w =>
      let w := writeWord cfg spreadDots w
      let w := if cfg.compacted then noPadding w else w
      w |> writeWord cfg nm |> formatDirectiveList cfg ds |> writeNewline
    | .inline tc ds sel _, w =>
      let w := writeWord cfg spreadDots w
      let w := if !tc.isEmpty then w |> writeWord cfg (str "on") |> writeWord cfg tc else w
      w |> formatDirectiveList cfg ds |> formatSelectionSet cfg sel |> writeNewline
  /-- `FormatSelectionSet` -/
  def formatSelectionSet (cfg : Cfg) : Selections → W → W
    | .nil, w => w
    | .cons s rest, w =>
      let w := w |> writeStr cfg [123] |> writeNewline |> incIndent
      let w := formatSelections cfg rest (formatSelection cfg s w)
      w |> decIndent |> writeStr cfg [125]
  /-- the loop of `FormatSelectionSet` -/
  def formatSelections (cfg : Cfg) : Selections → W → W
    | .nil, w => w
    | .cons s rest, w => formatSelections cfg rest (formatSelection cfg s w)
end

/-- `FormatOperationDefinition` -/
def formatOperationDefinition (cfg : Cfg) (d : OperationDef) (w : W) : W :=
  let w := writeWord cfg d.op w
  let w := if !d.name.isEmpty then
      let w := writeWord cfg d.name w
      if cfg.compacted then noPadding w else w
    else w
  let w := w |> formatVariableDefinitionList cfg d.vars |> formatDirectiveList cfg d.dirs
  match d.sel with
  | .nil => w
  | sel => w |> formatSelectionSet cfg sel |> writeNewline

/-- `FormatFragmentDefinition` -/
def formatFragmentDefinition (cfg : Cfg) (d : FragmentDef) (w : W) : W :=
  let w := w |> writeWord cfg (str "fragment") |> writeWord cfg d.name
    |> formatVariableDefinitionList cfg d.vars
    |> writeWord cfg (str "on") |> writeWord cfg d.typeCond |> formatDirectiveList cfg d.dirs
  match d.sel with
  | .nil => w
  | sel => w |> formatSelectionSet cfg sel |> writeNewline

/-- `FormatQueryDocument` -/
def formatQueryDocument (cfg : Cfg) (d : QueryDoc) (w : W) : W :=
  let w := d.ops.foldl (fun w o => formatOperationDefinition cfg o w) w
  d.frags.foldl (fun w f => formatFragmentDefinition cfg f w) w

/- ---------------- type-system documents ---------------- -/

/-- `FormatArgumentDefinition` -/
def formatArgumentDefinition (cfg : Cfg) (d : ArgDef) (w : W) : W :=
  let described := !d.desc.isEmpty && !cfg.omitDescription
  let w := if described then w |> writeNewline |> incIndent |> writeDescription cfg d.desc else w
  let w := w |> writeWord cfg d.name |> noPadding |> writeStr cfg [58] |> needPadding |> formatType cfg d.type
  let w := match d.default with
    | some v => w |> writeWord cfg [61] |> formatValue cfg v
    | none => w
  let w := w |> needPadding |> formatDirectiveList cfg d.dirs
  if described then w |> decIndent |> writeNewline else w

def formatArgumentDefinitions (cfg : Cfg) : List ArgDef → W → W
  | [], w => w
  | [d], w => formatArgumentDefinition cfg d w
  | d :: rest, w =>
    let w := formatArgumentDefinition cfg d w
    -- the comma is skipped when the argument has a description (even when descriptions are omitted)
    let w := if d.desc.isEmpty then w |> noPadding |> writeWord cfg [44] else w
    formatArgumentDefinitions cfg rest w

/-- `FormatArgumentDefinitionList` -/
def formatArgumentDefinitionList (cfg : Cfg) (ds : List ArgDef) (w : W) : W :=
  if ds.isEmpty then w
  else w |> writeStr cfg [40] |> formatArgumentDefinitions cfg ds |> noPadding |> writeStr cfg [41] |> needPadding

/-- `FormatFieldDefinition` -/
def formatFieldDefinition (cfg : Cfg) (f : FieldDef) (w : W) : W :=
  if fieldSuppressed cfg.emitBuiltin f.name f.pos then w
  else
    let w := w |> writeDescription cfg f.desc |> writeWord cfg f.name |> noPadding
      |> formatArgumentDefinitionList cfg f.args |> noPadding |> writeStr cfg [58] |> needPadding
      |> formatType cfg f.type
    let w := match f.default with
      | some v => w |> writeWord cfg [61] |> formatValue cfg v
      | none => w
    w |> formatDirectiveList cfg f.dirs |> writeNewline

/-- `FormatFieldList` -/
def formatFieldList (cfg : Cfg) (fs : List FieldDef) (w : W) : W :=
  if fs.isEmpty then w
  else
    let w := w |> writeStr cfg [123] |> writeNewline |> incIndent
    let w := fs.foldl (fun w f => formatFieldDefinition cfg f w) w
    w |> decIndent |> writeStr cfg [125]

/-- `FormatEnumValueDefinition` -/
def formatEnumValueDefinition (cfg : Cfg) (e : EnumValDef) (w : W) : W :=
  w |> writeDescription cfg e.desc |> writeWord cfg e.name |> formatDirectiveList cfg e.dirs |> writeNewline

/-- `FormatEnumValueList` -/
def formatEnumValueList (cfg : Cfg) (es : List EnumValDef) (w : W) : W :=
  if es.isEmpty then w
  else
    let w := w |> writeStr cfg [123] |> writeNewline |> incIndent
    let w := es.foldl (fun w e => formatEnumValueDefinition cfg e w) w
    w |> decIndent |> writeStr cfg [125]

def kindKeyword : DefKind → Bytes
  | .scalar => str "scalar" | .object => str "type" | .interface => str "interface"
  | .union => str "union" | .enum => str "enum" | .inputObject => str "input"

/-- `FormatDefinition` -/
def formatDefinition (cfg : Cfg) (extend : Bool) (d : Definition) (w : W) : W :=
  if !cfg.emitBuiltin && d.builtIn then w
  else
    let w := writeDescription cfg d.desc w
    let w := if extend then writeWord cfg (str "extend") w else w
    let w := w |> writeWord cfg (kindKeyword d.kind) |> writeWord cfg d.name
    let w := if !d.interfaces.isEmpty then
        w |> writeWord cfg (str "implements") |> writeWord cfg (joinNames (str " & ") d.interfaces)
      else w
    let w := formatDirectiveList cfg d.dirs w
    let w := if !d.types.isEmpty then
        w |> writeWord cfg [61] |> writeWord cfg (joinNames (str " | ") d.types)
      else w
    w |> formatFieldList cfg d.fields |> formatEnumValueList cfg d.enumValues |> writeNewline

/-- `FormatDefinitionList` -/
def formatDefinitionList (cfg : Cfg) (extend : Bool) (ds : List Definition) (w : W) : W :=
  ds.foldl (fun w d => formatDefinition cfg extend d w) w

def formatLocations (cfg : Cfg) : List Bytes → W → W
  | [], w => w
  | [l], w => writeWord cfg l w
  | l :: rest, w => formatLocations cfg rest (w |> writeWord cfg l |> writeWord cfg [124])

/-- `FormatDirectiveDefinition`.  `def.Position.Src.BuiltIn` is `srcBuiltIn d.pos.src`: the
    formatter ops number the built-in source (the prelude) 0 and user sources from 1. -/
def formatDirectiveDefinition (cfg : Cfg) (srcBuiltIn : Nat → Bool) (d : DirectiveDef) (w : W) : W :=
  if !cfg.emitBuiltin && srcBuiltIn d.pos.src then w
  else
    let w := w |> writeDescription cfg d.desc |> writeWord cfg (str "directive") |> writeStr cfg [64]
      |> writeWord cfg d.name
    let w := if !d.args.isEmpty then w |> noPadding |> formatArgumentDefinitionList cfg d.args else w
    let w := if d.repeatable then writeWord cfg (str "repeatable") w else w
    let w := if !d.locations.isEmpty then w |> writeWord cfg (str "on") |> formatLocations cfg d.locations else w
    writeNewline w

/-- `FormatOperationTypeDefinition` -/
def formatOperationTypeDefinition (cfg : Cfg) (o : OpTypeDef) (w : W) : W :=
  w |> writeWord cfg o.op |> noPadding |> writeStr cfg [58] |> needPadding |> writeWord cfg o.type |> writeNewline

/-- `IsSchemaDefinitionsEmpty` -/
def isSchemaDefinitionsEmpty (ds : List SchemaDef) : Bool := ds.all fun d => d.opTypes.isEmpty

/-- `FormatSchemaDefinitionList`: all schema definitions (or all schema extensions) are merged
    into one block; the descriptions are concatenated. -/
def formatSchemaDefinitionList (cfg : Cfg) (extension : Bool) (ds : List SchemaDef) (w : W) : W :=
  if ds.isEmpty then w
  else
    let w := writeDescription cfg (ds.flatMap fun d => d.desc) w
    let w := if extension then writeWord cfg (str "extend") w else w
    let w := w |> writeWord cfg (str "schema") |> incIndent
    let w := ds.foldl (fun w d => formatDirectiveList cfg d.dirs w) w
    let w := decIndent w
    let w := if !extension || !isSchemaDefinitionsEmpty ds then
        let w := w |> writeStr cfg [123] |> writeNewline |> incIndent
        let w := ds.foldl (fun w d => d.opTypes.foldl (fun w o => formatOperationTypeDefinition cfg o w) w) w
        w |> decIndent |> writeStr cfg [125]
      else w
    writeNewline w

def srcZeroBuiltIn (s : Nat) : Bool := s == 0

/-- `FormatSchemaDocument` -/
def formatSchemaDocument (cfg : Cfg) (d : SchemaDoc) (w : W) (srcBuiltIn : Nat → Bool := srcZeroBuiltIn) : W :=
  w |> formatSchemaDefinitionList cfg false d.schema
    |> formatSchemaDefinitionList cfg true d.schemaExt
    |> (fun w => d.directives.foldl (fun w dd => formatDirectiveDefinition cfg srcBuiltIn dd w) w)
    |> formatDefinitionList cfg false d.definitions
    |> formatDefinitionList cfg true d.extensions

/- ---------------- loaded schemas ---------------- -/

/-- bytewise `a ≤ b` (Go string comparison, as used by `sort.Strings`) -/
def bytesLe : Bytes → Bytes → Bool
  | [], _ => true
  | _ :: _, [] => false
  | a :: as, b :: bs => if a < b then true else if b < a then false else bytesLe as bs

/-- the values of a Go map in the order of `sort.Strings(keys)` -/
def sortedByKey {α} (m : List (Name × α)) : List α :=
  (m.mergeSort fun a b => bytesLe a.1 b.1).map (·.2)

/-- one root operation line of the schema block; `startSchema()` opens the block on first use -/
def formatRoot (cfg : Cfg) (s : Schema) (kw : Bytes) (root : Option Name) (st : W × Bool) : W × Bool :=
  if root.isSome && needSchema s then
    let (w, inSchema) := st
    let w := if inSchema then w
      else w |> writeWord cfg (str "schema") |> formatDirectiveList cfg s.schemaDirectives
             |> writeStr cfg [123] |> writeNewline |> incIndent
    let w := w |> writeWord cfg kw |> noPadding |> writeStr cfg [58] |> needPadding
      |> writeWord cfg (root.getD []) |> writeNewline
    (w, true)
  else st

/-- `FormatSchema` -/
def formatSchema (cfg : Cfg) (s : Schema) (w : W) (srcBuiltIn : Nat → Bool := srcZeroBuiltIn) : W :=
  let w := if schemaDescriptionPrinted then writeDescription cfg s.description w else w
  let st := (w, false)
    |> formatRoot cfg s (str "query") s.query
    |> formatRoot cfg s (str "mutation") s.mutation
    |> formatRoot cfg s (str "subscription") s.subscription
  let w := st.1
  let w := if st.2 then w |> decIndent |> writeStr cfg [125] |> writeNewline
    else if !s.schemaDirectives.isEmpty then
      w |> writeWord cfg (str "extend") |> writeWord cfg (str "schema")
        |> formatDirectiveList cfg s.schemaDirectives |> writeNewline
    else w
  let w := (sortedByKey s.directives).foldl (fun w d => formatDirectiveDefinition cfg srcBuiltIn d w) w
  (sortedByKey s.types).foldl (fun w d => formatDefinition cfg false d w) w

/-- whole-document entry points: text produced from the initial formatter state -/
def fmtQuery (cfg : Cfg) (d : QueryDoc) : Bytes := (formatQueryDocument cfg d {}).text
def fmtSchemaDoc (cfg : Cfg) (d : SchemaDoc) : Bytes := (formatSchemaDocument cfg d {}).text
def fmtSchema (cfg : Cfg) (s : Schema) : Bytes := (formatSchema cfg s {}).text

end Gql.Format
