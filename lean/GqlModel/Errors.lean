import GqlModel.Json.Json
/-
  Errors and error paths (property C20): /repo/ast/path.go and /repo/gqlerror/error.go.

  * `Path`, `Path.render` (= `Path.String`), `encPath` (default marshalling of `[]PathElement`:
    a `PathName` is a JSON string, a `PathIndex` a JSON number) and `decPath`
    (= `(*Path).UnmarshalJSON`: the array is decoded into `[]interface{}`, where every JSON number
    becomes a `float64`, then converted back with `int(v)`).
  * `float64OfInt` — an integer literal read as a float64: exact up to 2^53 in magnitude, rounded
    to nearest, ties to even, on 53 significant bits above; `goIntOfFloat` — `int(v)` on amd64
    (values that do not fit an int64 give the "integer indefinite" value −2^63).
  * `Error` with `SetFile`, `Error()` (`Error.render`), and its JSON encoding `encError` as the
    struct tags prescribe: `message` always, `path` / `locations` / `extensions` omitted when
    empty, `line` / `column` omitted when zero.
-/
namespace Gql.Errors
open Gql Gql.Json

inductive PathElem
  | name (n : Bytes)
  | index (i : Int)
  deriving DecidableEq, Repr

/-- `ast.Path` (a nil and an empty path are not distinguished) -/
abbrev Path := List PathElem

def Path.renderFrom : Nat → Path → Bytes
  | _, [] => []
  | i, .index n :: rest => 0x5B :: intToDec n ++ 0x5D :: Path.renderFrom (i + 1) rest
  | i, .name n :: rest => (if i ≠ 0 then [0x2E] else []) ++ n ++ Path.renderFrom (i + 1) rest

/-- `Path.String()`: `a.b[0].c` -/
def Path.render (p : Path) : Bytes := Path.renderFrom 0 p

def encElem : PathElem → Json
  | .name n => .str n
  | .index i => .num i

/-- `json.Marshal(path)` for a non-nil path -/
def encPath (p : Path) : Json := .arr (JList.ofList (p.map encElem))

/- ---------------- float64 ---------------- -/

/-- the number of low bits that do not fit 53 significant bits: the least `e ≥ start` with
    `n / 2^e < 2^53` (fuel 1100 covers every finite float64) -/
def shiftFor : Nat → Nat → Nat → Nat
  | 0, _, e => e
  | fuel + 1, n, e => if n / 2 ^ e < 2 ^ 53 then e else shiftFor fuel n (e + 1)

/-- round a natural number to 53 significant bits, nearest, ties to even -/
def roundNat53 (n : Nat) : Nat :=
  if n < 2 ^ 53 then n
  else
    let e := shiftFor 1100 n 1      -- bits that do not fit
    let q := n / 2 ^ e
    let r := n % 2 ^ e
    let half := 2 ^ (e - 1)
    let q' := if r > half ∨ (r = half ∧ q % 2 = 1) then q + 1 else q
    q' * 2 ^ e

/-- the float64 an integer literal is read as (as an exact integer; |i| < 2^1023 assumed) -/
def float64OfInt (i : Int) : Int :=
  if i < 0 then -(roundNat53 i.natAbs : Int) else (roundNat53 i.natAbs : Int)

/-- `int(v)` for an integral float64 on amd64 -/
def goIntOfFloat (x : Int) : Int :=
  if x < -(2 ^ 63 : Int) ∨ (2 ^ 63 : Int) ≤ x then -(2 ^ 63 : Int) else x

/-- what an integral JSON number went through before the repair: `float64`, then `int(v)` -/
def indexThroughFloat (i : Int) : Int := goIntOfFloat (float64OfInt i)

/-- `Path.UnmarshalJSON` on an integral JSON number (decoded with `UseNumber`): `json.Number.Int64()`
    when the text is an int64, otherwise through `Float64()` and `int(f)` as before -/
def indexOfNumber (i : Int) : Int :=
  if -(2 ^ 63 : Int) ≤ i ∧ i < (2 ^ 63 : Int) then i else indexThroughFloat i

/- ---------------- Path.UnmarshalJSON ---------------- -/

def decElem : Json → Except String PathElem
  | .str s => .ok (.name (sanitize s))
  | .num i => .ok (.index (indexOfNumber i))
  | .null => .error "unknown path element type: <nil>"
  | .bool _ => .error "unknown path element type: bool"
  | .arr _ => .error "unknown path element type: []interface {}"
  | .obj _ => .error "unknown path element type: map[string]interface {}"

def decElems : List Json → Except String Path
  | [] => .ok []
  | x :: rest => do
    let e ← decElem x
    let r ← decElems rest
    pure (e :: r)

/-- `(*Path).UnmarshalJSON` -/
def decPath : Json → Except String Path
  | .null => .ok []
  | .arr xs => decElems xs.toList
  | _ => .error "json: cannot unmarshal into Go value of type []interface {}"

/- ---------------- gqlerror.Error ---------------- -/

structure Location where
  line : Int
  column : Int
  deriving DecidableEq, Repr

/-- `gqlerror.Error`; `extensions` is the map as an association list sorted by key (the library
    itself only ever stores the key `file`) -/
structure Error where
  message : Bytes
  path : Path := []
  locations : List Location := []
  extensions : List (Bytes × Json) := []
  rule : Bytes := []

def kFile := str "file"
def kMessage := str "message"
def kPath := str "path"
def kLocations := str "locations"
def kExtensions := str "extensions"
def kLine := str "line"
def kColumn := str "column"

/-- insert / overwrite a key of a sorted association list -/
def extSet (k : Bytes) (v : Json) : List (Bytes × Json) → List (Bytes × Json)
  | [] => [(k, v)]
  | (k', v') :: rest =>
    if k' = k then (k, v) :: rest
    else if k < k' then (k, v) :: (k', v') :: rest
    else (k', v') :: extSet k v rest

/-- `(*Error).SetFile` -/
def Error.setFile (e : Error) (file : Bytes) : Error :=
  if file = [] then e else { e with extensions := extSet kFile (.str file) e.extensions }

/-- `gqlerror.ErrorLocf(file, line, col, …)` once the message is rendered -/
def errorLocf (file : Bytes) (line col : Int) (msg : Bytes) : Error :=
  { message := msg, locations := [⟨line, col⟩],
    extensions := if file = [] then [] else [(kFile, .str file)] }

def extGet (k : Bytes) : List (Bytes × Json) → Option Json
  | [] => none
  | (k', v) :: rest => if k' = k then some v else extGet k rest

/-- `(*Error).Error()` -/
def Error.render (e : Error) : Bytes :=
  let filename : Bytes :=
    match extGet kFile e.extensions with
    | some (.str f) => if f = [] then str "input" else f
    | _ => str "input"
  let loc : Bytes :=
    match e.locations with
    | l :: _ => 0x3A :: intToDec l.line
    | [] => []
  let ps := e.path.render
  filename ++ loc ++ str ": " ++ (if ps ≠ [] then ps ++ [0x20] else []) ++ e.message

def encLocation (l : Location) : Json :=
  .obj (JFields.ofList
    ((if l.line = 0 then [] else [(kLine, Json.num l.line)]) ++
     (if l.column = 0 then [] else [(kColumn, Json.num l.column)])))

/-- `json.Marshal(err)` -/
def encError (e : Error) : Json :=
  .obj (JFields.ofList
    ([(kMessage, Json.str e.message)] ++
     (if e.path = [] then [] else [(kPath, encPath e.path)]) ++
     (if e.locations = [] then [] else [(kLocations, Json.arr (JList.ofList (e.locations.map encLocation)))]) ++
     (if e.extensions = [] then [] else [(kExtensions, Json.obj (JFields.ofList e.extensions))])))

/- ---------------- the shape the GraphQL response format requires ---------------- -/

/-- `{"line": l, "column": c}` with positive integers -/
def isLocationObj : Json → Bool
  | .obj (.cons k1 (.num l) (.cons k2 (.num c) .nil)) => k1 == kLine && k2 == kColumn && decide (1 ≤ l) && decide (1 ≤ c)
  | _ => false

def isPathElemJson : Json → Bool
  | .str _ => true
  | .num _ => true
  | _ => false

def isArrayOf (p : Json → Bool) : Json → Bool
  | .arr xs => xs.toList.all p
  | _ => false

def isObject : Json → Bool
  | .obj _ => true
  | _ => false

/-- consume an optional key: when the next key is `k` its value must satisfy `p` -/
def takeKey (k : Bytes) (p : Json → Bool) : JFields → JFields × Bool
  | .cons k' v r => if k' == k then (r, p v) else (.cons k' v r, true)
  | .nil => (.nil, true)

/-- an error object of a GraphQL response: `message` (string) first and mandatory; then, each
    optional and in this order, `path` (array of strings / integers), `locations` (array of
    `{line, column}`, both ≥ 1), `extensions` (an object); no other key -/
def responseShape : Json → Bool
  | .obj (.cons k (.str _) rest) =>
    let (r1, ok1) := takeKey kPath (isArrayOf isPathElemJson) rest
    let (r2, ok2) := takeKey kLocations (isArrayOf isLocationObj) r1
    let (r3, ok3) := takeKey kExtensions isObject r2
    k == kMessage && ok1 && ok2 && ok3 && (match r3 with | .nil => true | _ => false)
  | _ => false

end Gql.Errors
