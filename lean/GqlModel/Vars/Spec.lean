import GqlModel.Schema.Types
import GqlModel.Vars.Value
import GqlModel.Vars.Strconv
import GqlModel.ArgMap
/-
  SPECIFICATION for C14 / C15, written from the property texts (not from vars.go / argmap.go).

  C14: "… every declared variable's value conforms to its declared type: non-null positions never
  hold null, lists hold conforming items, input objects contain only declared fields with every
  required field present, enums hold declared values, built-in scalars hold a value of a
  compatible kind, absent variables take their defaults; and it returns an error rather than values
  whenever a supplied value cannot conform."

    `Conforms s t v`   the value `v` conforms to the declared type `t` (what a RESULT must satisfy);
    `Coercible s t v`  the SUPPLIED value `v` can conform to `t`: `Conforms`, except that a list
                       position may hold a single (non-list) value, which input coercion wraps.

  COMPATIBLE KIND TABLE (C14).  The property asks that a built-in scalar holds "a value of a
  compatible kind"; the Go kinds that count as compatible with each built-in scalar are
    Int      every integer kind; every float kind (a JSON number decodes to float64, fractional ones
             included); a value of a string kind (`string`, `json.Number`) whose text parses as an
             integer (`strconv.ParseInt(·, 10, 64)`)
    Float    every float kind; every integer kind; a value of a string kind whose text parses as
             a float (`strconv.ParseFloat(·, 64)`)
    String   every string kind (`json.Number` has kind string)
    Boolean  bool
    ID       every integer kind; every string kind
  An enum holds a declared value: a value of a string kind whose text IS the name of one of the
  enum's values (exactly, byte for byte).  A custom scalar accepts every non-null value.

  Two deviations from the plain reading are expressible through `Reading` and are used ONLY where
  stated:
    * `typenameKey` — the exception for the known finding R14c (the implementation tolerates and
      hands on the undeclared key `__typename` in input objects).  `ConformsExceptTypename` /
      `CoercibleExceptTypename` grant it; `Conforms` / `Coercible` do not.
    * `strictNumStr`, `strictFracInt`, `strictJsonNumber` — the STRICT reading of GraphQL input
      coercion for built-in scalars (no numeric strings for Int/Float, no fractional float for Int,
      no json.Number for String/ID/enums).  It demands more than C14 states; the check only COUNTS
      the returned values that fail it (evidence, never a violation), and no theorem uses it.
-/
namespace Gql
open Gql.Strconv

structure Reading where
  /-- R14c exception: an input object may carry the undeclared key `__typename` -/
  typenameKey : Bool := false
  /-- supplied values: a list position may hold a single non-list value (wrapped by coercion) -/
  single : Bool := false
  /-- informational strict reading: `Int` / `Float` positions reject STRINGS that spell a number -/
  strictNumStr : Bool := false
  /-- informational strict reading: an `Int` position rejects a float that is not integral (1.5, NaN, ±Inf) -/
  strictFracInt : Bool := false
  /-- informational strict reading: `String` / `ID` / enum positions reject a json.Number; `Int` /
      `Float` positions still accept one whose text parses -/
  strictJsonNumber : Bool := false
  deriving Repr, DecidableEq

/-- the reading of the property text -/
def Reading.spec : Reading := {}
/-- … for a supplied value (single value where a list is expected) -/
def Reading.supplied : Reading := { single := true }
/-- … with the exception for R14c -/
def Reading.specT : Reading := { typenameKey := true }
def Reading.suppliedT : Reading := { typenameKey := true, single := true }
/-- GraphQL's strict input coercion of built-in scalars (informational) -/
def Reading.strict : Reading := { strictNumStr := true, strictFracInt := true, strictJsonNumber := true }

def intOK (L : Reading) : GoVal → Bool
  | .int _ _ => true
  | .uint _ _ => true
  | .float _ t => !L.strictFracInt || floatTextIntegral t
  | .jsonNumber t => parseIntOk t
  | .str t => !L.strictNumStr && parseIntOk t
  | _ => false

def floatOK (L : Reading) : GoVal → Bool
  | .float _ _ => true
  | .int _ _ => true
  | .uint _ _ => true
  | .jsonNumber t => parseFloatOk t
  | .str t => !L.strictNumStr && parseFloatOk t
  | _ => false

def stringOK (L : Reading) : GoVal → Bool
  | .str _ => true
  | .jsonNumber _ => !L.strictJsonNumber
  | _ => false

def boolOK : GoVal → Bool
  | .bool _ => true
  | _ => false

def idOK (L : Reading) : GoVal → Bool
  | .str _ => true
  | .int _ _ => true
  | .uint _ _ => true
  | .jsonNumber t => !L.strictJsonNumber || parseIntOk t
  | _ => false

/-- `x` is (exactly) the name of a declared value of the enum `d` -/
def enumNameOK (d : Definition) (x : Bytes) : Bool := d.enumValues.any (fun ev => ev.name = x)

def enumOK (L : Reading) (d : Definition) : GoVal → Bool
  | .str x => enumNameOK d x
  | .jsonNumber x => !L.strictJsonNumber && enumNameOK d x
  | _ => false

def isBuiltinScalarName (n : Name) : Bool := (builtinOf n).isSome

/-- a non-null value that is neither a list nor a map, against the named type `n` -/
def leafOK (L : Reading) (s : Schema) (n : Name) (v : GoVal) : Bool :=
  match s.type? n with
  | none => false
  | some d =>
    match d.kind with
    | .scalar =>
      match builtinOf n with
      | some .int => intOK L v
      | some .float => floatOK L v
      | some .string => stringOK L v
      | some .boolean => boolOK v
      | some .id => idOK L v
      | none => true                                -- a custom scalar accepts every non-null value
    | .enum => enumOK L d v
    | _ => false

def isCustomScalar (s : Schema) (n : Name) : Bool :=
  match s.type? n with
  | some d => d.kind = .scalar && !isBuiltinScalarName n
  | none => false

/-- the named type a non-list value is checked against -/
def leafName (L : Reading) : GType → Option Name
  | .named n _ _ => some n
  | .list e _ _ => if L.single then some e.name else none

/-- a field is required when its type is non-null and it has no default -/
def FieldDef.required (f : FieldDef) : Bool := f.type.nonNull && f.default.isNone

def requiredPresent (fields : List FieldDef) (kvs : GoFields) : Bool :=
  fields.all fun f => !f.required || kvs.contains f.name

mutual
  def conformsWith (L : Reading) (s : Schema) : GType → GoVal → Bool
    | t, .nil => !t.nonNull                                           -- non-null positions never hold null
    | t, .slice _ xs =>
      match t with
      | .list e _ _ => allConform L s e xs                            -- lists hold conforming items
      | .named n _ _ => isCustomScalar s n
    | t, .map _ kvs =>
      match leafName L t with
      | none => false
      | some n =>
        match s.type? n with
        | none => false
        | some d =>
          if d.kind = .inputObject then
            fieldsDeclared L s d.fields kvs                           -- only declared fields, each conforming
              && requiredPresent d.fields kvs                         -- every required field present
          else isCustomScalar s n
    | t, v =>
      match leafName L t with
      | none => false
      | some n => leafOK L s n v
  def allConform (L : Reading) (s : Schema) (e : GType) : GoVals → Bool
    | .nil => true
    | .cons v rest => conformsWith L s e v && allConform L s e rest
  def fieldsDeclared (L : Reading) (s : Schema) (fields : List FieldDef) : GoFields → Bool
    | .nil => true
    | .cons k v rest =>
      (match fields.find? (fun f => f.name = k) with
        | some fd => conformsWith L s fd.type v
        | none => L.typenameKey && k = str "__typename")
      && fieldsDeclared L s fields rest
end

def conformsB (s : Schema) (t : GType) (v : GoVal) : Bool := conformsWith .spec s t v
def coercibleB (s : Schema) (t : GType) (v : GoVal) : Bool := conformsWith .supplied s t v

/-- C14: the value `v` conforms to the declared type `t` -/
def Conforms (s : Schema) (t : GType) (v : GoVal) : Prop := conformsB s t v = true
/-- C14: the supplied value `v` can be coerced to the declared type `t` -/
def Coercible (s : Schema) (t : GType) (v : GoVal) : Prop := coercibleB s t v = true
/-- `Conforms`, except that input objects may carry the undeclared key `__typename` (R14c) -/
def ConformsExceptTypename (s : Schema) (t : GType) (v : GoVal) : Prop := conformsWith .specT s t v = true
/-- `Coercible`, except that input objects may carry the undeclared key `__typename` (R14c) -/
def CoercibleExceptTypename (s : Schema) (t : GType) (v : GoVal) : Prop := conformsWith .suppliedT s t v = true

instance (s : Schema) (t : GType) (v : GoVal) : Decidable (Conforms s t v) := by unfold Conforms; infer_instance
instance (s : Schema) (t : GType) (v : GoVal) : Decidable (Coercible s t v) := by unfold Coercible; infer_instance
instance (s : Schema) (t : GType) (v : GoVal) : Decidable (ConformsExceptTypename s t v) := by unfold ConformsExceptTypename; infer_instance
instance (s : Schema) (t : GType) (v : GoVal) : Decidable (CoercibleExceptTypename s t v) := by unfold CoercibleExceptTypename; infer_instance

mutual
  /-- no map inside the value has the key `__typename` -/
  def noTypenameB : GoVal → Bool
    | .slice _ xs => noTypenameItemsB xs
    | .map _ kvs => noTypenameFieldsB kvs
    | _ => true
  def noTypenameItemsB : GoVals → Bool
    | .nil => true
    | .cons v r => noTypenameB v && noTypenameItemsB r
  def noTypenameFieldsB : GoFields → Bool
    | .nil => true
    | .cons k v r => k ≠ str "__typename" && noTypenameB v && noTypenameFieldsB r
end

/- ============================ C15: ArgSpec ============================ -/

/-- the integer denoted by a decimal literal `-?[0-9]+` -/
def decimalLiteral (raw : Bytes) : Option Int :=
  let digits (ds : Bytes) : Option Nat :=
    if ds.isEmpty ∨ !ds.all isDigit then none else some (ds.foldl (fun acc c => acc * 10 + (c - 48)) 0)
  match raw with
  | 45 :: ds => (digits ds).map fun n => -(n : Int)
  | ds => (digits ds).map fun n => (n : Int)

def fitsInt64 (i : Int) : Bool := decide (-9223372036854775808 ≤ i) && decide (i ≤ 9223372036854775807)

/-- the rest after a maximal run of digits -/
def dropDigits : Bytes → Bytes
  | [] => []
  | c :: r => if isDigit c then dropDigits r else c :: r

/-- `[0-9]+`: the rest after the run, `none` when there is no digit -/
def digits1 : Bytes → Option Bytes
  | [] => none
  | c :: r => if isDigit c then some (dropDigits r) else none

/-- `[+-]?[0-9]+` up to the end of the text (what follows `e` / `E`) -/
def exponentTail (s : Bytes) : Bool :=
  let s' := match s with
    | [] => []
    | c :: r => if c = 43 ∨ c = 45 then r else c :: r
  match digits1 s' with
  | some [] => true
  | _ => false

/-- `-?[0-9]+(\.[0-9]+)?([eE][+-]?[0-9]+)?` with a fraction or an exponent (the FloatValue
    tokens of the grammar, leading zeros not excluded) -/
def floatLexeme (raw : Bytes) : Bool :=
  let body := match raw with
    | [] => []
    | c :: r => if c = 45 then r else c :: r
  match digits1 body with
  | none => false
  | some [] => false
  | some (c :: r2) =>
    if c = 46 then
      match digits1 r2 with
      | none => false
      | some [] => true
      | some (e :: r3) => (e = 101 || e = 69) && exponentTail r3
    else (c = 101 || c = 69) && exponentTail r2

mutual
  /-- the Go value a literal denotes ("lists and input objects converted recursively, variables
      inside them substituted": supplied value, else `dflt` of the variable, else null).
      Numbers: an integer literal that fits int64 denotes that int64; every other number literal
      denotes the float64 nearest to it (±Inf beyond float64) — carried as its TEXT
      (`.float false raw`; observations compare the float64 of the text, `impl.CanonFloats`).
      `none`: the leaf is not a literal of the grammar (malformed text) -/
  def literalSpec (dflt : Name → Option GoVal) (vars : VarMap) : Value → Option GoVal
    | .mk kind raw children _ =>
      match kind with
      | .variable =>
        match vars.lookup raw with
        | some v => some v
        | none => some ((dflt raw).getD .nil)
      | .int => match decimalLiteral raw with
        -- an integer literal beyond int64 is still a number: the float64 nearest to it
        | some i => if fitsInt64 i then some (.int .int64 i) else some (.float false raw)
        | none => none
      -- the float64 nearest to the literal, ±Inf when it is beyond float64
      | .float => if floatLexeme raw then some (.float false raw) else none
      | .string | .block | .enum => some (.str raw)
      | .boolean => if raw = str "true" then some (.bool true) else if raw = str "false" then some (.bool false) else none
      | .null => some .nil
      | .list => (literalListSpec dflt vars children).map fun xs => .slice .iface xs
      | .object => (literalObjectSpec dflt vars children .nil).map fun kvs => .map .iface kvs
  def literalListSpec (dflt : Name → Option GoVal) (vars : VarMap) : Children → Option GoVals
    | .nil => some .nil
    | .cons _ v _ rest =>
      match literalSpec dflt vars v with
      | some x => (literalListSpec dflt vars rest).map fun xs => .cons x xs
      | none => none
  /-- an input-object literal denotes a MAP: fields are entered in source order, a repeated name
      keeps its last value (`acc` = the map built so far) -/
  def literalObjectSpec (dflt : Name → Option GoVal) (vars : VarMap) : Children → GoFields → Option GoFields
    | .nil, acc => some acc
    | .cons n v _ rest, acc =>
      match literalSpec dflt vars v with
      | some x => literalObjectSpec dflt vars rest (acc.set n x)
      | none => none
end

/- ---- hypotheses of the C15 theorems, as decidable predicates on literals ---- -/

mutual
  /-- `strconv` finds no SYNTAX error in any Int / Float / Boolean leaf of the literal (range
      errors no longer matter: number literals always convert).  Model-level hypothesis of
      `C15_total_syntaxOk`; every lexer-produced literal satisfies it (`wellLexed_syntaxOk`). -/
  def syntaxOkB : Value → Bool
    | .mk kind raw children _ =>
      match kind with
      | .int => (match parseInt raw with | .syntax => false | _ => true)
      | .float => (match parseFloat raw with | .syntax => false | _ => true)
      | .boolean => (parseBool raw).isSome
      | .list | .object => childrenSyntaxOkB children
      | _ => true
  def childrenSyntaxOkB : Children → Bool
    | .nil => true
    | .cons _ v _ rest => syntaxOkB v && childrenSyntaxOkB rest
end

mutual
  /-- no variable occurs in the literal (`Value[Const]`) -/
  def constB : Value → Bool
    | .mk kind _ children _ =>
      match kind with
      | .variable => false
      | .list | .object => childrenConstB children
      | _ => true
  def childrenConstB : Children → Bool
    | .nil => true
    | .cons _ v _ rest => constB v && childrenConstB rest
end

/-- `-?[0-9]+` -/
def intLexeme (raw : Bytes) : Bool :=
  match raw with
  | 45 :: ds => !ds.isEmpty && ds.all isDigit
  | ds => !ds.isEmpty && ds.all isDigit

mutual
  /-- leaves are written as the lexer produces them: Int tokens are `-?[0-9]+`, Float tokens are
      `-?[0-9]+(\.[0-9]+)?([eE][+-]?[0-9]+)?`, Boolean tokens are `true` / `false` -/
  def wellLexedB : Value → Bool
    | .mk kind raw children _ =>
      match kind with
      | .int => intLexeme raw
      | .float => floatLexeme raw
      | .boolean => raw = str "true" || raw = str "false"
      | .list | .object => childrenWellLexedB children
      | _ => true
  def childrenWellLexedB : Children → Bool
    | .nil => true
    | .cons _ v _ rest => wellLexedB v && childrenWellLexedB rest
end

/-- the defaults of the variable definitions are constant literals without syntax errors in their leaves -/
def DefaultsSyntaxOk (vdefs : List VarDef) : Prop :=
  ∀ d ∈ vdefs, ∀ dv, d.default = some dv → syntaxOkB dv = true ∧ constB dv = true

/-- the defaults of the variable definitions are constant literals as the lexer produces them
    (the grammar: `DefaultValue : = Value[Const]`) -/
def DefaultsLexed (vdefs : List VarDef) : Prop :=
  ∀ d ∈ vdefs, ∀ dv, d.default = some dv → wellLexedB dv = true ∧ constB dv = true

/-- every variable that has a default has an entry in the variables map (what coercion
    establishes: C14_defaults) -/
def DefaultsSupplied (vdefs : List VarDef) (vars : VarMap) : Prop :=
  ∀ n d, findVarDef vdefs n = some d → d.default.isSome = true → vars.contains n = true

/-- C15, the hypothesis about variable links.  `Value.VariableDefinition` of a variable used inside
    a FRAGMENT is set by the walker to the definition of the LAST operation walked that spreads the
    fragment (`linked`), which need not be the operation being executed (`opDefs`).  The links
    agree with the operation when every variable has the same default in both — in particular in
    a document with a single operation, or when no other operation that spreads the same fragment
    declares a variable of the same name with a different default. -/
def LinksAgree (linked opDefs : List VarDef) : Prop :=
  ∀ n, (findVarDef linked n).bind (·.default) = (findVarDef opDefs n).bind (·.default)

/-- a constant literal (defaults): variables do not occur -/
def constSpec (v : Value) : Option GoVal := literalSpec (fun _ => none) .nil v

/-- the default of variable `n` as a Go value -/
def varDefaultSpec (vdefs : List VarDef) (n : Name) : Option GoVal :=
  match findVarDef vdefs n with
  | some d => match d.default with
    | some dv => constSpec dv
    | none => none
  | none => none

/-- first `some` wins -/
def firstSome {α} : List (Option α) → Option α
  | [] => none
  | some a :: _ => some a
  | none :: r => firstSome r

/-- the value of ONE declared argument: `none` = the argument is absent from the map;
    `some none` = a literal that denotes no value -/
def argValueSpec (vdefs : List VarDef) (args : List Argument) (vars : VarMap) (d : ArgDef) : Option (Option GoVal) :=
  -- the argument's default is a literal like any other
  let argDefault : Option (Option GoVal) := d.default.map (literalSpec (varDefaultSpec vdefs) vars)
  match findArg args d.name with
  | some a =>
    if a.value.kind = .variable then
      -- the supplied variable's value, else the variable's default, else the argument's default
      match firstSome [vars.lookup a.value.raw, varDefaultSpec vdefs a.value.raw] with
      | some x => some (some x)
      | none => argDefault
    else
      -- the literal written
      some (literalSpec (varDefaultSpec vdefs) vars a.value)
  | none => argDefault

/-- C15 "the arguments that have a value": a literal is written, or the variable written is in
    the variables map, or the argument has a default -/
def argHasValue (args : List Argument) (vars : VarMap) (d : ArgDef) : Bool :=
  (match findArg args d.name with
    | some a => if a.value.kind = .variable then vars.contains a.value.raw else true
    | none => false) || d.default.isSome

/-- C15: the argument map the specification prescribes (`none` when some literal denotes no value).
    Entries in declaration order. -/
def argSpec (vdefs : List VarDef) : List ArgDef → List Argument → VarMap → Option GoFields
  | [], _, _ => some .nil
  | d :: rest, args, vars =>
    match argSpec vdefs rest args vars with
    | none => none
    | some tail =>
      match argValueSpec vdefs args vars d with
      | none => some tail
      | some none => none
      | some (some x) => some (if tail.contains d.name then tail else .cons d.name x tail)

end Gql

namespace Gql

/- ---- hypotheses of the C14 theorems ---- -/

mutual
  /-- REPRESENTATION INVARIANT of `GoVal` (not a restriction on Go values):
        (1) `.nil` — the nil interface — occurs only as an element of an `interface{}`-typed
            container.  A Go value of a concrete element type (`[]int`, `[]map[string]interface{}`,
            `map[string]string` …) is never the nil interface;
        (2) the keys of a map are pairwise different (`GoFields` is an association list).
      Every `GoVal` the wire codec produces from a real Go value satisfies it; typed slices and
      typed maps of every element type are inside it. -/
  def wfB : GoVal → Bool
    | .slice e xs => wfItemsB (e = .iface) xs
    | .map e kvs => wfFieldsB (e = .iface) kvs
    | _ => true
  def wfItemsB (nilOK : Bool) : GoVals → Bool
    | .nil => true
    | .cons v r => (nilOK || !v.isNil) && wfB v && wfItemsB nilOK r
  def wfFieldsB (nilOK : Bool) : GoFields → Bool
    | .nil => true
    | .cons k v r => !r.contains k && (nilOK || !v.isNil) && wfB v && wfFieldsB nilOK r
end

/-- the named type exists in the schema and is an input type -/
def InputTypeOK (s : Schema) (t : GType) : Prop :=
  ∃ d, s.type? t.name = some d ∧ (d.kind = .scalar ∨ d.kind = .enum ∨ d.kind = .inputObject)

/-- every field of every input object has an input type that exists (part of C07_loaded_closed) -/
def InputsClosed (s : Schema) : Prop :=
  ∀ n d, s.type? n = some d → d.kind = .inputObject → ∀ f ∈ d.fields, InputTypeOK s f.type

/-- the fields of an input object have pairwise different names (part of the loader's checks) -/
def InputFieldsNodup (s : Schema) : Prop :=
  ∀ n d, s.type? n = some d → d.kind = .inputObject → (d.fields.map (·.name)).Nodup

/-- enum value names do not start with `<` (they are Names): `reflect.Value.String()` of a
    non-string value is `<int Value>` …, which therefore is no enum value -/
def EnumNamesPlain (s : Schema) : Prop :=
  ∀ n d, s.type? n = some d → ∀ ev ∈ d.enumValues, ev.name.head? ≠ some 60

end Gql
