import GqlModel.Basic.Sexp
/-
  `GoVal`: the JSON-like Go values that `validator.VariableValues`, `ast.Value.Value` and
  `arg2map` consume and produce, with exactly the `reflect` distinctions the code reacts to:

  * the dynamic Go type of every value (`reflect.Value.Type()`, `Kind()`), including the signed /
    unsigned integer kinds, float32/float64, `string` vs `json.Number` (both of kind String);
  * slices and string-keyed maps carry their ELEMENT TYPE: `[]interface{}` / `map[string]interface{}`
    (elements have kind Interface and may be nil) versus typed containers (`[]int`, `[]json.Number`,
    `map[string]int`, `[]map[string]interface{}` …) which the single-value-to-list coercion of
    vars.go itself creates (`reflect.MakeSlice(reflect.SliceOf(val.Type()))`);
  * `.nil` is the nil interface value, and doubles as the zero `reflect.Value` obtained from
    `Elem()` of a nil interface.

  Floats carry their decimal TEXT, never a float (vars.go only looks at the kind; literal
  conversion only needs "does ParseFloat succeed").  Not in the domain (Go-only probes of the
  harness): pointers, structs, arrays, maps with non-string keys, named types other than
  json.Number, nil slices/maps as distinct from empty ones (printed alike).

  Nested lists are explicit mutual cons-lists (structural recursion, as in Syntax/Ast.lean).
-/
namespace Gql

inductive IntKind | int | int8 | int16 | int32 | int64
  deriving DecidableEq, Repr, Inhabited
inductive UIntKind | uint | uint8 | uint16 | uint32 | uint64
  deriving DecidableEq, Repr, Inhabited

def IntKind.name : IntKind → String
  | .int => "int" | .int8 => "int8" | .int16 => "int16" | .int32 => "int32" | .int64 => "int64"
def UIntKind.name : UIntKind → String
  | .uint => "uint" | .uint8 => "uint8" | .uint16 => "uint16" | .uint32 => "uint32" | .uint64 => "uint64"

/-- Go types of the domain -/
inductive GoType
  | iface                         -- interface{}
  | bool
  | int (k : IntKind)
  | uint (k : UIntKind)
  | float32 | float64
  | string
  | jsonNumber                    -- encoding/json.Number (kind String)
  | slice (e : GoType)
  | map (e : GoType)              -- map[string]e
  deriving DecidableEq, Repr, Inhabited

/-- `reflect.Kind` (only the kinds the domain produces, plus Invalid) -/
inductive Kind
  | invalid | bool | int (k : IntKind) | uint (k : UIntKind) | float32 | float64 | string | slice | map | iface
  deriving DecidableEq, Repr, Inhabited

def GoType.kind : GoType → Kind
  | .iface => .iface | .bool => .bool | .int k => .int k | .uint k => .uint k
  | .float32 => .float32 | .float64 => .float64 | .string => .string | .jsonNumber => .string
  | .slice _ => .slice | .map _ => .map

/-- `Kind.String()` -/
def Kind.name : Kind → String
  | .invalid => "invalid" | .bool => "bool" | .int k => k.name | .uint k => k.name
  | .float32 => "float32" | .float64 => "float64" | .string => "string" | .slice => "slice"
  | .map => "map" | .iface => "interface"

/-- `reflect.Type.String()` -/
def GoType.name : GoType → String
  | .iface => "interface {}" | .bool => "bool" | .int k => k.name | .uint k => k.name
  | .float32 => "float32" | .float64 => "float64" | .string => "string" | .jsonNumber => "json.Number"
  | .slice e => "[]" ++ e.name
  | .map e => "map[string]" ++ e.name

mutual
  inductive GoVal
    | nil
    | bool (b : Bool)
    | int (k : IntKind) (n : Int)
    | uint (k : UIntKind) (n : Nat)
    | float (is32 : Bool) (text : Bytes)
    | jsonNumber (text : Bytes)
    | str (s : Bytes)
    | slice (elem : GoType) (xs : GoVals)
    | map (elem : GoType) (kvs : GoFields)
  inductive GoVals
    | nil
    | cons (v : GoVal) (rest : GoVals)
  inductive GoFields
    | nil
    | cons (k : Bytes) (v : GoVal) (rest : GoFields)
end

instance : Inhabited GoVal := ⟨.nil⟩
instance : Inhabited GoVals := ⟨.nil⟩
instance : Inhabited GoFields := ⟨.nil⟩

def GoVals.toList : GoVals → List GoVal
  | .nil => []
  | .cons v r => v :: r.toList
def GoVals.ofList : List GoVal → GoVals
  | [] => .nil
  | v :: r => .cons v (GoVals.ofList r)
def GoFields.toList : GoFields → List (Bytes × GoVal)
  | .nil => []
  | .cons k v r => (k, v) :: r.toList
def GoFields.ofList : List (Bytes × GoVal) → GoFields
  | [] => .nil
  | (k, v) :: r => .cons k v (GoFields.ofList r)

def GoVals.length : GoVals → Nat
  | .nil => 0
  | .cons _ r => r.length + 1

/-- map index -/
def GoFields.lookup (key : Bytes) : GoFields → Option GoVal
  | .nil => none
  | .cons k v r => if k = key then some v else r.lookup key

def GoFields.contains (key : Bytes) (f : GoFields) : Bool := (f.lookup key).isSome

/-- `m[key] = v` (replace in place, else append) -/
def GoFields.set (key : Bytes) (v : GoVal) : GoFields → GoFields
  | .nil => .cons key v .nil
  | .cons k w r => if k = key then .cons k v r else .cons k w (r.set key v)

/-- `delete(m, key)` -/
def GoFields.erase (key : Bytes) : GoFields → GoFields
  | .nil => .nil
  | .cons k w r => if k = key then r.erase key else .cons k w (r.erase key)

def GoFields.keys : GoFields → List Bytes
  | .nil => []
  | .cons k _ r => k :: r.keys

/-- dynamic type (`reflect.Value.Type()`); `none` for nil / the zero Value, where Go panics -/
def GoVal.type? : GoVal → Option GoType
  | .nil => none
  | .bool _ => some .bool
  | .int k _ => some (.int k)
  | .uint k _ => some (.uint k)
  | .float is32 _ => some (if is32 then .float32 else .float64)
  | .jsonNumber _ => some .jsonNumber
  | .str _ => some .string
  | .slice e _ => some (.slice e)
  | .map e _ => some (.map e)

/-- `reflect.Value.Kind()` (Invalid for the zero Value) -/
def GoVal.kind (v : GoVal) : Kind :=
  match v.type? with
  | none => .invalid
  | some t => t.kind

def GoVal.isNil : GoVal → Bool
  | .nil => true
  | _ => false

mutual
  def GoVal.size : GoVal → Nat
    | .slice _ xs => xs.size + 1
    | .map _ kvs => kvs.size + 1
    | _ => 1
  def GoVals.size : GoVals → Nat
    | .nil => 0
    | .cons v r => v.size + r.size + 1
  def GoFields.size : GoFields → Nat
    | .nil => 0
    | .cons _ v r => v.size + r.size + 1
end

/- ------------------------------ wire codec ------------------------------ -/
namespace Wire

def goType : GoType → Sexp
  | .iface => .tag "I" | .bool => .tag "bool" | .int k => .tag k.name | .uint k => .tag k.name
  | .float32 => .tag "f32" | .float64 => .tag "f64" | .string => .tag "str" | .jsonNumber => .tag "jn"
  | .slice e => .list [.tag "sl", goType e]
  | .map e => .list [.tag "m", goType e]

def dIntKind : String → Option IntKind
  | "int" => some .int | "int8" => some .int8 | "int16" => some .int16 | "int32" => some .int32
  | "int64" => some .int64 | _ => none
def dUIntKind : String → Option UIntKind
  | "uint" => some .uint | "uint8" => some .uint8 | "uint16" => some .uint16 | "uint32" => some .uint32
  | "uint64" => some .uint64 | _ => none

partial def dGoType : Sexp → Option GoType
  | .tag "I" => some .iface | .tag "bool" => some .bool | .tag "f32" => some .float32
  | .tag "f64" => some .float64 | .tag "str" => some .string | .tag "jn" => some .jsonNumber
  | .tag t => match dIntKind t with
    | some k => some (.int k)
    | none => (dUIntKind t).map .uint
  | .list [.tag "sl", e] => (dGoType e).map .slice
  | .list [.tag "m", e] => (dGoType e).map .map
  | _ => none

def bytesLt : Bytes → Bytes → Bool
  | [], [] => false
  | [], _ :: _ => true
  | _ :: _, [] => false
  | a :: as, b :: bs => if a < b then true else if b < a then false else bytesLt as bs

def insertSorted (k : Bytes) (s : Sexp) : List (Bytes × Sexp) → List (Bytes × Sexp)
  | [] => [(k, s)]
  | (k', s') :: r => if bytesLt k k' then (k, s) :: (k', s') :: r else (k', s') :: insertSorted k s r

mutual
  /-- canonical form: map entries sorted by key (bytewise, like Go's `sort.Strings`) -/
  def goVal : GoVal → Sexp
    | .nil => .tag "nil"
    | .bool b => .list [.tag "b", .int (if b then 1 else 0)]
    | .int k n => .list [.tag "i", .tag k.name, .int n]
    | .uint k n => .list [.tag "u", .tag k.name, .int n]
    | .float is32 t => .list [.tag (if is32 then "f32" else "f64"), .bytes t]
    | .jsonNumber t => .list [.tag "jn", .bytes t]
    | .str s => .list [.tag "s", .bytes s]
    | .slice e xs => .list (.tag "sl" :: goType e :: goVals xs)
    | .map e kvs => .list (.tag "m" :: goType e :: (goFields kvs).map fun (k, s) => .list [.bytes k, s])
  def goVals : GoVals → List Sexp
    | .nil => []
    | .cons v r => goVal v :: goVals r
  def goFields : GoFields → List (Bytes × Sexp)
    | .nil => []
    | .cons k v r => insertSorted k (goVal v) (goFields r)
end

partial def dGoVal : Sexp → Option GoVal
  | .tag "nil" => some .nil
  | .list [.tag "b", .int 0] => some (.bool false)
  | .list [.tag "b", .int 1] => some (.bool true)
  | .list [.tag "i", .tag k, .int n] => (dIntKind k).map fun k => .int k n
  | .list [.tag "u", .tag k, .int n] => (dUIntKind k).map fun k => .uint k n.toNat
  | .list [.tag "f32", .bytes t] => some (.float true t)
  | .list [.tag "f64", .bytes t] => some (.float false t)
  | .list [.tag "jn", .bytes t] => some (.jsonNumber t)
  | .list [.tag "s", .bytes t] => some (.str t)
  | .list (.tag "sl" :: e :: xs) => do
    let e ← dGoType e
    let vs ← xs.mapM dGoVal
    pure (.slice e (GoVals.ofList vs))
  | .list (.tag "m" :: e :: kvs) => do
    let e ← dGoType e
    let ps ← kvs.mapM fun
      | .list [.bytes k, v] => do pure (k, ← dGoVal v)
      | _ => none
    pure (.map e (GoFields.ofList ps))
  | _ => none

end Wire
end Gql
