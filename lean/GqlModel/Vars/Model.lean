import GqlModel.Schema.Types
import GqlModel.ArgMap
/-
  validator/vars.go: `VariableValues` and `varValidator.validateVarType`, crash-explicit.

  * A `reflect.Value` is a `GoVal` (`.nil` = the zero Value); whether a slice element / map entry
    has kind Interface is decided by the element type of its container.
  * `validateVarType` mutates maps IN PLACE (`SetMapIndex`) and returns a `reflect.Value` that is
    either its argument or a freshly made one-element slice.  Both effects are visible in the
    result of `VariableValues`, so the model returns a pair `(ret, upd)`: the returned Value and
    the state of the argument after the in-place updates (they differ only when a single value
    was wrapped into a slice).
  * The recursion is on `(size of the value, list depth of the type)`; it is written with explicit
    fuel (`coerce` supplies enough: `fuelFor`), `outOfFuel` is a separate outcome.
  * Map iteration (`val.MapKeys()`, random in Go) only decides WHICH unknown key is reported; the
    model takes the association-list order and also reports the other offending keys (`alts`).

  LEGACY QUIRKS of the pinned tree are isolated in the `legacy…` switches below (both repaired:
  R14a in the tree, R14d by r14d.patch).
-/
namespace Gql
open Gql.Strconv

inductive PathElem
  | name (n : Bytes)
  | idx (i : Nat)
  deriving DecidableEq, Repr, Inhabited

abbrev Path := List PathElem

inductive Res (α : Type)
  | ok (a : α)
  /-- `*gqlerror.Error` with message and path; `alts`: other keys Go's random map order may report instead of the last path element -/
  | err (msg : Bytes) (path : Path) (alts : List Bytes)
  | panic (msg : Bytes)
  | outOfFuel
  deriving Inhabited

/- ===================== legacy switches (R14a, R14d) ===================== -/

/-- R14d: `_, err := v.validateVarType(typ.Elem, field)` — the coerced element was DISCARDED, the
    slice kept the (in-place mutated) original element.  `false` = the repaired behaviour of
    r14d.patch: `cval, err := …`; when the dynamic type of the element changed (a single value was
    wrapped into a list, or a typed list was rebuilt) `cval` is stored back with
    `val.Index(i).Set(cval)`; otherwise the element was coerced in place and `cval` IS the element
    (see `storeElem`, `storeElemType`). -/
def legacyDiscardNestedListResult : Bool := false

/-- R14a: in the list branch the zero Value (a null) reaches `val.Type()` → reflect panic.
    Repaired behaviour: `false` (null handled before the list branch: nullable ⇒ returned as is). -/
def legacyNullIntoListPanics : Bool := false

/-- what the element of the result slice becomes after its recursive call returned `(ret, upd)`.
    Repaired code: `ret` (when the dynamic type is unchanged `ret` and `upd` are the same value, so
    "store back only if the type changed" and "always take `ret`" coincide). -/
def storeElem (ret upd : GoVal) : GoVal :=
  if legacyDiscardNestedListResult then upd else ret

/-- element type of the result slice: legacy keeps the type.  Repaired code: the slice is kept
    (elements set in place) as long as every coerced element is assignable to its element type —
    for the domain: the slice is a `[]interface{}`, or no element changed its dynamic type —;
    otherwise it is copied into a fresh `[]interface{}` (`reflect.MakeSlice` + element-wise `Set`)
    before the coerced element is stored. -/
def storeElemType (t : GoType) (before after : GoVals) : GoType :=
  if legacyDiscardNestedListResult then t
  else if (before.toList.map GoVal.type?) = (after.toList.map GoVal.type?) then t else .iface

/- ============================== helpers ============================== -/

def typeOnZeroMsg : Bytes := str "reflect: call of reflect.Value.Type on zero Value"
def ifaceOnZeroMsg : Bytes := str "reflect: call of reflect.Value.Interface on zero Value"

/-- `reflect.Value.String()` -/
def GoVal.reflectString : GoVal → Bytes
  | .str s => s
  | .jsonNumber s => s
  | v => match v.type? with
    | none => Gql.str "<invalid Value>"
    | some t => Gql.str "<" ++ Gql.str t.name ++ Gql.str " Value>"

/-- `fmt.Sprintf("%v", val.Interface())` for a value of kind String (string or json.Number) -/
def GoVal.stringContent : GoVal → Bytes
  | .str s => s
  | .jsonNumber s => s
  | _ => []

def isIntLikeKind (k : Kind) : Bool := k = .int .int || k = .int .int32 || k = .int .int64
def isFloatKind (k : Kind) : Bool := k = .float32 || k = .float64

/-- `IsValidIntString(val, kind)` -/
def isValidIntString (v : GoVal) (k : Kind) : Bool :=
  if k ≠ .string then false else parseIntOk v.stringContent

/-- `IsValidFloatString(val, kind)` -/
def isValidFloatString (v : GoVal) (k : Kind) : Bool :=
  if k ≠ .string then false else parseFloatOk v.stringContent

/-- `Definition.IsInputType` -/
def Definition.isInputType (d : Definition) : Bool :=
  d.kind = .scalar || d.kind = .enum || d.kind = .inputObject

/-- `FieldList.ForName` -/
def findField (fs : List FieldDef) (n : Name) : Option FieldDef := fs.find? fun f => f.name = n

/-- is a value of dynamic type `t?` assignable to a container element of type `elem` (`reflect`'s
    `assignTo` for the types of the domain: identical types, or the target is `interface{}`) -/
def assignable (t? : Option GoType) (elem : GoType) : Bool :=
  match t? with
  | none => true
  | some t => elem = .iface || t = elem

def setNotAssignableMsg (t : GoType) (elem : GoType) : Bytes :=
  str "reflect.Value.SetMapIndex: value of type " ++ str t.name ++ str " is not assignable to type " ++ str elem.name

/-- the keys of a map that the first loop of the InputObject branch would reject, in list order -/
def unknownKeys (fields : List FieldDef) : GoFields → List Bytes
  | .nil => []
  | .cons k _ rest =>
    if k = str "__typename" then unknownKeys fields rest
    else match findField fields k with
      | some _ => unknownKeys fields rest
      | none => k :: unknownKeys fields rest

/- ============================== validateVarType ============================== -/

/-- the `for i := 0; i < val.Len(); i++` loop of the list branch.  `f` is the recursive call
    `v.validateVarType(typ.Elem, ·)` at a given path; returns the elements after the loop and
    the `upd` of the first element. -/
def listLoop (f : Path → GoVal → Res (GoVal × GoVal)) (path : Path) (elemIsIface elemNonNull : Bool) :
    Nat → GoVals → Res GoVals
  | _, .nil => .ok .nil
  | i, .cons x rest =>
    let path' := path ++ [.idx i]
    -- `if field.Kind() == reflect.Ptr || field.Kind() == reflect.Interface`
    if elemIsIface && elemNonNull && x.isNil then .err (str "cannot be null") path' []
    else
      -- `field = field.Elem()`: a nil interface becomes the zero Value (`.nil`)
      match f path' x with
      | .ok (ret, upd) =>
        match listLoop f path elemIsIface elemNonNull (i + 1) rest with
        | .ok rest' => .ok (.cons (storeElem ret upd) rest')
        | .err m p a => .err m p a
        | .panic m => .panic m
        | .outOfFuel => .outOfFuel
      | .err m p a => .err m p a
      | .panic m => .panic m
      | .outOfFuel => .outOfFuel

/-- the `for _, fieldDef := range def.Fields` loop of the InputObject branch; `kvs` is the map
    being updated in place -/
def fieldLoop (f : Path → GType → GoVal → Res (GoVal × GoVal)) (path : Path) (elem : GoType) :
    List FieldDef → GoFields → Res GoFields
  | [], kvs => .ok kvs
  | fd :: rest, kvs =>
    let path' := path ++ [.name fd.name]
    match kvs.lookup fd.name with
    | none =>
      -- `!field.IsValid()`
      if fd.type.nonNull then
        let hasUsableDefault := match fd.default with
          | some d => (match valueValueConst d with | .ok _ => true | _ => false)
          | none => false
        if hasUsableDefault then fieldLoop f path elem rest kvs
        else .err (str "must be defined") path' []
      else fieldLoop f path elem rest kvs
    | some x =>
      if elem = .iface && x.isNil then
        if fd.type.nonNull then .err (str "cannot be null") path' []
        else fieldLoop f path elem rest kvs          -- allow null object field and skip it
      else
        match f path' fd.type x with
        | .ok (cval, _) =>
          -- `val.SetMapIndex(reflect.ValueOf(fieldDef.Name), cval)`
          match cval.type? with
          | none => fieldLoop f path elem rest (kvs.erase fd.name)   -- zero Value deletes the key
          | some t =>
            if assignable (some t) elem then fieldLoop f path elem rest (kvs.set fd.name cval)
            else .panic (setNotAssignableMsg t elem)
        | .err m p a => .err m p a
        | .panic m => .panic m
        | .outOfFuel => .outOfFuel

/-- the built-in scalar table of the `case ast.Scalar` branch: `some true` accepted, `some false`
    rejected, `none` = not a built-in name (custom scalar: accepted) -/
def builtinScalarAccepts (name : Name) (v : GoVal) (k : Kind) : Option Bool :=
  match builtinOf name with                     -- `switch typ.NamedType`
  | some .int => some (isIntLikeKind k || isFloatKind k || isValidIntString v k)
  | some .float => some (isFloatKind k || isIntLikeKind k || isValidFloatString v k)
  | some .string => some (k = .string)
  | some .boolean => some (k = .bool)
  | some .id => some (isIntLikeKind k || k = .string)
  | none => none

/-- `validateVarType(typ, val)` with `v.path = path`; result `(returned Value, argument after in-place updates)` -/
def validateVarType (s : Schema) : Nat → Path → GType → GoVal → Res (GoVal × GoVal)
  | 0, _, _, _ => .outOfFuel
  | fuel + 1, path, typ, val =>
    match typ with
    | .list elemT _ _ =>
      if !legacyNullIntoListPanics && val.isNil then .ok (val, val)      -- (repair of R14a; nullability is checked by the callers)
      else
      match val with
      | .slice t xs =>
        match listLoop (fun p x => validateVarType s fuel p elemT x) path (t = .iface) elemT.nonNull 0 xs with
        | .ok xs' => let r := GoVal.slice (storeElemType t xs xs') xs'; .ok (r, r)
        | .err m p a => .err m p a
        | .panic m => .panic m
        | .outOfFuel => .outOfFuel
      | _ =>
        -- `slc := reflect.MakeSlice(reflect.SliceOf(val.Type()), 0, 0)`
        match val.type? with
        | none => .panic typeOnZeroMsg                                   -- R14a
        | some t =>
          match validateVarType s fuel (path ++ [.idx 0]) elemT val with
          | .ok (ret, upd) =>
            let xs' := GoVals.cons (storeElem ret upd) .nil
            .ok (.slice (storeElemType t (.cons val .nil) xs') xs', upd)
          | .err m p a => .err m p a
          | .panic m => .panic m
          | .outOfFuel => .outOfFuel
    | .named name nonNull _ =>
      match s.type? name with
      | none => .panic (str "missing def for " ++ name)
      | some d =>
        if !nonNull && val.isNil then .ok (val, val)
        else
          match d.kind with
          | .enum =>
            match val.type? with
            | none => .panic typeOnZeroMsg
            | some t =>
              let k := t.kind
              if !(isIntLikeKind k || k = .string) then .err (str "enums must be ints or strings") path []
              else
                let sv := val.reflectString
                if d.enumValues.any (fun ev => equalFoldAscii sv ev.name) then .ok (val, val)
                else .err (sv ++ str " is not a valid " ++ d.name) path []
          | .scalar =>
            match val.type? with
            | none => .panic typeOnZeroMsg
            | some t =>
              let k := t.kind
              match builtinScalarAccepts name val k with
              | none => .ok (val, val)              -- assume custom scalars are ok
              | some true => .ok (val, val)
              | some false => .err (str "cannot use " ++ str k.name ++ str " as " ++ name) path []
          | .inputObject =>
            match val with
            | .map elem kvs =>
              -- check for unknown fields (first loop)
              match unknownKeys d.fields kvs with
              | k :: others => .err (str "unknown field") (path ++ [.name k]) others
              | [] =>
                match fieldLoop (fun p t x => validateVarType s fuel p t x) path elem d.fields kvs with
                | .ok kvs' => let r := GoVal.map elem kvs'; .ok (r, r)
                | .err m p a => .err m p a
                | .panic m => .panic m
                | .outOfFuel => .outOfFuel
            | _ => .err (str "must be a " ++ d.name ++ str ", not a " ++ str val.kind.name) path []
          | k => .panic (str "unsupported type " ++ k.render)

/- ============================== VariableValues ============================== -/

def GType.depth : GType → Nat
  | .named _ _ _ => 0
  | .list e _ _ => e.depth + 1

/-- enough fuel for `validateVarType` on `(typ, val)`: each call either strips a list layer of the
    type (value unchanged) or moves to a strictly smaller value with an arbitrary schema type -/
def maxTypeDepth (s : Schema) (op : OperationDef) : Nat :=
  let ds := s.types.map fun (_, d) => (d.fields.map fun f => f.type.depth).foldl max 0
  max (ds.foldl max 0) ((op.vars.map fun v => v.type.depth).foldl max 0)

def fuelFor (s : Schema) (op : OperationDef) (val : GoVal) : Nat :=
  (val.size + 1) * (maxTypeDepth s op + 2) + 1

/-- `v.Type.NamedType` -/
def GType.namedType : GType → Name
  | .named n _ _ => n
  | .list _ _ _ => []

/-- the `json.Number` pre-conversion of `VariableValues` (only for a variable whose type is the
    NAMED type Int / Float): the value handed to `validateVarType`, or the error message -/
def jsonNumberPre (typ : GType) (val : GoVal) : Except Bytes GoVal :=
  match val with
  | .jsonNumber t =>
    if typ.namedType = str "Int" then
      match parseInt t with
      | .ok n => .ok (.int .int64 n)
      | .syntax => .error (str "cannot use value 0 as Int")
      | .range c => .error (str "cannot use value " ++ intToDec c ++ str " as Int")
    else if typ.namedType = str "Float" then
      match parseFloat t with
      | .ok => .ok (.float false t)
      | .syntax => .error (str "cannot use value 0.000000 as Float")
      | .range neg => .error (str "cannot use value " ++ str (if neg then "-Inf" else "+Inf") ++ str " as Float")
    else .ok val
  | _ => .ok val

def varPath (v : VarDef) : Path := [.name (str "variable"), .name v.var]

/-- `val, hasValue` after the `if !hasValue { … }` block of the loop of `VariableValues` -/
def suppliedValue (vars : VarMap) (v : VarDef) : Res (Option GoVal) :=
  match vars.lookup v.var with
  | some x => .ok (some x)
  | none =>
    match v.default with
    | some dv =>
      match valueValueConst dv with
      | .ok x => .ok (some x)
      | .err e => .err e.msg (varPath v) []          -- gqlerror.WrapPath(validator.path, err)
      | .diverge => .outOfFuel
    | none => if v.type.nonNull then .err (str "must be defined") (varPath v) [] else .ok none

/-- the `if hasValue { … }` block -/
def coerceSupplied (s : Schema) (op : OperationDef) (v : VarDef) (coerced : GoFields) (val : GoVal) : Res GoFields :=
  if val.isNil then
    if v.type.nonNull then .err (str "cannot be null") (varPath v) []
    else .ok (coerced.set v.var .nil)
  else
    match jsonNumberPre v.type val with
    | .error m => .err m (varPath v) []
    | .ok rv =>
      match validateVarType s (fuelFor s op rv) (varPath v) v.type rv with
      | .ok (rval, _) =>
        -- `coercedVars[v.Variable] = rval.Interface()`
        if rval.isNil then .panic ifaceOnZeroMsg else .ok (coerced.set v.var rval)
      | .err m p a => .err m p a
      | .panic m => .panic m
      | .outOfFuel => .outOfFuel

/-- one iteration of the loop of `VariableValues` -/
def coerceVar (s : Schema) (op : OperationDef) (vars : VarMap) (v : VarDef) (coerced : GoFields) : Res GoFields :=
  match s.type? v.type.name with
  | none => .panic nilDerefMsg                       -- `v.Definition.IsInputType()` on a nil link
  | some d =>
    if !d.isInputType then .err (str "must an input type") (varPath v) []
    else
      match suppliedValue vars v with
      | .err m p a => .err m p a
      | .panic m => .panic m
      | .outOfFuel => .outOfFuel
      | .ok none => .ok coerced
      | .ok (some val) => coerceSupplied s op v coerced val

def coerceLoop (s : Schema) (op : OperationDef) (vars : VarMap) : List VarDef → GoFields → Res GoFields
  | [], coerced => .ok coerced
  | v :: rest, coerced =>
    match coerceVar s op vars v coerced with
    | .ok c => coerceLoop s op vars rest c
    | .err m p a => .err m p a
    | .panic m => .panic m
    | .outOfFuel => .outOfFuel

/-- `validator.VariableValues(schema, op, variables)` -/
def coerce (s : Schema) (op : OperationDef) (vars : VarMap) : Res GoFields :=
  coerceLoop s op vars op.vars .nil

end Gql
