import GqlModel.Schema.Types
import GqlModel.ArgMap
/-
  validator/vars.go: `VariableValues` and `varValidator.validateVarType`, crash-explicit.

  * A `reflect.Value` is a `GoVal` (`.nil` = the zero Value); whether a slice element / map entry
    has kind Interface is decided by the element type of its container.
  * `validateVarType` returns a `reflect.Value` that is its argument (maps and slices are updated
    IN PLACE: `SetMapIndex`, `Index(i).Set`), a freshly made one-element slice (a single value
    where a list is expected), or a fresh `[]interface{}` / `map[string]interface{}` COPY of a
    typed slice / typed map that cannot hold a coerced item (`[]int` ← `[]int{1}`,
    `map[string]float32` ← `[]float32{1}`).  Only the RETURNED value reaches the result of
    `VariableValues`; the model is the function "argument ↦ returned value" (the in-place updates
    of the caller's own variables map are not observed).
  * The recursion is on `(size of the value, list depth of the type)`; it is written with explicit
    fuel (`coerce` supplies enough: `fuelFor`), `outOfFuel` is a separate outcome.
  * Map iteration (`val.MapKeys()`, random in Go) only decides WHICH unknown key is reported; the
    model takes the association-list order and also reports the other offending keys (`alts`).
-/
namespace Gql
open Gql.Strconv

inductive PathElem
  | name (n : Bytes)
  | idx (i : Nat)
  deriving DecidableEq, Repr, Inhabited

abbrev Path := List PathElem

inductive Res (α : Type)
  | ok (a : α)
  /-- `*gqlerror.Error` with message and path; `alts`: other keys Go's random map order may report instead of the last path element -/
  | err (msg : Bytes) (path : Path) (alts : List Bytes)
  | panic (msg : Bytes)
  | outOfFuel
  deriving Inhabited

/-- element type of the result slice.  The slice is kept (items were coerced in place, or stored
    back with `val.Index(i).Set(cval)`) as long as every coerced item is assignable to its element
    type — for the domain: the slice is a `[]interface{}`, or no item changed its dynamic type —;
    otherwise it is copied into a fresh `[]interface{}` (`reflect.MakeSlice` + element-wise `Set`)
    before the coerced item is stored. -/
def storeElemType (t : GoType) (before after : GoVals) : GoType :=
  if (before.toList.map GoVal.type?) = (after.toList.map GoVal.type?) then t else .iface

/- ============================== helpers ============================== -/

def typeOnZeroMsg : Bytes := str "reflect: call of reflect.Value.Type on zero Value"
def ifaceOnZeroMsg : Bytes := str "reflect: call of reflect.Value.Interface on zero Value"

/-- `reflect.Value.String()` -/
def GoVal.reflectString : GoVal → Bytes
  | .str s => s
  | .jsonNumber s => s
  | v => match v.type? with
    | none => Gql.str "<invalid Value>"
    | some t => Gql.str "<" ++ Gql.str t.name ++ Gql.str " Value>"

/-- `fmt.Sprintf("%v", val.Interface())` for a value of kind String (string or json.Number) -/
def GoVal.stringContent : GoVal → Bytes
  | .str s => s
  | .jsonNumber s => s
  | _ => []

def isIntLikeKind (k : Kind) : Bool := k = .int .int || k = .int .int32 || k = .int .int64
def isFloatKind (k : Kind) : Bool := k = .float32 || k = .float64

/-- `IsValidIntString(val, kind)` -/
def isValidIntString (v : GoVal) (k : Kind) : Bool :=
  if k ≠ .string then false else parseIntOk v.stringContent

/-- `IsValidFloatString(val, kind)` -/
def isValidFloatString (v : GoVal) (k : Kind) : Bool :=
  if k ≠ .string then false else parseFloatOk v.stringContent

/-- `Definition.IsInputType` -/
def Definition.isInputType (d : Definition) : Bool :=
  d.kind = .scalar || d.kind = .enum || d.kind = .inputObject

/-- `FieldList.ForName` -/
def findField (fs : List FieldDef) (n : Name) : Option FieldDef := fs.find? fun f => f.name = n

/-- is a value of dynamic type `t?` assignable to a container element of type `elem` (`reflect`'s
    `assignTo` for the types of the domain: identical types, or the target is `interface{}`) -/
def assignable (t? : Option GoType) (elem : GoType) : Bool :=
  match t? with
  | none => true
  | some t => elem = .iface || t = elem

/-- the keys of a map that the first loop of the InputObject branch would reject, in list order -/
def unknownKeys (fields : List FieldDef) : GoFields → List Bytes
  | .nil => []
  | .cons k _ rest =>
    if k = str "__typename" then unknownKeys fields rest
    else match findField fields k with
      | some _ => unknownKeys fields rest
      | none => k :: unknownKeys fields rest

/- ============================== validateVarType ============================== -/

/-- the `for i := 0; i < val.Len(); i++` loop of the list branch.  `f` is the recursive call
    `v.validateVarType(typ.Elem, ·)` at a given path; returns the items after the loop (every
    item replaced by what the recursive call returned: the item itself, coerced in place, or the
    coerced item stored back). -/
def listLoop (f : Path → GoVal → Res GoVal) (path : Path) (elemIsIface elemNonNull : Bool) :
    Nat → GoVals → Res GoVals
  | _, .nil => .ok .nil
  | i, .cons x rest =>
    let path' := path ++ [.idx i]
    -- `if field.Kind() == reflect.Ptr || field.Kind() == reflect.Interface`
    if elemIsIface && elemNonNull && x.isNil then .err (str "cannot be null") path' []
    else
      -- `field = field.Elem()`: a nil interface becomes the zero Value (`.nil`)
      match f path' x with
      | .ok ret =>
        match listLoop f path elemIsIface elemNonNull (i + 1) rest with
        | .ok rest' => .ok (.cons ret rest')
        | .err m p a => .err m p a
        | .panic m => .panic m
        | .outOfFuel => .outOfFuel
      | .err m p a => .err m p a
      | .panic m => .panic m
      | .outOfFuel => .outOfFuel

/-- the `for _, fieldDef := range def.Fields` loop of the InputObject branch; `elem`, `kvs`: element
    type and entries of the map `val` at this point of the loop.  A coerced field value that is
    not assignable to the element type (a typed map such as `map[string]float32` whose field had to
    be wrapped into a list) makes the code continue with a COPY of the map as
    `map[string]interface{}` (same keys: `key.String()` of a string key): the element type becomes
    `interface{}`.  Returns element type and entries of the map after the loop. -/
def fieldLoop (f : Path → GType → GoVal → Res GoVal) (path : Path) :
    List FieldDef → GoType → GoFields → Res (GoType × GoFields)
  | [], elem, kvs => .ok (elem, kvs)
  | fd :: rest, elem, kvs =>
    let path' := path ++ [.name fd.name]
    match kvs.lookup fd.name with
    | none =>
      -- `!field.IsValid()`
      if fd.type.nonNull then
        let hasUsableDefault := match fd.default with
          | some d => (match valueValueConst d with | .ok _ => true | _ => false)
          | none => false
        if hasUsableDefault then fieldLoop f path rest elem kvs
        else .err (str "must be defined") path' []
      else fieldLoop f path rest elem kvs
    | some x =>
      if elem = .iface && x.isNil then
        if fd.type.nonNull then .err (str "cannot be null") path' []
        else fieldLoop f path rest elem kvs          -- allow null object field and skip it
      else
        match f path' fd.type x with
        | .ok cval =>
          -- `if !cval.Type().AssignableTo(val.Type().Elem()) { … copy … }`
          match cval.type? with
          | none => .panic typeOnZeroMsg
          | some t =>
            -- `val.SetMapIndex(reflect.ValueOf(fieldDef.Name), cval)` on the map or on its copy
            fieldLoop f path rest (if assignable (some t) elem then elem else .iface) (kvs.set fd.name cval)
        | .err m p a => .err m p a
        | .panic m => .panic m
        | .outOfFuel => .outOfFuel

/-- the built-in scalar table of the `case ast.Scalar` branch: `some true` accepted, `some false`
    rejected, `none` = not a built-in name (custom scalar: accepted) -/
def builtinScalarAccepts (name : Name) (v : GoVal) (k : Kind) : Option Bool :=
  match builtinOf name with                     -- `switch typ.NamedType`
  | some .int => some (isIntLikeKind k || isFloatKind k || isValidIntString v k)
  | some .float => some (isFloatKind k || isIntLikeKind k || isValidFloatString v k)
  | some .string => some (k = .string)
  | some .boolean => some (k = .bool)
  | some .id => some (isIntLikeKind k || k = .string)
  | none => none

/-- `validateVarType(typ, val)` with `v.path = path`: the returned Value -/
def validateVarType (s : Schema) : Nat → Path → GType → GoVal → Res GoVal
  | 0, _, _, _ => .outOfFuel
  | fuel + 1, path, typ, val =>
    match typ with
    | .list elemT _ _ =>
      -- `if !val.IsValid() { return val, nil }`: a null where a list is expected; whether null is
      -- allowed here has been checked by the caller
      if val.isNil then .ok val
      else
      match val with
      | .slice t xs =>
        match listLoop (fun p x => validateVarType s fuel p elemT x) path (t = .iface) elemT.nonNull 0 xs with
        | .ok xs' => .ok (.slice (storeElemType t xs xs') xs')
        | .err m p a => .err m p a
        | .panic m => .panic m
        | .outOfFuel => .outOfFuel
      | _ =>
        -- `slc := reflect.MakeSlice(reflect.SliceOf(val.Type()), 0, 0)`, then the loop on `[val]`
        match val.type? with
        | none => .panic typeOnZeroMsg
        | some t =>
          match validateVarType s fuel (path ++ [.idx 0]) elemT val with
          | .ok ret => .ok (.slice (storeElemType t (.cons val .nil) (.cons ret .nil)) (.cons ret .nil))
          | .err m p a => .err m p a
          | .panic m => .panic m
          | .outOfFuel => .outOfFuel
    | .named name nonNull _ =>
      match s.type? name with
      | none => .panic (str "missing def for " ++ name)
      | some d =>
        if !nonNull && val.isNil then .ok val
        else
          match d.kind with
          | .enum =>
            match val.type? with
            | none => .panic typeOnZeroMsg
            | some t =>
              let k := t.kind
              if !(isIntLikeKind k || k = .string) then .err (str "enums must be ints or strings") path []
              else
                let sv := val.reflectString
                -- `if val.String() == enumVal.Name`: an exact match (no `strings.EqualFold` any more)
                if d.enumValues.any (fun ev => sv = ev.name) then .ok val
                else .err (sv ++ str " is not a valid " ++ d.name) path []
          | .scalar =>
            match val.type? with
            | none => .panic typeOnZeroMsg
            | some t =>
              let k := t.kind
              match builtinScalarAccepts name val k with
              | none => .ok val                     -- assume custom scalars are ok
              | some true => .ok val
              | some false => .err (str "cannot use " ++ str k.name ++ str " as " ++ name) path []
          | .inputObject =>
            match val with
            | .map elem kvs =>
              -- check for unknown fields (first loop)
              match unknownKeys d.fields kvs with
              | k :: others => .err (str "unknown field") (path ++ [.name k]) others
              | [] =>
                match fieldLoop (fun p t x => validateVarType s fuel p t x) path d.fields elem kvs with
                | .ok (elem', kvs') => .ok (.map elem' kvs')
                | .err m p a => .err m p a
                | .panic m => .panic m
                | .outOfFuel => .outOfFuel
            | _ => .err (str "must be a " ++ d.name ++ str ", not a " ++ str val.kind.name) path []
          | k => .panic (str "unsupported type " ++ k.render)

/- ============================== VariableValues ============================== -/

def GType.depth : GType → Nat
  | .named _ _ _ => 0
  | .list e _ _ => e.depth + 1

/-- enough fuel for `validateVarType` on `(typ, val)`: each call either strips a list layer of the
    type (value unchanged) or moves to a strictly smaller value with an arbitrary schema type -/
def maxTypeDepth (s : Schema) (op : OperationDef) : Nat :=
  let ds := s.types.map fun (_, d) => (d.fields.map fun f => f.type.depth).foldl max 0
  max (ds.foldl max 0) ((op.vars.map fun v => v.type.depth).foldl max 0)

def fuelFor (s : Schema) (op : OperationDef) (val : GoVal) : Nat :=
  (val.size + 1) * (maxTypeDepth s op + 2) + 1

/-- `v.Type.NamedType` -/
def GType.namedType : GType → Name
  | .named n _ _ => n
  | .list _ _ _ => []

/-- the `json.Number` pre-conversion of `VariableValues` (only for a variable whose type is the
    NAMED type Int / Float): the value handed to `validateVarType`, or the error message -/
def jsonNumberPre (typ : GType) (val : GoVal) : Except Bytes GoVal :=
  match val with
  | .jsonNumber t =>
    if typ.namedType = str "Int" then
      match parseInt t with
      | .ok n => .ok (.int .int64 n)
      | .syntax => .error (str "cannot use value 0 as Int")
      | .range c => .error (str "cannot use value " ++ intToDec c ++ str " as Int")
    else if typ.namedType = str "Float" then
      match parseFloat t with
      | .ok => .ok (.float false t)
      | .syntax => .error (str "cannot use value 0.000000 as Float")
      | .range neg => .error (str "cannot use value " ++ str (if neg then "-Inf" else "+Inf") ++ str " as Float")
    else .ok val
  | _ => .ok val

def varPath (v : VarDef) : Path := [.name (str "variable"), .name v.var]

/-- `val, hasValue` after the `if !hasValue { … }` block of the loop of `VariableValues` -/
def suppliedValue (vars : VarMap) (v : VarDef) : Res (Option GoVal) :=
  match vars.lookup v.var with
  | some x => .ok (some x)
  | none =>
    match v.default with
    | some dv =>
      match valueValueConst dv with
      | .ok x => .ok (some x)
      | .err e => .err e.msg (varPath v) []          -- gqlerror.WrapPath(validator.path, err)
      | .diverge => .outOfFuel
    | none => if v.type.nonNull then .err (str "must be defined") (varPath v) [] else .ok none

/-- the `if hasValue { … }` block -/
def coerceSupplied (s : Schema) (op : OperationDef) (v : VarDef) (coerced : GoFields) (val : GoVal) : Res GoFields :=
  if val.isNil then
    if v.type.nonNull then .err (str "cannot be null") (varPath v) []
    else .ok (coerced.set v.var .nil)
  else
    match jsonNumberPre v.type val with
    | .error m => .err m (varPath v) []
    | .ok rv =>
      match validateVarType s (fuelFor s op rv) (varPath v) v.type rv with
      | .ok rval =>
        -- `coercedVars[v.Variable] = rval.Interface()`
        if rval.isNil then .panic ifaceOnZeroMsg else .ok (coerced.set v.var rval)
      | .err m p a => .err m p a
      | .panic m => .panic m
      | .outOfFuel => .outOfFuel

/-- one iteration of the loop of `VariableValues` -/
def coerceVar (s : Schema) (op : OperationDef) (vars : VarMap) (v : VarDef) (coerced : GoFields) : Res GoFields :=
  match s.type? v.type.name with
  | none => .panic nilDerefMsg                       -- `v.Definition.IsInputType()` on a nil link
  | some d =>
    if !d.isInputType then .err (str "must an input type") (varPath v) []
    else
      match suppliedValue vars v with
      | .err m p a => .err m p a
      | .panic m => .panic m
      | .outOfFuel => .outOfFuel
      | .ok none => .ok coerced
      | .ok (some val) => coerceSupplied s op v coerced val

def coerceLoop (s : Schema) (op : OperationDef) (vars : VarMap) : List VarDef → GoFields → Res GoFields
  | [], coerced => .ok coerced
  | v :: rest, coerced =>
    match coerceVar s op vars v coerced with
    | .ok c => coerceLoop s op vars rest c
    | .err m p a => .err m p a
    | .panic m => .panic m
    | .outOfFuel => .outOfFuel

/-- `validator.VariableValues(schema, op, variables)` -/
def coerce (s : Schema) (op : OperationDef) (vars : VarMap) : Res GoFields :=
  coerceLoop s op vars op.vars .nil

end Gql
