import GqlModel.Basic.Bytes
import GqlModel.Basic.Utf8
/-
  Small models of the library functions that vars.go / value.go call (DESIGN §4 "External
  functions"; tied to the real functions by their own correspondence run, op `strconv`):

  * `strconv.ParseInt(s, 10, 64)`  — value, or syntax / range error (with the clamped value that
    Go returns next to a range error: it is printed by vars.go's "cannot use value %d as Int");
  * `strconv.ParseFloat(s, 64)`    — only the status: ok / syntax / range(sign); the value is never
    needed (floats travel as text);
  * `strconv.ParseBool`;
  * `strconv.Quote` restricted to what the error messages of the three need.
  (`strings.EqualFold` was modelled here while vars.go matched enum values with it; since the
  repair "enum variable values must match a declared value exactly" it is no longer called.)
-/
namespace Gql.Strconv
open Gql

inductive NumErr | syntax | range
  deriving DecidableEq, Repr, Inhabited

/- ---------------- ParseInt ---------------- -/

def isDigit (c : Nat) : Bool := decide (48 ≤ c) && decide (c ≤ 57)

def maxU64 : Nat := 18446744073709551615
def cutoffU64 : Nat := 1844674407370955162      -- maxUint64/10 + 1

/-- `ParseUint(s, 10, 64)` main loop: `none` = syntax error, `some (n, overflow)` -/
def parseUintLoop : Bytes → Nat → Option (Nat × Bool)
  | [], n => some (n, false)
  | c :: rest, n =>
    if isDigit c then
      if n ≥ cutoffU64 then some (maxU64, true)
      else
        let n1 := n * 10 + (c - 48)
        if n1 > maxU64 then some (maxU64, true) else parseUintLoop rest n1
    else none

inductive IntRes
  | ok (n : Int)
  | syntax
  | range (clamped : Int)
  deriving DecidableEq, Repr, Inhabited

/-- `strconv.ParseInt(s, 10, 64)` -/
def parseInt (s : Bytes) : IntRes :=
  match s with
  | [] => .syntax
  | c :: rest =>
    let neg := c = 45
    let body := if c = 43 ∨ c = 45 then rest else s
    match body with
    | [] => .syntax
    | _ =>
      match parseUintLoop body 0 with
      | none => .syntax
      | some (un, ovf) =>
        let cutoff : Nat := 9223372036854775808
        if ovf then (if neg then .range (-(cutoff : Int)) else .range ((cutoff : Int) - 1))
        else if !neg && un ≥ cutoff then .range ((cutoff : Int) - 1)
        else if neg && un > cutoff then .range (-(cutoff : Int))
        else .ok (if neg then -(un : Int) else (un : Int))

/- ---------------- ParseBool ---------------- -/

def parseBool (s : Bytes) : Option Bool :=
  if s = str "1" ∨ s = str "t" ∨ s = str "T" ∨ s = str "TRUE" ∨ s = str "true" ∨ s = str "True" then some true
  else if s = str "0" ∨ s = str "f" ∨ s = str "F" ∨ s = str "FALSE" ∨ s = str "false" ∨ s = str "False" then some false
  else none

/- ---------------- ParseFloat (status only) ---------------- -/

inductive FloatRes
  | ok
  | syntax
  | range (neg : Bool)
  deriving DecidableEq, Repr, Inhabited

def lower (c : Nat) : Nat := if 65 ≤ c ∧ c ≤ 90 then c + 32 else c

/-- `commonPrefixLenIgnoreCase(s, prefix)` (prefix is lower case) -/
def commonPrefixLen : Bytes → Bytes → Nat
  | c :: s, p :: ps => if lower c = p then commonPrefixLen s ps + 1 else 0
  | _, _ => 0

/-- `special`: number of bytes consumed when the text is an infinity / NaN, else `none` -/
def special (s : Bytes) : Option Nat :=
  let inf (body : Bytes) (nsign : Nat) : Option Nat :=
    let n := commonPrefixLen body (str "infinity")
    let n := if 3 < n ∧ n < 8 then 3 else n
    if n = 3 ∨ n = 8 then some (nsign + n) else none
  match s with
  | [] => none
  | c :: rest =>
    if c = 43 ∨ c = 45 then inf rest 1
    else if c = 105 ∨ c = 73 then inf s 0
    else if c = 110 ∨ c = 78 then (if commonPrefixLen s (str "nan") = 3 then some 3 else none)
    else none

/-- `underscoreOK` -/
def underscoreOK (s : Bytes) : Bool :=
  let s := match s with
    | c :: r => if c = 45 ∨ c = 43 then r else s
    | [] => s
  let (hex, body, saw0) := match s with
    | c :: d :: r =>
      if c = 48 ∧ (lower d = 98 ∨ lower d = 111 ∨ lower d = 120) then (decide (lower d = 120), r, true)
      else (false, s, false)
    | _ => (false, s, false)
  -- saw: 0 = '^', 1 = digit, 2 = '_', 3 = '!'
  let rec go (hex : Bool) : Bytes → Nat → Bool
    | [], saw => saw ≠ 2
    | c :: r, saw =>
      if isDigit c || (hex && decide (97 ≤ lower c) && decide (lower c ≤ 102)) then go hex r 1
      else if c = 95 then (if saw ≠ 1 then false else go hex r 2)
      else if saw = 2 then false
      else go hex r 3
  go hex body (if saw0 then 1 else 0)

structure RF where
  mant : Nat := 0         -- every significant digit (Go truncates to 19 / 16 and keeps a sticky bit; the value is the same)
  nd : Nat := 0
  dp : Int := 0
  sawdot : Bool := false
  sawdigits : Bool := false
  underscores : Bool := false

def isHexLetter (c : Nat) : Bool := decide (97 ≤ lower c) && decide (lower c ≤ 102)

/-- the mantissa loop of `readFloat`; returns the state and the unread rest -/
def rfDigits (hex : Bool) : Bytes → RF → RF × Bytes
  | [], st => (st, [])
  | c :: r, st =>
    if c = 95 then rfDigits hex r { st with underscores := true }
    else if c = 46 then
      if st.sawdot then (st, c :: r) else rfDigits hex r { st with sawdot := true, dp := st.nd }
    else if isDigit c then
      if c = 48 ∧ st.nd = 0 then rfDigits hex r { st with sawdigits := true, dp := st.dp - 1 }
      else rfDigits hex r { st with sawdigits := true, nd := st.nd + 1, mant := st.mant * (if hex then 16 else 10) + (c - 48) }
    else if hex && isHexLetter c then
      rfDigits hex r { st with sawdigits := true, nd := st.nd + 1, mant := st.mant * 16 + (lower c - 97 + 10) }
    else (st, c :: r)

/-- exponent digits: `e` is clamped exactly as in Go (`if e < 10000`) -/
def rfExp : Bytes → Nat → Bool → Nat × Bool × Bytes
  | [], e, us => (e, us, [])
  | c :: r, e, us =>
    if c = 95 then rfExp r e true
    else if isDigit c then rfExp r (if e < 10000 then e * 10 + (c - 48) else e) us
    else (e, us, c :: r)

/-- 2^1024 − 2^970: the smallest magnitude that rounds (to nearest even) to 2^1024, i.e. overflows -/
def overflowThreshold : Nat := 2 ^ 1024 - 2 ^ 970

/-- is `mant * base^e ≥ overflowThreshold` (e may be negative)?  `digits` = number of significant
    digits of `mant`; the shortcuts keep the powers small. -/
def overflows10 (mant : Nat) (nd : Nat) (dp : Int) : Bool :=
  if mant = 0 then false
  else if dp > 320 then true         -- value ≥ 10^(dp-1)
  else if dp < 300 then false        -- value < 10^dp
  else
    let e : Int := dp - nd
    if e ≥ 0 then decide (mant * 10 ^ e.toNat ≥ overflowThreshold)
    else decide (mant ≥ overflowThreshold * 10 ^ (-e).toNat)

def overflows2 (mant : Nat) (nd : Nat) (e2 : Int) : Bool :=
  if mant = 0 then false
  else if e2 > 1100 then true
  else if e2 + 4 * nd < 1000 then false
  else if e2 ≥ 0 then decide (mant * 2 ^ e2.toNat ≥ overflowThreshold)
  else decide (mant ≥ overflowThreshold * 2 ^ (-e2).toNat)

/-- is `mant * base^e` an integer?  (`mant` has `nd` significant digits) -/
def integralPow (base mant nd : Nat) (e : Int) : Bool :=
  if mant = 0 ∨ e ≥ 0 then true
  else if (-e).toNat > nd * 4 then false
  else mant % base ^ (-e).toNat = 0

/-- `readFloat` + range decision: `none` = not ok; `some (unread rest, neg, overflow, integral)` -/
def readFloat (s : Bytes) : Option (Bytes × Bool × Bool × Bool) :=
  match s with
  | [] => none
  | c :: r0 =>
    let neg := c = 45
    let afterSign := if c = 43 ∨ c = 45 then r0 else s
    -- `i+2 < len(s) && s[i]=='0' && lower(s[i+1])=='x'`
    let (hex, body) := match afterSign with
      | a :: b :: c3 :: r => if a = 48 ∧ lower b = 120 then (true, c3 :: r) else (false, afterSign)
      | _ => (false, afterSign)
    let (st, rest) := rfDigits hex body {}
    if !st.sawdigits then none
    else
      let dp : Int := if st.sawdot then st.dp else st.nd
      let dp := if hex then dp * 4 else dp
      let expChar := if hex then 112 else 101
      -- optional exponent
      let fin (dp : Int) (us : Bool) (rest : Bytes) (consumed : Bytes) : Option (Bytes × Bool × Bool × Bool) :=
        if us && !underscoreOK consumed then none
        else
          let ovf := if hex then overflows2 st.mant st.nd (dp - 4 * st.nd) else overflows10 st.mant st.nd dp
          let integral := if hex then integralPow 2 st.mant st.nd (dp - 4 * st.nd) else integralPow 10 st.mant st.nd (dp - st.nd)
          some (rest, neg, ovf, integral)
      match rest with
      | e :: r1 =>
        if lower e = expChar then
          match r1 with
          | [] => none
          | sg :: r2 =>
            let (esign, r3) : Int × Bytes := if sg = 43 then (1, r2) else if sg = 45 then (-1, r2) else (1, r1)
            match r3 with
            | [] => none
            | d :: _ =>
              if !isDigit d then none
              else
                let (ev, us, rest') := rfExp r3 0 st.underscores
                fin (dp + ev * esign) us rest' (s.take (s.length - rest'.length))
        else if hex then none
        else fin dp st.underscores rest (s.take (s.length - rest.length))
      | [] => if hex then none else fin dp st.underscores [] s

/-- `strconv.ParseFloat(s, 64)` status -/
def parseFloat (s : Bytes) : FloatRes :=
  match special s with
  | some n => if n = s.length then .ok else .syntax
  | none =>
    match readFloat s with
    | none => .syntax
    | some (rest, neg, ovf, _) =>
      if !rest.isEmpty then .syntax
      else if ovf then .range neg
      else .ok

/-- does the float text (as printed by `strconv.FormatFloat(f,'g',-1,64)` or written in a literal)
    denote a finite integral value?  (NaN / ±Inf / malformed / overflowing text: no) -/
def floatTextIntegral (s : Bytes) : Bool :=
  match special s with
  | some _ => false
  | none =>
    match readFloat s with
    | some ([], _, false, integral) => integral
    | _ => false

/- ---------------- Quote (for error messages) ---------------- -/

def hex2 (n : Nat) : Bytes := [(hexDigit (n / 16 % 16)).toNat, (hexDigit (n % 16)).toNat]

/-- `strconv.Quote` for ASCII text; bytes ≥ 0x80 are passed through unchanged (exact for valid
    UTF-8 printable runes only — the raw text of Int/Float/Boolean tokens is ASCII) -/
def quote (s : Bytes) : Bytes :=
  let esc (c : Nat) : Bytes :=
    if c = 34 then [92, 34] else if c = 92 then [92, 92]
    else if c = 7 then str "\\a" else if c = 8 then str "\\b" else if c = 12 then str "\\f"
    else if c = 10 then str "\\n" else if c = 13 then str "\\r" else if c = 9 then str "\\t"
    else if c = 11 then str "\\v"
    else if c < 32 ∨ c = 127 then str "\\x" ++ hex2 c
    else [c]
  34 :: s.flatMap esc ++ [34]

/-- `(*NumError).Error()` -/
def numErrorMsg (fn : String) (raw : Bytes) (e : NumErr) : Bytes :=
  str "strconv." ++ str fn ++ str ": parsing " ++ quote raw ++ str ": " ++
    (match e with | .syntax => str "invalid syntax" | .range => str "value out of range")

/-- `_, e := strconv.ParseInt(s, 10, 64); e == nil` -/
def parseIntOk (t : Bytes) : Bool := match parseInt t with | .ok _ => true | _ => false
/-- `_, e := strconv.ParseFloat(s, 64); e == nil` -/
def parseFloatOk (t : Bytes) : Bool := match parseFloat t with | .ok => true | _ => false

/- ---------------- the five built-in scalar names ---------------- -/

inductive Builtin | int | float | string | boolean | id
  deriving DecidableEq, Repr, Inhabited

def builtinOf (n : Bytes) : Option Builtin :=
  if n = str "Int" then some .int
  else if n = str "Float" then some .float
  else if n = str "String" then some .string
  else if n = str "Boolean" then some .boolean
  else if n = str "ID" then some .id
  else none

end Gql.Strconv
