import GqlProofs.Props.C03
import GqlProofs.Parser.Run
import GqlProofs.Parser.Limit
import GqlProofs.Parser.Pulls
import GqlProofs.Parser.LimitErr
import GqlProofs.Parser.Results
import GqlProofs.Props.C16
