import GqlProofs.Props.C03
import GqlProofs.Props.C15
import GqlProofs.Props.C14
