import GqlProofs.Props.C03
