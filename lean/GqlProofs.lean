import GqlProofs.Props.C03
import GqlProofs.Props.C18
import GqlProofs.Props.C10
import GqlProofs.Props.C02
