import GqlProofs.Props.C03
import GqlProofs.Props.C16
import GqlProofs.Props.C01
