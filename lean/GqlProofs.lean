import GqlProofs.Props.C01
import GqlProofs.Props.C03
import GqlProofs.Props.C04
import GqlProofs.Props.C12
import GqlProofs.Props.C13
import GqlProofs.Props.C16
import GqlProofs.Props.C15
import GqlProofs.Props.C14
