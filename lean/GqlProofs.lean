import GqlProofs.Props.C01
import GqlProofs.Props.C03
import GqlProofs.Props.C04
