import GqlProofs.Props.C03
import GqlProofs.Props.C07
import GqlProofs.Props.C17
