import GqlModel
/-
  Line protocol driver: one request per line `op arg …`, one reply line per request.
  Core-only (no Mathlib reachable), compiled as `lean_exe driver`.
-/
open Gql

/-- every op receives the words after the op name -/
def allOps : List (String × (List String → String)) :=
  Ops.lexOps ++ Ops.wireOps ++ Ops.formatOps ++ Ops.parseOps ++ Ops.varsOps ++ Ops.loadOps ++ Ops.validateOps ++ Ops.grammarOps ++ Ops.jsonOps ++ Ops.errorOps ++ Ops.valSpecOps

def handle (line : String) : String :=
  match (line.trimAscii.toString.splitOn " ").filter (· ≠ "") with
  | [] => "bad-op"
  | op :: args =>
    match allOps.lookup op with
    | some f => f args
    | none => "bad-op"

partial def loop (hin hout : IO.FS.Stream) : IO Unit := do
  let line ← hin.getLine
  if line.isEmpty then return ()
  hout.putStrLn (handle line)
  hout.flush
  loop hin hout

def main : IO Unit := do loop (← IO.getStdin) (← IO.getStdout)
