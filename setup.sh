#!/usr/bin/env bash
# MANIFEST.setup_cmd: build everything from files on disk, offline.
set -eu
cd "$(dirname "$0")"; export VERIF_ROOT="$PWD"
export GOFLAGS=-mod=mod GOPROXY=off GOSUMDB=off GOTOOLCHAIN=local
cp /repo/go.sum harness/go.sum
mkdir -p evidence replays build
(cd harness && go build -tags verif -o bin/vcheck ./cmd/vcheck)
harness/bin/vcheck -extract
(cd lean && lake build)
echo "setup ok"
