// Package rng: splitmix64; every random choice of a run derives from one seed.
package rng

type R struct{ s uint64 }

func New(seed uint64) *R { return &R{s: seed*0x9E3779B97F4A7C15 + 0x1234567} }

func (r *R) U64() uint64 {
	r.s += 0x9E3779B97F4A7C15
	z := r.s
	z = (z ^ (z >> 30)) * 0xBF58476D1CE4E5B9
	z = (z ^ (z >> 27)) * 0x94D049BB133111EB
	return z ^ (z >> 31)
}

// Intn returns a value in [0,n).
func (r *R) Intn(n int) int {
	if n <= 0 {
		return 0
	}
	return int(r.U64() % uint64(n))
}

func (r *R) Bool() bool { return r.U64()&1 == 1 }

// Chance returns true with probability num/den.
func (r *R) Chance(num, den int) bool { return r.Intn(den) < num }

// Fork derives an independent stream (stable under insertion of other draws).
func (r *R) Fork(tag uint64) *R { return New(r.U64() ^ tag*0xD6E8FEB86659FD93) }

func Pick[T any](r *R, xs []T) T { return xs[r.Intn(len(xs))] }
