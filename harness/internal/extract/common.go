// Package extract regenerates source-derived fact tables (DESIGN §3.4) as Lean list literals under
// lean/GqlModel/Gen. Each piece is a pure function of the Go sources of the library:
//
//	RunExtractErrSites(repoDir, leanDir)  F7  → GqlModel/Gen/ErrSites.lean   (C20)
//	RunExtractStores(repoDir, leanDir)    F6  → GqlModel/Gen/Stores.lean     (C11)
//
// The generated files are committed too; a run regenerates them and the hand-written expectations
// (GqlProofs/Props/C20.lean, GqlModel/Effects.lean) fail to build when a table changes shape.
package extract

import (
	"fmt"
	"go/ast"
	"go/parser"
	"go/token"
	"os"
	"path/filepath"
	"sort"
	"strings"
)

type goFile struct {
	rel  string // path relative to the repository root, slash separated
	fset *token.FileSet
	f    *ast.File
}

// loadFiles parses every non-test Go file under the given sub-paths of repoDir (files or
// directories, non-recursive unless recursive is set). Test helpers (`testrunner`, `testdata`)
// and the verification hooks are skipped.
func loadFiles(repoDir string, paths []string, recursive bool) ([]goFile, error) {
	var out []goFile
	seen := map[string]bool{}
	add := func(p string) error {
		rel, _ := filepath.Rel(repoDir, p)
		rel = filepath.ToSlash(rel)
		if seen[rel] || !strings.HasSuffix(rel, ".go") || strings.HasSuffix(rel, "_test.go") {
			return nil
		}
		seen[rel] = true
		fset := token.NewFileSet()
		f, err := parser.ParseFile(fset, p, nil, parser.SkipObjectResolution)
		if err != nil {
			return fmt.Errorf("%s: %v", rel, err)
		}
		out = append(out, goFile{rel, fset, f})
		return nil
	}
	for _, sub := range paths {
		root := filepath.Join(repoDir, sub)
		st, err := os.Stat(root)
		if err != nil {
			return nil, err
		}
		if !st.IsDir() {
			if err := add(root); err != nil {
				return nil, err
			}
			continue
		}
		err = filepath.Walk(root, func(p string, info os.FileInfo, err error) error {
			if err != nil {
				return err
			}
			if info.IsDir() {
				n := info.Name()
				if p != root && (!recursive || n == "testdata" || n == "testrunner" || n == "verifhook" || strings.HasPrefix(n, ".")) {
					return filepath.SkipDir
				}
				return nil
			}
			return add(p)
		})
		if err != nil {
			return nil, err
		}
	}
	sort.Slice(out, func(i, j int) bool { return out[i].rel < out[j].rel })
	return out, nil
}

// funcName: "Recv.Method", "Func", with ".func" appended for sites inside function literals is
// NOT done — the name of the enclosing top-level declaration is the stable part of a site key.
func funcName(d *ast.FuncDecl) string {
	if d.Recv != nil && len(d.Recv.List) > 0 {
		t := d.Recv.List[0].Type
		if s, ok := t.(*ast.StarExpr); ok {
			t = s.X
		}
		if id, ok := t.(*ast.Ident); ok {
			return id.Name + "." + d.Name.Name
		}
		if ix, ok := t.(*ast.IndexExpr); ok {
			if id, ok := ix.X.(*ast.Ident); ok {
				return id.Name + "." + d.Name.Name
			}
		}
	}
	return d.Name.Name
}

// exprText renders an expression compactly (go/printer would do, but this keeps the output
// independent of formatting).
func exprText(e ast.Expr) string {
	switch x := e.(type) {
	case nil:
		return ""
	case *ast.Ident:
		return x.Name
	case *ast.BasicLit:
		return x.Value
	case *ast.SelectorExpr:
		return exprText(x.X) + "." + x.Sel.Name
	case *ast.IndexExpr:
		return exprText(x.X) + "[" + exprText(x.Index) + "]"
	case *ast.StarExpr:
		return "*" + exprText(x.X)
	case *ast.ParenExpr:
		return "(" + exprText(x.X) + ")"
	case *ast.UnaryExpr:
		return x.Op.String() + exprText(x.X)
	case *ast.BinaryExpr:
		return exprText(x.X) + " " + x.Op.String() + " " + exprText(x.Y)
	case *ast.CallExpr:
		args := make([]string, len(x.Args))
		for i, a := range x.Args {
			args[i] = exprText(a)
		}
		s := exprText(x.Fun) + "(" + strings.Join(args, ", ")
		if x.Ellipsis.IsValid() {
			s += "..."
		}
		return s + ")"
	case *ast.SliceExpr:
		if x.Slice3 {
			return exprText(x.X) + "[" + exprText(x.Low) + ":" + exprText(x.High) + ":" + exprText(x.Max) + "]"
		}
		return exprText(x.X) + "[" + exprText(x.Low) + ":" + exprText(x.High) + "]"
	case *ast.TypeAssertExpr:
		return exprText(x.X) + ".(" + exprText(x.Type) + ")"
	case *ast.CompositeLit:
		return exprText(x.Type) + "{…}"
	case *ast.ArrayType:
		return "[]" + exprText(x.Elt)
	case *ast.MapType:
		return "map[" + exprText(x.Key) + "]" + exprText(x.Value)
	case *ast.FuncLit:
		return "func{…}"
	case *ast.InterfaceType:
		return "interface{}"
	case *ast.KeyValueExpr:
		return exprText(x.Key) + ": " + exprText(x.Value)
	}
	return fmt.Sprintf("<%T>", e)
}

// leanString renders a Lean string literal.
func leanString(s string) string {
	var sb strings.Builder
	sb.WriteByte('"')
	for _, r := range s {
		switch {
		case r == '"':
			sb.WriteString(`\"`)
		case r == '\\':
			sb.WriteString(`\\`)
		case r == '\n':
			sb.WriteString(`\n`)
		case r == '\t':
			sb.WriteString(`\t`)
		case r == '\r':
			sb.WriteString(`\r`)
		case r < 0x20 || r == 0x7f:
			fmt.Fprintf(&sb, `\x%02x`, r)
		default:
			sb.WriteRune(r)
		}
	}
	sb.WriteByte('"')
	return sb.String()
}

// leanBytes renders the bytes of s as a Lean `List Nat` literal.
func leanBytes(s string) string {
	var sb strings.Builder
	sb.WriteByte('[')
	for i := 0; i < len(s); i++ {
		if i > 0 {
			sb.WriteByte(',')
		}
		fmt.Fprintf(&sb, "%d", s[i])
	}
	sb.WriteByte(']')
	return sb.String()
}

func leanBool(b bool) string {
	if b {
		return "true"
	}
	return "false"
}

func writeGen(leanDir, name, content string) error {
	dir := filepath.Join(leanDir, "GqlModel", "Gen")
	if err := os.MkdirAll(dir, 0o755); err != nil {
		return err
	}
	path := filepath.Join(dir, name)
	if old, err := os.ReadFile(path); err == nil && string(old) == content {
		return nil // unchanged: keep the mtime so lake does not rebuild
	}
	return os.WriteFile(path, []byte(content), 0o644)
}
