// Package extract re-reads /repo's Go sources on every run and regenerates Lean data files under
// lean/GqlModel/Gen (DESIGN §3.4): tables and site lists that the model and some theorems are
// stated over. A source change that alters a table, adds a map iteration, an unstable sort, a
// panic site or a rule makes one of the `gen_*` lemmas fail to build.
package extract

import (
	"fmt"
	"go/ast"
	"go/parser"
	"go/token"
	"os"
	"path/filepath"
	"sort"
	"strconv"
	"strings"
)

type file struct {
	rel string
	f   *ast.File
}

func loadDir(fset *token.FileSet, repo, dir string) ([]file, error) {
	ents, err := os.ReadDir(filepath.Join(repo, dir))
	if err != nil {
		return nil, err
	}
	var out []file
	for _, e := range ents {
		n := e.Name()
		if e.IsDir() || !strings.HasSuffix(n, ".go") || strings.HasSuffix(n, "_test.go") || strings.HasPrefix(n, "verif_") {
			continue
		}
		f, err := parser.ParseFile(fset, filepath.Join(repo, dir, n), nil, parser.ParseComments)
		if err != nil {
			return nil, err
		}
		out = append(out, file{filepath.Join(dir, n), f})
	}
	sort.Slice(out, func(i, j int) bool { return out[i].rel < out[j].rel })
	return out, nil
}

func leanStr(s string) string { return strconv.Quote(s) }

func leanStrList(xs []string) string {
	q := make([]string, len(xs))
	for i, x := range xs {
		q[i] = leanStr(x)
	}
	return "[" + strings.Join(q, ", ") + "]"
}

func leanPairs(xs [][2]string) string {
	q := make([]string, len(xs))
	for i, x := range xs {
		q[i] = "(" + leanStr(x[0]) + ", " + leanStr(x[1]) + ")"
	}
	return "[" + strings.Join(q, ",\n   ") + "]"
}

// enclosing function name of a position
func funcNames(f *ast.File) func(pos token.Pos) string {
	type span struct {
		lo, hi token.Pos
		name   string
	}
	var spans []span
	for _, d := range f.Decls {
		if fd, ok := d.(*ast.FuncDecl); ok && fd.Body != nil {
			name := fd.Name.Name
			if fd.Recv != nil && len(fd.Recv.List) > 0 {
				switch t := fd.Recv.List[0].Type.(type) {
				case *ast.StarExpr:
					if id, ok := t.X.(*ast.Ident); ok {
						name = id.Name + "." + name
					}
				case *ast.Ident:
					name = t.Name + "." + name
				}
			}
			spans = append(spans, span{fd.Pos(), fd.End(), name})
		}
	}
	return func(pos token.Pos) string {
		for _, s := range spans {
			if s.lo <= pos && pos < s.hi {
				return s.name
			}
		}
		return "<package>"
	}
}

func lastName(e ast.Expr) string {
	switch x := e.(type) {
	case *ast.Ident:
		return x.Name
	case *ast.SelectorExpr:
		return x.Sel.Name
	case *ast.IndexExpr:
		return lastName(x.X) + "[]"
	case *ast.ParenExpr:
		return lastName(x.X)
	case *ast.CallExpr:
		return lastName(x.Fun) + "()"
	}
	return "?"
}

// RunFacts writes lean/GqlModel/Gen/Facts.lean.
func RunFacts(repo, leanDir string) error {
	fset := token.NewFileSet()
	dirs := []string{"lexer", "parser", "ast", "validator", "validator/rules", "formatter", "gqlerror", "."}
	var all []file
	for _, d := range dirs {
		fs, err := loadDir(fset, repo, d)
		if err != nil {
			return err
		}
		all = append(all, fs...)
	}
	byRel := map[string]*ast.File{}
	for _, f := range all {
		byRel[f.rel] = f.f
	}

	// F1: token kinds (the iota const block of lexer/token.go)
	var tokenKinds []string
	if f := byRel["lexer/token.go"]; f != nil {
		for _, d := range f.Decls {
			gd, ok := d.(*ast.GenDecl)
			if !ok || gd.Tok != token.CONST || len(tokenKinds) > 0 {
				continue
			}
			for _, s := range gd.Specs {
				vs := s.(*ast.ValueSpec)
				for _, n := range vs.Names {
					tokenKinds = append(tokenKinds, n.Name)
				}
			}
		}
	}
	if len(tokenKinds) == 0 {
		return fmt.Errorf("lexer/token.go: token kind constants not found")
	}

	// F2: the punctuator cases of ReadToken (`case 'c': return s.makeValueToken(K, "")`) and the
	// single-character escapes of readString (`case 'b': buf.WriteByte('\b')`)
	var punct [][2]string
	var escapes [][2]string
	if f := byRel["lexer/lexer.go"]; f != nil {
		ast.Inspect(f, func(n ast.Node) bool {
			cc, ok := n.(*ast.CaseClause)
			if !ok || len(cc.Body) == 0 {
				return true
			}
			for _, e := range cc.List {
				lit, ok := e.(*ast.BasicLit)
				if !ok || lit.Kind != token.CHAR {
					continue
				}
				ch, _, _, err := strconv.UnquoteChar(lit.Value[1:len(lit.Value)-1], '\'')
				if err != nil {
					continue
				}
				switch st := cc.Body[0].(type) {
				case *ast.ReturnStmt:
					if len(st.Results) == 1 {
						if call, ok := st.Results[0].(*ast.CallExpr); ok && lastName(call.Fun) == "makeValueToken" && len(call.Args) == 2 {
							punct = append(punct, [2]string{strconv.Itoa(int(ch)), lastName(call.Args[0])})
						}
					}
				case *ast.ExprStmt:
					if call, ok := st.X.(*ast.CallExpr); ok && lastName(call.Fun) == "WriteByte" && len(call.Args) == 1 {
						switch a := call.Args[0].(type) {
						case *ast.BasicLit:
							if out, _, _, err := strconv.UnquoteChar(a.Value[1:len(a.Value)-1], '\''); err == nil {
								escapes = append(escapes, [2]string{strconv.Itoa(int(ch)), strconv.Itoa(int(out))})
							}
						case *ast.Ident: // buf.WriteByte(escape): the character itself
							escapes = append(escapes, [2]string{strconv.Itoa(int(ch)), strconv.Itoa(int(ch))})
						}
					}
				}
			}
			return true
		})
	}

	// F4: rule registry: AddRule(X.Name, …) in file-name order, resolved through `var X = Rule{Name: "…"}`
	ruleVarName := map[string]string{}
	var ruleVars []string
	var registry []string
	for _, f := range all {
		if filepath.Dir(f.rel) != "validator/rules" {
			continue
		}
		for _, d := range f.f.Decls {
			gd, ok := d.(*ast.GenDecl)
			if !ok || gd.Tok != token.VAR {
				continue
			}
			for _, s := range gd.Specs {
				vs := s.(*ast.ValueSpec)
				for i, n := range vs.Names {
					if i >= len(vs.Values) {
						continue
					}
					cl, ok := vs.Values[i].(*ast.CompositeLit)
					if !ok || lastName(cl.Type) != "Rule" {
						continue
					}
					for _, el := range cl.Elts {
						if kv, ok := el.(*ast.KeyValueExpr); ok && lastName(kv.Key) == "Name" {
							if lit, ok := kv.Value.(*ast.BasicLit); ok {
								v, _ := strconv.Unquote(lit.Value)
								ruleVarName[n.Name] = v
								ruleVars = append(ruleVars, v)
							}
						}
					}
				}
			}
		}
	}
	for _, f := range all {
		if filepath.Dir(f.rel) != "validator/rules" {
			continue
		}
		ast.Inspect(f.f, func(n ast.Node) bool {
			call, ok := n.(*ast.CallExpr)
			if !ok || lastName(call.Fun) != "AddRule" || len(call.Args) < 1 {
				return true
			}
			if sel, ok := call.Args[0].(*ast.SelectorExpr); ok {
				if id, ok := sel.X.(*ast.Ident); ok {
					registry = append(registry, ruleVarName[id.Name])
					return true
				}
			}
			if lit, ok := call.Args[0].(*ast.BasicLit); ok {
				v, _ := strconv.Unquote(lit.Value)
				registry = append(registry, v)
				return true
			}
			registry = append(registry, "?")
			return true
		})
	}

	// names that denote maps: struct fields, vars and locals declared or made with a map type
	mapNames := map[string]bool{}
	for _, f := range all {
		ast.Inspect(f.f, func(n ast.Node) bool {
			switch x := n.(type) {
			case *ast.Field:
				if _, ok := x.Type.(*ast.MapType); ok {
					for _, id := range x.Names {
						mapNames[id.Name] = true
					}
				}
			case *ast.ValueSpec:
				if _, ok := x.Type.(*ast.MapType); ok {
					for _, id := range x.Names {
						mapNames[id.Name] = true
					}
				}
				for i, v := range x.Values {
					if isMapExpr(v) && i < len(x.Names) {
						mapNames[x.Names[i].Name] = true
					}
				}
			case *ast.AssignStmt:
				for i, v := range x.Rhs {
					if isMapExpr(v) && i < len(x.Lhs) {
						mapNames[lastName(x.Lhs[i])] = true
					}
				}
			}
			return true
		})
	}

	// F5 / F8: sites
	var mapRanges, sorts, panics, reflects [][2]string
	for _, f := range all {
		if strings.HasPrefix(f.rel, "parser/testrunner") || f.rel == "ast/dumper.go" {
			continue
		}
		fn := funcNames(f.f)
		ast.Inspect(f.f, func(n ast.Node) bool {
			switch x := n.(type) {
			case *ast.RangeStmt:
				name := lastName(x.X)
				if mapNames[strings.TrimSuffix(name, "[]")] && !strings.HasSuffix(name, "[]") {
					mapRanges = append(mapRanges, [2]string{f.rel, fn(x.Pos()) + ":" + name})
				}
			case *ast.CallExpr:
				if sel, ok := x.Fun.(*ast.SelectorExpr); ok {
					if id, ok := sel.X.(*ast.Ident); ok {
						switch {
						case id.Name == "sort":
							sorts = append(sorts, [2]string{f.rel + ":" + fn(x.Pos()), sel.Sel.Name})
						case id.Name == "reflect":
							reflects = append(reflects, [2]string{f.rel, fn(x.Pos()) + ":" + sel.Sel.Name})
						}
					}
					if sel.Sel.Name == "MapKeys" || sel.Sel.Name == "MapRange" {
						mapRanges = append(mapRanges, [2]string{f.rel, fn(x.Pos()) + ":reflect." + sel.Sel.Name})
					}
				}
				if id, ok := x.Fun.(*ast.Ident); ok && id.Name == "panic" {
					panics = append(panics, [2]string{f.rel, fn(x.Pos())})
				}
			}
			return true
		})
	}

	// F9: literal lists
	var builtinDirs []string
	if f := byRel["validator/schema.go"]; f != nil {
		ast.Inspect(f, func(n ast.Node) bool {
			cc, ok := n.(*ast.CaseClause)
			if !ok || len(builtinDirs) > 0 {
				return true
			}
			var names []string
			for _, e := range cc.List {
				if lit, ok := e.(*ast.BasicLit); ok && lit.Kind == token.STRING {
					v, _ := strconv.Unquote(lit.Value)
					names = append(names, v)
				}
			}
			for _, nme := range names {
				if nme == "skip" {
					builtinDirs = names
				}
			}
			return true
		})
	}
	maxLists := "0"
	if f := byRel["validator/rules/max_introspection_depth.go"]; f != nil {
		ast.Inspect(f, func(n ast.Node) bool {
			if vs, ok := n.(*ast.ValueSpec); ok && len(vs.Names) == 1 && vs.Names[0].Name == "maxListsDepth" && len(vs.Values) == 1 {
				if lit, ok := vs.Values[0].(*ast.BasicLit); ok {
					maxLists = lit.Value
				}
			}
			return true
		})
	}

	var sb strings.Builder
	sb.WriteString("/- GENERATED by harness/internal/extract (RunFacts) from /repo's sources on every run. Do not edit. -/\n")
	sb.WriteString("namespace Gql.Gen\n\n")
	fmt.Fprintf(&sb, "/-- lexer/token.go: the token kind constants in declaration (iota) order -/\ndef tokenKinds : List String :=\n  %s\n\n", leanStrList(tokenKinds))
	natPairs := func(xs [][2]string, second func(string) string) string {
		q := make([]string, len(xs))
		for i, x := range xs {
			q[i] = "(" + x[0] + ", " + second(x[1]) + ")"
		}
		return "[" + strings.Join(q, ", ") + "]"
	}
	fmt.Fprintf(&sb, "/-- lexer/lexer.go ReadToken: `case c: return s.makeValueToken(K, \"\")` -/\ndef punctCases : List (Nat × String) :=\n  %s\n\n", natPairs(punct, leanStr))
	fmt.Fprintf(&sb, "/-- lexer/lexer.go readString: single-character escapes (escape byte, byte written) -/\ndef stringEscapes : List (Nat × Nat) :=\n  %s\n\n", natPairs(escapes, func(s string) string { return s }))
	fmt.Fprintf(&sb, "/-- validator/rules: AddRule calls in file-name order (= package initialisation order) -/\ndef ruleRegistry : List String :=\n  %s\n\n", leanStrList(registry))
	fmt.Fprintf(&sb, "/-- validator/rules: every `var X = Rule{Name: …}` -/\ndef ruleVars : List String :=\n  %s\n\n", leanStrList(ruleVars))
	fmt.Fprintf(&sb, "/-- every `range` over a map (and reflect MapKeys/MapRange) in non-test code: (file, function:expr) -/\ndef mapRanges : List (String × String) :=\n  %s\n\n", leanPairs(mapRanges))
	fmt.Fprintf(&sb, "/-- every call into package sort: (file:function, sort function) -/\ndef sortCalls : List (String × String) :=\n  %s\n\n", leanPairs(sorts))
	fmt.Fprintf(&sb, "/-- every explicit panic( in non-test code: (file, function) -/\ndef panicSites : List (String × String) :=\n  %s\n\n", leanPairs(panics))
	fmt.Fprintf(&sb, "/-- every call into package reflect: (file, function:name) -/\ndef reflectCalls : List (String × String) :=\n  %s\n\n", leanPairs(reflects))
	fmt.Fprintf(&sb, "/-- validator/schema.go: the directive names that may be redeclared -/\ndef builtinDirectiveNames : List String :=\n  %s\n\n", leanStrList(builtinDirs))
	fmt.Fprintf(&sb, "/-- validator/rules/max_introspection_depth.go -/\ndef maxListsDepth : Nat := %s\n\n", maxLists)
	sb.WriteString("end Gql.Gen\n")
	out := filepath.Join(leanDir, "GqlModel", "Gen", "Facts.lean")
	os.MkdirAll(filepath.Dir(out), 0o755)
	// rewrite only when the content changed so that lake does not rebuild dependents needlessly
	if old, err := os.ReadFile(out); err == nil && string(old) == sb.String() {
		return nil
	}
	os.Remove(out)
	return os.WriteFile(out, []byte(sb.String()), 0o644)
}

func isMapExpr(e ast.Expr) bool {
	switch x := e.(type) {
	case *ast.CompositeLit:
		_, ok := x.Type.(*ast.MapType)
		return ok
	case *ast.CallExpr:
		if id, ok := x.Fun.(*ast.Ident); ok && id.Name == "make" && len(x.Args) > 0 {
			_, ok := x.Args[0].(*ast.MapType)
			return ok
		}
	}
	return false
}
