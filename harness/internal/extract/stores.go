package extract

import "fmt"

func RunExtractStores(repoDir, leanDir string) error { return fmt.Errorf("not yet") }
