package extract

import (
	"fmt"
	"go/ast"
	"go/token"
	"sort"
	"strings"
)

// Store is one site that may write memory reachable from outside the function (F6): an assignment
// (also `op=` and `++`/`--`) whose target is not a plain local, an `append` / `delete` / `copy` /
// `sort.*` / reflect `Set*` on something that is not a freshly made local, a call of a mutating
// method of package ast, or an assignment to a package-level variable.
//
// Plain go/ast heuristics (no type information):
//   - the "function" is the enclosing top-level declaration (function literals inside it share
//     its scope table: the rules store into variables captured from the enclosing RuleFunc);
//   - a local is FRESH when every definition of that name in the declaration initialises it with
//     a composite literal, &composite literal, make, new, nil, a basic literal, a function literal
//     or nothing at all (`var x T`); parameters, receivers, range variables and everything else
//     are DERIVED (they may alias memory owned by somebody else);
//   - skipped as plain local writes: `x = …` for a declared x (unless it is `x = append(y, …)` with
//     y not fresh), and ONE selector / index step on a fresh local (`fresh.f = …`, `fresh[k] = …`);
//     everything else is listed, with the class of its root (recv / param / local / fresh / global).
type Store struct {
	File   string
	Line   int // first occurrence (information only: the key is File+Func+Kind+Target)
	Func   string
	Kind   string // assign | append | delete | copy | sort | reflect-set | call-mutator
	Target string // text of the written expression
	Root   string // recv | param | local | fresh | global
	Count  int
}

// storePaths are the anchored parts of the library (DESIGN §3.4 F6).
var storePaths = []string{"validator", "validator/rules", "ast/argmap.go", "ast/value.go", "formatter"}

type scope struct {
	recv   map[string]bool
	param  map[string]bool
	fresh  map[string]bool // declared, only fresh initialisers so far
	local  map[string]bool // declared, some derived initialiser
	pkgVar map[string]bool
}

func isFreshExpr(e ast.Expr) bool {
	switch x := e.(type) {
	case nil:
		return true
	case *ast.CompositeLit, *ast.BasicLit, *ast.FuncLit:
		return true
	case *ast.Ident:
		return x.Name == "nil" || x.Name == "true" || x.Name == "false"
	case *ast.UnaryExpr:
		if x.Op == token.AND {
			_, ok := x.X.(*ast.CompositeLit)
			return ok
		}
		return x.Op == token.SUB || x.Op == token.NOT
	case *ast.ParenExpr:
		return isFreshExpr(x.X)
	case *ast.CallExpr:
		switch exprText(x.Fun) {
		case "make", "new", "len", "cap", "strings.Builder", "map[string]bool", "errors.New":
			return true
		}
		// conversion of nil: []T(nil)
		if len(x.Args) == 1 {
			if id, ok := x.Args[0].(*ast.Ident); ok && id.Name == "nil" {
				return true
			}
		}
	}
	return false
}

func (s *scope) declare(name string, fresh bool) {
	if name == "_" {
		return
	}
	if s.local[name] {
		return
	}
	if fresh {
		s.fresh[name] = true
	} else {
		delete(s.fresh, name)
		s.local[name] = true
	}
}

func (s *scope) fields(fl *ast.FieldList, into map[string]bool) {
	if fl == nil {
		return
	}
	for _, f := range fl.List {
		for _, n := range f.Names {
			if n.Name != "_" {
				into[n.Name] = true
			}
		}
	}
}

func (s *scope) class(name string) string {
	switch {
	case s.recv[name]:
		return "recv"
	case s.param[name]:
		return "param"
	case s.local[name]:
		return "local"
	case s.fresh[name]:
		return "fresh"
	}
	return "global"
}

// rootOf strips selectors, indexing, slicing, dereferences, parentheses and type assertions.
func rootOf(e ast.Expr) (root *ast.Ident, depth int) {
	for {
		switch x := e.(type) {
		case *ast.Ident:
			return x, depth
		case *ast.SelectorExpr:
			e, depth = x.X, depth+1
		case *ast.IndexExpr:
			e, depth = x.X, depth+1
		case *ast.SliceExpr:
			e, depth = x.X, depth+1
		case *ast.StarExpr:
			e, depth = x.X, depth+1
		case *ast.ParenExpr:
			e = x.X
		case *ast.TypeAssertExpr:
			e, depth = x.X, depth+1
		case *ast.CallExpr:
			// f(...).x = … : rooted in a call result
			return nil, depth + 1
		default:
			return nil, depth
		}
	}
}

// mutatingAstMethods: methods of package ast whose body stores through the receiver.
func mutatingAstMethods(repoDir string) (map[string]bool, error) {
	files, err := loadFiles(repoDir, []string{"ast"}, false)
	if err != nil {
		return nil, err
	}
	out := map[string]bool{}
	for _, gf := range files {
		for _, d := range gf.f.Decls {
			fd, ok := d.(*ast.FuncDecl)
			if !ok || fd.Recv == nil || len(fd.Recv.List) == 0 || len(fd.Recv.List[0].Names) == 0 || fd.Body == nil {
				continue
			}
			rn := fd.Recv.List[0].Names[0].Name
			ast.Inspect(fd.Body, func(n ast.Node) bool {
				check := func(lhs ast.Expr) {
					if r, depth := rootOf(lhs); r != nil && r.Name == rn && depth >= 1 {
						out[fd.Name.Name] = true
					}
				}
				switch x := n.(type) {
				case *ast.AssignStmt:
					for _, l := range x.Lhs {
						check(l)
					}
				case *ast.IncDecStmt:
					check(x.X)
				}
				return true
			})
		}
	}
	return out, nil
}

// ExtractStores lists the store sites of the anchored files.
func ExtractStores(repoDir string) ([]Store, error) {
	files, err := loadFiles(repoDir, storePaths, false)
	if err != nil {
		return nil, err
	}
	mut, err := mutatingAstMethods(repoDir)
	if err != nil {
		return nil, err
	}
	// package-level variables per package directory
	pkgVars := map[string]map[string]bool{}
	dirOf := func(rel string) string {
		if i := strings.LastIndex(rel, "/"); i >= 0 {
			return rel[:i]
		}
		return "."
	}
	for _, gf := range files {
		d := dirOf(gf.rel)
		if pkgVars[d] == nil {
			pkgVars[d] = map[string]bool{}
		}
		for _, decl := range gf.f.Decls {
			if g, ok := decl.(*ast.GenDecl); ok && g.Tok == token.VAR {
				for _, sp := range g.Specs {
					for _, n := range sp.(*ast.ValueSpec).Names {
						pkgVars[d][n.Name] = true
					}
				}
			}
		}
	}
	byKey := map[string]*Store{}
	var order []string
	for _, gf := range files {
		if strings.HasSuffix(gf.rel, "verif_export.go") {
			continue
		}
		visit := func(declName string, root ast.Node, recvs, params *ast.FieldList) {
			sc := &scope{recv: map[string]bool{}, param: map[string]bool{}, fresh: map[string]bool{}, local: map[string]bool{}, pkgVar: pkgVars[dirOf(gf.rel)]}
			sc.fields(recvs, sc.recv)
			sc.fields(params, sc.param)
			// pass 1: declarations
			ast.Inspect(root, func(n ast.Node) bool {
				switch x := n.(type) {
				case *ast.FuncLit:
					sc.fields(x.Type.Params, sc.param)
					sc.fields(x.Type.Results, sc.local)
				case *ast.FuncDecl:
					sc.fields(x.Type.Results, sc.local)
				case *ast.AssignStmt:
					if x.Tok == token.DEFINE {
						for i, l := range x.Lhs {
							if id, ok := l.(*ast.Ident); ok {
								var rhs ast.Expr
								if len(x.Rhs) == len(x.Lhs) {
									rhs = x.Rhs[i]
								} else {
									rhs = x.Rhs[0] // multi-value call: derived
								}
								sc.declare(id.Name, len(x.Rhs) == len(x.Lhs) && isFreshExpr(rhs))
							}
						}
					}
				case *ast.ValueSpec:
					if _, isTop := root.(*ast.ValueSpec); isTop && n == root {
						return true // the package-level variable itself
					}
					for i, id := range x.Names {
						var rhs ast.Expr
						if i < len(x.Values) {
							rhs = x.Values[i]
						}
						sc.declare(id.Name, isFreshExpr(rhs))
					}
				case *ast.RangeStmt:
					if x.Tok == token.DEFINE {
						if id, ok := x.Key.(*ast.Ident); ok {
							sc.declare(id.Name, true) // an index or a key: a copy
						}
						if id, ok := x.Value.(*ast.Ident); ok {
							sc.declare(id.Name, false)
						}
					}
				case *ast.TypeSwitchStmt:
					if as, ok := x.Assign.(*ast.AssignStmt); ok {
						if id, ok := as.Lhs[0].(*ast.Ident); ok {
							sc.declare(id.Name, false)
						}
					}
				}
				return true
			})
			add := func(pos token.Pos, kind string, target ast.Expr, rootClass string) {
				t := exprText(target)
				key := gf.rel + "\x00" + declName + "\x00" + kind + "\x00" + t
				if s, ok := byKey[key]; ok {
					s.Count++
					return
				}
				byKey[key] = &Store{File: gf.rel, Line: gf.fset.Position(pos).Line, Func: declName, Kind: kind, Target: t, Root: rootClass, Count: 1}
				order = append(order, key)
			}
			rootClass := func(e ast.Expr) (string, *ast.Ident, int) {
				r, depth := rootOf(e)
				if r == nil {
					return "call", nil, depth
				}
				return sc.class(r.Name), r, depth
			}
			// is the operand of append/delete/copy/sort worth listing?
			operand := func(pos token.Pos, kind string, e ast.Expr) {
				cls, _, depth := rootClass(e)
				if cls == "fresh" && depth <= 1 {
					return
				}
				add(pos, kind, e, cls)
			}
			store := func(pos token.Pos, lhs ast.Expr, rhs ast.Expr) {
				cls, r, depth := rootClass(lhs)
				if depth == 0 {
					if r == nil || r.Name == "_" {
						return
					}
					if cls == "global" {
						add(pos, "assign", lhs, cls)
					}
					return // a plain local (appends are listed by the call visitor)
				}
				if cls == "fresh" && depth == 1 {
					return
				}
				add(pos, "assign", lhs, cls)
				_ = rhs
			}
			ast.Inspect(root, func(n ast.Node) bool {
				switch x := n.(type) {
				case *ast.AssignStmt:
					if x.Tok == token.DEFINE {
						return true
					}
					for i, l := range x.Lhs {
						var rhs ast.Expr
						if i < len(x.Rhs) {
							rhs = x.Rhs[i]
						}
						store(x.Pos(), l, rhs)
					}
				case *ast.IncDecStmt:
					store(x.Pos(), x.X, nil)
				case *ast.CallExpr:
					name := exprText(x.Fun)
					switch {
					case name == "append" && len(x.Args) > 0:
						operand(x.Pos(), "append", x.Args[0])
					case name == "delete" && len(x.Args) > 0:
						operand(x.Pos(), "delete", x.Args[0])
					case name == "copy" && len(x.Args) > 0:
						operand(x.Pos(), "copy", x.Args[0])
					case strings.HasPrefix(name, "sort.") && len(x.Args) > 0:
						operand(x.Pos(), "sort", x.Args[0])
					default:
						if sel, ok := x.Fun.(*ast.SelectorExpr); ok {
							m := sel.Sel.Name
							if m == "SetMapIndex" || m == "Set" || (strings.HasPrefix(m, "Set") && len(m) > 3 && m != "SetFile" && !mut[m]) && isReflectSetter(m) {
								operand(x.Pos(), "reflect-set", sel.X)
							} else if mut[m] {
								cls, _, depth := rootClass(sel.X)
								if !(cls == "fresh" && depth == 0) {
									add(x.Pos(), "call-mutator", x.Fun, cls)
								}
							}
						}
					}
				}
				return true
			})
		}
		for _, d := range gf.f.Decls {
			switch x := d.(type) {
			case *ast.FuncDecl:
				visit(funcName(x), x, x.Recv, x.Type.Params)
			case *ast.GenDecl:
				for _, sp := range x.Specs {
					if vs, ok := sp.(*ast.ValueSpec); ok && len(vs.Names) > 0 && len(vs.Values) > 0 {
						visit(vs.Names[0].Name, vs, nil, nil)
					}
				}
			}
		}
	}
	out := make([]Store, 0, len(order))
	for _, k := range order {
		out = append(out, *byKey[k])
	}
	// ordered by key, not by line: moving code inside a file does not reorder the table
	sort.SliceStable(out, func(i, j int) bool {
		a, b := out[i], out[j]
		if a.File != b.File {
			return a.File < b.File
		}
		if a.Func != b.Func {
			return a.Func < b.Func
		}
		if a.Target != b.Target {
			return a.Target < b.Target
		}
		return a.Kind < b.Kind
	})
	return out, nil
}

func isReflectSetter(m string) bool {
	switch m {
	case "SetInt", "SetString", "SetBool", "SetFloat", "SetUint", "SetLen", "SetCap", "SetBytes", "SetPointer", "SetZero", "SetIterKey", "SetIterValue", "SetComplex":
		return true
	}
	return false
}

// RunExtractStores regenerates lean/GqlModel/Gen/Stores.lean from repoDir.
func RunExtractStores(repoDir, leanDir string) error {
	stores, err := ExtractStores(repoDir)
	if err != nil {
		return err
	}
	if len(stores) == 0 {
		return fmt.Errorf("stores: nothing extracted from %s", repoDir)
	}
	var sb strings.Builder
	sb.WriteString("/- GENERATED by harness/internal/extract/stores.go (fact family F6) — do not edit.\n")
	sb.WriteString("   Every site of validator/, validator/rules/, ast/argmap.go, ast/value.go, formatter/ (non-test files)\n")
	sb.WriteString("   that may write memory reachable from outside the enclosing declaration: assignments (also op=, ++, --)\n")
	sb.WriteString("   whose target is not a plain local, append / delete / copy / sort.* / reflect Set* on something that is\n")
	sb.WriteString("   not a freshly made local, calls of mutating methods of package ast, assignments to package-level\n")
	sb.WriteString("   variables.  `root` is the class of the variable the target is rooted in (recv | param | local | fresh |\n")
	sb.WriteString("   global | call); `line` is the first occurrence and `count` the number of occurrences of the same\n")
	sb.WriteString("   (file, fn, kind, target) — the key the hand-written classification uses. -/\n")
	sb.WriteString("namespace Gql.Gen\n\n")
	sb.WriteString("structure Store where\n  file : String\n  line : Nat\n  fn : String\n  kind : String\n  target : String\n  root : String\n  count : Nat\n\n")
	sb.WriteString("def stores : List Store := [\n")
	for i, s := range stores {
		sep := ","
		if i == len(stores)-1 {
			sep = ""
		}
		fmt.Fprintf(&sb, "  ⟨%s, %d, %s, %s, %s, %s, %d⟩%s\n", leanString(s.File), s.Line, leanString(s.Func), leanString(s.Kind), leanString(s.Target), leanString(s.Root), s.Count, sep)
	}
	sb.WriteString("]\n\nend Gql.Gen\n")
	return writeGen(leanDir, "Stores.lean", sb.String())
}
