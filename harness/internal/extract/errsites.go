package extract

import (
	"fmt"
	"go/ast"
	"go/token"
	"sort"
	"strconv"
	"strings"
)

// ErrSite is one call of an error constructor (F7).
type ErrSite struct {
	File    string // relative to the repository root
	Line    int
	Func    string // enclosing top-level declaration
	Ctor    string // ErrorLocf | ErrorPosf | ErrorPathf | Errorf | Message | p.error | makeError | fmt.Errorf | Sprintf(message)
	Literal bool   // the format argument is a string literal (or a concatenation of literals)
	Format  string // the literal (unquoted), or the text of the expression when it is not one
}

// AddErrorSite is one call `addError(opts…)` of a validation rule.
type AddErrorSite struct {
	File       string
	Line       int
	Func       string
	HasAt      bool // some option is a call of At(…)
	HasMessage bool // some option is a call of Message(…)
}

// format argument index per constructor
var ctorFormatArg = map[string]int{
	"gqlerror.ErrorLocf": 3, "ErrorLocf": 3,
	"gqlerror.ErrorPosf": 1, "ErrorPosf": 1,
	"gqlerror.ErrorPathf": 1, "ErrorPathf": 1,
	"gqlerror.Errorf":   0,
	"validator.Message": 0, "Message": 0,
	"fmt.Errorf": 0,
}

func stringConst(e ast.Expr) (string, bool) {
	switch x := e.(type) {
	case *ast.BasicLit:
		if x.Kind == token.STRING {
			s, err := strconv.Unquote(x.Value)
			return s, err == nil
		}
	case *ast.ParenExpr:
		return stringConst(x.X)
	case *ast.BinaryExpr:
		if x.Op == token.ADD {
			a, ok1 := stringConst(x.X)
			b, ok2 := stringConst(x.Y)
			return a + b, ok1 && ok2
		}
	}
	return "", false
}

func classifyCall(c *ast.CallExpr, inGqlerror bool) (ctor string, fmtArg int, ok bool) {
	name := exprText(c.Fun)
	if i, found := ctorFormatArg[name]; found {
		if name == "ErrorLocf" || name == "ErrorPosf" || name == "ErrorPathf" {
			if !inGqlerror {
				return "", 0, false // some unrelated local function
			}
		}
		short := name
		if j := strings.LastIndex(name, "."); j >= 0 && name != "fmt.Errorf" {
			short = name[j+1:]
		}
		return short, i, true
	}
	if inGqlerror && name == "Errorf" {
		return "Errorf", 0, true
	}
	if sel, isSel := c.Fun.(*ast.SelectorExpr); isSel {
		switch sel.Sel.Name {
		case "error":
			if len(c.Args) >= 2 {
				return "p.error", 1, true
			}
		case "makeError":
			return "makeError", 0, true
		}
	}
	if id, isId := c.Fun.(*ast.Ident); isId && id.Name == "makeError" {
		return "makeError", 0, true
	}
	return "", 0, false
}

// ExtractErrSites lists every error-constructor call and every addError call of the non-test
// Go files of the repository.
func ExtractErrSites(repoDir string) ([]ErrSite, []AddErrorSite, error) {
	files, err := loadFiles(repoDir, []string{"."}, true)
	if err != nil {
		return nil, nil, err
	}
	var sites []ErrSite
	var adds []AddErrorSite
	for _, gf := range files {
		inGqlerror := gf.f.Name.Name == "gqlerror"
		visit := func(declName string, root ast.Node) {
			ast.Inspect(root, func(n ast.Node) bool {
				// `message := fmt.Sprintf("…", …)`: the text later handed to Message("%s", message)
				if as, isAssign := n.(*ast.AssignStmt); isAssign && len(as.Lhs) == 1 && len(as.Rhs) == 1 {
					if id, isId := as.Lhs[0].(*ast.Ident); isId && id.Name == "message" {
						if call, isCall := as.Rhs[0].(*ast.CallExpr); isCall && exprText(call.Fun) == "fmt.Sprintf" && len(call.Args) > 0 {
							s := ErrSite{File: gf.rel, Line: gf.fset.Position(call.Pos()).Line, Func: declName, Ctor: "Sprintf(message)"}
							if lit, isLit := stringConst(call.Args[0]); isLit {
								s.Literal, s.Format = true, lit
							} else {
								s.Format = exprText(call.Args[0])
							}
							sites = append(sites, s)
						}
					}
					return true
				}
				c, ok := n.(*ast.CallExpr)
				if !ok {
					return true
				}
				line := gf.fset.Position(c.Pos()).Line
				if id, isId := c.Fun.(*ast.Ident); isId && id.Name == "addError" {
					a := AddErrorSite{File: gf.rel, Line: line, Func: declName}
					for _, arg := range c.Args {
						if ac, isCall := arg.(*ast.CallExpr); isCall {
							switch exprText(ac.Fun) {
							case "At", "validator.At":
								a.HasAt = true
							case "Message", "validator.Message":
								a.HasMessage = true
							}
						}
					}
					adds = append(adds, a)
					return true
				}
				ctor, idx, ok := classifyCall(c, inGqlerror)
				if !ok {
					return true
				}
				s := ErrSite{File: gf.rel, Line: line, Func: declName, Ctor: ctor}
				if idx < len(c.Args) {
					if lit, isLit := stringConst(c.Args[idx]); isLit {
						s.Literal, s.Format = true, lit
					} else {
						s.Format = exprText(c.Args[idx])
					}
				} else {
					s.Format = "<missing>"
				}
				sites = append(sites, s)
				return true
			})
		}
		for _, d := range gf.f.Decls {
			switch x := d.(type) {
			case *ast.FuncDecl:
				visit(funcName(x), x)
			case *ast.GenDecl:
				for _, sp := range x.Specs {
					if vs, ok := sp.(*ast.ValueSpec); ok && len(vs.Names) > 0 {
						visit(vs.Names[0].Name, vs)
					}
				}
			}
		}
	}
	sort.SliceStable(sites, func(i, j int) bool {
		if sites[i].File != sites[j].File {
			return sites[i].File < sites[j].File
		}
		return sites[i].Line < sites[j].Line
	})
	sort.SliceStable(adds, func(i, j int) bool {
		if adds[i].File != adds[j].File {
			return adds[i].File < adds[j].File
		}
		return adds[i].Line < adds[j].Line
	})
	return sites, adds, nil
}

// RunExtractErrSites regenerates lean/GqlModel/Gen/ErrSites.lean from repoDir.
func RunExtractErrSites(repoDir, leanDir string) error {
	sites, adds, err := ExtractErrSites(repoDir)
	if err != nil {
		return err
	}
	if len(sites) == 0 || len(adds) == 0 {
		return fmt.Errorf("errsites: nothing extracted from %s (sites=%d addError=%d)", repoDir, len(sites), len(adds))
	}
	var sb strings.Builder
	sb.WriteString("/- GENERATED by harness/internal/extract/errsites.go (fact family F7) — do not edit.\n")
	sb.WriteString("   Every call of an error constructor in the non-test Go files of the library, with its format\n")
	sb.WriteString("   literal, and every `addError(…)` of a validation rule with whether an `At(…)` option is present. -/\n")
	sb.WriteString("namespace Gql.Gen\n\n")
	sb.WriteString("/-- `fmt` = the UTF-8 bytes of `format` (String functions are slow in the kernel; the table lemmas compute on `fmt`) -/\nstructure ErrSite where\n  file : String\n  line : Nat\n  fn : String\n  ctor : String\n  literal : Bool\n  format : String\n  fmt : List Nat\n\n")
	sb.WriteString("structure AddErrorSite where\n  file : String\n  line : Nat\n  fn : String\n  hasAt : Bool\n  hasMessage : Bool\n\n")
	sb.WriteString("def errSites : List ErrSite := [\n")
	for i, s := range sites {
		sep := ","
		if i == len(sites)-1 {
			sep = ""
		}
		fmt.Fprintf(&sb, "  ⟨%s, %d, %s, %s, %s, %s, %s⟩%s\n", leanString(s.File), s.Line, leanString(s.Func), leanString(s.Ctor), leanBool(s.Literal), leanString(s.Format), leanBytes(s.Format), sep)
	}
	sb.WriteString("]\n\n")
	sb.WriteString("def addErrorSites : List AddErrorSite := [\n")
	for i, a := range adds {
		sep := ","
		if i == len(adds)-1 {
			sep = ""
		}
		fmt.Fprintf(&sb, "  ⟨%s, %d, %s, %s, %s⟩%s\n", leanString(a.File), a.Line, leanString(a.Func), leanBool(a.HasAt), leanBool(a.HasMessage), sep)
	}
	sb.WriteString("]\n\nend Gql.Gen\n")
	return writeGen(leanDir, "ErrSites.lean", sb.String())
}
