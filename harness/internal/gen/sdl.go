package gen

import (
	"strings"

	"verifharness/internal/rng"
)

// Chunk is one top-level definition or extension of the rendered type system.
type Chunk struct {
	Kind string // "schema" | "schemaext" | "directive" | "type" | "ext"
	Name string // type / directive name ("" for schema chunks)
	Ext  int    // extension index (≥ 1) for "ext"/"schemaext"
	Text string
}

func writeApps(sb *strings.Builder, apps []*DirApp, ext int) {
	for _, a := range apps {
		if a.Ext != ext {
			continue
		}
		sb.WriteString(" @")
		sb.WriteString(a.Name)
		if len(a.Args) > 0 {
			sb.WriteByte('(')
			for i, v := range a.Args {
				if i > 0 {
					sb.WriteString(", ")
				}
				sb.WriteString(v.Name)
				sb.WriteString(": ")
				sb.WriteString(v.Value)
			}
			sb.WriteByte(')')
		}
	}
}

func writeDesc(sb *strings.Builder, d, indent string) {
	if d == "" {
		return
	}
	sb.WriteString(indent)
	sb.WriteString(d)
	sb.WriteByte('\n')
}

func writeArgDefs(sb *strings.Builder, args []*ArgDef, indent string) {
	if len(args) == 0 {
		return
	}
	multi := false
	for _, a := range args {
		if a.Description != "" {
			multi = true
		}
	}
	sb.WriteByte('(')
	for i, a := range args {
		if multi {
			sb.WriteByte('\n')
			writeDesc(sb, a.Description, indent+"  ")
			sb.WriteString(indent + "  ")
		} else if i > 0 {
			sb.WriteString(", ")
		}
		sb.WriteString(a.Name)
		sb.WriteString(": ")
		sb.WriteString(a.Type.String())
		if a.HasDefault {
			sb.WriteString(" = ")
			sb.WriteString(a.Default)
		}
		writeApps(sb, a.Directives, 0)
	}
	if multi {
		sb.WriteByte('\n')
		sb.WriteString(indent)
	}
	sb.WriteByte(')')
}

func hasAppsAt(apps []*DirApp, ext int) bool {
	for _, a := range apps {
		if a.Ext == ext {
			return true
		}
	}
	return false
}

// renderType renders the base definition (ext = 0) or the ext-th extension chunk of t.
func renderType(t *TypeDef, ext int) string {
	var sb strings.Builder
	if ext == 0 {
		writeDesc(&sb, t.Description, "")
	} else {
		sb.WriteString("extend ")
	}
	sb.WriteString(t.Kind.keyword())
	sb.WriteByte(' ')
	sb.WriteString(t.Name)
	first := true
	for _, i := range t.Interfaces {
		if i.Ext != ext {
			continue
		}
		if first {
			sb.WriteString(" implements ")
			if len(t.Name)%3 == 0 {
				sb.WriteString("& ")
			}
		} else {
			sb.WriteString(" & ")
		}
		first = false
		sb.WriteString(i.Name)
	}
	writeApps(&sb, t.Directives, ext)
	switch t.Kind {
	case Union:
		first = true
		for _, m := range t.Members {
			if m.Ext != ext {
				continue
			}
			if first {
				sb.WriteString(" = ")
				if len(t.Name)%3 == 1 {
					sb.WriteString("| ")
				}
			} else {
				sb.WriteString(" | ")
			}
			first = false
			sb.WriteString(m.Name)
		}
	case Enum:
		n := 0
		for _, v := range t.Values {
			if v.Ext != ext {
				continue
			}
			if n == 0 {
				sb.WriteString(" {\n")
			}
			n++
			writeDesc(&sb, v.Description, "  ")
			sb.WriteString("  ")
			sb.WriteString(v.Name)
			writeApps(&sb, v.Directives, 0)
			sb.WriteByte('\n')
		}
		if n > 0 {
			sb.WriteString("}")
		}
	case Object, Interface, InputObject:
		n := 0
		for _, f := range t.Fields {
			if f.Ext != ext {
				continue
			}
			if n == 0 {
				sb.WriteString(" {\n")
			}
			n++
			writeDesc(&sb, f.Description, "  ")
			sb.WriteString("  ")
			sb.WriteString(f.Name)
			writeArgDefs(&sb, f.Args, "  ")
			sb.WriteString(": ")
			sb.WriteString(f.Type.String())
			if f.HasDefault {
				sb.WriteString(" = ")
				sb.WriteString(f.Default)
			}
			writeApps(&sb, f.Directives, 0)
			sb.WriteByte('\n')
		}
		if n > 0 {
			sb.WriteString("}")
		}
	}
	sb.WriteByte('\n')
	return sb.String()
}

func renderDirective(d *DirectiveDef) string {
	var sb strings.Builder
	writeDesc(&sb, d.Description, "")
	sb.WriteString("directive @")
	sb.WriteString(d.Name)
	writeArgDefs(&sb, d.Args, "")
	if d.Repeatable {
		sb.WriteString(" repeatable")
	}
	sb.WriteString(" on ")
	if len(d.Name)%2 == 0 && len(d.Locations) > 1 {
		sb.WriteString("| ")
	}
	sb.WriteString(strings.Join(d.Locations, " | "))
	sb.WriteByte('\n')
	return sb.String()
}

func (s *Schema) renderSchemaChunk(ext int) string {
	var sb strings.Builder
	if ext == 0 {
		writeDesc(&sb, s.Description, "")
	} else {
		sb.WriteString("extend ")
	}
	sb.WriteString("schema")
	writeApps(&sb, s.SchemaDirectives, ext)
	n := 0
	for _, o := range s.RootOps {
		if o.Ext != ext {
			continue
		}
		if n == 0 {
			sb.WriteString(" {\n")
		}
		n++
		sb.WriteString("  " + o.Op + ": " + o.Type + "\n")
	}
	if n > 0 {
		sb.WriteString("}")
	}
	sb.WriteByte('\n')
	return sb.String()
}

// Chunks returns one chunk per top-level definition/extension, in generation order: the schema
// block, the directive definitions, every type followed by its extensions, the schema extensions.
func (s *Schema) Chunks() []Chunk {
	var out []Chunk
	if s.HasSchemaBlock {
		out = append(out, Chunk{Kind: "schema", Text: s.renderSchemaChunk(0)})
	}
	for _, d := range s.Directives {
		out = append(out, Chunk{Kind: "directive", Name: d.Name, Text: renderDirective(d)})
	}
	for _, t := range s.Types {
		if t.Builtin {
			continue
		}
		if !t.NoBase {
			out = append(out, Chunk{Kind: "type", Name: t.Name, Text: renderType(t, 0)})
		}
		for e := 1; e <= t.NExt; e++ {
			if extEmpty(t, e) {
				continue
			}
			out = append(out, Chunk{Kind: "ext", Name: t.Name, Ext: e, Text: renderType(t, e)})
		}
	}
	for e := 1; e <= s.SchemaNExt; e++ {
		out = append(out, Chunk{Kind: "schemaext", Ext: e, Text: s.renderSchemaChunk(e)})
	}
	return out
}

func extEmpty(t *TypeDef, e int) bool {
	for _, f := range t.Fields {
		if f.Ext == e {
			return false
		}
	}
	for _, v := range t.Values {
		if v.Ext == e {
			return false
		}
	}
	for _, m := range t.Members {
		if m.Ext == e {
			return false
		}
	}
	for _, i := range t.Interfaces {
		if i.Ext == e {
			return false
		}
	}
	return !hasAppsAt(t.Directives, e)
}

// Definitions returns one SDL chunk per top-level definition/extension.
func (s *Schema) Definitions() []string {
	cs := s.Chunks()
	out := make([]string, len(cs))
	for i, c := range cs {
		out[i] = c.Text
	}
	return out
}

// SDL renders the type system as one source (definitions in generation order).
func (s *Schema) SDL() string {
	return strings.Join(s.Definitions(), "\n")
}

// PermuteChunks shuffles chunks; the extensions of one type (and the schema extensions) keep
// their relative order, everything else — including an extension relative to its base — is free.
func PermuteChunks(r *rng.R, cs []Chunk) []Chunk {
	out := append([]Chunk(nil), cs...)
	for i := len(out) - 1; i > 0; i-- {
		j := r.Intn(i + 1)
		out[i], out[j] = out[j], out[i]
	}
	// restore the relative order of the extensions of each type
	pos := map[string][]int{}
	for i, c := range out {
		if c.Kind == "ext" || c.Kind == "schemaext" {
			k := c.Kind + ":" + c.Name
			pos[k] = append(pos[k], i)
		}
	}
	for _, ps := range pos {
		if len(ps) < 2 {
			continue
		}
		exts := make([]Chunk, len(ps))
		for i, p := range ps {
			exts[i] = out[p]
		}
		for i := 1; i < len(exts); i++ {
			for j := i; j > 0 && exts[j-1].Ext > exts[j].Ext; j-- {
				exts[j-1], exts[j] = exts[j], exts[j-1]
			}
		}
		for i, p := range ps {
			out[p] = exts[i]
		}
	}
	return out
}

// SplitChunks distributes an ordered chunk list over at most k non-empty sources.
func SplitChunks(r *rng.R, cs []Chunk, k int) []string {
	if k < 1 {
		k = 1
	}
	if k > len(cs) {
		k = len(cs)
	}
	if k <= 1 {
		var sb strings.Builder
		for i, c := range cs {
			if i > 0 {
				sb.WriteByte('\n')
			}
			sb.WriteString(c.Text)
		}
		return []string{sb.String()}
	}
	// k-1 distinct cut points in 1..len-1
	cut := map[int]bool{}
	for len(cut) < k-1 {
		cut[1+r.Intn(len(cs)-1)] = true
	}
	var out []string
	var sb strings.Builder
	for i, c := range cs {
		if cut[i] {
			out = append(out, sb.String())
			sb.Reset()
		}
		if sb.Len() > 0 {
			sb.WriteByte('\n')
		}
		sb.WriteString(c.Text)
	}
	return append(out, sb.String())
}

// Render returns a random permutation of the chunks distributed over k sources (extensions of
// the same type keep their relative order; an extension may come before its base).
func (s *Schema) Render(r *rng.R, k int) []string {
	return SplitChunks(r, PermuteChunks(r, s.Chunks()), k)
}
