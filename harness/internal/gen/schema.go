package gen

import (
	"strconv"

	"verifharness/internal/rng"
)

var typeNamePool = []string{"User", "Post", "Comment", "Node", "Entity", "Item", "Order", "Product", "Review", "Account", "Team", "Image",
	"Video", "Event", "Tag", "Page", "Edge", "Result", "Profile", "Message", "Droid", "Human", "Starship", "Pet", "Dog", "Cat", "Dig", "Dug",
	"Book", "Author", "Shelf", "Thing", "Actor", "Movie", "Place", "Named", "Owned", "Timed", "Resource", "Media"}
var enumNamePool = []string{"Color", "Status", "Role", "Unit", "Episode", "Sort", "Visibility", "Kind", "Level"}
var inputNamePool = []string{"Filter", "NewUser", "Point", "Range", "Options", "Where", "Patch", "Paging", "Criteria", "Choice"}
var scalarNamePool = []string{"JSON", "DateTime", "URL", "BigInt", "Any", "Date"}
var dirNamePool = []string{"auth", "cache", "tag", "meta", "live", "trace", "cost", "mark", "hint"}
var fieldNamePool = []string{"id", "name", "title", "body", "count", "score", "owner", "author", "items", "nodes", "parent", "children",
	"friends", "status", "kind", "tags", "url", "createdAt", "first", "next", "value", "total", "self", "related", "pet", "data", "fields", "interfaces"}
var argNamePool = []string{"id", "first", "after", "filter", "where", "order", "limit", "ids", "input", "flag", "q", "unit", "at", "opts"}
var enumValuePool = []string{"RED", "GREEN", "BLUE", "ACTIVE", "INACTIVE", "ADMIN", "USER", "ASC", "DESC", "NEWHOPE", "EMPIRE", "JEDI", "METER", "FOOT",
	"A", "B", "C", "on", "Query", "type", "fragment", "red", "Red"}
var queryRootNames = []string{"RootQuery", "QueryRoot", "Q", "Root"}
var mutationRootNames = []string{"RootMutation", "MutationRoot", "M"}
var subscriptionRootNames = []string{"RootSubscription", "SubscriptionRoot", "S", "Live"}

type sgen struct {
	r    *rng.R
	s    *Schema
	size int
	used map[string]bool

	ifaces, objs, unions, enums, inputs, scalars []*TypeDef
	implOf                                       map[string][]string // interface → known implementers (interfaces and objects)
	maxFields                                    int
}

func (g *sgen) typeName(pool []string) string {
	for i := 0; i < 6; i++ {
		n := rng.Pick(g.r, pool)
		if !g.used[n] {
			g.used[n] = true
			return n
		}
	}
	for k := 2; ; k++ {
		n := rng.Pick(g.r, pool) + strconv.Itoa(k+g.r.Intn(3))
		if !g.used[n] {
			g.used[n] = true
			return n
		}
	}
}

func pickFresh(r *rng.R, pool []string, taken func(string) bool) string {
	for i := 0; i < 8; i++ {
		n := rng.Pick(r, pool)
		if !taken(n) {
			return n
		}
	}
	for k := 2; ; k++ {
		n := rng.Pick(r, pool) + strconv.Itoa(k)
		if !taken(n) {
			return n
		}
	}
}

// wrap puts a random list / non-null pattern (list depth ≤ 3, every non-null pattern) around a named type.
func (g *sgen) wrap(name string) *TypeRef {
	r := g.r
	t := &TypeRef{Name: name, NonNull: r.Chance(2, 5)}
	d := 0
	switch k := r.Intn(100); {
	case k < 70:
	case k < 90:
		d = 1
	case k < 97:
		d = 2
	default:
		d = 3
	}
	for i := 0; i < d; i++ {
		t = &TypeRef{Elem: t, NonNull: r.Bool()}
	}
	if d > 0 {
		g.s.feature("list-depth-" + strconv.Itoa(d))
	}
	return t
}

func (g *sgen) outNamed() string {
	r := g.r
	k := r.Intn(100)
	switch {
	case k < 40:
		return rng.Pick(r, builtinScalars)
	case k < 46 && len(g.scalars) > 0:
		return rng.Pick(r, g.scalars).Name
	case k < 56 && len(g.enums) > 0:
		return rng.Pick(r, g.enums).Name
	case k < 78:
		return rng.Pick(r, g.objs).Name
	case k < 90 && len(g.ifaces) > 0:
		return rng.Pick(r, g.ifaces).Name
	case len(g.unions) > 0:
		return rng.Pick(r, g.unions).Name
	}
	return rng.Pick(r, builtinScalars)
}

func (g *sgen) inNamed() string {
	r := g.r
	k := r.Intn(100)
	switch {
	case k < 50:
		return rng.Pick(r, builtinScalars)
	case k < 58 && len(g.scalars) > 0:
		return rng.Pick(r, g.scalars).Name
	case k < 72 && len(g.enums) > 0:
		return rng.Pick(r, g.enums).Name
	case len(g.inputs) > 0:
		return rng.Pick(r, g.inputs).Name
	}
	return rng.Pick(r, builtinScalars)
}

func (g *sgen) argDefs(max int, taken map[string]bool) []*ArgDef {
	r := g.r
	n := 0
	if r.Chance(2, 5) {
		n = 1 + r.Intn(max)
	}
	var out []*ArgDef
	for i := 0; i < n; i++ {
		name := pickFresh(r, argNamePool, func(x string) bool { return taken[x] })
		taken[name] = true
		out = append(out, g.argDef(name))
	}
	return out
}

func (g *sgen) argDef(name string) *ArgDef {
	r := g.r
	a := &ArgDef{Name: name, Type: g.wrap(g.inNamed()), Description: genDescription(r)}
	if r.Chance(1, 3) {
		a.HasDefault = true
		a.Default = constLiteral(r, g.s, a.Type, 0)
		g.s.feature("arg-default")
	}
	return a
}

// GenSchema generates a type system that is valid by construction. size ≥ 0 scales the number
// of types and fields (size 0: a handful of types; size 10: ~15 types).
func GenSchema(r *rng.R, size int) *Schema {
	if size < 0 {
		size = 0
	}
	if size > 60 {
		size = 60
	}
	s := &Schema{Features: map[string]bool{}}
	g := &sgen{r: r, s: s, size: size, used: map[string]bool{}, implOf: map[string][]string{}}
	g.maxFields = 2 + size/3
	if g.maxFields > 8 {
		g.maxFields = 8
	}
	for _, t := range preludeTypes() {
		g.used[t.Name] = true
	}
	g.used["Query"], g.used["Mutation"], g.used["Subscription"] = true, true, true

	// ---- 1. skeleton: kinds, names, roots
	custom := r.Chance(1, 4)
	s.HasSchemaBlock = custom || r.Chance(1, 5)
	hasMut, hasSub := r.Chance(1, 2), r.Chance(2, 5)
	newT := func(k Kind, name string) *TypeDef {
		t := &TypeDef{Kind: k, Name: name}
		s.Types = append(s.Types, t)
		return t
	}
	var rootDefs []*TypeDef
	qn, mn, sn := "Query", "Mutation", "Subscription"
	if custom {
		s.feature("custom-root-names")
		if r.Chance(2, 3) {
			qn = g.typeName(queryRootNames)
		}
		if r.Chance(2, 3) {
			mn = g.typeName(mutationRootNames)
		}
		if r.Chance(2, 3) {
			sn = g.typeName(subscriptionRootNames)
		}
	}
	s.Query = qn
	if hasMut {
		s.Mutation = mn
		s.feature("mutation-root")
	}
	if hasSub {
		s.Subscription = sn
		s.feature("subscription-root")
	}
	budget := 3 + size
	kinds := []Kind{}
	for i := 0; i < budget; i++ {
		switch k := r.Intn(13); {
		case k < 4:
			kinds = append(kinds, Object)
		case k < 6:
			kinds = append(kinds, Interface)
		case k < 7:
			kinds = append(kinds, Union)
		case k < 9:
			kinds = append(kinds, Enum)
		case k < 12:
			kinds = append(kinds, InputObject)
		default:
			kinds = append(kinds, Scalar)
		}
	}
	// generation order of definitions is random: roots are placed at random positions
	nRoots := 1
	if hasMut {
		nRoots++
	}
	if hasSub {
		nRoots++
	}
	rootAt := map[int]string{}
	rootNames := []string{qn}
	if hasMut {
		rootNames = append(rootNames, mn)
	}
	if hasSub {
		rootNames = append(rootNames, sn)
	}
	total := len(kinds) + nRoots
	for _, n := range rootNames {
		for {
			p := r.Intn(total)
			if _, ok := rootAt[p]; !ok {
				rootAt[p] = n
				break
			}
		}
	}
	ki := 0
	for p := 0; p < total; p++ {
		if n, ok := rootAt[p]; ok {
			t := newT(Object, n)
			g.objs = append(g.objs, t)
			rootDefs = append(rootDefs, t)
			continue
		}
		k := kinds[ki]
		ki++
		switch k {
		case Object:
			g.objs = append(g.objs, newT(Object, g.typeName(typeNamePool)))
		case Interface:
			g.ifaces = append(g.ifaces, newT(Interface, g.typeName(typeNamePool)))
		case Union:
			g.unions = append(g.unions, newT(Union, g.typeName(typeNamePool)))
		case Enum:
			g.enums = append(g.enums, newT(Enum, g.typeName(enumNamePool)))
		case InputObject:
			g.inputs = append(g.inputs, newT(InputObject, g.typeName(inputNamePool)))
		case Scalar:
			g.scalars = append(g.scalars, newT(Scalar, g.typeName(scalarNamePool)))
		}
	}
	// a type named Mutation / Subscription that is NOT a root (only legal with a schema block)
	if s.HasSchemaBlock {
		if s.Mutation != "Mutation" && s.Query != "Mutation" && s.Subscription != "Mutation" && r.Chance(1, 3) {
			g.objs = append(g.objs, newT(Object, "Mutation"))
			s.feature("nonroot-type-named-Mutation")
		}
		if s.Subscription != "Subscription" && s.Query != "Subscription" && s.Mutation != "Subscription" && r.Chance(1, 4) {
			g.objs = append(g.objs, newT(Object, "Subscription"))
			s.feature("nonroot-type-named-Subscription")
		}
		if s.Query != "Query" && r.Chance(1, 4) {
			g.objs = append(g.objs, newT(Object, "Query"))
			s.feature("nonroot-type-named-Query")
		}
	}
	s.byName = map[string]*TypeDef{}
	s.builtinTypes = preludeTypes()
	s.builtinDirs = preludeDirectives()
	for _, t := range s.builtinTypes {
		s.byName[t.Name] = t
	}
	for _, t := range s.Types {
		s.byName[t.Name] = t
	}

	// ---- enums, unions, scalars
	for _, e := range g.enums {
		n := 1 + r.Intn(2+size/4)
		for i := 0; i < n; i++ {
			name := pickFresh(r, enumValuePool, func(x string) bool {
				for _, v := range e.Values {
					if v.Name == x {
						return true
					}
				}
				return false
			})
			e.Values = append(e.Values, &EnumVal{Name: name, Description: genDescription(r)})
		}
		e.Description = genDescription(r)
	}
	for _, u := range g.unions {
		n := 1 + r.Intn(3)
		for i := 0; i < n; i++ {
			o := rng.Pick(r, g.objs)
			dup := false
			for _, m := range u.Members {
				dup = dup || m.Name == o.Name
			}
			if !dup {
				u.Members = append(u.Members, NameExt{Name: o.Name})
			}
		}
		u.Description = genDescription(r)
		s.feature("union")
	}
	for _, sc := range g.scalars {
		sc.Description = genDescription(r)
		s.feature("custom-scalar")
	}

	// ---- 2. input objects: field names and types first (defaults need every input type complete)
	for i, in := range g.inputs {
		in.Description = genDescription(r)
		oneOf := r.Chance(1, 5)
		n := 1 + r.Intn(g.maxFields)
		for k := 0; k < n; k++ {
			name := pickFresh(r, fieldNamePool, func(x string) bool { return in.Field(x) != nil })
			t := g.wrap(g.inNamed())
			if b := s.byName[t.Base()]; b != nil && b.Kind == InputObject {
				bi := indexOf(g.inputs, b)
				if t.Elem == nil && t.NonNull && bi >= i {
					t.NonNull = false // required references only go to earlier input objects
				}
				if bi == i {
					s.feature("recursive-input")
				} else {
					s.feature("nested-input")
				}
			}
			if oneOf {
				t.NonNull = false
			}
			in.Fields = append(in.Fields, &FieldDef{Name: name, Type: t, Description: genDescription(r)})
		}
		if oneOf {
			in.Directives = append(in.Directives, &DirApp{Name: "oneOf"})
			in.OneOf = true
			s.feature("oneOf-input")
		}
	}
	// a @oneOf object needs one field with a finite literal
	s.computeInputHeights()
	for _, in := range g.inputs {
		if in.OneOf && in.height >= infHeight {
			name := pickFresh(r, fieldNamePool, func(x string) bool { return in.Field(x) != nil })
			in.Fields = append(in.Fields, &FieldDef{Name: name, Type: Named(rng.Pick(r, builtinScalars))})
			s.computeInputHeights()
		}
	}
	// ---- 3. input field defaults
	for i, in := range g.inputs {
		if in.OneOf {
			continue
		}
		for _, f := range in.Fields {
			if !r.Chance(1, 4) {
				continue
			}
			if b := s.byName[f.Type.Base()]; b != nil && b.Kind == InputObject && indexOf(g.inputs, b) >= i {
				continue // no default-value cycles
			}
			f.HasDefault = true
			f.Default = constLiteral(r, s, f.Type, 0)
			s.feature("input-field-default")
		}
	}

	// ---- 4. directive definitions
	nDir := 0
	if r.Chance(2, 3) {
		nDir = 1 + r.Intn(2+size/5)
	}
	allLocs := append(append([]string{}, ExecutableLocations...), TypeSystemLocations...)
	dirUsed := map[string]bool{"skip": true, "include": true, "deprecated": true, "specifiedBy": true, "oneOf": true, "defer": true}
	for i := 0; i < nDir; i++ {
		d := &DirectiveDef{Name: pickFresh(r, dirNamePool, func(x string) bool { return dirUsed[x] }), Description: genDescription(r)}
		dirUsed[d.Name] = true
		d.Repeatable = r.Chance(1, 3)
		nl := 1 + r.Intn(5)
		if r.Chance(1, 6) {
			nl = len(allLocs)
		}
		for k := 0; k < nl; k++ {
			l := rng.Pick(r, allLocs)
			if k == 0 && r.Chance(2, 3) {
				l = rng.Pick(r, ExecutableLocations) // most directives are usable in documents
			}
			if !d.Has(l) {
				d.Locations = append(d.Locations, l)
			}
		}
		taken := map[string]bool{}
		na := r.Intn(3)
		for k := 0; k < na; k++ {
			name := pickFresh(r, argNamePool, func(x string) bool { return taken[x] })
			taken[name] = true
			a := g.argDef(name)
			d.Args = append(d.Args, a)
			if !isBuiltinScalar(a.Type.Base()) {
				d.level1 = true
			}
			if a.Required() {
				s.feature("directive-required-arg")
			}
		}
		if d.Repeatable {
			s.feature("repeatable-directive")
		}
		s.feature("custom-directive")
		s.Directives = append(s.Directives, d)
	}
	// an (identical) redefinition of a built-in directive is allowed
	if r.Chance(1, 12) {
		b := rng.Pick(r, s.builtinDirs[:3]).clone()
		b.Builtin = false
		s.Directives = append(s.Directives, b)
		s.feature("builtin-directive-redefined")
	}

	// ---- 5. interfaces then objects
	for k, it := range g.ifaces {
		it.Description = genDescription(r)
		g.buildOutputType(it, g.ifaces[:k])
	}
	for _, o := range g.objs {
		o.Description = genDescription(r)
		g.buildOutputType(o, g.ifaces)
	}
	// the query root reaches a good part of the schema
	q := s.byName[s.Query]
	for _, t := range s.Types {
		if t.IsOutput() && t != q && q.Field(lowerFirst(t.Name)) == nil && r.Chance(1, 2) && len(q.Fields) < 6+size {
			f := &FieldDef{Name: lowerFirst(t.Name), Type: g.wrap(t.Name)}
			f.Args = g.argDefs(3, map[string]bool{})
			q.Fields = append(q.Fields, f)
		}
	}

	// ---- 6. schema block
	if s.HasSchemaBlock {
		s.feature("schema-block")
		s.RootOps = append(s.RootOps, RootOp{Op: "query", Type: s.Query})
		if hasMut {
			s.RootOps = append(s.RootOps, RootOp{Op: "mutation", Type: s.Mutation})
		}
		if hasSub {
			s.RootOps = append(s.RootOps, RootOp{Op: "subscription", Type: s.Subscription})
		}
		if r.Chance(1, 3) { // any order
			i, j := r.Intn(len(s.RootOps)), r.Intn(len(s.RootOps))
			s.RootOps[i], s.RootOps[j] = s.RootOps[j], s.RootOps[i]
		}
		if r.Chance(1, 3) {
			s.Description = rng.Pick(r, descPool)
			s.feature("schema-description")
		}
	}

	// ---- 7. directive applications
	g.decorate()
	// ---- 8. extensions
	g.extensions()
	s.finalize()
	return s
}

func lowerFirst(n string) string {
	if n == "" {
		return n
	}
	c := n[0]
	if c >= 'A' && c <= 'Z' {
		c += 'a' - 'A'
	}
	return string(c) + n[1:]
}

func indexOf(ts []*TypeDef, t *TypeDef) int {
	for i, x := range ts {
		if x == t {
			return i
		}
	}
	return -1
}

// implementsName: a == b or a declares b (interface lists are transitively closed by construction).
func implementsName(a *TypeDef, b string) bool { return a.Name == b || a.Implements(b) }

// minimalProviders checks that for every field name provided by the interfaces in set there is one
// interface that implements all the others providing it; it returns that interface per field name.
func minimalProviders(set []*TypeDef) (map[string]*TypeDef, []string, bool) {
	prov := map[string]*TypeDef{}
	var order []string
	for _, i := range set {
		for _, f := range i.Fields {
			if _, ok := prov[f.Name]; !ok {
				order = append(order, f.Name)
				prov[f.Name] = nil
			}
		}
	}
	for _, name := range order {
		var ds []*TypeDef
		for _, i := range set {
			if i.Field(name) != nil {
				ds = append(ds, i)
			}
		}
		var min *TypeDef
		for _, m := range ds {
			ok := true
			for _, j := range ds {
				if !implementsName(m, j.Name) {
					ok = false
				}
			}
			if ok {
				min = m
				break
			}
		}
		if min == nil {
			return nil, nil, false
		}
		prov[name] = min
	}
	return prov, order, true
}

func (g *sgen) buildOutputType(t *TypeDef, candidates []*TypeDef) {
	r, s := g.r, g.s
	var set []*TypeDef
	if len(candidates) > 0 && r.Chance(3, 5) {
		tries := 1 + r.Intn(3)
		for i := 0; i < tries; i++ {
			c := rng.Pick(r, candidates)
			next := append([]*TypeDef{}, set...)
			add := func(x *TypeDef) {
				if indexOf(next, x) < 0 {
					next = append(next, x)
				}
			}
			add(c)
			for _, a := range c.Interfaces {
				add(s.byName[a.Name])
			}
			if _, _, ok := minimalProviders(next); ok {
				set = next
			}
		}
	}
	prov, order, _ := minimalProviders(set)
	if r.Chance(1, 3) { // the declaration order of the interface list is free
		for i := len(set) - 1; i > 0; i-- {
			j := r.Intn(i + 1)
			set[i], set[j] = set[j], set[i]
		}
	}
	for _, i := range set {
		t.Interfaces = append(t.Interfaces, NameExt{Name: i.Name})
		g.implOf[i.Name] = append(g.implOf[i.Name], t.Name)
		if t.Kind == Interface {
			s.feature("interface-implements-interface")
		} else if len(i.Interfaces) > 0 {
			s.feature("object-implements-interface-chain")
		}
	}
	if len(set) > 0 {
		s.feature("implements")
	}
	for _, name := range order {
		src := prov[name].Field(name)
		f := &FieldDef{Name: name, Type: src.Type.clone(), Args: cloneArgs(src.Args), Description: genDescription(r)}
		if r.Chance(1, 3) {
			f.Type = g.narrow(f.Type)
		}
		if r.Chance(1, 6) { // an additional argument must be optional
			taken := map[string]bool{}
			for _, a := range f.Args {
				taken[a.Name] = true
			}
			a := g.argDef(pickFresh(r, argNamePool, func(x string) bool { return taken[x] }))
			if a.Required() {
				if r.Bool() {
					a.Type.NonNull = false
				} else {
					a.HasDefault = true
					a.Default = constLiteral(r, s, a.Type, 0)
				}
			}
			f.Args = append(f.Args, a)
			s.feature("implementer-extra-optional-arg")
		}
		t.Fields = append(t.Fields, f)
	}
	n := r.Intn(g.maxFields + 1)
	if len(t.Fields) == 0 && n == 0 {
		n = 1
	}
	for i := 0; i < n; i++ {
		name := pickFresh(r, fieldNamePool, func(x string) bool { return t.Field(x) != nil })
		f := &FieldDef{Name: name, Type: g.wrap(g.outNamed()), Description: genDescription(r)}
		f.Args = g.argDefs(3, map[string]bool{})
		t.Fields = append(t.Fields, f)
	}
	if len(t.Fields) > 1 && r.Chance(1, 3) { // inherited fields need not come first
		i, j := r.Intn(len(t.Fields)), r.Intn(len(t.Fields))
		t.Fields[i], t.Fields[j] = t.Fields[j], t.Fields[i]
	}
}

// narrow returns a covariant sub-type of t: non-null added at some level and/or the named type
// replaced by a known implementer / union member.
func (g *sgen) narrow(t *TypeRef) *TypeRef {
	r, s := g.r, g.s
	c := t.clone()
	for x := c; x != nil; x = x.Elem {
		if !x.NonNull && r.Chance(1, 3) {
			x.NonNull = true
			s.feature("covariant-nonnull")
		}
	}
	b := s.byName[c.Base()]
	if b != nil && r.Chance(2, 3) {
		switch b.Kind {
		case Interface:
			if im := g.implOf[b.Name]; len(im) > 0 {
				c = c.withBase(rng.Pick(r, im))
				s.feature("covariant-implementer")
			}
		case Union:
			if len(b.Members) > 0 {
				c = c.withBase(rng.Pick(r, b.Members).Name)
				s.feature("covariant-union-member")
			}
		}
	}
	return c
}

// level1OK: locations where a directive whose arguments use non-built-in input types may be
// applied without creating a directive → type → directive reference cycle.
func level1OK(loc string) bool {
	switch loc {
	case "OBJECT", "FIELD_DEFINITION", "ARGUMENT_DEFINITION", "INTERFACE", "UNION", "SCHEMA":
		return true
	}
	return false
}

func (g *sgen) application(d *DirectiveDef) *DirApp {
	r := g.r
	a := &DirApp{Name: d.Name}
	for _, ad := range d.Args {
		if ad.Required() || r.Chance(1, 2) {
			fl := uint8(0)
			if ad.Required() {
				fl = flNoNull
			}
			a.Args = append(a.Args, ArgVal{Name: ad.Name, Value: constLiteral(r, g.s, ad.Type, fl)})
		}
	}
	if len(a.Args) > 1 && r.Chance(1, 4) {
		a.Args[0], a.Args[len(a.Args)-1] = a.Args[len(a.Args)-1], a.Args[0]
	}
	return a
}

// apply adds directive applications for a location to *dst. optional: the element may carry @deprecated.
func (g *sgen) apply(dst *[]*DirApp, loc string, optional bool, force *DirectiveDef) {
	r, s := g.r, g.s
	has := func(n string) bool {
		for _, a := range *dst {
			if a.Name == n {
				return true
			}
		}
		return false
	}
	add := func(d *DirectiveDef) {
		if d.level1 && !level1OK(loc) {
			return
		}
		if d.Name == "deprecated" && !optional {
			return
		}
		if d.Name == "oneOf" {
			return
		}
		if has(d.Name) && !d.Repeatable {
			return
		}
		*dst = append(*dst, g.application(d))
		s.feature("sdl-directive@" + loc)
		if d.Repeatable && r.Chance(1, 3) {
			*dst = append(*dst, g.application(d))
			s.feature("sdl-repeatable-twice")
		}
	}
	if force != nil {
		add(force)
		return
	}
	if !r.Chance(1, 7) {
		return
	}
	var cands []*DirectiveDef
	for _, d := range s.Directives {
		if d.Has(loc) {
			cands = append(cands, d)
		}
	}
	for _, d := range s.builtinDirs {
		if d.Has(loc) && s.userDirective(d.Name) == nil {
			cands = append(cands, d)
		}
	}
	if len(cands) == 0 {
		return
	}
	add(rng.Pick(r, cands))
	if r.Chance(1, 4) {
		add(rng.Pick(r, cands))
	}
}

func (s *Schema) userDirective(n string) *DirectiveDef {
	for _, d := range s.Directives {
		if d.Name == n {
			return d
		}
	}
	return nil
}

type decoSite struct {
	dst      *[]*DirApp
	loc      string
	optional bool
	owner    string // for an argument of a directive definition: that directive (no self reference)
}

func (g *sgen) sites() []decoSite {
	s := g.s
	var out []decoSite
	if s.HasSchemaBlock {
		out = append(out, decoSite{dst: &s.SchemaDirectives, loc: "SCHEMA"})
	}
	for _, t := range s.Types {
		out = append(out, decoSite{dst: &t.Directives, loc: t.Kind.location()})
		for _, f := range t.Fields {
			if t.Kind == InputObject {
				out = append(out, decoSite{dst: &f.Directives, loc: "INPUT_FIELD_DEFINITION", optional: !f.Required()})
			} else {
				out = append(out, decoSite{dst: &f.Directives, loc: "FIELD_DEFINITION", optional: true})
				for _, a := range f.Args {
					out = append(out, decoSite{dst: &a.Directives, loc: "ARGUMENT_DEFINITION", optional: !a.Required()})
				}
			}
		}
		for _, v := range t.Values {
			out = append(out, decoSite{dst: &v.Directives, loc: "ENUM_VALUE", optional: true})
		}
	}
	return out
}

func (g *sgen) decorate() {
	r, s := g.r, g.s
	sites := g.sites()
	for _, st := range sites {
		g.apply(st.dst, st.loc, st.optional, nil)
	}
	// arguments of directive definitions: only @deprecated (no directive reference cycles)
	for _, d := range s.Directives {
		for _, a := range d.Args {
			if !a.Required() && r.Chance(1, 8) && s.userDirective("deprecated") == nil {
				a.Directives = append(a.Directives, g.application(s.builtinDirs[2]))
				s.feature("sdl-directive@ARGUMENT_DEFINITION(directive)")
			}
		}
	}
	// every user directive with a type-system location is, most of the time, applied somewhere
	for _, d := range s.Directives {
		if d.Name == "deprecated" || d.Name == "skip" || d.Name == "include" {
			continue
		}
		applied := false
		for _, st := range sites {
			for _, a := range *st.dst {
				applied = applied || a.Name == d.Name
			}
		}
		if applied || !r.Chance(2, 3) {
			continue
		}
		var elig []decoSite
		for _, st := range sites {
			if d.Has(st.loc) && (!d.level1 || level1OK(st.loc)) {
				elig = append(elig, st)
			}
		}
		if len(elig) > 0 {
			st := rng.Pick(r, elig)
			g.apply(st.dst, st.loc, st.optional, d)
		}
	}
	for _, sc := range g.scalars {
		if r.Chance(1, 3) && s.userDirective("specifiedBy") == nil {
			has := false
			for _, a := range sc.Directives {
				has = has || a.Name == "specifiedBy"
			}
			if !has {
				sc.Directives = append(sc.Directives, &DirApp{Name: "specifiedBy", Args: []ArgVal{{Name: "url", Value: `"https://example.com/` + sc.Name + `"`}}})
				s.feature("specifiedBy")
			}
		}
	}
}

// extensions moves some members of some types into `extend …` chunks (the merged type is unchanged).
func (g *sgen) extensions() {
	r, s := g.r, g.s
	for _, t := range s.Types {
		if !r.Chance(1, 5) {
			continue
		}
		n := 1 + r.Intn(2)
		for e := 1; e <= n; e++ {
			moved := false
			// candidates in the base
			type mv func()
			var cands []mv
			baseFields := 0
			for _, f := range t.Fields {
				if f.Ext == 0 {
					baseFields++
				}
			}
			for _, f := range t.Fields {
				f := f
				if f.Ext == 0 && (baseFields > 1 || r.Chance(1, 4)) {
					cands = append(cands, func() { f.Ext = e; s.feature("extension-only-field") })
				}
			}
			baseVals := 0
			for _, v := range t.Values {
				if v.Ext == 0 {
					baseVals++
				}
			}
			for _, v := range t.Values {
				v := v
				if v.Ext == 0 && (baseVals > 1 || r.Chance(1, 4)) {
					cands = append(cands, func() { v.Ext = e })
				}
			}
			for i := range t.Members {
				i := i
				if t.Members[i].Ext == 0 {
					cands = append(cands, func() { t.Members[i].Ext = e })
				}
			}
			for _, d := range t.Directives {
				d := d
				if d.Ext == 0 && d.Name != "oneOf" {
					cands = append(cands, func() { d.Ext = e })
				}
			}
			for i := range t.Interfaces {
				i := i
				if t.Interfaces[i].Ext == 0 && (t.Kind == Object || r.Chance(1, 6)) {
					cands = append(cands, func() {
						t.Interfaces[i].Ext = e
						if t.Kind == Interface {
							s.feature("extend-interface-implements") // library: R6b
						} else {
							s.feature("extend-type-implements")
						}
					})
				}
			}
			if len(cands) > 0 {
				k := 1 + r.Intn(2)
				for i := 0; i < k && len(cands) > 0; i++ {
					j := r.Intn(len(cands))
					cands[j]()
					cands = append(cands[:j], cands[j+1:]...)
					moved = true
				}
			} else if t.Kind == Scalar && s.userDirective("specifiedBy") == nil {
				has := false
				for _, a := range t.Directives {
					has = has || a.Name == "specifiedBy"
				}
				if !has {
					t.Directives = append(t.Directives, &DirApp{Name: "specifiedBy", Ext: e, Args: []ArgVal{{Name: "url", Value: `"https://example.com/x"`}}})
					moved = true
				}
			}
			if !moved {
				break
			}
			t.NExt = e
			s.feature("extend-" + t.Kind.keyword())
		}
		// a member moved out by a later iteration can leave an earlier chunk intact but never empty:
		// chunks are only created when something moved into them.
	}
	if s.HasSchemaBlock && r.Chance(1, 4) {
		var cands []func()
		for i := range s.RootOps {
			i := i
			if s.RootOps[i].Op != "query" {
				cands = append(cands, func() { s.RootOps[i].Ext = 1 })
			}
		}
		for _, d := range s.SchemaDirectives {
			d := d
			cands = append(cands, func() { d.Ext = 1 })
		}
		if len(cands) > 0 {
			rng.Pick(r, cands)()
			s.SchemaNExt = 1
			s.feature("extend-schema")
		}
	}
}
