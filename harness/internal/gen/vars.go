package gen

import (
	"encoding/json"
	"strconv"
	"strings"

	"verifharness/internal/rng"
)

// ---- a small tokenizer, enough to find the variable definitions of an operation

type tok struct {
	k byte // 'n' name, 'p' punctuator, 's' string, 'v' other value token
	s string
}

func lexGraphQL(src string) []tok {
	var out []tok
	i, n := 0, len(src)
	for i < n {
		c := src[i]
		switch {
		case c == ' ' || c == '\t' || c == '\n' || c == '\r' || c == ',':
			i++
		case c == 0xEF && i+2 < n && src[i+1] == 0xBB && src[i+2] == 0xBF:
			i += 3
		case c == '#':
			for i < n && src[i] != '\n' && src[i] != '\r' {
				i++
			}
		case c == '"':
			j := i
			if strings.HasPrefix(src[i:], `"""`) {
				i += 3
				for i < n && !strings.HasPrefix(src[i:], `"""`) {
					if strings.HasPrefix(src[i:], `\"""`) {
						i += 4
					} else {
						i++
					}
				}
				i += 3
			} else {
				i++
				for i < n && src[i] != '"' && src[i] != '\n' {
					if src[i] == '\\' {
						i++
					}
					i++
				}
				i++
			}
			if i > n {
				i = n
			}
			out = append(out, tok{'s', src[j:i]})
		case c == '_' || c >= 'a' && c <= 'z' || c >= 'A' && c <= 'Z':
			j := i
			for i < n && (src[i] == '_' || src[i] >= 'a' && src[i] <= 'z' || src[i] >= 'A' && src[i] <= 'Z' || src[i] >= '0' && src[i] <= '9') {
				i++
			}
			out = append(out, tok{'n', src[j:i]})
		case c == '-' || c >= '0' && c <= '9':
			j := i
			i++
			for i < n && (src[i] >= '0' && src[i] <= '9' || src[i] == '.' || src[i] == 'e' || src[i] == 'E' || src[i] == '+' || src[i] == '-') {
				i++
			}
			out = append(out, tok{'v', src[j:i]})
		case c == '.' && strings.HasPrefix(src[i:], "..."):
			out = append(out, tok{'p', "..."})
			i += 3
		default:
			out = append(out, tok{'p', string(c)})
			i++
		}
	}
	return out
}

func parseTypeToks(ts []tok, i int) (*TypeRef, int) {
	if i >= len(ts) {
		return nil, i
	}
	var t *TypeRef
	if ts[i].s == "[" {
		var e *TypeRef
		e, i = parseTypeToks(ts, i+1)
		if e == nil || i >= len(ts) || ts[i].s != "]" {
			return nil, i
		}
		i++
		t = &TypeRef{Elem: e}
	} else if ts[i].k == 'n' {
		t = &TypeRef{Name: ts[i].s}
		i++
	} else {
		return nil, i
	}
	if i < len(ts) && ts[i].s == "!" {
		t.NonNull = true
		i++
	}
	return t, i
}

// skipValue skips one value starting at i and returns the index after it and its text.
func skipValue(ts []tok, i int) (int, string) {
	start := i
	if i >= len(ts) {
		return i, ""
	}
	switch ts[i].s {
	case "$":
		i += 2
	case "[", "{":
		d := 0
		for i < len(ts) {
			if ts[i].s == "[" || ts[i].s == "{" {
				d++
			} else if ts[i].s == "]" || ts[i].s == "}" {
				d--
				if d == 0 {
					i++
					break
				}
			}
			i++
		}
	default:
		i++
	}
	if i > len(ts) {
		i = len(ts)
	}
	var sb strings.Builder
	for k := start; k < i; k++ {
		if k > start {
			sb.WriteByte(' ')
		}
		sb.WriteString(ts[k].s)
	}
	return i, sb.String()
}

// ParseOperations extracts the operations (name, kind, variable definitions) of a document.
// It is a lenient scanner meant for generated documents, not a validating parser.
func ParseOperations(doc string) []OpInfo {
	ts := lexGraphQL(doc)
	var ops []OpInfo
	i := 0
	for i < len(ts) {
		t := ts[i]
		switch {
		case t.s == "{":
			ops = append(ops, OpInfo{Kind: "query"})
			i = skipBraces(ts, i)
		case t.k == 'n' && (t.s == "query" || t.s == "mutation" || t.s == "subscription"):
			op := OpInfo{Kind: t.s}
			i++
			if i < len(ts) && ts[i].k == 'n' {
				op.Name = ts[i].s
				i++
			}
			if i < len(ts) && ts[i].s == "(" {
				i++
				for i < len(ts) && ts[i].s != ")" {
					if ts[i].s != "$" || i+2 >= len(ts) {
						i++
						continue
					}
					v := VarInfo{Name: ts[i+1].s}
					i += 2
					if i < len(ts) && ts[i].s == ":" {
						i++
					}
					v.Type, i = parseTypeToks(ts, i)
					if v.Type == nil {
						v.Type = Named("String")
					}
					if i < len(ts) && ts[i].s == "=" {
						v.HasDefault = true
						i, v.Default = skipValue(ts, i+1)
					}
					for i < len(ts) && ts[i].s == "@" { // directives of the definition
						i += 2
						if i < len(ts) && ts[i].s == "(" {
							d := 0
							for i < len(ts) {
								if ts[i].s == "(" {
									d++
								} else if ts[i].s == ")" {
									d--
									if d == 0 {
										i++
										break
									}
								}
								i++
							}
						}
					}
					op.Vars = append(op.Vars, v)
				}
				i++
			}
			i = skipToBody(ts, i)
			ops = append(ops, op)
			i = skipBraces(ts, i)
		case t.k == 'n' && t.s == "fragment":
			i = skipToBody(ts, i)
			i = skipBraces(ts, i)
		default:
			i++
		}
	}
	return ops
}

// skipToBody advances to the `{` of the selection set, skipping parenthesised argument lists
// (directive arguments may contain object literals).
func skipToBody(ts []tok, i int) int {
	d := 0
	for i < len(ts) {
		switch ts[i].s {
		case "(":
			d++
		case ")":
			d--
		case "{":
			if d <= 0 {
				return i
			}
		}
		i++
	}
	return i
}

func skipBraces(ts []tok, i int) int {
	d := 0
	for i < len(ts) {
		if ts[i].s == "{" {
			d++
		} else if ts[i].s == "}" {
			d--
			if d == 0 {
				return i + 1
			}
		}
		i++
	}
	return i
}

// ---- variable values

// Defect classes of GenVars(conforming=false). "reject:" defects make the value non-conforming,
// "accept:" ones are irregular encodings that coercion is expected to accept.
var VarDefects = []string{
	"reject:null-at-non-null", "reject:missing-required-variable", "reject:wrong-kind", "reject:unknown-field",
	"reject:missing-required-field", "reject:enum-unknown-value", "reject:json-number-not-a-number",
	"accept:single-value-for-list", "accept:json-number", "accept:int-kind", "accept:float-kind",
	"quirk:enum-other-case", "quirk:__typename-field", "quirk:float-for-int", "quirk:json-number-nested",
}

type varGen struct {
	r       *rng.R
	s       *Schema
	defect  string // class being injected ("" = none)
	mode    int    // 1 count, 2 inject
	count   int
	target  int
	done    bool
	where   string // path + detail of the injected defect
	path    []byte
	conform bool
}

func (g *varGen) opp() bool {
	if g.defect == "" || g.done {
		return false
	}
	g.count++
	if g.mode == 2 && g.count-1 == g.target {
		g.done = true
		return true
	}
	return false
}

func (g *varGen) at(detail string) {
	g.where = string(g.path)
	if detail != "" {
		g.where += ":" + detail
	}
}

// GenVars generates JSON-like Go values for the variables of operation opName of doc ("" = the
// first operation). With conforming=true every value conforms to its declared type (canonical Go
// kinds: nil, bool, int, float64, string, []interface{}, map[string]interface{}); variables that
// may be omitted sometimes are. With conforming=false exactly one irregularity is injected and
// named by defect as "<class>@<path>[:detail]" with class ∈ VarDefects; defect is "" when the
// operation offers no place for any (e.g. it has no variables).
func GenVars(r *rng.R, s *Schema, doc string, opName string, conforming bool) (map[string]interface{}, string) {
	if !s.finalized {
		s.finalize()
	}
	var op *OpInfo
	ops := ParseOperations(doc)
	for i := range ops {
		if ops[i].Name == opName || opName == "" {
			op = &ops[i]
			break
		}
	}
	if op == nil {
		return map[string]interface{}{}, ""
	}
	return GenVarsFor(r, s, op.Vars, conforming)
}

// GenVarsFor is GenVars for an explicit list of variable definitions.
func GenVarsFor(r *rng.R, s *Schema, vars []VarInfo, conforming bool) (map[string]interface{}, string) {
	if !s.finalized {
		s.finalize()
	}
	seed := r.U64()
	if conforming {
		g := &varGen{r: rng.New(seed), s: s}
		return g.all(vars), ""
	}
	order := make([]string, len(VarDefects))
	copy(order, VarDefects)
	for i := len(order) - 1; i > 0; i-- {
		j := r.Intn(i + 1)
		order[i], order[j] = order[j], order[i]
	}
	for _, d := range order {
		g := &varGen{r: rng.New(seed), s: s, defect: d, mode: 1}
		g.all(vars)
		if g.count == 0 {
			continue
		}
		k := r.Intn(g.count)
		g = &varGen{r: rng.New(seed), s: s, defect: d, mode: 2, target: k}
		m := g.all(vars)
		if g.done {
			return m, d + "@" + g.where
		}
	}
	g := &varGen{r: rng.New(seed), s: s}
	return g.all(vars), ""
}

func (g *varGen) all(vars []VarInfo) map[string]interface{} {
	m := map[string]interface{}{}
	for _, v := range vars {
		g.path = append(g.path[:0], v.Name...)
		omit := (v.HasDefault || !v.Type.NonNull) && g.r.Chance(1, 5)
		if g.defect == "reject:missing-required-variable" && v.Type.NonNull && !v.HasDefault && g.opp() {
			g.at("")
			continue
		}
		if omit {
			continue
		}
		if x, ok := g.value(v.Type, 0, true); ok {
			m[v.Name] = x
		}
	}
	return m
}

var wrongForScalar = map[string][]interface{}{
	"Int":     {"abc", true, map[string]interface{}{}, []interface{}{map[string]interface{}{}}},
	"Float":   {"abc", false, map[string]interface{}{"a": 1}},
	"String":  {1, true, 1.5, map[string]interface{}{}},
	"Boolean": {1, "true", 0.0, map[string]interface{}{}},
	"ID":      {true, 1.5, map[string]interface{}{}},
}

// value returns a Go value for type t; ok=false means "leave the key out".
func (g *varGen) value(t *TypeRef, depth int, top bool) (interface{}, bool) {
	r := g.r
	if g.defect == "reject:null-at-non-null" && t.NonNull && g.opp() {
		g.at("")
		return nil, true
	}
	if !t.NonNull && r.Chance(1, 8) {
		return nil, true
	}
	if t.Elem != nil {
		if g.defect == "accept:single-value-for-list" && g.opp() {
			g.at("")
			inner := t.Elem
			if r.Bool() {
				for inner.Elem != nil {
					inner = inner.Elem
				}
			}
			x, _ := g.value(NonNullT(inner), depth+1, false)
			return x, true
		}
		if g.defect == "reject:wrong-kind" && isBuiltinScalar(t.Base()) && t.Base() != "String" && t.Base() != "ID" && g.opp() {
			g.at("string-for-list")
			return "not a list", true
		}
		n := r.Intn(4)
		if depth > 4 {
			n = 0
		}
		out := make([]interface{}, 0, n)
		pl := len(g.path)
		for i := 0; i < n; i++ {
			g.path = append(g.path[:pl], '[')
			g.path = strconv.AppendInt(g.path, int64(i), 10)
			g.path = append(g.path, ']')
			x, _ := g.value(t.Elem, depth+1, false)
			out = append(out, x)
		}
		g.path = g.path[:pl]
		return out, true
	}
	def := g.s.byName[t.Name]
	if def == nil {
		return "unknown-type", true
	}
	switch def.Kind {
	case Enum:
		if len(def.Values) == 0 {
			return "X", true
		}
		v := rng.Pick(r, def.Values).Name
		if g.defect == "reject:enum-unknown-value" && g.opp() {
			g.at("")
			return "ZZ_NOT_A_VALUE", true
		}
		if g.defect == "reject:wrong-kind" && g.opp() {
			g.at("bool-for-enum")
			return true, true
		}
		if g.defect == "quirk:enum-other-case" {
			o := strings.ToLower(v)
			if o == v {
				o = strings.ToUpper(v)
			}
			known := false
			for _, x := range def.Values {
				known = known || x.Name == o
			}
			if o != v && !known && g.opp() {
				g.at(v + "->" + o)
				return o, true
			}
		}
		return v, true
	case InputObject:
		return g.object(def, depth), true
	case Scalar:
		return g.scalar(def.Name, top), true
	}
	// an output type: not a legal variable type; give something
	return map[string]interface{}{}, true
}

func (g *varGen) scalar(name string, top bool) interface{} {
	r := g.r
	if w, ok := wrongForScalar[name]; ok && g.defect == "reject:wrong-kind" && g.opp() {
		x := rng.Pick(r, w)
		g.at(name)
		return x
	}
	switch name {
	case "Int":
		n := int(int32(r.U64()))
		if r.Chance(1, 2) {
			n = r.Intn(100)
		}
		switch g.defect {
		case "accept:json-number":
			if top && g.opp() {
				g.at("Int")
				return json.Number(strconv.Itoa(n))
			}
		case "quirk:json-number-nested":
			if !top && g.opp() {
				g.at("Int")
				return json.Number(strconv.Itoa(n))
			}
		case "reject:json-number-not-a-number":
			if top && g.opp() {
				x := rng.Pick(r, []string{"1.5", "abc", "1e3", "", "99999999999999999999"})
				g.at("Int:" + x)
				return json.Number(x)
			}
		case "accept:int-kind":
			if g.opp() {
				k := r.Intn(3)
				g.at([]string{"int32", "int64", "int"}[k])
				switch k {
				case 0:
					return int32(n)
				case 1:
					return int64(n)
				}
				return n
			}
		case "quirk:float-for-int":
			if g.opp() {
				if r.Bool() {
					g.at("float64-integral")
					return float64(n)
				}
				g.at("float64-fractional")
				return float64(n) + 0.5
			}
		}
		return n
	case "Float":
		f := float64(r.Intn(2000)-1000) / 8
		switch g.defect {
		case "accept:json-number":
			if top && g.opp() {
				g.at("Float")
				return json.Number(strconv.FormatFloat(f, 'g', -1, 64))
			}
		case "quirk:json-number-nested":
			if !top && g.opp() {
				g.at("Float")
				return json.Number(strconv.FormatFloat(f, 'g', -1, 64))
			}
		case "reject:json-number-not-a-number":
			if top && g.opp() {
				x := rng.Pick(r, []string{"abc", "1e999", ""})
				g.at("Float:" + x)
				return json.Number(x)
			}
		case "accept:float-kind":
			if g.opp() {
				k := r.Intn(3)
				g.at([]string{"float32", "int", "int64"}[k])
				switch k {
				case 0:
					return float32(f)
				case 1:
					return int(f)
				}
				return int64(f)
			}
		}
		return f
	case "String":
		return rng.Pick(r, []string{"", "a", "hello", "é中", "123", "line\nbreak"})
	case "Boolean":
		return r.Bool()
	case "ID":
		if g.defect == "accept:int-kind" && g.opp() {
			g.at("ID:int64")
			return int64(r.Intn(1000))
		}
		if r.Bool() {
			return strconv.Itoa(r.Intn(1000))
		}
		return r.Intn(1000)
	}
	// custom scalar: anything
	switch r.Intn(6) {
	case 0:
		return r.Intn(100)
	case 1:
		return "custom"
	case 2:
		return map[string]interface{}{"k": []interface{}{1, "two", nil}}
	case 3:
		return []interface{}{1.5, true}
	case 4:
		return 2.5
	}
	return true
}

func (g *varGen) object(def *TypeDef, depth int) interface{} {
	r := g.r
	m := map[string]interface{}{}
	pl := len(g.path)
	defer func() { g.path = g.path[:pl] }()
	if g.defect == "reject:wrong-kind" && g.opp() {
		g.at("list-for-object")
		return []interface{}{1}
	}
	if def.OneOf {
		if len(def.Fields) == 0 {
			return m
		}
		f := rng.Pick(r, def.Fields)
		if depth > 3 && def.term != nil {
			f = def.term
		}
		g.path = append(append(g.path[:pl], '.'), f.Name...)
		x, _ := g.value(NonNullT(f.Type), depth+1, false)
		m[f.Name] = x
	} else {
		for _, f := range def.Fields {
			g.path = append(append(g.path[:pl], '.'), f.Name...)
			if !f.Required() {
				if depth >= 3 || !r.Chance(1, 2) {
					continue
				}
			} else if g.defect == "reject:missing-required-field" && g.opp() {
				g.at("")
				continue
			}
			x, _ := g.value(f.Type, depth+1, false)
			m[f.Name] = x
		}
	}
	g.path = g.path[:pl]
	if g.defect == "reject:unknown-field" && g.opp() {
		g.at("zzUnknown")
		m["zzUnknown"] = 1
	}
	if g.defect == "quirk:__typename-field" && g.opp() {
		g.at("__typename")
		m["__typename"] = def.Name
	}
	return m
}
