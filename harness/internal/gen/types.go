// Package gen holds the typed, seedable generators shared by the property checks (DESIGN §3.6):
// valid-by-construction GraphQL type systems, executable documents over them, single-fault
// injectors for both, type-blind documents, variable values and adversarial families.
//
// All randomness comes from *rng.R; nothing here depends on the library under test. "Valid by
// construction" means valid according to the GraphQL specification (October 2021 + @oneOf), not
// according to the library: where the library deviates (DESIGN §7) the generators keep the
// spec-correct behaviour and tag the document/schema with a feature so that a check can classify
// the disagreement.
package gen

import (
	"sort"
	"strings"
)

type Kind uint8

const (
	Scalar Kind = iota
	Object
	Interface
	Union
	Enum
	InputObject
)

func (k Kind) String() string {
	return [...]string{"SCALAR", "OBJECT", "INTERFACE", "UNION", "ENUM", "INPUT_OBJECT"}[k]
}

func (k Kind) keyword() string {
	return [...]string{"scalar", "type", "interface", "union", "enum", "input"}[k]
}

// TypeRef is a type reference: a named type or a list, each possibly non-null.
type TypeRef struct {
	Name    string // "" for lists
	Elem    *TypeRef
	NonNull bool
}

func Named(n string) *TypeRef      { return &TypeRef{Name: n} }
func NonNullT(t *TypeRef) *TypeRef { c := *t; c.NonNull = true; return &c }
func NullableT(t *TypeRef) *TypeRef {
	c := *t
	c.NonNull = false
	return &c
}
func ListOf(t *TypeRef) *TypeRef { return &TypeRef{Elem: t} }

func (t *TypeRef) String() string {
	var sb strings.Builder
	t.write(&sb)
	return sb.String()
}

func (t *TypeRef) write(sb *strings.Builder) {
	if t.Elem != nil {
		sb.WriteByte('[')
		t.Elem.write(sb)
		sb.WriteByte(']')
	} else {
		sb.WriteString(t.Name)
	}
	if t.NonNull {
		sb.WriteByte('!')
	}
}

// Base is the innermost named type.
func (t *TypeRef) Base() string {
	for t.Elem != nil {
		t = t.Elem
	}
	return t.Name
}

func (t *TypeRef) Depth() int {
	d := 0
	for t.Elem != nil {
		t = t.Elem
		d++
	}
	return d
}

func (t *TypeRef) clone() *TypeRef {
	if t == nil {
		return nil
	}
	c := *t
	c.Elem = t.Elem.clone()
	return &c
}

func (t *TypeRef) withBase(n string) *TypeRef {
	c := t.clone()
	x := c
	for x.Elem != nil {
		x = x.Elem
	}
	x.Name = n
	return c
}

// ArgVal is one `name: literal` pair of an applied directive (the literal is rendered source text).
type ArgVal struct{ Name, Value string }

// DirApp is a directive application in the SDL. Ext is the index of the extension chunk that
// carries it (0 = the base definition).
type DirApp struct {
	Name string
	Args []ArgVal
	Ext  int
}

// ArgDef is an argument definition (of a field or of a directive).
// Description fields hold the rendered string literal including its quotes ("" = none).
type ArgDef struct {
	Name        string
	Description string
	Type        *TypeRef
	Default     string // rendered literal; meaningful iff HasDefault
	HasDefault  bool
	Directives  []*DirApp

	def *TypeDef // resolved base type
}

// Required: non-null without default.
func (a *ArgDef) Required() bool { return a.Type.NonNull && !a.HasDefault }

// FieldDef is an output field of an object/interface, or an input field of an input object
// (then Args is empty and Default/HasDefault may be set).
type FieldDef struct {
	Name        string
	Description string
	Args        []*ArgDef
	Type        *TypeRef
	Default     string
	HasDefault  bool
	Directives  []*DirApp
	Ext         int

	ret   *TypeDef // resolved base type
	shape string   // response shape key: wrappers + leaf name, or wrappers + "*" for composites
}

func (f *FieldDef) Required() bool { return f.Type.NonNull && !f.HasDefault }

type EnumVal struct {
	Name        string
	Description string
	Directives  []*DirApp
	Ext         int
}

// NameExt is a name (implemented interface / union member) with the extension chunk that carries it.
type NameExt struct {
	Name string
	Ext  int
}

type TypeDef struct {
	Kind        Kind
	Name        string
	Description string
	Interfaces  []NameExt
	Fields      []*FieldDef
	Members     []NameExt
	Values      []*EnumVal
	Directives  []*DirApp
	NExt        int  // number of `extend …` chunks
	Builtin     bool // prelude type: not rendered
	OneOf       bool
	NoBase      bool // spec-invalid option: only extension chunks, no base definition

	// indexes (finalize)
	idx     int
	poss    []uint64   // possible object types as a bitset over Schema.objects
	overlap []*TypeDef // composite types whose possible types intersect this one's
	intro   bool       // introspection type (__Schema, __Type, …)
	height  int        // input objects: minimal nesting depth of a literal (see computeInputHeights)
	term    *FieldDef  // @oneOf input objects: the field whose value nests least
}

func (t *TypeDef) Field(name string) *FieldDef {
	for _, f := range t.Fields {
		if f.Name == name {
			return f
		}
	}
	return nil
}

func (t *TypeDef) IsComposite() bool {
	return t.Kind == Object || t.Kind == Interface || t.Kind == Union
}
func (t *TypeDef) IsLeaf() bool   { return t.Kind == Scalar || t.Kind == Enum }
func (t *TypeDef) IsInput() bool  { return t.Kind == Scalar || t.Kind == Enum || t.Kind == InputObject }
func (t *TypeDef) IsOutput() bool { return t.Kind != InputObject }
func (t *TypeDef) Implements(i string) bool {
	for _, x := range t.Interfaces {
		if x.Name == i {
			return true
		}
	}
	return false
}

type DirectiveDef struct {
	Name        string
	Description string
	Args        []*ArgDef
	Repeatable  bool
	Locations   []string
	Builtin     bool

	level1 bool // has an argument whose type is not a built-in scalar (see decorate)
}

func (d *DirectiveDef) Has(loc string) bool {
	for _, l := range d.Locations {
		if l == loc {
			return true
		}
	}
	return false
}

func (d *DirectiveDef) Arg(name string) *ArgDef {
	for _, a := range d.Args {
		if a.Name == name {
			return a
		}
	}
	return nil
}

// RootOp is one `operation: Type` entry of the schema block or of a schema extension.
type RootOp struct {
	Op, Type string
	Ext      int
}

// Schema is a generated type system kept as a structured value.
type Schema struct {
	Types      []*TypeDef      // user-defined, in generation order
	Directives []*DirectiveDef // user-defined, in generation order

	// Root operation type names ("" = none).
	Query, Mutation, Subscription string
	// HasSchemaBlock: a `schema { … }` definition is rendered (always when a root has a non-default name).
	HasSchemaBlock   bool
	RootOps          []RootOp // entries of the schema block / schema extensions, in order
	SchemaDirectives []*DirApp
	SchemaNExt       int
	Description      string // of the schema block

	Features map[string]bool // what this schema exercises (for distribution reports)

	builtinTypes []*TypeDef
	builtinDirs  []*DirectiveDef
	byName       map[string]*TypeDef
	dirByName    map[string]*DirectiveDef
	objects      []*TypeDef // every object type incl. introspection ones (bit positions of poss)
	inputs       []*TypeDef // all input types incl. built-in scalars
	dirsAt       map[string][]*DirectiveDef
	introFields  []*FieldDef
	sorted       []*TypeDef
	blind        *blindGen // cached name tables of GenBlindDocument
	finalized    bool
}

func (s *Schema) feature(f string) {
	if s.Features == nil {
		s.Features = map[string]bool{}
	}
	s.Features[f] = true
}

// FeatureList returns the sorted feature names.
func (s *Schema) FeatureList() []string {
	out := make([]string, 0, len(s.Features))
	for f := range s.Features {
		out = append(out, f)
	}
	sort.Strings(out)
	return out
}

// Type resolves a type name (user-defined or built-in).
func (s *Schema) Type(name string) *TypeDef {
	if s.byName == nil {
		s.finalize()
	}
	return s.byName[name]
}

// Directive resolves a directive name (user-defined or built-in).
func (s *Schema) Directive(name string) *DirectiveDef {
	if s.byName == nil {
		s.finalize()
	}
	return s.dirByName[name]
}

// Root returns the root type for an operation kind, or nil.
func (s *Schema) Root(op string) *TypeDef {
	switch op {
	case "query":
		return s.Type(s.Query)
	case "mutation":
		return s.Type(s.Mutation)
	case "subscription":
		return s.Type(s.Subscription)
	}
	return nil
}

// PossibleTypes lists the object types a composite type can be at run time.
func (s *Schema) PossibleTypes(t *TypeDef) []*TypeDef {
	if !s.finalized {
		s.finalize()
	}
	var out []*TypeDef
	for i, o := range s.objects {
		if t.poss[i/64]>>(uint(i)%64)&1 == 1 {
			out = append(out, o)
		}
	}
	return out
}

var builtinScalars = []string{"Int", "Float", "String", "Boolean", "ID"}

func isBuiltinScalar(n string) bool {
	switch n {
	case "Int", "Float", "String", "Boolean", "ID":
		return true
	}
	return false
}

var ExecutableLocations = []string{"QUERY", "MUTATION", "SUBSCRIPTION", "FIELD", "FRAGMENT_DEFINITION", "FRAGMENT_SPREAD", "INLINE_FRAGMENT", "VARIABLE_DEFINITION"}
var TypeSystemLocations = []string{"SCHEMA", "SCALAR", "OBJECT", "FIELD_DEFINITION", "ARGUMENT_DEFINITION", "INTERFACE", "UNION", "ENUM", "ENUM_VALUE", "INPUT_OBJECT", "INPUT_FIELD_DEFINITION"}

func (k Kind) location() string {
	return [...]string{"SCALAR", "OBJECT", "INTERFACE", "UNION", "ENUM", "INPUT_OBJECT"}[k]
}

// prelude: the built-in types and directives as structured values (mirrors the GraphQL
// specification's introspection schema; these are never rendered).
func preludeTypes() []*TypeDef {
	nn := func(t *TypeRef) *TypeRef { return NonNullT(t) }
	n := Named
	l := ListOf
	f := func(name string, t *TypeRef, args ...*ArgDef) *FieldDef {
		return &FieldDef{Name: name, Type: t, Args: args}
	}
	incDep := func() *ArgDef {
		return &ArgDef{Name: "includeDeprecated", Type: n("Boolean"), Default: "false", HasDefault: true}
	}
	ev := func(names ...string) []*EnumVal {
		var out []*EnumVal
		for _, x := range names {
			out = append(out, &EnumVal{Name: x})
		}
		return out
	}
	var ts []*TypeDef
	for _, s := range builtinScalars {
		ts = append(ts, &TypeDef{Kind: Scalar, Name: s, Builtin: true})
	}
	ts = append(ts,
		&TypeDef{Kind: Object, Name: "__Schema", Builtin: true, Fields: []*FieldDef{
			f("description", n("String")), f("types", nn(l(nn(n("__Type"))))), f("queryType", nn(n("__Type"))),
			f("mutationType", n("__Type")), f("subscriptionType", n("__Type")), f("directives", nn(l(nn(n("__Directive"))))),
		}},
		&TypeDef{Kind: Object, Name: "__Type", Builtin: true, Fields: []*FieldDef{
			f("kind", nn(n("__TypeKind"))), f("name", n("String")), f("description", n("String")), f("specifiedByURL", n("String")),
			f("fields", l(nn(n("__Field"))), incDep()), f("interfaces", l(nn(n("__Type")))), f("possibleTypes", l(nn(n("__Type")))),
			f("enumValues", l(nn(n("__EnumValue"))), incDep()), f("inputFields", l(nn(n("__InputValue"))), incDep()),
			f("ofType", n("__Type")), f("isOneOf", n("Boolean")),
		}},
		&TypeDef{Kind: Enum, Name: "__TypeKind", Builtin: true, Values: ev("SCALAR", "OBJECT", "INTERFACE", "UNION", "ENUM", "INPUT_OBJECT", "LIST", "NON_NULL")},
		&TypeDef{Kind: Object, Name: "__Field", Builtin: true, Fields: []*FieldDef{
			f("name", nn(n("String"))), f("description", n("String")), f("args", nn(l(nn(n("__InputValue")))), incDep()),
			f("type", nn(n("__Type"))), f("isDeprecated", nn(n("Boolean"))), f("deprecationReason", n("String")),
		}},
		&TypeDef{Kind: Object, Name: "__InputValue", Builtin: true, Fields: []*FieldDef{
			f("name", nn(n("String"))), f("description", n("String")), f("type", nn(n("__Type"))), f("defaultValue", n("String")),
			f("isDeprecated", nn(n("Boolean"))), f("deprecationReason", n("String")),
		}},
		&TypeDef{Kind: Object, Name: "__EnumValue", Builtin: true, Fields: []*FieldDef{
			f("name", nn(n("String"))), f("description", n("String")), f("isDeprecated", nn(n("Boolean"))), f("deprecationReason", n("String")),
		}},
		&TypeDef{Kind: Object, Name: "__Directive", Builtin: true, Fields: []*FieldDef{
			f("name", nn(n("String"))), f("description", n("String")), f("isRepeatable", nn(n("Boolean"))),
			f("locations", nn(l(nn(n("__DirectiveLocation"))))), f("args", nn(l(nn(n("__InputValue")))), incDep()),
		}},
		&TypeDef{Kind: Enum, Name: "__DirectiveLocation", Builtin: true, Values: ev(append(append([]string{}, ExecutableLocations...), TypeSystemLocations...)...)},
	)
	for _, t := range ts {
		if strings.HasPrefix(t.Name, "__") {
			t.intro = true
		}
	}
	return ts
}

func preludeDirectives() []*DirectiveDef {
	ifArg := func() *ArgDef { return &ArgDef{Name: "if", Type: NonNullT(Named("Boolean"))} }
	return []*DirectiveDef{
		{Name: "include", Builtin: true, Args: []*ArgDef{ifArg()}, Locations: []string{"FIELD", "FRAGMENT_SPREAD", "INLINE_FRAGMENT"}},
		{Name: "skip", Builtin: true, Args: []*ArgDef{ifArg()}, Locations: []string{"FIELD", "FRAGMENT_SPREAD", "INLINE_FRAGMENT"}},
		{Name: "deprecated", Builtin: true, Args: []*ArgDef{{Name: "reason", Type: Named("String"), Default: `"No longer supported"`, HasDefault: true}},
			Locations: []string{"FIELD_DEFINITION", "ARGUMENT_DEFINITION", "INPUT_FIELD_DEFINITION", "ENUM_VALUE"}},
		{Name: "specifiedBy", Builtin: true, Args: []*ArgDef{{Name: "url", Type: NonNullT(Named("String"))}}, Locations: []string{"SCALAR"}},
		{Name: "oneOf", Builtin: true, Locations: []string{"INPUT_OBJECT"}},
	}
}

// finalize (re)builds every index from the structured value. It must be called after any
// structural mutation and before the schema is used for document generation.
func (s *Schema) finalize() {
	if s.builtinTypes == nil {
		s.builtinTypes = preludeTypes()
		s.builtinDirs = preludeDirectives()
	}
	s.byName = make(map[string]*TypeDef, len(s.Types)+len(s.builtinTypes))
	s.objects = s.objects[:0]
	s.inputs = s.inputs[:0]
	all := make([]*TypeDef, 0, len(s.Types)+len(s.builtinTypes))
	all = append(all, s.builtinTypes...)
	all = append(all, s.Types...)
	for _, t := range all {
		if _, dup := s.byName[t.Name]; !dup {
			s.byName[t.Name] = t
		}
	}
	for _, t := range all {
		if s.byName[t.Name] != t {
			continue
		}
		if t.Kind == Object {
			t.idx = len(s.objects)
			s.objects = append(s.objects, t)
		}
		if t.IsInput() {
			s.inputs = append(s.inputs, t)
		}
		t.OneOf = false
		for _, d := range t.Directives {
			if d.Name == "oneOf" && t.Kind == InputObject {
				t.OneOf = true
			}
		}
	}
	words := (len(s.objects) + 63) / 64
	for _, t := range all {
		t.poss = make([]uint64, words)
		t.overlap = nil
	}
	for _, o := range s.objects {
		o.poss[o.idx/64] |= 1 << (uint(o.idx) % 64)
		for _, i := range o.Interfaces {
			if it := s.byName[i.Name]; it != nil && it.Kind == Interface {
				it.poss[o.idx/64] |= 1 << (uint(o.idx) % 64)
			}
		}
	}
	for _, t := range all {
		if t.Kind == Union {
			for _, m := range t.Members {
				if o := s.byName[m.Name]; o != nil && o.Kind == Object {
					t.poss[o.idx/64] |= 1 << (uint(o.idx) % 64)
				}
			}
		}
	}
	var comps []*TypeDef
	for _, t := range all {
		if t.IsComposite() && s.byName[t.Name] == t {
			comps = append(comps, t)
		}
	}
	for _, a := range comps {
		for _, b := range comps {
			for w := range a.poss {
				if a.poss[w]&b.poss[w] != 0 {
					a.overlap = append(a.overlap, b)
					break
				}
			}
		}
	}
	for _, t := range all {
		for _, f := range t.Fields {
			f.ret = s.byName[f.Type.Base()]
			f.shape = shapeKey(f.Type, f.ret)
			for _, a := range f.Args {
				a.def = s.byName[a.Type.Base()]
			}
		}
	}
	s.introFields = nil
	s.sorted = nil
	s.blind = nil
	s.computeInputHeights()
	s.dirByName = map[string]*DirectiveDef{}
	s.dirsAt = map[string][]*DirectiveDef{}
	for _, d := range s.builtinDirs {
		s.dirByName[d.Name] = d
	}
	for _, d := range s.Directives {
		s.dirByName[d.Name] = d // a user redefinition of a built-in replaces it
	}
	names := make([]string, 0, len(s.dirByName))
	for n := range s.dirByName {
		names = append(names, n)
	}
	sort.Strings(names)
	for _, n := range names {
		d := s.dirByName[n]
		for _, a := range d.Args {
			a.def = s.byName[a.Type.Base()]
		}
		for _, l := range d.Locations {
			s.dirsAt[l] = append(s.dirsAt[l], d)
		}
	}
	s.finalized = true
	// the lazily built caches are filled here, so that a finalized schema is read-only and can be
	// shared by concurrent generators
	s.introField("__schema")
	s.byNameSorted()
	b := &blindGen{s: s}
	b.collect()
	s.blind = b
}

// Finalize (re)builds the indexes after a structural change. GenSchema returns a finalized
// schema; a finalized schema is never written to by the generators.
func (s *Schema) Finalize() { s.finalize() }

func shapeKey(t *TypeRef, def *TypeDef) string {
	var sb strings.Builder
	for x := t; ; x = x.Elem {
		if x.NonNull {
			sb.WriteByte('!')
		}
		if x.Elem == nil {
			break
		}
		sb.WriteByte('[')
	}
	if def != nil && def.IsLeaf() {
		sb.WriteString(def.Name)
	} else {
		sb.WriteByte('*')
	}
	return sb.String()
}

// Clone returns a deep copy that can be mutated independently (indexes are rebuilt lazily).
func (s *Schema) Clone() *Schema {
	c := &Schema{Query: s.Query, Mutation: s.Mutation, Subscription: s.Subscription, HasSchemaBlock: s.HasSchemaBlock,
		SchemaNExt: s.SchemaNExt, Description: s.Description, Features: map[string]bool{}}
	for k, v := range s.Features {
		c.Features[k] = v
	}
	c.RootOps = append([]RootOp(nil), s.RootOps...)
	c.SchemaDirectives = cloneApps(s.SchemaDirectives)
	for _, t := range s.Types {
		c.Types = append(c.Types, t.clone())
	}
	for _, d := range s.Directives {
		c.Directives = append(c.Directives, d.clone())
	}
	return c
}

func cloneApps(as []*DirApp) []*DirApp {
	if as == nil {
		return nil
	}
	out := make([]*DirApp, len(as))
	for i, a := range as {
		c := *a
		c.Args = append([]ArgVal(nil), a.Args...)
		out[i] = &c
	}
	return out
}

func cloneArgs(as []*ArgDef) []*ArgDef {
	if as == nil {
		return nil
	}
	out := make([]*ArgDef, len(as))
	for i, a := range as {
		c := *a
		c.Type = a.Type.clone()
		c.Directives = cloneApps(a.Directives)
		c.def = nil
		out[i] = &c
	}
	return out
}

func (f *FieldDef) clone() *FieldDef {
	c := *f
	c.Type = f.Type.clone()
	c.Args = cloneArgs(f.Args)
	c.Directives = cloneApps(f.Directives)
	c.ret = nil
	return &c
}

func (t *TypeDef) clone() *TypeDef {
	c := *t
	c.Interfaces = append([]NameExt(nil), t.Interfaces...)
	c.Members = append([]NameExt(nil), t.Members...)
	c.Directives = cloneApps(t.Directives)
	c.Fields = make([]*FieldDef, len(t.Fields))
	for i, f := range t.Fields {
		c.Fields[i] = f.clone()
	}
	c.Values = make([]*EnumVal, len(t.Values))
	for i, v := range t.Values {
		x := *v
		x.Directives = cloneApps(v.Directives)
		c.Values[i] = &x
	}
	c.poss, c.overlap = nil, nil
	return &c
}

func (d *DirectiveDef) clone() *DirectiveDef {
	c := *d
	c.Args = cloneArgs(d.Args)
	c.Locations = append([]string(nil), d.Locations...)
	return &c
}

const infHeight = 1 << 20

// computeInputHeights computes, for every input object, the minimal nesting depth of a literal
// of that type (∞ when no finite literal exists) and, for @oneOf objects, the field to choose
// when a literal has to stay shallow. Requires byName.
func (s *Schema) computeInputHeights() {
	var ins []*TypeDef
	for _, t := range s.Types {
		if t.Kind == InputObject {
			t.height = infHeight
			t.term = nil
			ins = append(ins, t)
		}
	}
	fieldH := func(f *FieldDef) int {
		if f.Type.Elem != nil {
			return 0 // the empty list
		}
		b := s.byName[f.Type.Base()]
		if b == nil || b.Kind != InputObject {
			return 0
		}
		return b.height
	}
	for changed := true; changed; {
		changed = false
		for _, t := range ins {
			h := 0
			if t.OneOf {
				h = infHeight
				var tf *FieldDef
				for _, f := range t.Fields {
					if x := fieldH(f); x < h {
						h, tf = x, f
					}
				}
				t.term = tf
			} else {
				for _, f := range t.Fields {
					if f.Required() {
						if x := fieldH(f); x > h {
							h = x
						}
					}
				}
			}
			if h < infHeight {
				h++
			}
			if h < t.height {
				t.height = h
				changed = true
			}
		}
	}
}
