package gen

import (
	"math/big"
	"strconv"
	"strings"

	"verifharness/internal/rng"
)

// litGen writes type-directed literals (GraphQL source text) into b.
// varFn (documents only) may replace a value by a variable reference; faultFn (fault injection
// only) may replace a value by a deliberately wrong literal. Both return true when they wrote.
type litGen struct {
	r       *rng.R
	s       *Schema
	b       []byte
	varFn   func(lt *TypeRef, fl uint8) bool
	faultFn func(lt *TypeRef, def *TypeDef, fl uint8) bool
	// deviation knobs: emit spec-valid literals the library is known to reject
	// (integers beyond int64 for Float/ID, DESIGN §7 R8d); hit records that one was emitted.
	bigNum        bool
	hitBigNum     bool
	hitCustom     bool // an arbitrary custom-scalar literal that does not convert (huge int / 1e999)
	hitNestedVar  bool // a variable nested inside a list / object literal
	hitCustomVar  bool // a variable nested inside a custom-scalar literal
	nest          int  // nesting inside typed list / input-object literals
	noNestedHuge  bool // do not put unconvertible custom-scalar literals inside typed literals
	hitNestedHuge bool
	varBoost      bool // use variables wherever possible (fault injection at variable sites)
}

const (
	flNoNull     uint8 = 1 << iota // the value must not be the null literal at top level
	flLocDefault                   // the location has a default value (argument / input field default)
	flOneOf                        // the value is the single field of a @oneOf object
	flNoCoerce                     // no single-value-for-list coercion (items of a list literal)
	flConst                        // no variables
)

var intPool = []string{"0", "1", "-1", "2", "7", "42", "100", "-0", "2147483647", "-2147483648", "65536", "-32768"}
var floatPool = []string{"1.5", "-0.0", "0.1", "1e10", "3.14E-2", "6.0221413e23", "-1.25e-3", "1E+3", "2.0", "1e0"}
var stringPool = []string{
	`""`, `"a"`, `"hello world"`, `"with \"quotes\""`, `"back\\slash"`, `"line\nbreak"`, `"tab\tand\rcr"`,
	`"unicode é中"`, "\"raw é 中 \U0001F642\"", `"A\/\b\f"`, `"# not a comment"`, `"{ } [ ] $ ! @"`,
	`"""block"""`, "\"\"\"\n  indented\n    more\n  \"\"\"", `"""has \""" inside"""`, `"""a "quoted" word"""`, `""""""`,
	`"123"`, `"true"`, `"null"`, `"RED"`,
}
var bigInts = []string{"99999999999999999999", "-99999999999999999999", "9223372036854775808", "1099511627776"}

// MaxFiniteDoubleInt is the largest integer literal that still converts to a finite double
// (2^1024 - 2^970 - 1: everything below the half-way point between MaxFloat64 and 2^1024);
// BeyondDoubleInts are integer literals that strconv.ParseFloat turns into ±Inf.
var MaxFiniteDoubleInt, BeyondDoubleInts = func() (string, []string) {
	one := big.NewInt(1)
	thr := new(big.Int).Sub(new(big.Int).Lsh(one, 1024), new(big.Int).Lsh(one, 970))
	last := new(big.Int).Sub(thr, one)
	p309 := "1" + strings.Repeat("0", 309)
	return last.String(), []string{p309, "-" + p309, thr.String(), "-" + thr.String(), "1" + strings.Repeat("0", 399),
		"9" + strings.Repeat("9", 309)}
}()

// valid integer literals for a Float position: beyond int64, and the largest finite double as an integer
var floatBigInts = append(append([]string{}, bigInts[:3]...), MaxFiniteDoubleInt, "-"+MaxFiniteDoubleInt,
	"1"+strings.Repeat("0", 308))

var anyPool = []string{"99999999999999999999", "1e999", "-1E999", "1e-999", "0", "-7", "2.5", `"s"`, `"""b"""`, "true", "false", "FOO", "bar", "null"}

func (g *litGen) intLit() {
	if g.r.Chance(3, 5) {
		g.b = append(g.b, rng.Pick(g.r, intPool)...)
		return
	}
	g.b = strconv.AppendInt(g.b, int64(int32(g.r.U64())), 10)
}

func (g *litGen) strLit() {
	g.b = append(g.b, rng.Pick(g.r, stringPool)...)
}

// value writes a literal of type t. depth bounds input-object recursion.
func (g *litGen) value(t *TypeRef, depth int, fl uint8) {
	r := g.r
	def := g.s.byName[t.Base()]
	if g.faultFn != nil && g.faultFn(t, def, fl) {
		return
	}
	if g.varFn != nil && fl&flConst == 0 && (r.Chance(1, 5) || g.varBoost && r.Bool()) && g.varFn(t, fl) {
		if depth > 0 {
			g.hitNestedVar = true
		}
		return
	}
	if !t.NonNull && fl&(flNoNull|flOneOf) == 0 && r.Chance(1, 10) {
		g.b = append(g.b, "null"...)
		return
	}
	if t.Elem != nil {
		// a list: either a list literal or (sometimes) a single value of the innermost type
		if fl&flNoCoerce == 0 && depth <= 4 && r.Chance(1, 8) {
			inner := t
			for inner.Elem != nil {
				inner = inner.Elem
			}
			// the single value itself must not be a variable (a variable of the item type is not
			// allowed in a list position) and must not be null when any wrapper is non-null
			g.named(inner, def, depth, fl|flNoNull|flNoListTop)
			return
		}
		n := r.Intn(4)
		if depth > 4 {
			n = 0 // deep inside recursive input objects every list is empty: literals stay finite
		} else if depth > 2 {
			n = r.Intn(2)
		}
		g.b = append(g.b, '[')
		for i := 0; i < n; i++ {
			if i > 0 {
				if r.Bool() {
					g.b = append(g.b, ", "...)
				} else {
					g.b = append(g.b, ' ')
				}
			}
			sub := flNoCoerce | (fl & flConst)
			g.value(t.Elem, depth+1, sub)
		}
		g.b = append(g.b, ']')
		return
	}
	g.named(t, def, depth, fl)
}

// flNoListTop is internal: used by the single-value coercion path (an arbitrary custom-scalar
// literal must not be a list there, because a list literal in a list position is the list itself).
const flNoListTop uint8 = 1 << 7

// flInCustom: the position is inside a custom-scalar literal (no expected type for validators).
const flInCustom uint8 = 1 << 5

func (g *litGen) named(t *TypeRef, def *TypeDef, depth int, fl uint8) {
	r := g.r
	if def == nil {
		g.b = append(g.b, "null"...)
		return
	}
	switch def.Kind {
	case Scalar:
		switch def.Name {
		case "Int":
			g.intLit()
		case "Float":
			switch {
			case g.bigNum && r.Chance(1, 40):
				g.hitBigNum = true
				g.b = append(g.b, rng.Pick(g.r, floatBigInts)...)
			case r.Chance(1, 3):
				g.intLit()
			default:
				g.b = append(g.b, rng.Pick(r, floatPool)...)
			}
		case "String":
			g.strLit()
		case "Boolean":
			if r.Bool() {
				g.b = append(g.b, "true"...)
			} else {
				g.b = append(g.b, "false"...)
			}
		case "ID":
			switch {
			case g.bigNum && r.Chance(1, 40):
				g.hitBigNum = true
				g.b = append(g.b, rng.Pick(g.r, bigInts[:3])...)
			case r.Bool():
				g.intLit()
			default:
				g.strLit()
			}
		default:
			g.anyLit(t, depth, fl, true)
		}
	case Enum:
		if len(def.Values) == 0 {
			g.b = append(g.b, "null"...)
			return
		}
		g.b = append(g.b, rng.Pick(r, def.Values).Name...)
	case InputObject:
		g.object(def, depth, fl)
	default:
		g.b = append(g.b, "null"...)
	}
}

// anyLit: an arbitrary literal for a custom scalar (custom scalars accept every literal).
func (g *litGen) anyLit(t *TypeRef, depth int, fl uint8, top bool) {
	r := g.r
	k := r.Intn(10)
	if top && fl&flNoListTop != 0 && k >= 6 && k < 8 {
		k = 9
	}
	if !top && g.varFn != nil && fl&flConst == 0 && r.Chance(1, 8) && g.varFn(&TypeRef{Name: t.Base()}, flInCustom) {
		g.hitCustomVar = true
		return
	}
	switch {
	case k < 6 || depth > 3:
		for {
			x := rng.Pick(r, anyPool)
			if x == "null" && top && (t.NonNull || fl&(flNoNull|flOneOf) != 0) {
				continue
			}
			if x == "99999999999999999999" || x == "1e999" || x == "-1E999" {
				if g.nest > 0 {
					if g.noNestedHuge {
						continue
					}
					g.hitNestedHuge = true
				}
				g.hitCustom = true
			}
			g.b = append(g.b, x...)
			return
		}
	case k < 8:
		n := r.Intn(3)
		g.b = append(g.b, '[')
		for i := 0; i < n; i++ {
			if i > 0 {
				g.b = append(g.b, ' ')
			}
			g.anyLit(t, depth+1, fl&flConst, false)
		}
		g.b = append(g.b, ']')
	default:
		n := r.Intn(3)
		g.b = append(g.b, '{')
		for i := 0; i < n; i++ {
			if i > 0 {
				g.b = append(g.b, ", "...)
			}
			g.b = append(g.b, "k"...)
			g.b = strconv.AppendInt(g.b, int64(i), 10)
			g.b = append(g.b, ": "...)
			g.anyLit(t, depth+1, fl&flConst, false)
		}
		g.b = append(g.b, '}')
	}
}

func (g *litGen) object(def *TypeDef, depth int, fl uint8) {
	r := g.r
	sub := fl & flConst
	g.b = append(g.b, '{')
	g.nest++
	defer func() { g.nest-- }()
	if def.OneOf {
		if len(def.Fields) > 0 {
			f := rng.Pick(r, def.Fields)
			if depth > 3 && def.term != nil {
				f = def.term // the field that nests least
			}
			g.b = append(g.b, f.Name...)
			g.b = append(g.b, ": "...)
			g.value(f.Type, depth+1, sub|flOneOf|flNoNull)
		}
		g.b = append(g.b, '}')
		return
	}
	first := true
	n := len(def.Fields)
	start, step := 0, 1
	if r.Chance(1, 4) { // reversed field order
		start, step = n-1, -1
	}
	for i, k := 0, start; i < n; i, k = i+1, k+step {
		f := def.Fields[k]
		if !f.Required() {
			if depth >= 3 || !r.Chance(1, 2) {
				continue
			}
		}
		if !first {
			if r.Chance(3, 4) {
				g.b = append(g.b, ", "...)
			} else {
				g.b = append(g.b, ' ')
			}
		}
		first = false
		g.b = append(g.b, f.Name...)
		g.b = append(g.b, ": "...)
		vfl := sub
		if f.HasDefault {
			vfl |= flLocDefault
		}
		g.value(f.Type, depth+1, vfl)
	}
	g.b = append(g.b, '}')
}

// constLiteral renders a const literal of type t (for SDL defaults and directive arguments).
func constLiteral(r *rng.R, s *Schema, t *TypeRef, fl uint8) string {
	g := litGen{r: r, s: s}
	g.value(t, 1, fl|flConst)
	return string(g.b)
}

var descPool = []string{
	`"plain description"`, `"short"`, `"with \"quotes\" inside"`, `"back\\slash and \/ slash"`, "\"unicode: é 中 \U0001F642 \\u00e9\"",
	`"""block description"""`, "\"\"\"\nmulti-line\ndescription\n\"\"\"", "\"\"\"\n  indented first\n    deeper\n  back\n\"\"\"",
	`"""contains \""" escaped triple quote"""`, `"""a "quoted" word and a \ backslash"""`, `"line\nbreak in a quoted string"`,
	`"  leading and trailing spaces  "`, `""`, "\"\"\"\n\n  blank lines around\n\n\"\"\"", `"tab\there"`,
}

func genDescription(r *rng.R) string {
	if !r.Chance(1, 4) {
		return ""
	}
	return rng.Pick(r, descPool)
}
