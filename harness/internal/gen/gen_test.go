package gen

import (
	"strings"
	"testing"

	"verifharness/internal/rng"
)

// Pure tests (no library): the generators never panic, are deterministic for a seed, and the
// structural invariants that do not need a validator hold.
func TestGeneratorsTotalAndDeterministic(t *testing.T) {
	for seed := uint64(0); seed < 400; seed++ {
		size := int(seed % 17)
		s := GenSchema(rng.New(seed), size)
		if s.SDL() != GenSchema(rng.New(seed), size).SDL() {
			t.Fatalf("GenSchema not deterministic for seed %d", seed)
		}
		for _, ty := range s.Types {
			if strings.HasPrefix(ty.Name, "__") {
				t.Fatalf("reserved type name %s", ty.Name)
			}
		}
		if n := len(s.Render(rng.New(seed), 4)); n < 1 || n > 4 {
			t.Fatalf("Render gave %d sources", n)
		}
		if got, want := strings.Join(s.Definitions(), "\n"), s.SDL(); got != want {
			t.Fatalf("Definitions/SDL mismatch")
		}
		for _, cl := range SchemaClauses {
			f := InjectSchemaFaultClause(rng.New(seed), s, cl)
			if f.Clause != cl || len(f.Sources) == 0 || f.Variant == "unknown-clause" {
				t.Fatalf("clause %s: bad fault %+v", cl, f.Variant)
			}
		}
		for k := uint64(0); k < 20; k++ {
			r := rng.New(seed*1000 + k)
			d := GenDoc(r, s, int(k))
			if d.Text != GenDoc(rng.New(seed*1000+k), s, int(k)).Text {
				t.Fatalf("GenDoc not deterministic")
			}
			if strings.Count(d.Text, "{") != strings.Count(d.Text, "}") && !strings.Contains(d.Text, `"`) {
				t.Fatalf("unbalanced braces:\n%s", d.Text)
			}
			ops := ParseOperations(d.Text)
			if len(ops) != len(d.Ops) {
				t.Fatalf("ParseOperations found %d operations, generator made %d:\n%s", len(ops), len(d.Ops), d.Text)
			}
			for _, op := range d.Ops {
				GenVars(r, s, d.Text, op.Name, true)
				if _, def := GenVars(r, s, d.Text, op.Name, false); def != "" && !strings.Contains(def, "@") {
					t.Fatalf("defect without position: %q", def)
				}
			}
			f := InjectDocFault(r, s, int(k))
			if f.Rule == "" || f.Doc == "" {
				t.Fatalf("empty fault")
			}
			InjectDocFaults(r, s, int(k), 3)
			GenBlindDocument(r, s, int(k))
			GenDocWith(r, s, int(k), DocOptions{NoDeviations: true})
		}
	}
	for _, k := range []int{0, 1, 7, 64} {
		if len(Adversarial(k)) < 10 {
			t.Fatalf("adversarial families missing")
		}
		Equidistant(rng.New(uint64(k)), k)
	}
}

func TestEveryInjectorFindsASite(t *testing.T) {
	left := map[string]bool{}
	for _, v := range DocFaultVariants() {
		left[v] = true
	}
	for seed := uint64(0); seed < 3000 && len(left) > 0; seed++ {
		s := GenSchema(rng.New(seed), 6+int(seed%10))
		for v := range left {
			if _, ok := InjectDocFaultVariant(rng.New(seed), s, 8, v); ok {
				delete(left, v)
			}
		}
	}
	if len(left) > 0 {
		t.Fatalf("injectors that never found a site: %v", left)
	}
}
