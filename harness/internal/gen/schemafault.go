package gen

import (
	"strconv"

	"verifharness/internal/rng"
)

// SchemaFault is a type system with exactly one violation of one clause of property C07.
type SchemaFault struct {
	Clause  string   // ∈ SchemaClauses
	Variant string   // which injector branch produced it
	Sources []string // rendered sources (1–3, definitions permuted)
	Schema  *Schema  // the faulty type system as a structured value (re-render at will)
}

// SchemaClauses: one entry per rule the loader enforces according to property C07.
var SchemaClauses = []string{
	"duplicate-type-name",
	"duplicate-directive-name",
	"duplicate-field-name",
	"undefined-type:field",
	"undefined-type:argument",
	"undefined-type:input-field",
	"undefined-type:union-member",
	"undefined-type:interface",
	"undefined-type:root",
	"wrong-kind:root-not-object",
	"wrong-kind:union-member-not-object",
	"wrong-kind:implements-non-interface",
	"wrong-kind:input-type-in-output-position",
	"wrong-kind:output-type-in-input-position",
	"wrong-kind:directive-argument-output-type",
	"interface-field-missing",
	"interface-field-not-covariant",
	"interface-argument-missing",
	"interface-argument-type-differs",
	"interface-additional-required-argument",
	"transitive-interface-not-implemented",
	"empty-object",
	"empty-interface",
	"empty-input",
	"empty-enum",
	"reserved-name:type",
	"reserved-name:field",
	"reserved-name:argument",
	"reserved-name:input-field",
	"reserved-name:enum-value",
	"reserved-name:directive",
	"directive-undeclared-location",
	"directive-missing-required-argument",
	"directive-undefined",
}

type fgen struct {
	r *rng.R
	s *Schema
	n int
}

func (g *fgen) fresh(prefix string) string {
	for {
		g.n++
		n := prefix + strconv.Itoa(g.n)
		taken := false
		for _, t := range g.s.Types {
			taken = taken || t.Name == n
		}
		if !taken {
			return n
		}
	}
}

func (g *fgen) kinds(ks ...Kind) []*TypeDef {
	var out []*TypeDef
	for _, t := range g.s.Types {
		for _, k := range ks {
			if t.Kind == k {
				out = append(out, t)
			}
		}
	}
	return out
}

func (g *fgen) add(t *TypeDef) *TypeDef {
	// insert at a random position
	p := g.r.Intn(len(g.s.Types) + 1)
	g.s.Types = append(g.s.Types, nil)
	copy(g.s.Types[p+1:], g.s.Types[p:])
	g.s.Types[p] = t
	return t
}

// anObject returns a user object type (there is always the query root).
func (g *fgen) anObject() *TypeDef { return rng.Pick(g.r, g.kinds(Object)) }

// anOutputField returns a field of an object type, preferring fields that are not inherited.
func (g *fgen) anObjectField() (*TypeDef, *FieldDef) {
	o := g.anObject()
	return o, rng.Pick(g.r, o.Fields)
}

func (g *fgen) anInput() *TypeDef {
	if in := g.kinds(InputObject); len(in) > 0 && g.r.Chance(3, 4) {
		return rng.Pick(g.r, in)
	}
	in := g.add(&TypeDef{Kind: InputObject, Name: g.fresh("ZzIn"), Fields: []*FieldDef{{Name: "a", Type: Named("Int")}}})
	// keep the gadget reachable: an optional argument on some object field
	_, f := g.anObjectField()
	f.Args = append(f.Args, &ArgDef{Name: g.freshArg(f), Type: Named(in.Name)})
	return in
}

func (g *fgen) freshArg(f *FieldDef) string {
	for i := 0; ; i++ {
		n := "zzArg" + strconv.Itoa(i)
		ok := true
		for _, a := range f.Args {
			ok = ok && a.Name != n
		}
		if ok {
			return n
		}
	}
}

func (g *fgen) aNonObjectOutput() string {
	var c []string
	for _, t := range g.kinds(Scalar, Interface, Union, Enum, InputObject) {
		c = append(c, t.Name)
	}
	c = append(c, "String", "Int")
	return rng.Pick(g.r, c)
}

type implSite struct {
	t, i *TypeDef
	f    *FieldDef // field of t
	src  *FieldDef // field of i
}

// implSites: (object T, interface I, field f) where I is the only interface of T providing f.
func (g *fgen) implSites(needArgs bool) []implSite {
	by := map[string]*TypeDef{}
	for _, t := range g.s.Types {
		by[t.Name] = t
	}
	var out []implSite
	for _, t := range g.kinds(Object) {
		for _, in := range t.Interfaces {
			i := by[in.Name]
			if i == nil {
				continue
			}
			for _, src := range i.Fields {
				n := 0
				for _, other := range t.Interfaces {
					if o := by[other.Name]; o != nil && o.Field(src.Name) != nil {
						n++
					}
				}
				if n != 1 || (needArgs && len(src.Args) == 0) {
					continue
				}
				if f := t.Field(src.Name); f != nil {
					out = append(out, implSite{t, i, f, src})
				}
			}
		}
	}
	return out
}

// gadget adds `interface ZzI { a: …  b(x: …, y: …): ZzI }` and `type ZzT implements ZzI` and returns
// the implementation site of field b.
func (g *fgen) gadget() implSite {
	r := g.r
	in := g.fresh("ZzI")
	tn := g.fresh("ZzT")
	scal := func() *TypeRef {
		t := Named(rng.Pick(r, builtinScalars))
		t.NonNull = r.Bool()
		if r.Chance(1, 3) {
			t = &TypeRef{Elem: t, NonNull: r.Bool()}
		}
		return t
	}
	ret := &TypeRef{Name: in, NonNull: r.Bool()}
	if r.Chance(1, 3) {
		ret = &TypeRef{Elem: ret, NonNull: r.Bool()}
	}
	if r.Chance(1, 3) {
		ret = scal()
	}
	mk := func() []*FieldDef {
		return []*FieldDef{
			{Name: "a", Type: Named("Int")},
			{Name: "b", Type: ret.clone(), Args: []*ArgDef{{Name: "x", Type: scal()}, {Name: "y", Type: &TypeRef{Elem: NonNullT(Named("Int"))}}}},
		}
	}
	i := g.add(&TypeDef{Kind: Interface, Name: in, Fields: mk()})
	t := g.add(&TypeDef{Kind: Object, Name: tn, Interfaces: []NameExt{{Name: in}}, Fields: mk()})
	t.Fields[1].Args[0].Type = i.Fields[1].Args[0].Type.clone()
	// reachable from the query root
	q := g.s.Types[0]
	for _, x := range g.s.Types {
		if x.Name == g.s.Query {
			q = x
		}
	}
	q.Fields = append(q.Fields, &FieldDef{Name: lowerFirst(in), Type: Named(in)})
	return implSite{t, i, t.Fields[1], i.Fields[1]}
}

func (g *fgen) site(needArgs bool) (implSite, string) {
	if ss := g.implSites(needArgs); len(ss) > 0 && g.r.Bool() {
		return rng.Pick(g.r, ss), "natural"
	}
	return g.gadget(), "gadget"
}

func (g *fgen) ensureSchemaBlock() {
	s := g.s
	if s.HasSchemaBlock {
		return
	}
	s.HasSchemaBlock = true
	s.RootOps = []RootOp{{Op: "query", Type: s.Query}}
	if s.Mutation != "" {
		s.RootOps = append(s.RootOps, RootOp{Op: "mutation", Type: s.Mutation})
	}
	if s.Subscription != "" {
		s.RootOps = append(s.RootOps, RootOp{Op: "subscription", Type: s.Subscription})
	}
}

// InjectSchemaFault returns a copy of s with exactly one violation of one clause.
func InjectSchemaFault(r *rng.R, s *Schema) SchemaFault {
	return InjectSchemaFaultClause(r, s, rng.Pick(r, SchemaClauses))
}

// InjectSchemaFaultClause injects a violation of the given clause.
func InjectSchemaFaultClause(r *rng.R, s *Schema, clause string) SchemaFault {
	g := &fgen{r: r, s: s.Clone()}
	variant := g.inject(clause)
	g.s.byName = nil
	g.s.finalized = false
	k := 1
	if r.Chance(1, 3) {
		k = 2 + r.Intn(2)
	}
	var srcs []string
	if r.Bool() {
		srcs = []string{g.s.SDL()}
	} else {
		srcs = g.s.Render(r, k)
	}
	return SchemaFault{Clause: clause, Variant: variant, Sources: srcs, Schema: g.s}
}

func (g *fgen) inject(clause string) string {
	r, s := g.r, g.s
	undefined := func() string { return g.fresh("ZzUndefined") }
	switch clause {
	case "duplicate-type-name":
		switch r.Intn(3) {
		case 0:
			t := rng.Pick(r, s.Types)
			c := t.clone()
			c.NExt = 0
			for _, f := range c.Fields {
				f.Ext = 0
			}
			for _, v := range c.Values {
				v.Ext = 0
			}
			for i := range c.Members {
				c.Members[i].Ext = 0
			}
			for i := range c.Interfaces {
				c.Interfaces[i].Ext = 0
			}
			for _, d := range c.Directives {
				d.Ext = 0
			}
			g.add(c)
			return "same-definition-twice"
		case 1:
			t := rng.Pick(r, s.Types)
			k := Scalar
			if t.Kind == Scalar {
				k = Enum
			}
			c := &TypeDef{Kind: k, Name: t.Name}
			if k == Enum {
				c.Values = []*EnumVal{{Name: "A"}}
			}
			g.add(c)
			return "other-kind-same-name"
		default:
			g.add(&TypeDef{Kind: Scalar, Name: rng.Pick(r, builtinScalars)})
			return "built-in-scalar-redefined"
		}
	case "duplicate-directive-name":
		pos := func() int { return r.Intn(len(s.Directives) + 1) }
		ins := func(d *DirectiveDef) {
			p := pos()
			s.Directives = append(s.Directives, nil)
			copy(s.Directives[p+1:], s.Directives[p:])
			s.Directives[p] = d
		}
		var users []*DirectiveDef
		for _, d := range s.Directives {
			if !isPreludeDirective(d.Name) {
				users = append(users, d)
			}
		}
		switch {
		case len(users) > 0 && r.Chance(1, 2):
			ins(rng.Pick(r, users).clone())
			return "user-directive-twice"
		case r.Chance(1, 2):
			n := g.fresh("zzdir")
			ins(&DirectiveDef{Name: n, Locations: []string{"FIELD"}})
			ins(&DirectiveDef{Name: n, Locations: []string{"FIELD", "OBJECT"}, Args: []*ArgDef{{Name: "a", Type: Named("Int")}}})
			return "fresh-directive-twice"
		default:
			// a prelude directive may be declared once more, but not twice more (DESIGN §7 R7b)
			var b *DirectiveDef
			for _, d := range preludeDirectives() {
				if d.Name == "skip" || d.Name == "include" || d.Name == "deprecated" {
					if b == nil || r.Bool() {
						b = d
					}
				}
			}
			if s.userDirective(b.Name) == nil {
				c := b.clone()
				c.Builtin = false
				ins(c)
			}
			c := b.clone()
			c.Builtin = false
			ins(c)
			return "prelude-directive-declared-twice-by-user"
		}
	case "duplicate-field-name":
		var cands []*TypeDef
		for _, t := range g.kinds(Object, Interface, InputObject) {
			if len(t.Fields) > 0 {
				cands = append(cands, t)
			}
		}
		t := rng.Pick(r, cands)
		f := rng.Pick(r, t.Fields).clone()
		v := "same-chunk"
		if r.Chance(1, 3) {
			f.Ext = t.NExt + 1
			t.NExt++
			v = "base-and-extension"
		} else {
			f.Ext = rng.Pick(r, t.Fields).Ext
		}
		p := r.Intn(len(t.Fields) + 1)
		t.Fields = append(t.Fields, nil)
		copy(t.Fields[p+1:], t.Fields[p:])
		t.Fields[p] = f
		return t.Kind.keyword() + ":" + v
	case "undefined-type:field":
		o := g.anObject()
		o.Fields = append(o.Fields, &FieldDef{Name: "zzField", Type: g.wrapAny(undefined())})
		return "new-object-field"
	case "undefined-type:argument":
		if r.Chance(1, 3) {
			s.Directives = append(s.Directives, &DirectiveDef{Name: g.fresh("zzdir"), Locations: []string{"FIELD"}, Args: []*ArgDef{{Name: "a", Type: g.wrapAny(undefined())}}})
			return "directive-argument"
		}
		_, f := g.anObjectField()
		t := g.wrapAny(undefined())
		t.NonNull = false
		f.Args = append(f.Args, &ArgDef{Name: g.freshArg(f), Type: t})
		return "field-argument"
	case "undefined-type:input-field":
		in := g.anInput()
		t := g.wrapAny(undefined())
		t.NonNull = false
		in.Fields = append(in.Fields, &FieldDef{Name: "zzField", Type: t})
		return "new-input-field"
	case "undefined-type:union-member":
		if us := g.kinds(Union); len(us) > 0 && r.Chance(2, 3) {
			u := rng.Pick(r, us)
			u.Members = append(u.Members, NameExt{Name: undefined(), Ext: r.Intn(u.NExt + 1)})
			return "extra-member"
		}
		g.add(&TypeDef{Kind: Union, Name: g.fresh("ZzU"), Members: []NameExt{{Name: undefined()}}})
		return "only-member"
	case "undefined-type:interface":
		var t *TypeDef
		v := "object-implements"
		if r.Chance(1, 3) {
			// an interface nobody implements (its implementers would have to declare the name as well)
			v = "interface-implements"
			for _, i := range g.kinds(Interface) {
				used := false
				for _, x := range s.Types {
					used = used || x.Implements(i.Name)
				}
				if !used {
					t = i
					break
				}
			}
			if t == nil {
				t = g.add(&TypeDef{Kind: Interface, Name: g.fresh("ZzI"), Fields: []*FieldDef{{Name: "a", Type: Named("Int")}}})
			}
		} else {
			t = g.anObject()
		}
		t.Interfaces = append(t.Interfaces, NameExt{Name: undefined()})
		return v
	case "undefined-type:root":
		g.ensureSchemaBlock()
		u := undefined()
		switch {
		case s.Mutation == "" && r.Bool():
			s.RootOps = append(s.RootOps, RootOp{Op: "mutation", Type: u})
			s.Mutation = u
			return "mutation"
		case s.Subscription == "" && r.Bool():
			s.RootOps = append(s.RootOps, RootOp{Op: "subscription", Type: u})
			s.Subscription = u
			return "subscription"
		default:
			i := r.Intn(len(s.RootOps))
			s.RootOps[i].Type = u
			switch s.RootOps[i].Op {
			case "query":
				s.Query = u
			case "mutation":
				s.Mutation = u
			default:
				s.Subscription = u
			}
			return "replace-" + s.RootOps[i].Op
		}
	case "wrong-kind:root-not-object":
		// a well-formed type of a kind other than OBJECT …
		nonObject := func(name string) *TypeDef {
			k := rng.Pick(r, []Kind{Scalar, Interface, Union, Enum, InputObject})
			t := &TypeDef{Kind: k, Name: name}
			switch k {
			case Interface, InputObject:
				t.Fields = []*FieldDef{{Name: "a", Type: Named("Int")}}
			case Enum:
				t.Values = []*EnumVal{{Name: "A"}}
			case Union:
				t.Members = []NameExt{{Name: g.anObject().Name}}
			}
			return g.add(t)
		}
		// … inferred as a root from its default name (no schema definition) …
		if !s.HasSchemaBlock && (s.Mutation == "" || s.Subscription == "") && r.Bool() {
			if s.Mutation == "" && (s.Subscription != "" || r.Bool()) {
				t := nonObject("Mutation")
				s.Mutation = t.Name
				return "default-name-mutation-" + t.Kind.keyword()
			}
			t := nonObject("Subscription")
			s.Subscription = t.Name
			return "default-name-subscription-" + t.Kind.keyword()
		}
		// … or named by the schema definition
		g.ensureSchemaBlock()
		t := nonObject(g.fresh("ZzRoot"))
		switch {
		case s.Mutation == "" && r.Bool():
			s.RootOps = append(s.RootOps, RootOp{Op: "mutation", Type: t.Name})
			s.Mutation = t.Name
			return "mutation-" + t.Kind.keyword()
		case s.Subscription == "" && r.Bool():
			s.RootOps = append(s.RootOps, RootOp{Op: "subscription", Type: t.Name})
			s.Subscription = t.Name
			return "subscription-" + t.Kind.keyword()
		default:
			i := r.Intn(len(s.RootOps))
			s.RootOps[i].Type = t.Name
			switch s.RootOps[i].Op {
			case "query":
				s.Query = t.Name
			case "mutation":
				s.Mutation = t.Name
			default:
				s.Subscription = t.Name
			}
			return "replace-" + s.RootOps[i].Op + "-" + t.Kind.keyword()
		}
	case "wrong-kind:union-member-not-object":
		m := g.aNonObjectOutput()
		if us := g.kinds(Union); len(us) > 0 && r.Chance(2, 3) {
			u := rng.Pick(r, us)
			if m == u.Name {
				m = "String"
			}
			u.Members = append(u.Members, NameExt{Name: m, Ext: r.Intn(u.NExt + 1)})
		} else {
			g.add(&TypeDef{Kind: Union, Name: g.fresh("ZzU"), Members: []NameExt{{Name: m}}})
		}
		return "member-kind:" + g.kindOf(m)
	case "wrong-kind:implements-non-interface":
		var c []string
		for _, t := range g.kinds(Scalar, Union, Enum, InputObject) {
			c = append(c, t.Name)
		}
		c = append(c, "String", "ID")
		m := rng.Pick(r, c)
		o := g.anObject()
		o.Interfaces = append(o.Interfaces, NameExt{Name: m})
		return "implements-kind:" + g.kindOf(m)
	case "wrong-kind:input-type-in-output-position":
		in := g.anInput()
		o := g.anObject()
		o.Fields = append(o.Fields, &FieldDef{Name: "zzField", Type: g.wrapAny(in.Name)})
		return "object-field-of-input-object-type"
	case "wrong-kind:output-type-in-input-position":
		outs := g.kinds(Object, Interface, Union)
		o := rng.Pick(r, outs)
		if r.Bool() {
			_, f := g.anObjectField()
			t := g.wrapAny(o.Name)
			t.NonNull = false
			f.Args = append(f.Args, &ArgDef{Name: g.freshArg(f), Type: t})
			return "argument-of-" + o.Kind.keyword() + "-type"
		}
		in := g.anInput()
		t := g.wrapAny(o.Name)
		t.NonNull = false
		in.Fields = append(in.Fields, &FieldDef{Name: "zzField", Type: t})
		return "input-field-of-" + o.Kind.keyword() + "-type"
	case "wrong-kind:directive-argument-output-type":
		o := rng.Pick(r, g.kinds(Object, Interface, Union))
		s.Directives = append(s.Directives, &DirectiveDef{Name: g.fresh("zzdir"), Locations: []string{"FIELD"}, Args: []*ArgDef{{Name: "a", Type: g.wrapAny(o.Name)}}})
		return "directive-argument-of-" + o.Kind.keyword() + "-type"
	case "interface-field-missing":
		st, v := g.site(false)
		for i, f := range st.t.Fields {
			if f == st.f {
				st.t.Fields = append(st.t.Fields[:i], st.t.Fields[i+1:]...)
				break
			}
		}
		if len(st.t.Fields) == 0 {
			st.t.Fields = append(st.t.Fields, &FieldDef{Name: "zzOther", Type: Named("Int")})
		}
		return v
	case "interface-field-not-covariant":
		st, v := g.site(false)
		req := st.src.Type
		switch k := r.Intn(4); {
		case k == 0 && req.NonNull:
			st.f.Type = NullableT(req)
			return v + ":nullable-for-non-null"
		case k == 1:
			if req.Elem != nil {
				st.f.Type = req.Elem.clone()
				return v + ":item-for-list"
			}
			st.f.Type = &TypeRef{Elem: req.clone(), NonNull: req.NonNull}
			return v + ":list-for-named"
		case k == 2 && req.Elem != nil && req.Elem.NonNull:
			c := req.clone()
			c.Elem.NonNull = false
			st.f.Type = c
			return v + ":nullable-item-for-non-null-item"
		default:
			other := "String"
			if req.Base() == "String" {
				other = "Int"
			}
			st.f.Type = req.withBase(other)
			return v + ":different-named-type"
		}
	case "interface-argument-missing":
		st, v := g.site(true)
		name := rng.Pick(r, st.src.Args).Name
		for i, a := range st.f.Args {
			if a.Name == name {
				st.f.Args = append(st.f.Args[:i], st.f.Args[i+1:]...)
				break
			}
		}
		return v
	case "interface-argument-type-differs":
		st, v := g.site(true)
		req := rng.Pick(r, st.src.Args)
		var a *ArgDef
		for _, x := range st.f.Args {
			if x.Name == req.Name {
				a = x
			}
		}
		if a == nil {
			return v + ":none"
		}
		switch k := r.Intn(4); {
		case k == 0 && req.Type.NonNull:
			a.Type = NullableT(req.Type)
			return v + ":nullable-for-non-null" // library accepts: DESIGN §7 R7a
		case k == 1 && !req.Type.NonNull:
			a.Type = NonNullT(req.Type)
			if a.HasDefault && a.Default == "null" {
				a.Default = constLiteral(r, s.finalizedForLiterals(), a.Type, flNoNull)
			}
			return v + ":non-null-for-nullable"
		case k == 2:
			if req.Type.Elem != nil {
				a.Type = req.Type.Elem.clone()
				a.HasDefault = false
				return v + ":item-for-list"
			}
			a.Type = &TypeRef{Elem: req.Type.clone()}
			a.HasDefault = false
			return v + ":list-for-named"
		default:
			other := "String"
			if req.Type.Base() == "String" {
				other = "Int"
			}
			a.Type = req.Type.withBase(other)
			a.HasDefault = false
			return v + ":different-named-type"
		}
	case "interface-additional-required-argument":
		st, v := g.site(false)
		t := NonNullT(Named(rng.Pick(r, builtinScalars)))
		if r.Chance(1, 3) {
			t = &TypeRef{Elem: Named("Int"), NonNull: true}
		}
		st.f.Args = append(st.f.Args, &ArgDef{Name: g.freshArg(st.f), Type: t})
		return v
	case "transitive-interface-not-implemented":
		by := map[string]*TypeDef{}
		for _, t := range s.Types {
			by[t.Name] = t
		}
		type cand struct {
			t   *TypeDef
			idx int
		}
		var cs []cand
		usedAsType := map[string]bool{}
		for _, t := range g.kinds(Object, Interface) {
			for _, f := range t.Fields {
				usedAsType[f.Type.Base()] = true
			}
		}
		for _, t := range g.kinds(Object, Interface) {
			if usedAsType[t.Name] {
				continue // a covariant field type elsewhere may rely on what t implements
			}
			for i, a := range t.Interfaces {
				// a is required transitively if another declared interface implements it
				for _, b := range t.Interfaces {
					if bi := by[b.Name]; bi != nil && b.Name != a.Name && bi.Implements(a.Name) {
						// removing a must not orphan other requirements: a's own ancestors stay declared
						cs = append(cs, cand{t, i})
						break
					}
				}
			}
		}
		if len(cs) > 0 && r.Bool() {
			c := rng.Pick(r, cs)
			c.t.Interfaces = append(c.t.Interfaces[:c.idx], c.t.Interfaces[c.idx+1:]...)
			return "natural:" + c.t.Kind.keyword()
		}
		i1 := g.add(&TypeDef{Kind: Interface, Name: g.fresh("ZzI"), Fields: []*FieldDef{{Name: "a", Type: Named("Int")}}})
		i2 := g.add(&TypeDef{Kind: Interface, Name: g.fresh("ZzI"), Interfaces: []NameExt{{Name: i1.Name}}, Fields: []*FieldDef{{Name: "a", Type: Named("Int")}, {Name: "b", Type: Named("ID")}}})
		k := Object
		v := "gadget:type"
		if r.Chance(1, 3) {
			k = Interface
			v = "gadget:interface"
		}
		g.add(&TypeDef{Kind: k, Name: g.fresh("ZzT"), Interfaces: []NameExt{{Name: i2.Name}}, Fields: []*FieldDef{{Name: "a", Type: Named("Int")}, {Name: "b", Type: Named("ID")}}})
		return v
	case "empty-object":
		g.add(&TypeDef{Kind: Object, Name: g.fresh("ZzEmpty")})
		return "no-fields"
	case "empty-interface":
		g.add(&TypeDef{Kind: Interface, Name: g.fresh("ZzEmpty")})
		return "no-fields"
	case "empty-input":
		g.add(&TypeDef{Kind: InputObject, Name: g.fresh("ZzEmpty")})
		return "no-fields"
	case "empty-enum":
		g.add(&TypeDef{Kind: Enum, Name: g.fresh("ZzEmpty")})
		return "no-values"
	case "reserved-name:type":
		k := Kind(r.Intn(6))
		t := &TypeDef{Kind: k, Name: g.fresh("__Zz")}
		switch k {
		case Object, Interface, InputObject:
			t.Fields = []*FieldDef{{Name: "a", Type: Named("Int")}}
		case Enum:
			t.Values = []*EnumVal{{Name: "A"}}
		case Union:
			t.Members = []NameExt{{Name: g.anObject().Name}}
		}
		g.add(t)
		return k.keyword()
	case "reserved-name:field":
		o := g.anObject()
		v := "object"
		if is := g.kinds(Interface); len(is) > 0 && r.Chance(1, 4) {
			// an interface field must also be present on the implementers: use an interface nobody implements
			i := g.add(&TypeDef{Kind: Interface, Name: g.fresh("ZzI"), Fields: []*FieldDef{{Name: "a", Type: Named("Int")}}})
			o = i
			v = "interface"
		}
		o.Fields = append(o.Fields, &FieldDef{Name: "__zzField", Type: Named("Int")})
		return v
	case "reserved-name:argument":
		if r.Chance(1, 4) {
			s.Directives = append(s.Directives, &DirectiveDef{Name: g.fresh("zzdir"), Locations: []string{"FIELD"}, Args: []*ArgDef{{Name: "__zzArg", Type: Named("Int")}}})
			return "directive-argument"
		}
		_, f := g.anObjectField()
		f.Args = append(f.Args, &ArgDef{Name: "__zzArg", Type: Named("Int")})
		return "field-argument"
	case "reserved-name:input-field":
		in := g.anInput()
		in.Fields = append(in.Fields, &FieldDef{Name: "__zzField", Type: Named("Int")})
		return "input-field"
	case "reserved-name:enum-value":
		if es := g.kinds(Enum); len(es) > 0 && r.Chance(2, 3) {
			e := rng.Pick(r, es)
			e.Values = append(e.Values, &EnumVal{Name: "__ZZ", Ext: r.Intn(e.NExt + 1)})
			return "extra-value" // library accepts: DESIGN §7 R7c
		}
		g.add(&TypeDef{Kind: Enum, Name: g.fresh("ZzE"), Values: []*EnumVal{{Name: "__ZZ"}}})
		return "only-value"
	case "reserved-name:directive":
		s.Directives = append(s.Directives, &DirectiveDef{Name: "__zzdir", Locations: []string{rng.Pick(r, ExecutableLocations)}})
		return "definition"
	case "directive-undeclared-location", "directive-undefined", "directive-missing-required-argument":
		return g.injectDirective(clause)
	}
	return "unknown-clause"
}

func isPreludeDirective(n string) bool {
	switch n {
	case "skip", "include", "deprecated", "specifiedBy", "oneOf", "defer":
		return true
	}
	return false
}

// finalizedForLiterals makes sure byName is usable by constLiteral on a clone.
func (s *Schema) finalizedForLiterals() *Schema {
	if s.byName == nil {
		s.finalize()
	}
	return s
}

func (g *fgen) kindOf(name string) string {
	for _, t := range g.s.Types {
		if t.Name == name {
			return t.Kind.keyword()
		}
	}
	return "scalar"
}

func (g *fgen) wrapAny(name string) *TypeRef {
	r := g.r
	t := &TypeRef{Name: name, NonNull: r.Chance(1, 3)}
	if r.Chance(1, 4) {
		t = &TypeRef{Elem: t, NonNull: r.Chance(1, 3)}
	}
	return t
}

// dirSites lists every place of the SDL that can carry a directive, with its location name.
func (g *fgen) dirSites() []decoSite {
	sg := &sgen{r: g.r, s: g.s}
	sites := sg.sites()
	for _, d := range g.s.Directives {
		for _, a := range d.Args {
			sites = append(sites, decoSite{dst: &a.Directives, loc: "ARGUMENT_DEFINITION", optional: !a.Required(), owner: d.Name})
		}
	}
	return sites
}

func (g *fgen) injectDirective(clause string) string {
	r, s := g.r, g.s
	sites := g.dirSites()
	st := rng.Pick(r, sites)
	switch clause {
	case "directive-undefined":
		*st.dst = append(*st.dst, &DirApp{Name: g.fresh("zzNope")})
		return "at-" + st.loc
	case "directive-undeclared-location":
		// a declared directive whose locations do not include the site's
		var cands []*DirectiveDef
		for _, d := range preludeDirectives() {
			if s.userDirective(d.Name) == nil && !d.Has(st.loc) {
				cands = append(cands, d)
			}
		}
		for _, d := range s.Directives {
			if !d.Has(st.loc) && d.Name != st.owner {
				cands = append(cands, d)
			}
		}
		if len(cands) == 0 {
			cands = append(cands, &DirectiveDef{Name: "skip", Args: []*ArgDef{{Name: "if", Type: NonNullT(Named("Boolean"))}}})
		}
		d := rng.Pick(r, cands)
		app := &DirApp{Name: d.Name}
		for _, a := range d.Args {
			if a.Required() {
				app.Args = append(app.Args, ArgVal{Name: a.Name, Value: constLiteral(r, s.finalizedForLiterals(), a.Type, flNoNull)})
			}
		}
		*st.dst = append(*st.dst, app)
		return "@" + d.Name + "-at-" + st.loc
	default: // missing required argument
		type cand struct {
			d  *DirectiveDef
			st decoSite
		}
		var cs []cand
		all := append([]*DirectiveDef{}, s.Directives...)
		for _, d := range preludeDirectives() {
			if s.userDirective(d.Name) == nil {
				all = append(all, d)
			}
		}
		for _, d := range all {
			req := false
			for _, a := range d.Args {
				req = req || a.Required()
			}
			if !req {
				continue
			}
			for _, x := range sites {
				if d.Has(x.loc) && d.Name != x.owner {
					already := false
					for _, a := range *x.dst {
						already = already || a.Name == d.Name
					}
					if !already || d.Repeatable {
						cs = append(cs, cand{d, x})
					}
				}
			}
		}
		var d *DirectiveDef
		if len(cs) > 0 && r.Chance(3, 4) {
			c := rng.Pick(r, cs)
			d, st = c.d, c.st
		} else {
			// gadget: a fresh directive with a required argument, applied to an object
			d = &DirectiveDef{Name: g.fresh("zzdir"), Locations: []string{"OBJECT", "FIELD_DEFINITION"}, Args: []*ArgDef{{Name: "must", Type: NonNullT(Named("Int"))}, {Name: "opt", Type: Named("String")}}}
			s.Directives = append(s.Directives, d)
			o := g.anObject()
			st = decoSite{dst: &o.Directives, loc: "OBJECT"}
		}
		app := &DirApp{Name: d.Name}
		var reqs []*ArgDef
		for _, a := range d.Args {
			if a.Required() {
				reqs = append(reqs, a)
			}
		}
		drop := rng.Pick(r, reqs)
		v := "omitted"
		for _, a := range reqs {
			if a == drop {
				if r.Chance(1, 3) {
					app.Args = append(app.Args, ArgVal{Name: a.Name, Value: "null"})
					v = "null"
				}
				continue
			}
			app.Args = append(app.Args, ArgVal{Name: a.Name, Value: constLiteral(r, s.finalizedForLiterals(), a.Type, flNoNull)})
		}
		*st.dst = append(*st.dst, app)
		return v + ":@" + d.Name + "-at-" + st.loc
	}
}
