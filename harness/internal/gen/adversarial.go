package gen

import (
	"strconv"
	"strings"

	"verifharness/internal/rng"
)

// AdvCase is one member of a size-parametrised adversarial family.
type AdvCase = struct{ Name, SchemaSDL, Doc string }

const advSchema = `type Query { id: ID u: Node n(a: Int): Node t: T ab: AB }
interface Node { id: ID u: Node n(a: Int): Node }
type T implements Node { id: ID u: Node n(a: Int): Node t: T x: Int }
type A { k: Int o: T }
type B { k: String o: T }
union AB = A | B
type Subscription { tick: Int id: ID u: Node }
`

// Adversarial returns, for a size k ≥ 1, one document of each family together with the schema it
// is meant for. The text size of every family is linear in k unless stated otherwise:
//
//	introspection-fanout      {__schema{...F0}}, Fi = {...Fi+1 ...Fi+1}: 2^k paths under __schema (DESIGN §7 R2c)
//	fragment-fanout           the same under a user type (exercises the fragment-pair memo of OverlappingFields)
//	fragment-cycle-fields     k fragments, Fi spreads Fi+1 inside a field, the last one closes the cycle
//	fragment-cycle-r2d        the minimal non-terminating shape of DESIGN §7 R2d, padded with k extra fragments
//	fragment-chain            F0 → F1 → … → Fk, acyclic
//	repeated-names            one response name k times in one selection set (k² pairs)
//	repeated-names-deep       ⌈√k⌉ copies of a field with ⌈√k⌉ copies below each, depth 2 (text size k)
//	alias-ladder              a1: u { a2: u { … } } k levels, every level with a second alias of the same field
//	wide-aliases              k different aliases of one leaf
//	deep-nesting              u { u { … } } k levels
//	exclusive-siblings        k inline fragments on alternating object types reusing one response name
func Adversarial(size int) []AdvCase {
	k := size
	if k < 1 {
		k = 1
	}
	itoa := strconv.Itoa
	var out []AdvCase
	add := func(name, doc string) { out = append(out, AdvCase{Name: name, SchemaSDL: advSchema, Doc: doc}) }
	var sb strings.Builder

	// introspection fan-out 2^k
	sb.Reset()
	sb.WriteString("{ __schema { ...F0 } }\n")
	for i := 0; i < k; i++ {
		sb.WriteString("fragment F" + itoa(i) + " on __Schema { ...F" + itoa(i+1) + " ...F" + itoa(i+1) + " }\n")
	}
	sb.WriteString("fragment F" + itoa(k) + " on __Schema { types { name } }\n")
	add("introspection-fanout", sb.String())

	// the same fan-out closed into a cycle (the last fragment spreads the first again): a memo that
	// is dropped whenever an exploration was cut at a fragment on the current path never fills
	for _, root := range []string{"__schema", "__type(name: \"Query\")"} {
		on := "__Schema"
		leaf := "description"
		if root != "__schema" {
			on = "__Type"
			leaf = "name"
		}
		sb.Reset()
		sb.WriteString("{ " + root + " { ...F0 } }\n")
		for i := 0; i < k; i++ {
			sb.WriteString("fragment F" + itoa(i) + " on " + on + " { ...F" + itoa(i+1) + " ...F" + itoa(i+1) + " }\n")
		}
		sb.WriteString("fragment F" + itoa(k) + " on " + on + " { " + leaf + " ...F0 }\n")
		add("introspection-fanout-cycle:"+on, sb.String())
	}

	sb.Reset()
	sb.WriteString("{ ...F0 }\n")
	for i := 0; i < k; i++ {
		sb.WriteString("fragment F" + itoa(i) + " on Query { ...F" + itoa(i+1) + " ...F" + itoa(i+1) + " }\n")
	}
	sb.WriteString("fragment F" + itoa(k) + " on Query { id }\n")
	add("fragment-fanout", sb.String())

	sb.Reset()
	sb.WriteString("{ u { ...F0 } }\n")
	for i := 0; i < k; i++ {
		sb.WriteString("fragment F" + itoa(i) + " on Node { id u { ...F" + itoa((i+1)%k) + " } }\n")
	}
	add("fragment-cycle-fields", sb.String())

	sb.Reset()
	sb.WriteString("{ id }\n")
	sb.WriteString("fragment F1 on Query { u { ... on Node { ...F3 u { __typename } } } }\n")
	sb.WriteString("fragment F2 on T { ...F3 ... on T { __typename { ...F0 } } }\n")
	sb.WriteString("fragment F3 on Node { ... on Bogus { ...F2 ... on Bogus { ...F1 } } }\n")
	sb.WriteString("fragment F0 on Bogus { id }\n")
	for i := 0; i < k; i++ {
		sb.WriteString("fragment P" + itoa(i) + " on Node { ...F" + itoa(1+i%3) + " }\n")
	}
	add("fragment-cycle-r2d", sb.String())

	// a fragment that reaches itself through fields, spread below same-named fields whose parents are
	// different OBJECT types (their sub-selections are compared as mutually exclusive) and, for
	// comparison, below the same parent: k levels of nesting inside the fragment
	{
		deep := "...FX"
		for i := 0; i < 1+k%4; i++ {
			deep = "t { " + deep + " }"
		}
		add("fragment-cycle-exclusive-parents", "{ ab { ... on A { o { ...FX } } ... on B { o { "+deep+" } } } }\nfragment FX on T { t { t { ...FX } } }\n")
		add("fragment-cycle-exclusive-parents-2", "{ ab { ... on A { k o { t { ...FY } } } ... on B { k: x o { t { t { ...FY } } } } } }\nfragment FY on T { t { t { ...FY x } } u { ... on T { t { ...FY } } } x }\n")
	}

	// the fan-out below a subscription root (SingleFieldSubscriptions collects the root fields through
	// fragments), acyclic and closed into a cycle
	for _, cyc := range []bool{false, true} {
		sb.Reset()
		sb.WriteString("subscription S { tick ...F0 }\n")
		for i := 0; i < k; i++ {
			sb.WriteString("fragment F" + itoa(i) + " on Subscription { ...F" + itoa(i+1) + " ...F" + itoa(i+1) + " }\n")
		}
		if cyc {
			sb.WriteString("fragment F" + itoa(k) + " on Subscription { tick ...F0 }\n")
			add("subscription-fanout-cycle", sb.String())
		} else {
			sb.WriteString("fragment F" + itoa(k) + " on Subscription { tick }\n")
			add("subscription-fanout", sb.String())
		}
	}

	// two fragments that reach each other through a field are compared twice: below same-named fields of
	// two different OBJECT types (mutually exclusive) and side by side (not exclusive), in both orders;
	// what the first comparison records must not keep the second from terminating
	{
		pad := ""
		for i := 0; i < k%5; i++ {
			pad += " t {"
		}
		cl := strings.Repeat(" }", k%5)
		fr := "fragment FA on T { x" + pad + " t { ...FB }" + cl + " }\nfragment FB on T { x" + pad + " t { ...FA }" + cl + " }\n"
		excl := "ab { ... on A { o { ...FA } } ... on B { o { ...FB } } }"
		side := "t { ...FA ...FB }"
		add("fragment-pair-exclusive-then-shared", "{ "+excl+" "+side+" }\n"+fr)
		add("fragment-pair-shared-then-exclusive", "{ "+side+" "+excl+" }\n"+fr)
		add("fragment-pair-exclusive-then-shared-nested", "{ ab { ... on A { o { t { ...FA } } } ... on B { o { t { ...FB } } } } u { ... on T { ...FA ...FB t { ...FB ...FA } } } }\n"+fr)
	}

	sb.Reset()
	sb.WriteString("{ u { ...F0 } }\n")
	for i := 0; i < k; i++ {
		sb.WriteString("fragment F" + itoa(i) + " on Node { id ...F" + itoa(i+1) + " }\n")
	}
	sb.WriteString("fragment F" + itoa(k) + " on Node { id }\n")
	add("fragment-chain", sb.String())

	sb.Reset()
	sb.WriteString("{")
	for i := 0; i < k; i++ {
		sb.WriteString(" id")
	}
	sb.WriteString(" }\n")
	add("repeated-names", sb.String())

	sb.Reset()
	q := 1
	for q*q < k {
		q++
	}
	sb.WriteString("{")
	for i := 0; i < q; i++ {
		sb.WriteString(" u {")
		for j := 0; j < q; j++ {
			sb.WriteString(" id")
		}
		sb.WriteString(" }")
	}
	sb.WriteString(" }\n")
	add("repeated-names-deep", sb.String())

	sb.Reset()
	sb.WriteString("{")
	for i := 0; i < k; i++ {
		sb.WriteString(" a" + itoa(i) + ": u { b" + itoa(i) + ": id")
	}
	sb.WriteString(" id")
	for i := 0; i < k; i++ {
		sb.WriteString(" }")
	}
	sb.WriteString(" }\n")
	add("alias-ladder", sb.String())

	sb.Reset()
	sb.WriteString("{")
	for i := 0; i < k; i++ {
		sb.WriteString(" a" + itoa(i) + ": id")
	}
	sb.WriteString(" }\n")
	add("wide-aliases", sb.String())

	sb.Reset()
	sb.WriteString("{")
	for i := 0; i < k; i++ {
		sb.WriteString(" u {")
	}
	sb.WriteString(" id")
	for i := 0; i < k; i++ {
		sb.WriteString(" }")
	}
	sb.WriteString(" }\n")
	add("deep-nesting", sb.String())

	sb.Reset()
	sb.WriteString("{ ab {")
	for i := 0; i < k; i++ {
		if i%2 == 0 {
			sb.WriteString(" ... on A { x: o { id } }")
		} else {
			sb.WriteString(" ... on B { x: o { id } }")
		}
	}
	sb.WriteString(" } }\n")
	add("exclusive-siblings", sb.String())
	return out
}

// Equidistant returns a schema whose type names, field names, argument names and enum values are
// pairwise at the same edit distance (1) from the misspelt names used by the document, so that the
// order of the "Did you mean …?" suggestions is decided only by tie-breaking (DESIGN §7 R10).
// k (2…20) is the number of candidates per name. The document is invalid on purpose.
func Equidistant(r *rng.R, k int) AdvCase {
	if k < 2 {
		k = 2
	}
	if k > 20 {
		k = 20
	}
	letters := "abcdefghijklmnopqrstuvwxy"
	perm := []byte(letters)
	for i := len(perm) - 1; i > 0; i-- {
		j := r.Intn(i + 1)
		perm[i], perm[j] = perm[j], perm[i]
	}
	var sdl, fields, args, vals strings.Builder
	for i := 0; i < k; i++ {
		c := string(perm[i])
		sdl.WriteString("type D" + c + "g { id: ID }\n")
		fields.WriteString("  f" + c + "x: Int\n")
		if i > 0 {
			args.WriteString(", ")
		}
		args.WriteString("a" + c + "x: Int")
		vals.WriteString(" V" + strings.ToUpper(c) + "X")
	}
	sdl.WriteString("enum E {" + vals.String() + " }\n")
	sdl.WriteString("type Query {\n" + fields.String() + "  g(" + args.String() + "): Int\n  e(v: E): Int\n}\n")
	doc := "{ fzx g(azx: 1) e(v: VZX) ...X }\nfragment X on Dzg { id }\n"
	return AdvCase{Name: "equidistant-suggestions", SchemaSDL: sdl.String(), Doc: doc}
}
