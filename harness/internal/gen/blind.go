package gen

import (
	"strconv"

	"verifharness/internal/rng"
)

// GenBlindDocument generates a syntactically valid, type-blind document: names are drawn from
// the schema (types, fields, arguments, enum values, directives) and from fresh names, shapes
// are random. Biased towards what stresses the validator: unknown types, undefined variables
// (also inside object literals and in fragments no operation reaches), mutually recursive
// fragments that overlap on fields with sub-selections, wrong value shapes.
func GenBlindDocument(r *rng.R, s *Schema, size int) string {
	if !s.finalized {
		s.finalize()
	}
	if size < 0 {
		size = 0
	}
	if size > 200 {
		size = 200
	}
	b := &blindGen{r: r, s: s, budget: 4 + 2*size}
	if s.blind == nil {
		b.collect()
		s.blind = &blindGen{types: b.types, fields: b.fields, args: b.args, enums: b.enums, dirs: b.dirs}
	} else {
		c := s.blind
		b.types, b.fields, b.args, b.enums, b.dirs = c.types, c.fields, c.args, c.enums, c.dirs
	}
	nFrag := r.Intn(2 + size/3)
	if nFrag > 8 {
		nFrag = 8
	}
	for i := 0; i < nFrag; i++ {
		b.fragNames = append(b.fragNames, "F"+strconv.Itoa(i))
	}
	if r.Chance(1, 4) {
		b.fragNames = append(b.fragNames, "Undefined")
	}
	nOps := 1
	if r.Chance(1, 4) {
		nOps = 2
	}
	for i := 0; i < nOps; i++ {
		b.operation(i)
	}
	for i := 0; i < nFrag; i++ {
		tn := b.typeName()
		b.w("fragment F" + strconv.Itoa(i) + " on " + tn)
		b.directives()
		b.w(" ")
		b.selSet(1, s.byName[tn])
		b.w("\n")
	}
	return string(b.b)
}

type blindGen struct {
	r         *rng.R
	s         *Schema
	b         []byte
	budget    int
	types     []string
	fields    []string
	args      []string
	enums     []string
	dirs      []string
	fragNames []string
	vars      []string
}

func (b *blindGen) w(s string) { b.b = append(b.b, s...) }

func (b *blindGen) collect() {
	s := b.s
	seenF, seenA := map[string]bool{}, map[string]bool{}
	for _, t := range s.byNameSorted() {
		b.types = append(b.types, t.Name)
		for _, f := range t.Fields {
			if !seenF[f.Name] {
				seenF[f.Name] = true
				b.fields = append(b.fields, f.Name)
			}
			for _, a := range f.Args {
				if !seenA[a.Name] {
					seenA[a.Name] = true
					b.args = append(b.args, a.Name)
				}
			}
		}
		for _, v := range t.Values {
			b.enums = append(b.enums, v.Name)
		}
	}
	b.types = append(b.types, "Bogus", "Nope")
	b.fields = append(b.fields, "__typename", "__typename", "__schema", "__type", "bogus", "id", "u")
	b.args = append(b.args, "if", "name", "bogusArg")
	b.enums = append(b.enums, "BOGUS")
	for _, d := range s.builtinDirs {
		b.dirs = append(b.dirs, d.Name)
	}
	for _, d := range s.Directives {
		b.dirs = append(b.dirs, d.Name)
	}
	b.dirs = append(b.dirs, "bogus")
}

func (b *blindGen) typeName() string { return rng.Pick(b.r, b.types) }

func (b *blindGen) typeRef() string {
	t := b.typeName()
	r := b.r
	if r.Chance(1, 3) {
		t += "!"
	}
	if r.Chance(1, 4) {
		t = "[" + t + "]"
		if r.Bool() {
			t += "!"
		}
	}
	return t
}

func (b *blindGen) operation(i int) {
	r := b.r
	b.vars = b.vars[:0]
	kind := rng.Pick(r, []string{"query", "query", "query", "mutation", "subscription"})
	named := i > 0 || r.Chance(2, 3)
	nv := r.Intn(3)
	root := b.s.Root(kind)
	if !named && nv == 0 && kind == "query" && r.Bool() {
		b.selSet(0, root)
		b.w("\n")
		return
	}
	b.w(kind)
	if named {
		b.w(" Op" + strconv.Itoa(i%2+r.Intn(2))) // sometimes the same name twice
	}
	if nv > 0 {
		b.w("(")
		for k := 0; k < nv; k++ {
			if k > 0 {
				b.w(", ")
			}
			v := "v" + strconv.Itoa(r.Intn(3))
			b.vars = append(b.vars, v)
			b.w("$" + v + ": " + b.typeRef())
			if r.Chance(1, 3) {
				b.w(" = ")
				b.value(1, true)
			}
			if r.Chance(1, 8) {
				b.directives()
			}
		}
		b.w(")")
	}
	b.directives()
	b.w(" ")
	b.selSet(0, root)
	b.w("\n")
}

func (b *blindGen) directives() {
	r := b.r
	if !r.Chance(1, 6) {
		return
	}
	n := 1 + r.Intn(2)
	for i := 0; i < n; i++ {
		b.w(" @" + rng.Pick(r, b.dirs))
		if r.Chance(2, 3) {
			b.arguments()
		}
	}
}

func (b *blindGen) arguments() {
	r := b.r
	n := 1 + r.Intn(2)
	b.w("(")
	for i := 0; i < n; i++ {
		if i > 0 {
			b.w(", ")
		}
		b.w(rng.Pick(r, b.args) + ": ")
		b.value(0, false)
	}
	b.w(")")
}

func (b *blindGen) value(depth int, konst bool) {
	r := b.r
	k := r.Intn(12)
	if depth > 3 && k >= 8 && k < 11 {
		k = 0
	}
	switch {
	case k < 2:
		b.w(rng.Pick(r, intPool))
	case k < 3:
		b.w(rng.Pick(r, floatPool))
	case k < 5:
		b.w(rng.Pick(r, stringPool))
	case k < 6:
		b.w(rng.Pick(r, []string{"true", "false", "null"}))
	case k < 7:
		b.w(rng.Pick(r, b.enums))
	case k < 8:
		b.w(rng.Pick(r, anyPool))
	case k < 9:
		n := r.Intn(3)
		b.w("[")
		for i := 0; i < n; i++ {
			if i > 0 {
				b.w(", ")
			}
			b.value(depth+1, konst)
		}
		b.w("]")
	case k < 11:
		n := r.Intn(3)
		b.w("{")
		for i := 0; i < n; i++ {
			if i > 0 {
				b.w(", ")
			}
			b.w(rng.Pick(r, b.fields[:len(b.fields)-7]) + ": ")
			b.value(depth+1, konst)
		}
		b.w("}")
	default:
		if konst {
			b.w("1")
			return
		}
		if len(b.vars) > 0 && r.Chance(2, 3) {
			b.w("$" + rng.Pick(r, b.vars))
		} else {
			b.w("$undef")
		}
	}
}

// selSet: cur is the type the selection set would have if everything so far were well typed
// (nil = unknown); it only biases the choice of names, nothing is checked.
func (b *blindGen) selSet(depth int, cur *TypeDef) {
	r := b.r
	n := 1 + r.Intn(3)
	b.w("{")
	for i := 0; i < n; i++ {
		b.budget--
		k := r.Intn(10)
		if depth > 5 || b.budget < 0 {
			k = 0
		}
		switch {
		case k < 6:
			b.w(" ")
			if r.Chance(1, 5) {
				b.w(rng.Pick(r, aliasPool[:4]) + ": ")
			}
			var next *TypeDef
			composite := false
			if cur != nil && len(cur.Fields) > 0 && r.Chance(2, 3) {
				f := rng.Pick(r, cur.Fields)
				b.w(f.Name)
				next = f.ret
				composite = next != nil && next.IsComposite()
				for _, a := range f.Args {
					if a.Required() && r.Chance(4, 5) {
						b.w("(" + a.Name + ": ")
						b.value(0, false)
						b.w(")")
						break
					}
				}
			} else {
				b.w(rng.Pick(r, b.fields))
				if r.Chance(1, 4) {
					b.arguments()
				}
			}
			b.directives()
			if (composite && r.Chance(9, 10) || next == nil && (r.Chance(2, 5) || depth == 0 && r.Bool())) && depth <= 5 && b.budget >= 0 {
				b.w(" ")
				b.selSet(depth+1, next)
			}
		case k < 8 && len(b.fragNames) > 0:
			b.w(" ..." + rng.Pick(r, b.fragNames))
			b.directives()
		default:
			b.w(" ...")
			next := cur
			if r.Chance(3, 4) {
				tn := b.typeName()
				if cur != nil && len(cur.overlap) > 0 && r.Bool() {
					tn = rng.Pick(r, cur.overlap).Name
				}
				b.w(" on " + tn)
				next = b.s.byName[tn]
			}
			b.directives()
			b.w(" ")
			b.selSet(depth+1, next)
		}
	}
	b.w(" }")
}
