package gen

import (
	"sort"
	"strconv"

	"verifharness/internal/rng"
)

// VarInfo describes one variable definition of a generated operation.
type VarInfo struct {
	Name       string
	Type       *TypeRef
	HasDefault bool
	Default    string // rendered literal
}

// OpInfo describes one operation of a generated document.
type OpInfo struct {
	Name string // "" = anonymous
	Kind string // query | mutation | subscription
	Vars []VarInfo
}

// Doc is a generated executable document with the facts a check needs about it.
type Doc struct {
	Text      string
	Ops       []OpInfo
	Fragments int
	Features  []string // sorted; includes "deviation:<id>" tags for spec-valid constructs the library is known to reject
}

func (d *Doc) Has(feature string) bool {
	i := sort.SearchStrings(d.Features, feature)
	return i < len(d.Features) && d.Features[i] == feature
}

// feature bits
const (
	ftVars uint64 = 1 << iota
	ftVarDefault
	ftVarInDirective
	ftVarNested
	ftFragment
	ftFragmentReuse
	ftInline
	ftInlineNoCond
	ftAbstractParent
	ftUnionParent
	ftTypename
	ftIntrospection
	ftAlias
	ftIdenticalRepeat
	ftExclusiveSameName
	ftDirective
	ftRepeatableTwice
	ftLocDefault
	ftBigNum
	ftCustomHuge
	ftMultiOp
	ftAnonymous
	ftMutation
	ftSubscription
	ftArgs
	ftVarDirective
	ftOpDirective
	ftFragDefDirective
	ftOneOfVar
	ftCustomScalarVar
	ftVarInFragDefDir
	ftNestedHuge
	ftTypenameShared
)

var featureNames = []string{"variables", "variable-default", "variable-in-directive-argument", "variable-nested-in-literal", "fragment-spread",
	"fragment-reused", "inline-fragment", "inline-fragment-without-type-condition", "selection-on-abstract-type", "selection-on-union", "__typename",
	"introspection", "alias", "identical-field-repeated", "same-response-name-on-exclusive-objects", "directive", "deviation:R8a-repeatable-directive-twice",
	"deviation:R8e-location-default-value", "deviation:R8d-integer-beyond-int64-for-Float-or-ID", "custom-scalar-literal-not-convertible(R15)", "several-operations",
	"anonymous-operation", "mutation", "subscription", "arguments", "directive-on-variable-definition", "directive-on-operation", "directive-on-fragment-definition",
	"variable-in-oneOf-field", "variable-inside-custom-scalar-literal",
	"deviation:N1-variable-in-fragment-definition-directive", "deviation:N2-unconvertible-custom-scalar-literal-inside-input-object-literal",
	"deviation:N3-__typename-shares-response-name-with-String!-field"}

type varDecl struct {
	name    string
	typ     *TypeRef
	def     string
	hasDef  bool // a non-null default value
	anyDef  bool
	hugeDef bool   // the default contains a custom-scalar literal beyond int64/float64
	dirs    string // rendered directives of the definition (same in every operation)
}

type fragInfo struct {
	name    string
	cond    *TypeDef
	text    []byte
	used    uint64 // variables used (transitively)
	ic      int    // introspection list depth at the creation site (-1: not inside introspection)
	noReuse bool
}

type respEntry struct {
	parent *TypeDef
	fname  string
	args   string
	shape  string
}

type opText struct {
	info OpInfo
	body []byte
	used uint64
	dirs string
}

type docGen struct {
	r      *rng.R
	s      *Schema
	lit    litGen
	size   int
	budget int
	maxDep int

	vars         []*varDecl
	frags        []*fragInfo
	ops          []*opText
	resp         map[string][]respEntry
	aliasN       int
	used         uint64 // variables used by the container (operation / fragment) under construction
	feats        uint64
	inSub        bool // generating the root selection of a subscription
	extra        [][]byte
	pendingFrags int
	forceKind    string
	subField     *FieldDef // the root field of the subscription under construction
	noDev        bool      // avoid the spec-valid constructs the library is known to reject (DocOptions.NoDeviations)

	// fault injection (docfault.go)
	fs    []*faultState // the faults being injected (usually one)
	cur   *faultState   // the one a hook is currently offering a site to
	fk    int           // cur.fk
	fmode int           // 0 none, 1 count opportunities, 2 inject
}

var aliasPool = []string{"a", "b", "x", "y", "item", "first", "other", "n1", "res", "it"}
var varNamePool = []string{"v", "id", "first", "n", "input", "flag", "x", "after", "where", "q", "val", "opt"}
var opNamePool = []string{"GetThing", "Q", "Main", "Fetch", "Op", "List", "Load", "Run", "Sync", "Watch"}
var fragNamePool = []string{"F", "Parts", "Details", "Core", "Bits", "Frag", "Common", "More"}

func newDocGen(r *rng.R, s *Schema, size int) *docGen {
	if !s.finalized {
		s.finalize()
	}
	if size < 0 {
		size = 0
	}
	if size > 200 {
		size = 200
	}
	g := &docGen{r: r, s: s, size: size}
	g.lit = litGen{r: r, s: s, bigNum: true}
	g.lit.varFn = g.useVar
	g.budget = 3 + 2*size
	g.maxDep = 2 + size/4
	if g.maxDep > 7 {
		g.maxDep = 7
	}
	g.resp = make(map[string][]respEntry, 16)
	return g
}

// GenDocument generates an executable document that is valid by construction w.r.t. s.
func GenDocument(r *rng.R, s *Schema, size int) string { return GenDoc(r, s, size).Text }

// GenDoc is GenDocument with the operation/variable table and the feature list.
func GenDoc(r *rng.R, s *Schema, size int) *Doc {
	g := newDocGen(r, s, size)
	g.generate()
	return g.finish()
}

// DocOptions tunes GenDocWith.
type DocOptions struct {
	// NoDeviations: do not emit the spec-valid constructs that the unrepaired library is known to
	// reject (DESIGN §7 R8a repeatable directive twice, R8d integers beyond int64 for Float/ID,
	// R8e nullable variable at a non-null location with a default).
	NoDeviations bool
}

func GenDocWith(r *rng.R, s *Schema, size int, opt DocOptions) *Doc {
	g := newDocGen(r, s, size)
	if opt.NoDeviations {
		g.noDev = true
		g.lit.bigNum = false
		g.lit.noNestedHuge = true
	}
	g.generate()
	return g.finish()
}

func (g *docGen) generate() {
	r := g.r
	nOps := 1
	if g.size >= 2 && r.Chance(1, 4) {
		nOps = 2 + r.Intn(2)
		g.feats |= ftMultiOp
	}
	usedNames := map[string]bool{}
	for i := 0; i < nOps; i++ {
		kind := "query"
		switch k := r.Intn(10); {
		case k < 2 && g.s.Mutation != "":
			kind = "mutation"
			g.feats |= ftMutation
		case k < 4 && g.s.Subscription != "":
			kind = "subscription"
			g.feats |= ftSubscription
		}
		if i == 0 && g.forceKind != "" && g.s.Root(g.forceKind) != nil {
			kind = g.forceKind
		}
		name := ""
		if nOps > 1 || g.fmode != 0 && g.forceNamed() || r.Chance(3, 5) {
			name = rng.Pick(r, opNamePool)
			for usedNames[name] {
				name += strconv.Itoa(len(usedNames))
			}
			usedNames[name] = true
		} else {
			g.feats |= ftAnonymous
		}
		g.operation(kind, name, nOps)
	}
}

func (g *docGen) operation(kind, name string, nOps int) {
	root := g.s.Root(kind)
	if root == nil {
		kind = "query"
		root = g.s.Root(kind)
	}
	op := &opText{info: OpInfo{Name: name, Kind: kind}}
	saved, savedUsed := g.lit.b, g.used
	g.lit.b = make([]byte, 0, 256)
	g.used = 0
	share := g.budget / (nOps - len(g.ops))
	if share < 1 {
		share = 1
	}
	rest := g.budget - share
	g.budget = share
	// directives of the operation are generated first (they may use variables)
	loc := "QUERY"
	if kind == "mutation" {
		loc = "MUTATION"
	} else if kind == "subscription" {
		loc = "SUBSCRIPTION"
	}
	n0 := len(g.lit.b)
	g.dirs(loc, false)
	if len(g.lit.b) > n0 {
		g.feats |= ftOpDirective
	}
	op.dirs = string(g.lit.b[n0:])
	g.lit.b = g.lit.b[:n0]
	if kind == "subscription" {
		g.subscriptionRoot(root)
	} else {
		g.selSet(root, 0, -1)
	}
	if g.fmode != 0 {
		g.eachFault(siteOp, func() { g.opFault(op) })
	}
	op.body = g.lit.b
	op.used = g.used
	g.lit.b, g.used = saved, savedUsed
	if g.budget > 0 {
		rest += g.budget
	}
	g.budget = rest
	g.ops = append(g.ops, op)
}

// finish assembles the text: operations and fragments in a random interleaving.
func (g *docGen) finish() *Doc {
	r := g.r
	d := &Doc{Fragments: len(g.frags)}
	var defs [][]byte
	for _, op := range g.ops {
		var b []byte
		short := op.info.Name == "" && op.info.Kind == "query" && op.used == 0 && op.dirs == "" && r.Bool()
		if g.fmode != 0 && g.hasSite(siteOp) {
			short = false
		}
		if !short {
			b = append(b, op.info.Kind...)
			if op.info.Name != "" {
				b = append(b, ' ')
				b = append(b, op.info.Name...)
			}
			if op.used != 0 {
				b = append(b, '(')
				first := true
				// declaration order: index order, sometimes reversed
				idx := make([]int, 0, 8)
				for i := range g.vars {
					if op.used>>uint(i)&1 == 1 {
						idx = append(idx, i)
					}
				}
				if r.Chance(1, 4) {
					for i, j := 0, len(idx)-1; i < j; i, j = i+1, j-1 {
						idx[i], idx[j] = idx[j], idx[i]
					}
				}
				for _, i := range idx {
					v := g.vars[i]
					if !first {
						b = append(b, ", "...)
					}
					first = false
					b = append(b, '$')
					b = append(b, v.name...)
					b = append(b, ": "...)
					b = append(b, v.typ.String()...)
					if v.anyDef {
						b = append(b, " = "...)
						b = append(b, v.def...)
					}
					b = append(b, v.dirs...)
					op.info.Vars = append(op.info.Vars, VarInfo{Name: v.name, Type: v.typ, HasDefault: v.anyDef, Default: v.def})
				}
				if g.fmode != 0 {
					g.eachFault(siteOp, func() { b = g.opVarFault(op, b) })
				}
				b = append(b, ')')
			} else {
				if g.fmode != 0 {
					opened := false
					g.eachFault(siteOp, func() {
						n := len(b)
						if opened {
							b = b[:len(b)-1] // reopen the list written by an earlier fault
							if x := g.opVarFault(op, b); len(x) > len(b) {
								b = x
							}
							b = append(b, ')')
							return
						}
						b = g.opVarFaultNoVars(op, b)
						opened = len(b) > n
					})
				}
			}
			b = append(b, op.dirs...)
			b = append(b, ' ')
		}
		b = append(b, op.body...)
		b = append(b, '\n')
		defs = append(defs, b)
		d.Ops = append(d.Ops, op.info)
	}
	for _, f := range g.frags {
		defs = append(defs, f.text)
	}
	defs = append(defs, g.extra...)
	if len(defs) > 1 && r.Chance(1, 2) {
		for i := len(defs) - 1; i > 0; i-- {
			j := r.Intn(i + 1)
			defs[i], defs[j] = defs[j], defs[i]
		}
		// Ops keeps generation order; the text order is free.
	}
	n := 0
	for _, x := range defs {
		n += len(x)
	}
	out := make([]byte, 0, n)
	for _, x := range defs {
		out = append(out, x...)
	}
	d.Text = string(out)
	if len(g.vars) > 0 {
		g.feats |= ftVars
	}
	if g.lit.hitBigNum {
		g.feats |= ftBigNum
	}
	if g.lit.hitCustom {
		g.feats |= ftCustomHuge
	}
	if g.lit.hitNestedVar {
		g.feats |= ftVarNested
	}
	if g.lit.hitCustomVar {
		g.feats |= ftCustomScalarVar
	}
	if g.lit.hitNestedHuge {
		g.feats |= ftNestedHuge
	}
	for i, n := range featureNames {
		if g.feats>>uint(i)&1 == 1 {
			d.Features = append(d.Features, n)
		}
	}
	sort.Strings(d.Features)
	return d
}

// ---------------------------------------------------------------- selections

func (g *docGen) selSet(t *TypeDef, depth, ic int) {
	r := g.r
	g.lit.b = append(g.lit.b, '{')
	n := 1 + r.Intn(3)
	if depth == 0 {
		n += r.Intn(2 + g.size/4)
	}
	emitted := 0
	for i := 0; i < n; i++ {
		if g.budget <= 0 && emitted > 0 {
			break
		}
		g.budget--
		if g.selection(t, depth, ic) {
			emitted++
		}
	}
	if emitted == 0 {
		g.lit.b = append(g.lit.b, " __typename"...)
		g.note("__typename", t, "__typename", "", "!String")
		g.feats |= ftTypename
	}
	if g.fmode != 0 {
		g.eachFault(siteSel, func() { g.selFault(t, depth, ic) })
	}
	g.lit.b = append(g.lit.b, " }"...)
	switch t.Kind {
	case Interface:
		g.feats |= ftAbstractParent
	case Union:
		g.feats |= ftAbstractParent | ftUnionParent
	}
}

func (g *docGen) note(rn string, parent *TypeDef, fname, args, shape string) {
	g.resp[rn] = append(g.resp[rn], respEntry{parent, fname, args, shape})
}

// compatible: may a field (parent.fname with args, of response shape) use response name rn?
// Global invariant (sufficient for FieldsInSetCanMerge in every scope): all fields with one
// response name have the same shape, and the same name and arguments unless their parents are
// two different object types.
func (g *docGen) compatible(rn string, parent *TypeDef, fname, args, shape string) (ok, exclusive bool) {
	for _, e := range g.resp[rn] {
		if e.shape != shape {
			return false, false
		}
		if parent.Kind == Object && e.parent.Kind == Object && parent != e.parent {
			if e.fname != fname || e.args != args {
				exclusive = true
				if (e.fname == "__typename") != (fname == "__typename") {
					// spec: __typename is String!; the library types it String (deviation N3)
					if g.noDev {
						return false, false
					}
					g.feats |= ftTypenameShared
				}
			}
			continue
		}
		if e.fname != fname || e.args != args {
			return false, false
		}
	}
	return true, exclusive
}

var introListFields = map[string]bool{"fields": true, "interfaces": true, "possibleTypes": true, "inputFields": true}

// selection emits one selection for parent type t; false if nothing was emitted.
func (g *docGen) selection(t *TypeDef, depth, ic int) bool {
	r := g.r
	k := r.Intn(100)
	deep := depth >= g.maxDep
	switch {
	case k < 12 && !deep && g.budget > 0:
		return g.inlineFragment(t, depth, ic)
	case k < 24 && !deep && g.budget > 0:
		return g.spread(t, depth, ic)
	}
	if t.Kind == Union || len(t.Fields) == 0 || r.Chance(1, 10) {
		if t.Kind == Union && !deep && g.budget > 0 && r.Chance(2, 3) {
			if r.Bool() {
				return g.inlineFragment(t, depth, ic)
			}
			return g.spread(t, depth, ic)
		}
		return g.typename(t)
	}
	// introspection entry points on the query root
	if ic < 0 && t.Name == g.s.Query && !deep && r.Chance(1, 8) {
		return g.introspectionRoot(t, depth)
	}
	var f *FieldDef
	for try := 0; try < 4; try++ {
		c := rng.Pick(r, t.Fields)
		if deep && c.ret != nil && c.ret.IsComposite() {
			continue
		}
		if ic >= 0 && introListFields[c.Name] && ic+1 >= 3 {
			continue
		}
		f = c
		break
	}
	if f == nil {
		return g.typename(t)
	}
	return g.field(t, f, depth, ic, 0)
}

func (g *docGen) typename(t *TypeDef) bool {
	r := g.r
	rn := "__typename"
	if r.Chance(1, 8) {
		a := rng.Pick(r, aliasPool)
		if ok, _ := g.compatible(a, t, "__typename", "", "!String"); ok {
			rn = a
			g.lit.b = append(g.lit.b, ' ')
			g.lit.b = append(g.lit.b, a...)
			g.lit.b = append(g.lit.b, ':')
			g.feats |= ftAlias
		}
	}
	g.lit.b = append(g.lit.b, " __typename"...)
	g.note(rn, t, "__typename", "", "!String")
	if !g.inSub {
		g.dirs("FIELD", false)
	}
	g.feats |= ftTypename
	return true
}

const (
	tamNone = iota
	tamDropRequiredArg
	tamUnknownArg
	tamDupArg
	tamNoSubselection
	tamLeafSubselection
	tamFreshAlias = 1 << 8 // flag: always use a fresh alias
)

// field emits `alias: name(args) @dirs { … }` for field f of parent t.
func (g *docGen) field(t *TypeDef, f *FieldDef, depth, ic int, tam int) bool {
	r := g.r
	// arguments are rendered first (the response-name decision depends on them)
	args := ""
	if len(f.Args) > 0 || tam&0xff == tamUnknownArg {
		saved := g.lit.b
		g.lit.b = make([]byte, 0, 64)
		g.args(f.Args, tam&0xff)
		args = string(g.lit.b)
		g.lit.b = saved
		if args != "" {
			g.feats |= ftArgs
		}
	}
	rn := f.Name
	aliased := false
	ok, excl := g.compatible(rn, t, f.Name, args, f.shape)
	if !ok || tam&tamFreshAlias != 0 || r.Chance(1, 7) {
		aliased = true
		rn = rng.Pick(r, aliasPool)
		ok, excl = g.compatible(rn, t, f.Name, args, f.shape)
		if !ok || tam&tamFreshAlias != 0 {
			g.aliasN++
			rn = "z" + strconv.Itoa(g.aliasN)
			excl = false
		}
	}
	if excl {
		g.feats |= ftExclusiveSameName
	}
	g.note(rn, t, f.Name, args, f.shape)
	start := len(g.lit.b)
	g.lit.b = append(g.lit.b, ' ')
	if aliased {
		g.lit.b = append(g.lit.b, rn...)
		g.lit.b = append(g.lit.b, ": "...)
		g.feats |= ftAlias
	}
	g.lit.b = append(g.lit.b, f.Name...)
	g.lit.b = append(g.lit.b, args...)
	head := len(g.lit.b)
	if !g.inSub {
		g.dirs("FIELD", false)
	}
	composite := f.ret != nil && f.ret.IsComposite()
	sub := func() {
		nic := ic
		if ic >= 0 && introListFields[f.Name] {
			nic = ic + 1
		}
		if composite {
			g.lit.b = append(g.lit.b, ' ')
			g.selSet(f.ret, depth+1, nic)
		}
	}
	switch tam & 0xff {
	case tamNoSubselection:
	case tamLeafSubselection:
		g.lit.b = append(g.lit.b, " { __typename }"...)
	default:
		sub()
	}
	// the same field once more with the same response name and arguments: an allowed overlap
	// whose sub-selections are merged
	if tam == 0 && !g.inSub && g.budget > 0 && r.Chance(1, 14) {
		g.budget--
		head0 := string(g.lit.b[start:head])
		g.lit.b = append(g.lit.b, head0...)
		g.dirs("FIELD", false)
		sub()
		g.feats |= ftIdenticalRepeat
	}
	return true
}

// args renders `(a: v, b: v)` for the required arguments and some of the optional ones.
func (g *docGen) args(defs []*ArgDef, tam int) {
	r := g.r
	b0 := len(g.lit.b)
	g.lit.b = append(g.lit.b, '(')
	n := 0
	var drop *ArgDef
	if tam == tamDropRequiredArg {
		var req []*ArgDef
		for _, a := range defs {
			if a.Required() {
				req = append(req, a)
			}
		}
		if len(req) > 0 {
			drop = rng.Pick(r, req)
		}
	}
	nd := len(defs)
	start, step := 0, 1
	if nd > 1 && r.Chance(1, 4) {
		start, step = nd-1, -1
	}
	var last []byte
	for i, k := 0, start; i < nd; i, k = i+1, k+step {
		a := defs[k]
		if a == drop {
			continue
		}
		if !a.Required() && !r.Chance(2, 5) && !(tam == tamDupArg && n == 0 && i == nd-1) {
			continue
		}
		if n > 0 {
			g.lit.b = append(g.lit.b, ", "...)
		}
		n++
		p := len(g.lit.b)
		g.lit.b = append(g.lit.b, a.Name...)
		g.lit.b = append(g.lit.b, ": "...)
		fl := uint8(0)
		if a.HasDefault {
			fl |= flLocDefault
		}
		g.lit.value(a.Type, 0, fl)
		last = g.lit.b[p:]
	}
	if tam == tamDupArg && n > 0 {
		cp := append([]byte(nil), last...)
		g.lit.b = append(g.lit.b, ", "...)
		g.lit.b = append(g.lit.b, cp...)
	}
	if tam == tamUnknownArg {
		if n > 0 {
			g.lit.b = append(g.lit.b, ", "...)
		}
		n++
		g.lit.b = append(g.lit.b, "zzUnknownArg: 1"...)
	}
	if n == 0 {
		g.lit.b = g.lit.b[:b0]
		return
	}
	g.lit.b = append(g.lit.b, ')')
}

func (g *docGen) introspectionRoot(t *TypeDef, depth int) bool {
	r := g.r
	name := "__schema"
	if r.Bool() {
		name = "__type"
	}
	f := g.s.introField(name)
	g.feats |= ftIntrospection
	return g.field(t, f, depth, 0, 0)
}

// introField returns the synthetic definition of __schema / __type (fields of the query root).
func (s *Schema) introField(name string) *FieldDef {
	if s.introFields == nil {
		a := &FieldDef{Name: "__schema", Type: NonNullT(Named("__Schema"))}
		b := &FieldDef{Name: "__type", Type: Named("__Type"), Args: []*ArgDef{{Name: "name", Type: NonNullT(Named("String"))}}}
		for _, f := range []*FieldDef{a, b} {
			f.ret = s.byName[f.Type.Base()]
			f.shape = shapeKey(f.Type, f.ret)
			for _, x := range f.Args {
				x.def = s.byName[x.Type.Base()]
			}
		}
		s.introFields = []*FieldDef{a, b}
	}
	if name == "__schema" {
		return s.introFields[0]
	}
	return s.introFields[1]
}

func (g *docGen) inlineFragment(t *TypeDef, depth, ic int) bool {
	r := g.r
	cond := t
	g.lit.b = append(g.lit.b, " ..."...)
	if len(t.overlap) > 0 && r.Chance(4, 5) {
		cond = rng.Pick(r, t.overlap)
		g.lit.b = append(g.lit.b, " on "...)
		g.lit.b = append(g.lit.b, cond.Name...)
	} else {
		g.feats |= ftInlineNoCond
	}
	if !g.inSub {
		g.dirs("INLINE_FRAGMENT", false)
	}
	g.lit.b = append(g.lit.b, ' ')
	g.feats |= ftInline
	g.selSet(cond, depth+1, ic)
	return true
}

func (g *docGen) fragName() string {
	n := rng.Pick(g.r, fragNamePool)
	return n + strconv.Itoa(len(g.frags)+len(g.extra)+g.pendingFrags)
}

// spread emits `...Name` of an existing compatible fragment or of a new one.
func (g *docGen) spread(t *TypeDef, depth, ic int) bool {
	r := g.r
	if len(t.overlap) == 0 {
		return false
	}
	var f *fragInfo
	if len(g.frags) > 0 && r.Chance(1, 2) {
		c := rng.Pick(r, g.frags)
		if !c.noReuse && overlaps(t, c.cond) && (c.ic < 0 && ic < 0 || c.ic >= 0 && ic >= 0 && ic <= c.ic) {
			f = c
			g.feats |= ftFragmentReuse
		}
	}
	if f == nil {
		f = g.newFragment(rng.Pick(r, t.overlap), depth, ic)
	}
	g.lit.b = append(g.lit.b, " ..."...)
	g.lit.b = append(g.lit.b, f.name...)
	g.used |= f.used
	if !g.inSub {
		g.dirs("FRAGMENT_SPREAD", false)
	}
	g.feats |= ftFragment
	return true
}

func overlaps(a, b *TypeDef) bool {
	for w := range a.poss {
		if a.poss[w]&b.poss[w] != 0 {
			return true
		}
	}
	return false
}

// newFragment generates `fragment Name on cond @dirs { … }` (completed before it is returned, so
// the spread graph is acyclic by construction).
func (g *docGen) newFragment(cond *TypeDef, depth, ic int) *fragInfo {
	g.pendingFrags++
	name := g.fragName()
	saved, savedUsed, savedSub := g.lit.b, g.used, g.inSub
	g.lit.b = make([]byte, 0, 128)
	g.used = 0
	g.lit.b = append(g.lit.b, "fragment "...)
	g.lit.b = append(g.lit.b, name...)
	g.lit.b = append(g.lit.b, " on "...)
	g.lit.b = append(g.lit.b, cond.Name...)
	n0 := len(g.lit.b)
	if !savedSub {
		nv, u := len(g.vars), g.used
		g.dirs("FRAGMENT_DEFINITION", g.noDev)
		if len(g.vars) != nv || g.used != u {
			g.feats |= ftVarInFragDefDir
		}
	}
	if len(g.lit.b) > n0 {
		g.feats |= ftFragDefDirective
	}
	g.lit.b = append(g.lit.b, ' ')
	if savedSub {
		g.subscriptionRootBody(cond)
	} else {
		g.selSet(cond, depth+1, ic)
	}
	g.lit.b = append(g.lit.b, '\n')
	f := &fragInfo{name: name, cond: cond, text: g.lit.b, used: g.used, ic: ic, noReuse: savedSub}
	g.lit.b, g.used, g.inSub = saved, savedUsed, savedSub
	g.pendingFrags--
	g.frags = append(g.frags, f)
	return f
}

// subscriptionRoot: exactly one (non-introspection) root field, possibly inside an inline
// fragment or a fragment on the subscription type.
func (g *docGen) subscriptionRoot(root *TypeDef) {
	r := g.r
	g.inSub = true
	switch k := r.Intn(10); {
	case k < 7:
		g.subscriptionRootBody(root)
	case k < 9:
		g.lit.b = append(g.lit.b, "{ ..."...)
		if r.Bool() {
			g.lit.b = append(g.lit.b, " on "...)
			g.lit.b = append(g.lit.b, root.Name...)
		} else {
			g.feats |= ftInlineNoCond
		}
		g.lit.b = append(g.lit.b, ' ')
		g.feats |= ftInline
		g.subscriptionRootBody(root)
		g.lit.b = append(g.lit.b, " }"...)
	default:
		f := g.newFragment(root, 0, -1)
		g.lit.b = append(g.lit.b, "{ ..."...)
		g.lit.b = append(g.lit.b, f.name...)
		g.lit.b = append(g.lit.b, " }"...)
		g.used |= f.used
		g.feats |= ftFragment
	}
	g.inSub = false
}

func (g *docGen) subscriptionRootBody(root *TypeDef) {
	g.lit.b = append(g.lit.b, '{')
	g.inSub = true
	if len(root.Fields) == 0 {
		g.lit.b = append(g.lit.b, " __typename"...) // cannot happen for generated schemas
	} else {
		f := rng.Pick(g.r, root.Fields)
		g.subField = f
		g.budget--
		// below the root field everything is ordinary
		g.fieldSub(root, f)
	}
	if g.fmode != 0 {
		g.eachFault(siteSub, func() { g.subFault(root) })
	}
	g.lit.b = append(g.lit.b, " }"...)
}

// fieldSub emits the single subscription root field (no @skip/@include on it; its sub-selection is free).
func (g *docGen) fieldSub(root *TypeDef, f *FieldDef) {
	args := ""
	if len(f.Args) > 0 {
		saved := g.lit.b
		g.lit.b = make([]byte, 0, 64)
		g.args(f.Args, 0)
		args = string(g.lit.b)
		g.lit.b = saved
	}
	rn := f.Name
	if ok, _ := g.compatible(rn, root, f.Name, args, f.shape); !ok {
		g.aliasN++
		rn = "z" + strconv.Itoa(g.aliasN)
		g.lit.b = append(g.lit.b, ' ')
		g.lit.b = append(g.lit.b, rn...)
		g.lit.b = append(g.lit.b, ':')
	}
	g.note(rn, root, f.Name, args, f.shape)
	g.lit.b = append(g.lit.b, ' ')
	g.lit.b = append(g.lit.b, f.Name...)
	g.lit.b = append(g.lit.b, args...)
	if f.ret != nil && f.ret.IsComposite() {
		g.lit.b = append(g.lit.b, ' ')
		g.inSub = false
		g.selSet(f.ret, 1, -1)
		g.inSub = true
	}
}

// ---------------------------------------------------------------- directives

// dirs emits directive applications legal at loc. Non-repeatable directives at most once.
func (g *docGen) dirs(loc string, constOnly bool) {
	r := g.r
	cands := g.s.dirsAt[loc]
	if len(cands) == 0 || !r.Chance(1, 6) {
		return
	}
	n := 1
	if r.Chance(1, 4) {
		n = 2
	}
	var used [2]*DirectiveDef
	for i := 0; i < n; i++ {
		d := rng.Pick(r, cands)
		if d.Name == "defer" {
			continue
		}
		if i == 1 && used[0] == d {
			if !d.Repeatable || g.noDev {
				continue
			}
			g.feats |= ftRepeatableTwice
		}
		used[i] = d
		g.directive(d, constOnly)
	}
}

func (g *docGen) directive(d *DirectiveDef, constOnly bool) {
	g.lit.b = append(g.lit.b, " @"...)
	g.lit.b = append(g.lit.b, d.Name...)
	if len(d.Args) > 0 {
		nv := len(g.vars)
		u := g.used
		if constOnly {
			saved := g.lit.varFn
			g.lit.varFn = nil
			g.args(d.Args, 0)
			g.lit.varFn = saved
		} else {
			g.args(d.Args, 0)
		}
		if len(g.vars) > nv || g.used != u {
			g.feats |= ftVarInDirective
		}
	}
	g.feats |= ftDirective
}

// ---------------------------------------------------------------- variables

// varAllowed: may a variable of type vt (with/without a non-null default) be used where lt is expected?
func varAllowed(vt *TypeRef, hasDef bool, lt *TypeRef, locDefault bool) bool {
	if lt.NonNull && !vt.NonNull {
		if !hasDef && !locDefault {
			return false
		}
		return typeCompatible(vt, NullableT(lt))
	}
	return typeCompatible(vt, lt)
}

// typeCompatible is AreTypesCompatible of the specification (§5.8.5).
func typeCompatible(vt, lt *TypeRef) bool {
	if lt.NonNull {
		if !vt.NonNull {
			return false
		}
		a, b := *vt, *lt
		a.NonNull, b.NonNull = false, false
		return typeCompatible(&a, &b)
	}
	if vt.NonNull {
		a := *vt
		a.NonNull = false
		return typeCompatible(&a, lt)
	}
	if lt.Elem != nil {
		return vt.Elem != nil && typeCompatible(vt.Elem, lt.Elem)
	}
	if vt.Elem != nil {
		return false
	}
	return vt.Name == lt.Name
}

// useVar is litGen.varFn: writes `$name` for an existing or a new variable usable at (lt, fl).
func (g *docGen) useVar(lt *TypeRef, fl uint8) bool {
	r := g.r
	locDef := fl&flLocDefault != 0
	oneOf := fl&flOneOf != 0
	if g.fmode != 0 && g.anyFault(siteVar, func() bool { return g.varFault(lt, fl) }) {
		return true
	}
	var v *varDecl
	idx := -1
	if len(g.vars) > 0 && r.Chance(1, 2) {
		i := r.Intn(len(g.vars))
		c := g.vars[i]
		if varAllowed(c.typ, c.hasDef, lt, false) && (!oneOf || c.typ.NonNull) {
			v, idx = c, i
		}
	}
	if v == nil {
		if len(g.vars) >= 60 {
			return false
		}
		v = g.newVar(lt, locDef, oneOf)
		idx = len(g.vars)
		g.vars = append(g.vars, v)
	}
	g.lit.b = append(g.lit.b, '$')
	g.lit.b = append(g.lit.b, v.name...)
	g.used |= 1 << uint(idx)
	if v.hugeDef && g.lit.nest > 0 {
		g.lit.hitNestedHuge = true // the library evaluates the default while checking the enclosing object
	}
	if oneOf {
		g.feats |= ftOneOfVar
	}
	return true
}

func (g *docGen) newVar(lt *TypeRef, locDef, oneOf bool) *varDecl {
	r := g.r
	vt := lt.clone()
	// stricter at inner levels
	for x := vt.Elem; x != nil; x = x.Elem {
		if !x.NonNull && r.Chance(1, 4) {
			x.NonNull = true
		}
	}
	v := &varDecl{}
	wantDefault := r.Chance(1, 3)
	switch {
	case oneOf:
		vt.NonNull = true
	case lt.NonNull:
		switch k := r.Intn(20); {
		case k < 4:
			vt.NonNull = false // allowed because the variable has a non-null default
			wantDefault = true
		case k < 6 && locDef && !g.noDev:
			vt.NonNull = false // allowed because the location has a default (library: R8e)
			wantDefault = false
			g.feats |= ftLocDefault
		}
	default:
		if r.Chance(1, 3) {
			vt.NonNull = true
		}
	}
	v.typ = vt
	name := rng.Pick(r, varNamePool)
	for _, o := range g.vars {
		if o.name == name {
			name = name + strconv.Itoa(len(g.vars))
			break
		}
	}
	v.name = name
	if wantDefault {
		saved, savedFn, savedFault := g.lit.b, g.lit.varFn, g.lit.faultFn
		g.lit.b = make([]byte, 0, 32)
		g.lit.varFn = nil
		fl := flConst
		if !lt.NonNull || !vt.NonNull {
			// the default is what makes a nullable variable usable in a non-null position
		}
		if lt.NonNull && !vt.NonNull {
			fl |= flNoNull
		}
		hit := g.lit.hitCustom
		g.lit.hitCustom = false
		savedNest := g.lit.nest
		if g.noDev {
			g.lit.nest++ // with noNestedHuge: no unconvertible literal in a default (deviation N2)
		}
		g.lit.value(vt, 1, fl)
		g.lit.nest = savedNest
		v.hugeDef = g.lit.hitCustom
		g.lit.hitCustom = hit || v.hugeDef
		v.def = string(g.lit.b)
		g.lit.b, g.lit.varFn, g.lit.faultFn = saved, savedFn, savedFault
		v.anyDef = true
		v.hasDef = v.def != "null"
		g.feats |= ftVarDefault
	}
	// directives of the variable definition (const arguments)
	saved := g.lit.b
	g.lit.b = make([]byte, 0, 16)
	g.dirs("VARIABLE_DEFINITION", true)
	if len(g.lit.b) > 0 {
		v.dirs = string(g.lit.b)
		g.feats |= ftVarDirective
	}
	g.lit.b = saved
	return v
}
