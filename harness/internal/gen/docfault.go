package gen

import (
	"strconv"

	"verifharness/internal/rng"
)

// DocFault is a valid-by-construction document with ONE injected fault that the named
// validation rule should catch (other rules may fire as well for some variants).
type DocFault struct {
	Rule    string
	Variant string
	Doc     string
	Info    *Doc // operations / variables / features of the carrier document
}

const (
	siteSel = iota // a selection set (an extra, faulty selection is appended)
	siteVal        // a typed value position
	siteVar        // a position where a variable may be used
	siteOp         // an operation header
	siteDoc        // the document (a definition is appended)
	siteSub        // the root selection set of a subscription
)

type faultSpec struct {
	rule, variant string
	site          int
}

// fault variants; the index is docGen.fk
var docFaults = []faultSpec{
	{"", "", 0},
	{"FieldsOnCorrectType", "unknown-field", siteSel},
	{"FieldsOnCorrectType", "misspelt-field", siteSel},
	{"FieldsOnCorrectType", "field-on-union", siteSel},
	{"FieldsOnCorrectType", "implementer-field-on-interface", siteSel},
	{"ScalarLeafs", "leaf-with-selection", siteSel},
	{"ScalarLeafs", "composite-without-selection", siteSel},
	{"KnownArgumentNames", "unknown-argument-on-field", siteSel},
	{"KnownArgumentNames", "unknown-argument-on-directive", siteSel},
	{"ProvidedRequiredArguments", "missing-field-argument", siteSel},
	{"ProvidedRequiredArguments", "missing-directive-argument", siteSel},
	{"UniqueArgumentNames", "duplicate-field-argument", siteSel},
	{"UniqueArgumentNames", "duplicate-directive-argument", siteSel},
	{"KnownDirectives", "unknown-directive-on-field", siteSel},
	{"KnownDirectives", "unknown-directive-on-inline-fragment", siteSel},
	{"KnownDirectives", "misplaced-directive-on-field", siteSel},
	{"KnownDirectives", "misplaced-directive-on-inline-fragment", siteSel},
	{"KnownDirectives", "misplaced-directive-on-operation", siteOp},
	{"KnownDirectives", "misplaced-directive-on-variable-definition", siteOp},
	{"KnownDirectives", "misplaced-directive-on-fragment-definition", siteSel},
	{"UniqueDirectivesPerLocation", "repeated-directive-on-field", siteSel},
	{"UniqueDirectivesPerLocation", "repeated-directive-on-inline-fragment", siteSel},
	{"UniqueDirectivesPerLocation", "repeated-directive-on-operation", siteOp},
	{"KnownFragmentNames", "unknown-fragment", siteSel},
	{"PossibleFragmentSpreads", "impossible-inline-fragment", siteSel},
	{"PossibleFragmentSpreads", "impossible-fragment-spread", siteSel},
	{"KnownTypeNames", "unknown-type-inline-fragment", siteSel},
	{"KnownTypeNames", "unknown-type-fragment-definition", siteSel},
	{"KnownTypeNames", "unknown-type-variable", siteOp},
	{"FragmentsOnCompositeTypes", "inline-fragment-on-non-composite", siteSel},
	{"FragmentsOnCompositeTypes", "fragment-definition-on-non-composite", siteSel},
	{"NoFragmentCycles", "self-cycle", siteSel},
	{"NoFragmentCycles", "two-cycle", siteSel},
	{"NoFragmentCycles", "cycle-through-field", siteSel},
	{"NoFragmentCycles", "cycle-through-inline-fragment", siteSel},
	{"NoUnusedFragments", "unused-fragment", siteDoc},
	{"NoUnusedFragments", "unused-fragment-chain", siteDoc},
	{"OverlappingFieldsCanBeMerged", "different-fields", siteSel},
	{"OverlappingFieldsCanBeMerged", "differing-scalar-argument", siteSel},
	{"OverlappingFieldsCanBeMerged", "differing-list-argument", siteSel},
	{"OverlappingFieldsCanBeMerged", "argument-present-vs-absent", siteSel},
	{"OverlappingFieldsCanBeMerged", "conflicting-leaf-types", siteSel},
	{"OverlappingFieldsCanBeMerged", "conflicting-list-vs-named", siteSel},
	{"OverlappingFieldsCanBeMerged", "conflicting-nullability", siteSel},
	{"OverlappingFieldsCanBeMerged", "conflicting-leaf-vs-composite", siteSel},
	{"OverlappingFieldsCanBeMerged", "nested-different-fields", siteSel},
	{"OverlappingFieldsCanBeMerged", "different-fields-via-fragment", siteSel},
	{"SingleFieldSubscriptions", "two-root-fields", siteSub},
	{"SingleFieldSubscriptions", "two-aliases-of-one-field", siteSub},
	{"SingleFieldSubscriptions", "introspection-root-field", siteSub},
	{"SingleFieldSubscriptions", "second-field-via-inline-fragment", siteSub},
	{"MaxIntrospectionDepth", "depth-3-inline", siteSel},
	{"MaxIntrospectionDepth", "depth-3-via-type", siteSel},
	{"MaxIntrospectionDepth", "depth-3-via-fragments", siteSel},
	{"LoneAnonymousOperation", "anonymous-plus-named", siteDoc},
	{"LoneAnonymousOperation", "two-anonymous", siteDoc},
	{"UniqueOperationNames", "duplicate-operation-name", siteDoc},
	{"UniqueFragmentNames", "duplicate-fragment-name", siteDoc},
	{"KnownRootType", "operation-kind-without-root", siteDoc},
	{"NoUndefinedVariables", "undefined-variable", siteVar},
	{"NoUndefinedVariables", "undefined-variable-in-directive", siteSel},
	{"NoUndefinedVariables", "undefined-variable-in-fragment-definition-directive", siteSel},
	{"NoUnusedVariables", "unused-variable", siteOp},
	{"UniqueVariableNames", "duplicate-variable", siteOp},
	{"VariablesAreInputTypes", "variable-of-output-type", siteOp},
	{"VariablesInAllowedPosition", "nullable-variable-at-non-null", siteVar},
	{"VariablesInAllowedPosition", "different-named-type", siteVar},
	{"VariablesInAllowedPosition", "item-variable-at-list", siteVar},
	{"VariablesInAllowedPosition", "list-variable-with-nullable-items", siteVar},
	{"VariablesInAllowedPosition", "nullable-boolean-at-include", siteSel},
	{"ValuesOfCorrectType", "oneOf-nullable-variable", siteVar},
	{"ValuesOfCorrectType", "oneOf-nullable-variable-with-default", siteVar},
	{"ValuesOfCorrectType", "int-from-string", siteVal},
	{"ValuesOfCorrectType", "int-from-float", siteVal},
	{"ValuesOfCorrectType", "int-from-boolean", siteVal},
	{"ValuesOfCorrectType", "int-from-enum", siteVal},
	{"ValuesOfCorrectType", "int-out-of-32-bit", siteVal},
	{"ValuesOfCorrectType", "int-beyond-int64", siteVal},
	{"ValuesOfCorrectType", "int-literal-beyond-double-for-Float", siteVal},
	{"ValuesOfCorrectType", "int-from-object", siteVal},
	{"ValuesOfCorrectType", "int-from-list", siteVal},
	{"ValuesOfCorrectType", "float-from-string", siteVal},
	{"ValuesOfCorrectType", "float-from-boolean", siteVal},
	{"ValuesOfCorrectType", "string-from-int", siteVal},
	{"ValuesOfCorrectType", "string-from-enum", siteVal},
	{"ValuesOfCorrectType", "string-from-boolean", siteVal},
	{"ValuesOfCorrectType", "boolean-from-int", siteVal},
	{"ValuesOfCorrectType", "boolean-from-string", siteVal},
	{"ValuesOfCorrectType", "id-from-float", siteVal},
	{"ValuesOfCorrectType", "id-from-boolean", siteVal},
	{"ValuesOfCorrectType", "enum-unknown-value", siteVal},
	{"ValuesOfCorrectType", "enum-from-string", siteVal},
	{"ValuesOfCorrectType", "enum-from-int", siteVal},
	{"ValuesOfCorrectType", "enum-from-object", siteVal},
	{"ValuesOfCorrectType", "null-for-non-null", siteVal},
	{"ValuesOfCorrectType", "list-item-wrong", siteVal},
	{"ValuesOfCorrectType", "list-null-item", siteVal},
	{"ValuesOfCorrectType", "input-missing-required-field", siteVal},
	{"ValuesOfCorrectType", "input-unknown-field", siteVal},
	{"ValuesOfCorrectType", "input-from-scalar", siteVal},
	{"ValuesOfCorrectType", "oneOf-no-field", siteVal},
	{"ValuesOfCorrectType", "oneOf-two-fields", siteVal},
	{"ValuesOfCorrectType", "oneOf-null-field", siteVal},
	{"UniqueInputFieldNames", "duplicate-input-field", siteVal},
}

// DocRules: the validation rule names that have ≥ 1 injector.
var DocRules = func() []string {
	var out []string
	seen := map[string]bool{}
	for _, f := range docFaults[1:] {
		if !seen[f.rule] {
			seen[f.rule] = true
			out = append(out, f.rule)
		}
	}
	return out
}()

// DocFaultVariants lists "Rule/variant" for every injector.
func DocFaultVariants() []string {
	var out []string
	for _, f := range docFaults[1:] {
		out = append(out, f.rule+"/"+f.variant)
	}
	return out
}

var faultsByRule = func() map[string][]int {
	m := map[string][]int{}
	for i, f := range docFaults {
		if i > 0 {
			m[f.rule] = append(m[f.rule], i)
		}
	}
	return m
}()

func fkOf(variant string) int {
	for i, f := range docFaults {
		if f.variant == variant {
			return i
		}
	}
	return 0
}

type faultState struct {
	fk     int
	count  int
	target int
	done   bool
}

// InjectDocFault picks a rule uniformly, then one of its injectors; when the schema or the carrier
// document offers no site for it, another one is tried. The result names what was injected.
func InjectDocFault(r *rng.R, s *Schema, size int) DocFault {
	for try := 0; try < 40; try++ {
		rule := rng.Pick(r, DocRules)
		fk := rng.Pick(r, faultsByRule[rule])
		if f, ok := injectDocFaults(r, s, size, []int{fk}); ok {
			return f[0]
		}
	}
	// always possible
	f, _ := injectDocFaults(r, s, size, []int{fkOf("unused-fragment")})
	return f[0]
}

// InjectDocFaultVariant injects the given "Rule/variant"; ok=false if no site was found in a few tries.
func InjectDocFaultVariant(r *rng.R, s *Schema, size int, ruleVariant string) (DocFault, bool) {
	for i, f := range docFaults {
		if i > 0 && f.rule+"/"+f.variant == ruleVariant {
			for try := 0; try < 4; try++ {
				if d, ok := injectDocFaults(r, s, size, []int{i}); ok {
					return d[0], true
				}
			}
		}
	}
	return DocFault{}, false
}

// InjectDocFaults injects up to n (≥ 1) faults of different rules into one carrier document.
// Every returned entry describes one fault that was actually injected; all entries share Doc/Info.
// Faults injected later may land inside a selection added by an earlier one.
func InjectDocFaults(r *rng.R, s *Schema, size int, n int) []DocFault {
	if n < 1 {
		n = 1
	}
	for try := 0; try < 20; try++ {
		var fks []int
		seen := map[string]bool{}
		for len(fks) < n {
			rule := rng.Pick(r, DocRules)
			if seen[rule] {
				continue
			}
			seen[rule] = true
			fks = append(fks, rng.Pick(r, faultsByRule[rule]))
		}
		if f, ok := injectDocFaults(r, s, size, fks); ok {
			return f
		}
	}
	return []DocFault{InjectDocFault(r, s, size)}
}

func injectDocFaults(r *rng.R, s *Schema, size int, fks []int) ([]DocFault, bool) {
	seed := r.U64()
	mk := func(mode int, prev []*faultState) *docGen {
		g := newDocGen(rng.New(seed), s, size)
		g.fmode = mode
		for i, fk := range fks {
			st := &faultState{fk: fk}
			if prev != nil {
				if prev[i].count > 0 {
					st.target = r.Intn(prev[i].count)
				} else {
					st.done = true // no site: never offered
					st.target = -1
				}
			}
			g.fs = append(g.fs, st)
		}
		g.prepareFault()
		return g
	}
	// pass 1: count the opportunities of every fault
	g1 := mk(1, nil)
	g1.generate()
	d := g1.finish()
	g := g1
	needPass2 := false
	for _, st := range g1.fs {
		if docFaults[st.fk].site != siteDoc && st.count > 0 {
			needPass2 = true
		}
	}
	if needPass2 {
		// pass 2: same seed, inject each at a random one of its opportunities
		g = mk(2, g1.fs)
		g.generate()
		d = g.finish()
	}
	var out []DocFault
	for _, st := range g.fs {
		ok := st.done && st.target >= 0
		if docFaults[st.fk].site == siteDoc {
			g.cur, g.fk, g.fmode = st, st.fk, 2
			ok = g.docFault(d)
		}
		if ok {
			out = append(out, DocFault{Rule: docFaults[st.fk].rule, Variant: docFaults[st.fk].variant})
		}
	}
	if len(out) == 0 {
		return nil, false
	}
	for i := range out {
		out[i].Doc, out[i].Info = d.Text, d
	}
	return out, true
}

func (g *docGen) hasSite(site int) bool {
	for _, st := range g.fs {
		if docFaults[st.fk].site == site {
			return true
		}
	}
	return false
}

// eachFault offers a site to every pending fault of that site kind.
func (g *docGen) eachFault(site int, fn func()) {
	prev, prevFk := g.cur, g.fk
	for _, st := range g.fs {
		if st.done || docFaults[st.fk].site != site {
			continue
		}
		g.cur, g.fk = st, st.fk
		fn()
	}
	g.cur, g.fk = prev, prevFk
}

// anyFault is eachFault for hooks that replace what is being written: the first taker wins.
func (g *docGen) anyFault(site int, fn func() bool) bool {
	prev, prevFk := g.cur, g.fk
	defer func() { g.cur, g.fk = prev, prevFk }()
	for _, st := range g.fs {
		if st.done || docFaults[st.fk].site != site {
			continue
		}
		g.cur, g.fk = st, st.fk
		if fn() {
			return true
		}
	}
	return false
}

func (g *docGen) prepareFault() {
	g.noDev = true
	g.lit.noNestedHuge = true
	g.lit.bigNum = false // the carrier document stays free of known library deviations
	if g.hasSite(siteVal) {
		g.lit.faultFn = func(lt *TypeRef, def *TypeDef, fl uint8) bool {
			return g.anyFault(siteVal, func() bool { return g.valueFault(lt, def, fl) })
		}
	}
	if g.hasSite(siteSub) {
		g.forceKind = "subscription"
	}
	if g.hasSite(siteVar) {
		g.lit.varBoost = true
	}
}

func (g *docGen) forceNamed() bool {
	for _, st := range g.fs {
		v := docFaults[st.fk].variant
		if v == "duplicate-operation-name" || v == "anonymous-plus-named" {
			return true
		}
	}
	return false
}

// opp reports whether the current opportunity is the chosen one (of the fault being offered a site).
func (g *docGen) opp() bool {
	st := g.cur
	if g.fmode == 0 || st == nil || st.done {
		return false
	}
	st.count++
	if g.fmode == 2 && st.count-1 == st.target {
		st.done = true
		return true
	}
	return false
}

func (g *docGen) zz() string {
	g.aliasN++
	return "zz" + strconv.Itoa(g.aliasN)
}

func (g *docGen) w(s string) { g.lit.b = append(g.lit.b, s...) }

// simpleLeaf: leaf fields of t without required arguments.
func simpleLeafs(t *TypeDef) []*FieldDef {
	var out []*FieldDef
	for _, f := range t.Fields {
		if f.ret == nil || !f.ret.IsLeaf() {
			continue
		}
		req := false
		for _, a := range f.Args {
			req = req || a.Required()
		}
		if !req {
			out = append(out, f)
		}
	}
	return out
}

func (g *docGen) misplacedDirective(loc string) *DirectiveDef {
	var c []*DirectiveDef
	for _, d := range g.s.dirByName {
		if !d.Has(loc) {
			c = append(c, d)
		}
	}
	if len(c) == 0 {
		return nil
	}
	// deterministic order
	for i := 1; i < len(c); i++ {
		for j := i; j > 0 && c[j-1].Name > c[j].Name; j-- {
			c[j-1], c[j] = c[j], c[j-1]
		}
	}
	return rng.Pick(g.r, c)
}

// constDirective renders ` @name(required args)` with const values.
func (g *docGen) constDirective(d *DirectiveDef) {
	saved := g.lit.varFn
	savedF := g.lit.faultFn
	g.lit.varFn, g.lit.faultFn = nil, nil
	g.w(" @" + d.Name)
	var req []*ArgDef
	for _, a := range d.Args {
		if a.Required() {
			req = append(req, a)
		}
	}
	if len(req) > 0 {
		g.args(req, 0)
	}
	g.lit.varFn, g.lit.faultFn = saved, savedF
}

func (g *docGen) extraFragment(name, cond, body string) {
	g.extra = append(g.extra, []byte("fragment "+name+" on "+cond+" "+body+"\n"))
}

// selFault appends one faulty selection to the selection set of t (when applicable and chosen).
func (g *docGen) selFault(t *TypeDef, depth, ic int) {
	if g.cur == nil || g.cur.done || docFaults[g.fk].site != siteSel || g.inSub {
		return
	}
	r, s := g.r, g.s
	v := docFaults[g.fk].variant
	hasFields := len(t.Fields) > 0 && t.Kind != Union
	typename := func(suffix string) {
		a := g.zz()
		g.w(" " + a + ": __typename" + suffix)
		g.note(a, t, "__typename", "", "!String")
	}
	switch v {
	case "unknown-field":
		if hasFields && g.opp() {
			g.w(" zzNoSuchField")
		}
	case "misspelt-field":
		if hasFields {
			f := t.Fields[0]
			n := f.Name + "x"
			if t.Field(n) == nil && g.opp() {
				g.w(" " + n)
			}
		}
	case "field-on-union":
		if t.Kind == Union && len(t.Members) > 0 {
			m := s.byName[t.Members[0].Name]
			if m != nil && len(m.Fields) > 0 && g.opp() {
				g.w(" " + g.zz() + ": " + m.Fields[0].Name)
			}
		}
	case "implementer-field-on-interface":
		if t.Kind == Interface {
			for _, o := range s.objects {
				if o.Implements(t.Name) {
					for _, f := range o.Fields {
						if t.Field(f.Name) == nil {
							if g.opp() {
								g.w(" " + g.zz() + ": " + f.Name)
							}
							return
						}
					}
				}
			}
		}
	case "leaf-with-selection":
		if ls := simpleLeafs(t); len(ls) > 0 && g.opp() {
			g.field(t, rng.Pick(r, ls), depth, ic, tamLeafSubselection|tamFreshAlias)
		}
	case "composite-without-selection":
		var cs []*FieldDef
		for _, f := range t.Fields {
			if f.ret != nil && f.ret.IsComposite() && t.Kind != Union {
				cs = append(cs, f)
			}
		}
		if len(cs) > 0 && g.opp() {
			g.field(t, rng.Pick(r, cs), depth, ic, tamNoSubselection|tamFreshAlias)
		}
	case "unknown-argument-on-field":
		if ls := simpleLeafs(t); len(ls) > 0 && t.Kind != Union {
			if g.opp() {
				g.field(t, rng.Pick(r, ls), depth, ic, tamUnknownArg|tamFreshAlias)
			}
		} else if g.opp() {
			typename("(zzUnknownArg: 1)")
		}
	case "unknown-argument-on-directive":
		if g.opp() {
			typename(" @skip(if: false, zzUnknownArg: 1)")
		}
	case "missing-field-argument":
		var cs []*FieldDef
		if t.Kind != Union {
			for _, f := range t.Fields {
				for _, a := range f.Args {
					if a.Required() && (f.ret == nil || f.ret.IsLeaf() || depth < g.maxDep) {
						cs = append(cs, f)
						break
					}
				}
			}
		}
		if t.Name == s.Query && ic < 0 {
			cs = append(cs, s.introField("__type"))
		}
		if len(cs) > 0 && g.opp() {
			f := rng.Pick(r, cs)
			if f.Name == "__type" {
				ic = 0
			}
			g.field(t, f, depth, ic, tamDropRequiredArg|tamFreshAlias)
		}
	case "missing-directive-argument":
		var cs []*DirectiveDef
		for _, d := range s.dirsAt["FIELD"] {
			for _, a := range d.Args {
				if a.Required() {
					cs = append(cs, d)
					break
				}
			}
		}
		if len(cs) > 0 && g.opp() {
			d := rng.Pick(r, cs)
			a := g.zz()
			g.w(" " + a + ": __typename @" + d.Name)
			g.note(a, t, "__typename", "", "!String")
			var req []*ArgDef
			for _, x := range d.Args {
				if x.Required() {
					req = append(req, x)
				}
			}
			if len(req) > 1 {
				g.args(req[1:], 0)
			}
		}
	case "duplicate-field-argument":
		var cs []*FieldDef
		if t.Kind != Union {
			for _, f := range t.Fields {
				if len(f.Args) > 0 && (f.ret == nil || f.ret.IsLeaf() || depth < g.maxDep) {
					cs = append(cs, f)
				}
			}
		}
		if len(cs) > 0 && g.opp() {
			g.field(t, rng.Pick(r, cs), depth, ic, tamDupArg|tamFreshAlias)
		}
	case "duplicate-directive-argument":
		if g.opp() {
			typename(" @include(if: true, if: true)")
		}
	case "unknown-directive-on-field":
		if g.opp() {
			typename(" @zzNoSuchDirective")
		}
	case "unknown-directive-on-inline-fragment":
		if g.opp() {
			g.w(" ... @zzNoSuchDirective {")
			typename("")
			g.w(" }")
		}
	case "misplaced-directive-on-field":
		if d := g.misplacedDirective("FIELD"); d != nil && g.opp() {
			a := g.zz()
			g.w(" " + a + ": __typename")
			g.note(a, t, "__typename", "", "!String")
			g.constDirective(d)
		}
	case "misplaced-directive-on-inline-fragment":
		if d := g.misplacedDirective("INLINE_FRAGMENT"); d != nil && g.opp() {
			g.w(" ...")
			g.constDirective(d)
			g.w(" {")
			typename("")
			g.w(" }")
		}
	case "misplaced-directive-on-fragment-definition":
		if d := g.misplacedDirective("FRAGMENT_DEFINITION"); d != nil && len(t.overlap) > 0 && g.opp() {
			n := "ZzF" + strconv.Itoa(len(g.extra))
			saved := g.lit.b
			g.lit.b = nil
			g.constDirective(d)
			ds := string(g.lit.b)
			g.lit.b = saved
			g.extra = append(g.extra, []byte("fragment "+n+" on "+t.Name+ds+" { __typename }\n"))
			g.w(" ..." + n)
		}
	case "repeated-directive-on-field":
		if g.opp() {
			typename(" @skip(if: false) @skip(if: false)")
		}
	case "repeated-directive-on-inline-fragment":
		if g.opp() {
			g.w(" ... @include(if: true) @include(if: true) {")
			typename("")
			g.w(" }")
		}
	case "unknown-fragment":
		if g.opp() {
			g.w(" ...ZzNoSuchFragment")
		}
	case "impossible-inline-fragment", "impossible-fragment-spread":
		var cs []*TypeDef
		for _, c := range s.byNameSorted() {
			if c.IsComposite() && !overlaps(t, c) {
				cs = append(cs, c)
			}
		}
		if len(cs) > 0 && g.opp() {
			c := rng.Pick(r, cs)
			if v == "impossible-inline-fragment" {
				g.w(" ... on " + c.Name + " { __typename }")
			} else {
				n := "ZzF" + strconv.Itoa(len(g.extra))
				g.extraFragment(n, c.Name, "{ __typename }")
				g.w(" ..." + n)
			}
		}
	case "unknown-type-inline-fragment":
		if g.opp() {
			g.w(" ... on ZzNoSuchType { __typename }")
		}
	case "unknown-type-fragment-definition":
		if g.opp() {
			n := "ZzF" + strconv.Itoa(len(g.extra))
			g.extraFragment(n, "ZzNoSuchType", "{ __typename }")
			g.w(" ..." + n)
		}
	case "inline-fragment-on-non-composite", "fragment-definition-on-non-composite":
		if g.opp() {
			c := rng.Pick(r, s.inputs).Name
			if v == "inline-fragment-on-non-composite" {
				g.w(" ... on " + c + " { __typename }")
			} else {
				n := "ZzF" + strconv.Itoa(len(g.extra))
				g.extraFragment(n, c, "{ __typename }")
				g.w(" ..." + n)
			}
		}
	case "self-cycle":
		if len(t.overlap) > 0 && g.opp() {
			n := "ZzC" + strconv.Itoa(len(g.extra))
			g.extraFragment(n, t.Name, "{ __typename ..."+n+" }")
			g.w(" ..." + n)
		}
	case "two-cycle":
		if len(t.overlap) > 0 && g.opp() {
			n := "ZzC" + strconv.Itoa(len(g.extra))
			g.extraFragment(n+"a", t.Name, "{ __typename ..."+n+"b }")
			g.extraFragment(n+"b", t.Name, "{ ..."+n+"a }")
			g.w(" ..." + n + "a")
		}
	case "cycle-through-inline-fragment":
		if len(t.overlap) > 0 && g.opp() {
			n := "ZzC" + strconv.Itoa(len(g.extra))
			c := rng.Pick(r, t.overlap)
			g.extraFragment(n, t.Name, "{ ... on "+c.Name+" { __typename ..."+n+" } }")
			g.w(" ..." + n)
		}
	case "cycle-through-field":
		var cs []*FieldDef
		if t.Kind != Union && len(t.overlap) > 0 {
			for _, f := range t.Fields {
				if f.ret != nil && f.ret.IsComposite() && overlaps(f.ret, t) {
					req := false
					for _, a := range f.Args {
						req = req || a.Required()
					}
					if !req {
						cs = append(cs, f)
					}
				}
			}
		}
		if len(cs) > 0 && g.opp() {
			f := rng.Pick(r, cs)
			n := "ZzC" + strconv.Itoa(len(g.extra))
			a := g.zz()
			g.extraFragment(n, t.Name, "{ "+a+": "+f.Name+" { ..."+n+" } }")
			g.note(a, t, f.Name, "", f.shape)
			g.w(" ..." + n)
		}
	case "different-fields":
		if ls := simpleLeafs(t); len(ls) > 0 && t.Kind != Union && g.opp() {
			a := g.zz()
			f := rng.Pick(r, ls)
			if len(ls) > 1 && r.Bool() {
				f2 := ls[0]
				if f2 == f {
					f2 = ls[1]
				}
				g.w(" " + a + ": " + f.Name + " " + a + ": " + f2.Name)
			} else {
				g.w(" " + a + ": " + f.Name + " " + a + ": __typename")
			}
		}
	case "different-fields-via-fragment":
		if ls := simpleLeafs(t); len(ls) > 0 && t.Kind != Union && len(t.overlap) > 0 && g.opp() {
			a := g.zz()
			n := "ZzF" + strconv.Itoa(len(g.extra))
			g.extraFragment(n, t.Name, "{ "+a+": __typename }")
			g.w(" " + a + ": " + ls[0].Name + " ..." + n)
		}
	case "nested-different-fields":
		if t.Kind == Union {
			return
		}
		for _, f := range t.Fields {
			if f.ret == nil || !f.ret.IsComposite() || f.ret.Kind == Union {
				continue
			}
			req := false
			for _, a := range f.Args {
				req = req || a.Required()
			}
			ls := simpleLeafs(f.ret)
			if req || len(ls) == 0 {
				continue
			}
			if g.opp() {
				a, b := g.zz(), g.zz()
				g.w(" " + a + ": " + f.Name + " { " + b + ": " + ls[0].Name + " } " + a + ": " + f.Name + " { " + b + ": __typename }")
			}
			return
		}
	case "differing-scalar-argument", "differing-list-argument", "argument-present-vs-absent":
		g.overlapArgsFault(t, v, ic)
	case "conflicting-leaf-types", "conflicting-list-vs-named", "conflicting-nullability", "conflicting-leaf-vs-composite":
		g.overlapTypesFault(t, v)
	case "depth-3-inline", "depth-3-via-type", "depth-3-via-fragments":
		if t.Name != s.Query || ic >= 0 {
			return
		}
		if !g.opp() {
			return
		}
		a := g.zz()
		switch v {
		case "depth-3-inline":
			g.w(" " + a + ": __schema { types { fields { type { fields { type { fields { name } } } } } } }")
		case "depth-3-via-type":
			g.w(" " + a + `: __type(name: "Query") { interfaces { possibleTypes { ... on __Type { inputFields { name } } } } }`)
		default:
			n := "ZzI" + strconv.Itoa(len(g.extra))
			g.extraFragment(n+"a", "__Type", "{ fields { type { ..."+n+"b } } }")
			g.extraFragment(n+"b", "__Type", "{ possibleTypes { interfaces { name } } }")
			g.w(" " + a + ": __schema { types { ..." + n + "a } }")
		}
	case "undefined-variable-in-directive":
		if g.opp() {
			typename(" @include(if: $zzUndefined)")
		}
	case "undefined-variable-in-fragment-definition-directive":
		if len(t.overlap) == 0 {
			return
		}
		for _, d := range s.dirsAt["FRAGMENT_DEFINITION"] {
			if len(d.Args) == 0 {
				continue
			}
			if g.opp() {
				n := "ZzF" + strconv.Itoa(len(g.extra))
				saved, savedV, savedF := g.lit.b, g.lit.varFn, g.lit.faultFn
				g.lit.b, g.lit.varFn, g.lit.faultFn = nil, nil, nil
				var rest []*ArgDef
				for _, a := range d.Args[1:] {
					if a.Required() {
						rest = append(rest, a)
					}
				}
				g.w(" @" + d.Name + "(" + d.Args[0].Name + ": $zzUndefined")
				if len(rest) > 0 {
					g.args(rest, 0)
					// merge the two parenthesised lists
					b := string(g.lit.b)
					i := len(" @" + d.Name + "(" + d.Args[0].Name + ": $zzUndefined")
					g.lit.b = []byte(b[:i] + ", " + b[i+1:])
				} else {
					g.w(")")
				}
				ds := string(g.lit.b)
				g.lit.b, g.lit.varFn, g.lit.faultFn = saved, savedV, savedF
				g.extra = append(g.extra, []byte("fragment "+n+" on "+t.Name+ds+" { __typename }\n"))
				g.w(" ..." + n)
			}
			return
		}
	case "nullable-boolean-at-include":
		if g.opp() {
			typename(" @include(if: $zzNullableFlag)")
			g.specialVar("zzNullableFlag", "Boolean")
		}
	}
}

// specialVar declares a variable that every operation reaching the current container will list.
func (g *docGen) specialVar(name, typ string) {
	if len(g.vars) >= 63 {
		return
	}
	t := parseTypeRef(typ)
	g.vars = append(g.vars, &varDecl{name: name, typ: t})
	g.used |= 1 << uint(len(g.vars)-1)
}

func parseTypeRef(s string) *TypeRef {
	nn := false
	if len(s) > 0 && s[len(s)-1] == '!' {
		nn = true
		s = s[:len(s)-1]
	}
	if len(s) > 1 && s[0] == '[' && s[len(s)-1] == ']' {
		return &TypeRef{Elem: parseTypeRef(s[1 : len(s)-1]), NonNull: nn}
	}
	return &TypeRef{Name: s, NonNull: nn}
}

func (s *Schema) byNameSorted() []*TypeDef {
	if s.sorted == nil {
		for _, t := range s.builtinTypes {
			s.sorted = append(s.sorted, t)
		}
		for _, t := range s.Types {
			if s.byName[t.Name] == t {
				s.sorted = append(s.sorted, t)
			}
		}
	}
	return s.sorted
}

// pairLiterals returns two different literals of a leaf type, or "", "".
func pairLiterals(def *TypeDef) (string, string) {
	if def == nil {
		return "", ""
	}
	switch def.Kind {
	case Scalar:
		switch def.Name {
		case "Int", "ID":
			return "1", "2"
		case "Float":
			return "1.5", "2.5"
		case "String":
			return `"a"`, `"b"`
		case "Boolean":
			return "true", "false"
		default:
			return "1", `"two"`
		}
	case Enum:
		if len(def.Values) >= 2 {
			return def.Values[0].Name, def.Values[1].Name
		}
	}
	return "", ""
}

func (g *docGen) overlapArgsFault(t *TypeDef, v string, ic int) {
	s := g.s
	if t.Kind == Union {
		return
	}
	for _, f := range t.Fields {
		if f.ret == nil {
			continue
		}
		// every other required argument must be renderable identically: keep it simple, the chosen
		// argument is the only one rendered, so no other argument may be required
		for _, a := range f.Args {
			others := false
			for _, b := range f.Args {
				if b != a && b.Required() {
					others = true
				}
			}
			if others {
				continue
			}
			var v1, v2 string
			switch v {
			case "differing-scalar-argument":
				if a.Type.Elem != nil {
					continue
				}
				v1, v2 = pairLiterals(a.def)
			case "differing-list-argument":
				if a.Type.Elem == nil || a.Type.Elem.Elem != nil {
					continue
				}
				x, y := pairLiterals(a.def)
				if x != "" {
					v1, v2 = "["+x+"]", "["+y+"]"
				}
			case "argument-present-vs-absent":
				if a.Required() {
					continue
				}
				x, _ := pairLiterals(a.def)
				if x != "" {
					if a.Type.Elem != nil {
						x = "[" + x + "]"
						if a.Type.Elem.Elem != nil {
							continue
						}
					}
					v1, v2 = x, ""
				}
			}
			if v1 == "" {
				continue
			}
			if !g.opp() {
				return
			}
			alias := g.zz()
			sub := ""
			if f.ret.IsComposite() {
				sub = " { __typename }"
			}
			g.w(" " + alias + ": " + f.Name + "(" + a.Name + ": " + v1 + ")" + sub)
			if v2 == "" {
				g.w(" " + alias + ": " + f.Name + sub)
			} else {
				g.w(" " + alias + ": " + f.Name + "(" + a.Name + ": " + v2 + ")" + sub)
			}
			return
		}
	}
	if t.Name == s.Query && ic < 0 && v == "differing-scalar-argument" && g.opp() {
		alias := g.zz()
		g.w(" " + alias + `: __type(name: "A") { name } ` + alias + `: __type(name: "B") { name }`)
	}
}

func (g *docGen) overlapTypesFault(t *TypeDef, v string) {
	if t.Kind != Interface && t.Kind != Union {
		return
	}
	var objs []*TypeDef
	for i, o := range g.s.objects {
		if t.poss[i/64]>>(uint(i)%64)&1 == 1 {
			objs = append(objs, o)
		}
	}
	simple := func(o *TypeDef) []*FieldDef {
		var out []*FieldDef
		for _, f := range o.Fields {
			req := false
			for _, a := range f.Args {
				req = req || a.Required()
			}
			if !req && f.ret != nil {
				out = append(out, f)
			}
		}
		return out
	}
	for i, a := range objs {
		for _, b := range objs[i+1:] {
			for _, fa := range simple(a) {
				for _, fb := range simple(b) {
					ok := false
					la, lb := fa.ret.IsLeaf(), fb.ret.IsLeaf()
					switch v {
					case "conflicting-leaf-types":
						ok = la && lb && fa.ret != fb.ret && fa.Type.Depth() == fb.Type.Depth()
					case "conflicting-list-vs-named":
						ok = la && lb && fa.ret == fb.ret && (fa.Type.Elem == nil) != (fb.Type.Elem == nil)
					case "conflicting-nullability":
						ok = la && lb && fa.ret == fb.ret && fa.Type.Elem == nil && fb.Type.Elem == nil && fa.Type.NonNull != fb.Type.NonNull
					case "conflicting-leaf-vs-composite":
						ok = la != lb && fa.Type.Elem == nil && fb.Type.Elem == nil && fa.Type.NonNull == fb.Type.NonNull
					}
					if !ok {
						continue
					}
					if !g.opp() {
						return
					}
					alias := g.zz()
					sa, sb := "", ""
					if !la {
						sa = " { __typename }"
					}
					if !lb {
						sb = " { __typename }"
					}
					g.w(" ... on " + a.Name + " { " + alias + ": " + fa.Name + sa + " } ... on " + b.Name + " { " + alias + ": " + fb.Name + sb + " }")
					return
				}
			}
		}
	}
}

// subFault: faults of the root selection set of a subscription.
func (g *docGen) subFault(root *TypeDef) {
	if g.cur == nil || g.cur.done || docFaults[g.fk].site != siteSub {
		return
	}
	var any []*FieldDef
	for _, f := range root.Fields {
		req := false
		for _, a := range f.Args {
			req = req || a.Required()
		}
		if !req {
			any = append(any, f)
		}
	}
	sel := func(alias string, f *FieldDef) string {
		s := " " + alias + ": " + f.Name
		if f.ret != nil && f.ret.IsComposite() {
			s += " { __typename }"
		}
		return s
	}
	switch docFaults[g.fk].variant {
	case "two-root-fields":
		var other []*FieldDef
		for _, f := range any {
			if f != g.subField {
				other = append(other, f)
			}
		}
		if len(other) > 0 && g.opp() {
			g.w(sel(g.zz(), rng.Pick(g.r, other)))
		}
	case "two-aliases-of-one-field":
		// replaces nothing: adds the SAME field under two further response names (library: R8f
		// de-duplicates by field name, so `a: f b: f` counts as one)
		req := false
		if g.subField != nil {
			for _, a := range g.subField.Args {
				req = req || a.Required()
			}
		}
		if g.subField != nil && !req && g.opp() {
			g.w(sel(g.zz(), g.subField))
		}
	case "introspection-root-field":
		if g.opp() {
			g.w(" " + g.zz() + ": __typename")
		}
	case "second-field-via-inline-fragment":
		var other []*FieldDef
		for _, f := range any {
			if f != g.subField {
				other = append(other, f)
			}
		}
		if len(other) > 0 && g.opp() {
			g.w(" ... on " + root.Name + " {" + sel(g.zz(), rng.Pick(g.r, other)) + " }")
		}
	}
}

// opFault: nothing in the body; the header faults are applied in finish (opVarFault).
func (g *docGen) opFault(op *opText) {
	if g.cur == nil || g.cur.done || g.fmode == 0 || docFaults[g.fk].site != siteOp {
		return
	}
	v := docFaults[g.fk].variant
	loc := map[string]string{"query": "QUERY", "mutation": "MUTATION", "subscription": "SUBSCRIPTION"}[op.info.Kind]
	switch v {
	case "misplaced-directive-on-operation":
		if d := g.misplacedDirective(loc); d != nil && g.opp() {
			saved := g.lit.b
			g.lit.b = nil
			g.constDirective(d)
			op.dirs += string(g.lit.b)
			g.lit.b = saved
		}
	case "repeated-directive-on-operation":
		for _, d := range g.s.dirsAt[loc] {
			if !d.Repeatable {
				if g.opp() {
					saved := g.lit.b
					g.lit.b = nil
					g.constDirective(d)
					g.constDirective(d)
					// the carrier may already carry it: then it is applied three times, still this rule
					op.dirs += string(g.lit.b)
					g.lit.b = saved
				}
				return
			}
		}
	}
}

func (g *docGen) opHeaderFault() string {
	v := docFaults[g.fk].variant
	switch v {
	case "unused-variable":
		return "$zzUnused: Int"
	case "variable-of-output-type":
		return "$zzOut: " + g.s.Query
	case "unknown-type-variable":
		return "$zzV: [ZzNoSuchType!]"
	case "misplaced-directive-on-variable-definition":
		if d := g.misplacedDirective("VARIABLE_DEFINITION"); d != nil {
			saved := g.lit.b
			g.lit.b = nil
			g.constDirective(d)
			ds := string(g.lit.b)
			g.lit.b = saved
			return "$zzV: Int" + ds
		}
	}
	return ""
}

// opVarFault: b ends inside the parenthesised variable list (at least one definition written).
func (g *docGen) opVarFault(op *opText, b []byte) []byte {
	if g.cur == nil || g.cur.done || g.fmode == 0 || docFaults[g.fk].site != siteOp {
		return b
	}
	v := docFaults[g.fk].variant
	if v == "duplicate-variable" {
		if len(op.info.Vars) > 0 && g.opp() {
			x := op.info.Vars[g.r.Intn(len(op.info.Vars))]
			b = append(b, ", $"+x.Name+": "+x.Type.String()...)
		}
		return b
	}
	if h := g.opHeaderFault(); h != "" && g.opp() {
		b = append(b, ", "+h...)
	}
	return b
}

func (g *docGen) opVarFaultNoVars(op *opText, b []byte) []byte {
	if g.cur == nil || g.cur.done || g.fmode == 0 || docFaults[g.fk].site != siteOp {
		return b
	}
	v := docFaults[g.fk].variant
	if v == "duplicate-variable" {
		return b
	}
	if h := g.opHeaderFault(); h != "" && g.opp() {
		b = append(b, "("+h+")"...)
	}
	return b
}

// docFault appends a definition to the finished carrier document.
func (g *docGen) docFault(d *Doc) bool {
	s := g.s
	switch docFaults[g.fk].variant {
	case "unused-fragment":
		d.Text += "fragment ZzUnused on " + s.Query + " { __typename }\n"
	case "unused-fragment-chain":
		d.Text += "fragment ZzUnusedA on " + s.Query + " { ...ZzUnusedB }\nfragment ZzUnusedB on " + s.Query + " { __typename }\n"
	case "anonymous-plus-named":
		if len(d.Ops) == 0 || d.Ops[0].Name == "" {
			return false
		}
		if g.r.Bool() {
			d.Text += "{ __typename }\n"
		} else {
			d.Text = "query { __typename }\n" + d.Text
		}
	case "two-anonymous":
		if len(d.Ops) != 1 || d.Ops[0].Name != "" {
			return false
		}
		d.Text += "{ __typename }\n"
	case "duplicate-operation-name":
		if len(d.Ops) == 0 || d.Ops[0].Name == "" {
			return false
		}
		kind := "query"
		if s.Mutation != "" && g.r.Chance(1, 3) {
			kind = "mutation"
		}
		d.Text += kind + " " + d.Ops[g.r.Intn(len(d.Ops))].Name + " { __typename }\n"
	case "duplicate-fragment-name":
		if len(g.frags) == 0 {
			return false
		}
		f := rng.Pick(g.r, g.frags)
		// a second definition with the same name (it is used: the name is spread somewhere)
		d.Text += "fragment " + f.name + " on " + f.cond.Name + " { __typename }\n"
	case "operation-kind-without-root":
		switch {
		case s.Mutation == "" && (s.Subscription != "" || g.r.Bool()):
			d.Text += "mutation ZzNoRoot { __typename }\n"
		case s.Subscription == "":
			d.Text += "subscription ZzNoRoot { __typename }\n"
		default:
			return false
		}
		if len(d.Ops) == 1 && d.Ops[0].Name == "" {
			return false // would also violate LoneAnonymousOperation
		}
	default:
		return false
	}
	return true
}

// varFault: called where a variable may be used (not in const contexts).
func (g *docGen) varFault(lt *TypeRef, fl uint8) bool {
	if g.cur == nil || g.cur.done || docFaults[g.fk].site != siteVar {
		return false
	}
	v := docFaults[g.fk].variant
	if fl&flInCustom != 0 && v != "undefined-variable" {
		return false // inside a custom-scalar literal no type is expected
	}
	declare := func(t *TypeRef) {
		name := "zzBad"
		g.vars = append(g.vars, &varDecl{name: name, typ: t})
		g.used |= 1 << uint(len(g.vars)-1)
		g.w("$" + name)
	}
	if len(g.vars) >= 60 {
		return false
	}
	switch v {
	case "undefined-variable":
		if g.opp() {
			g.w("$zzUndefined")
			return true
		}
	case "nullable-variable-at-non-null":
		if lt.NonNull && fl&(flLocDefault|flOneOf) == 0 && g.opp() {
			declare(NullableT(lt))
			return true
		}
	case "different-named-type":
		if fl&flOneOf == 0 && g.opp() {
			other := "String"
			if lt.Base() == "String" {
				other = "Int"
			}
			declare(lt.withBase(other))
			return true
		}
	case "item-variable-at-list":
		if lt.Elem != nil && fl&flOneOf == 0 && g.opp() {
			c := lt.Elem.clone()
			c.NonNull = lt.NonNull || c.NonNull
			declare(c)
			return true
		}
	case "list-variable-with-nullable-items":
		if lt.Elem != nil && lt.Elem.NonNull && fl&flOneOf == 0 && g.opp() {
			c := lt.clone()
			c.Elem.NonNull = false
			declare(c)
			return true
		}
	case "oneOf-nullable-variable":
		if fl&flOneOf != 0 && g.opp() {
			declare(NullableT(lt))
			return true
		}
	case "oneOf-nullable-variable-with-default":
		// a default value does not make the variable non-null: null can still be SUPPLIED for it
		if fl&flOneOf != 0 && g.opp() {
			saved, savedFn, savedFault := g.lit.b, g.lit.varFn, g.lit.faultFn
			g.lit.b, g.lit.varFn, g.lit.faultFn = make([]byte, 0, 32), nil, nil
			g.lit.value(NullableT(lt), 1, flConst|flNoNull)
			def := string(g.lit.b)
			g.lit.b, g.lit.varFn, g.lit.faultFn = saved, savedFn, savedFault
			if def == "" || def == "null" {
				return false
			}
			g.vars = append(g.vars, &varDecl{name: "zzBad", typ: NullableT(lt), def: def, hasDef: true, anyDef: true})
			g.used |= 1 << uint(len(g.vars)-1)
			g.w("$zzBad")
			return true
		}
	}
	return false
}

// valueFault is litGen.faultFn during injection of a siteVal fault.
func (g *docGen) valueFault(lt *TypeRef, def *TypeDef, fl uint8) bool {
	if g.cur == nil || g.cur.done || def == nil {
		return false
	}
	v := docFaults[g.fk].variant
	named := lt.Elem == nil
	is := func(n string) bool { return named && def.Name == n }
	emit := func(cond bool, lit string) bool {
		if cond && g.opp() {
			g.w(lit)
			return true
		}
		return false
	}
	switch v {
	case "int-from-string":
		return emit(is("Int"), `"1"`)
	case "int-from-float":
		return emit(is("Int"), "1.5")
	case "int-from-boolean":
		return emit(is("Int"), "true")
	case "int-from-enum":
		return emit(is("Int"), "FOO")
	case "int-out-of-32-bit":
		return emit(is("Int"), rng.Pick(g.r, []string{"2147483648", "-2147483649", "1099511627776"}))
	case "int-beyond-int64":
		return emit(is("Int"), "9223372036854775808")
	case "int-literal-beyond-double-for-Float":
		// an IntValue that no finite double represents, where a Float is expected (argument, input
		// field, list item, variable default): 1 followed by 309 / 399 zeros, and the first integer
		// that rounds to +Inf (2^1024 - 2^970), with either sign
		return emit(is("Float"), rng.Pick(g.r, BeyondDoubleInts))
	case "int-from-object":
		return emit(is("Int"), "{}")
	case "int-from-list":
		return emit(is("Int"), "[1]")
	case "float-from-string":
		return emit(is("Float"), `"1.5"`)
	case "float-from-boolean":
		return emit(is("Float"), "false")
	case "string-from-int":
		return emit(is("String"), "1")
	case "string-from-enum":
		return emit(is("String"), "foo")
	case "string-from-boolean":
		return emit(is("String"), "true")
	case "boolean-from-int":
		return emit(is("Boolean"), "1")
	case "boolean-from-string":
		return emit(is("Boolean"), `"true"`)
	case "id-from-float":
		return emit(is("ID"), "1.5")
	case "id-from-boolean":
		return emit(is("ID"), "true")
	case "enum-unknown-value":
		return emit(named && def.Kind == Enum, "ZZ_NOT_A_VALUE")
	case "enum-from-string":
		if named && def.Kind == Enum && len(def.Values) > 0 {
			return emit(true, `"`+def.Values[0].Name+`"`)
		}
	case "enum-from-int":
		return emit(named && def.Kind == Enum, "1")
	case "enum-from-object":
		return emit(named && def.Kind == Enum, "{}")
	case "null-for-non-null":
		return emit(lt.NonNull && fl&flOneOf == 0, "null")
	case "list-item-wrong":
		if lt.Elem != nil && lt.Elem.Elem == nil {
			bad := ""
			switch {
			case def.Kind == Enum:
				bad = "ZZ_NOT_A_VALUE"
			case def.Name == "Int" || def.Name == "Float" || def.Name == "Boolean":
				bad = `"x"`
			case def.Name == "String":
				bad = "1"
			case def.Name == "ID":
				bad = "1.5"
			case def.Kind == InputObject:
				bad = "1"
			}
			return emit(bad != "", "["+bad+"]")
		}
	case "list-null-item":
		return emit(lt.Elem != nil && lt.Elem.NonNull, "[null]")
	case "input-missing-required-field":
		if named && def.Kind == InputObject && !def.OneOf {
			for _, f := range def.Fields {
				if f.Required() {
					return emit(true, "{}")
				}
			}
		}
	case "input-unknown-field":
		if named && def.Kind == InputObject && !def.OneOf && g.opp() {
			saved := g.lit.faultFn
			g.lit.faultFn = nil
			g.lit.object(def, 3, fl&flConst)
			g.lit.faultFn = saved
			b := g.lit.b
			if len(b) >= 2 && b[len(b)-2] == '{' {
				g.lit.b = append(b[:len(b)-1], "zzUnknown: 1}"...)
			} else {
				g.lit.b = append(b[:len(b)-1], ", zzUnknown: 1}"...)
			}
			return true
		}
	case "input-from-scalar":
		return emit(named && def.Kind == InputObject, rng.Pick(g.r, []string{"1", `"x"`, "true", "FOO"}))
	case "oneOf-no-field":
		return emit(named && def.Kind == InputObject && def.OneOf, "{}")
	case "oneOf-two-fields":
		if named && def.Kind == InputObject && def.OneOf && len(def.Fields) >= 2 && g.opp() {
			saved := g.lit.faultFn
			g.lit.faultFn = nil
			g.w("{")
			for i, f := range def.Fields[:2] {
				if i > 0 {
					g.w(", ")
				}
				g.w(f.Name + ": ")
				g.lit.value(f.Type, 4, flConst|flNoNull|flOneOf)
			}
			g.w("}")
			g.lit.faultFn = saved
			return true
		}
	case "oneOf-null-field":
		if named && def.Kind == InputObject && def.OneOf && len(def.Fields) > 0 {
			return emit(true, "{"+rng.Pick(g.r, def.Fields).Name+": null}")
		}
	case "duplicate-input-field":
		if named && def.Kind == InputObject && !def.OneOf && len(def.Fields) > 0 && g.opp() {
			saved := g.lit.faultFn
			g.lit.faultFn = nil
			g.w("{")
			n := 0
			for _, f := range def.Fields {
				if !f.Required() && n > 0 {
					continue
				}
				if n > 0 {
					g.w(", ")
				}
				p := len(g.lit.b)
				g.w(f.Name + ": ")
				g.lit.value(f.Type, 4, flConst)
				if n == 0 {
					cp := string(g.lit.b[p:])
					g.w(", " + cp)
				}
				n++
			}
			g.w("}")
			g.lit.faultFn = saved
			return true
		}
	}
	return false
}
