package props

import (
	"fmt"
	"os"
	"regexp"
	"sort"
	"strconv"
	"strings"
	"time"

	"github.com/vektah/gqlparser/v2/ast"
	"github.com/vektah/gqlparser/v2/parser"

	"verifharness/internal/gen"
	"verifharness/internal/impl"
	"verifharness/internal/pool"
	"verifharness/internal/rng"
)

// X-overlap: correspondence of the Lean model of OverlappingFieldsCanBeMerged with the real rule
// (error lists compared exactly: message bytes, location, order; plus link dump and observer order).

const OverlapRule = "OverlappingFieldsCanBeMerged"

// OverlapMixRules: the rule together with rules whose Go code did not change after the validation
// model was written — exercises the interleaving of this rule's errors with other rules' errors.
const OverlapMixRules = "NoFragmentCycles,OverlappingFieldsCanBeMerged,ScalarLeafs,PossibleFragmentSpreads,NoUnusedFragments,KnownFragmentNames"

type overlapStats struct {
	cases      int
	valid      int
	errors     int
	reasons    map[string]int
	skipped    map[string]int
	cyclic     int
	withFrags  int
	maxNesting int
	events     int
	// last (schema, document) on which the model exceeded the driver deadline although Go answered
	modelTimeoutDoc [2]string
	// selection sets whose identity assumption was checked (see checkSelectionIdentity)
	selSets int
	// comparison with the rule BEFORE the polynomial repair (VERIF_OVERLAP_OLD_WORKER)
	old *overlapOldStats
}

// overlapOldStats: the repaired rule against the previous one on the same documents.
type overlapOldStats struct {
	pool                           *pool.Pool
	cases, same                    int
	oldTimeout                     int
	listDiffCyclic, listDiffAcylic int
	verdictDiff, verdictDiffCyclic int
	acyclicExamples                [][3]string // document, old, new  (smallest first)
	acyclicLost, acyclicGained     int         // errors only the old / only the new rule reports, on acyclic documents
}

var overlapReasons = []struct {
	name string
	re   *regexp.Regexp
}{
	{"different-fields", regexp.MustCompile(`^Fields ".*" conflict because ".*" and ".*" are different fields\. Use`)},
	{"differing-arguments", regexp.MustCompile(`^Fields ".*" conflict because they have differing arguments\. Use`)},
	{"conflicting-types", regexp.MustCompile(`^Fields ".*" conflict because they return conflicting types ".*" and ".*"\. Use`)},
	{"subfields", regexp.MustCompile(`^Fields ".*" conflict because subfields "`)},
	{"subfields-and", regexp.MustCompile(`^Fields ".*" conflict because subfields ".*" conflict because .* and subfields "`)},
	{"subfields-nested", regexp.MustCompile(`^Fields ".*" conflict because subfields ".*" conflict because subfields "`)},
	{"sub-different-fields", regexp.MustCompile(`subfields ".*" conflict because ".*" and ".*" are different fields`)},
	{"sub-differing-arguments", regexp.MustCompile(`subfields ".*" conflict because they have differing arguments`)},
	{"sub-conflicting-types", regexp.MustCompile(`subfields ".*" conflict because they return conflicting types`)},
}

func newOverlapStats() *overlapStats {
	return &overlapStats{reasons: map[string]int{}, skipped: map[string]int{}}
}

var spreadRe = regexp.MustCompile(`\.\.\.\s*([_A-Za-z][_0-9A-Za-z]*)`)
var fragDefRe = regexp.MustCompile(`fragment\s+([_A-Za-z][_0-9A-Za-z]*)\s+on\b`)

// hasFragmentCycle: textual approximation (fragment name → names spread in its body), good enough
// for statistics.
func hasFragmentCycle(doc string) bool {
	idx := fragDefRe.FindAllStringSubmatchIndex(doc, -1)
	if len(idx) == 0 {
		return false
	}
	edges := map[string][]string{}
	for i, m := range idx {
		name := doc[m[2]:m[3]]
		end := len(doc)
		if i+1 < len(idx) {
			end = idx[i+1][0]
		}
		for _, sm := range spreadRe.FindAllStringSubmatch(doc[m[1]:end], -1) {
			if sm[1] != "on" {
				edges[name] = append(edges[name], sm[1])
			}
		}
	}
	state := map[string]int{}
	var visit func(n string) bool
	visit = func(n string) bool {
		switch state[n] {
		case 1:
			return true
		case 2:
			return false
		}
		state[n] = 1
		for _, m := range edges[n] {
			if visit(m) {
				return true
			}
		}
		state[n] = 2
		return false
	}
	for n := range edges {
		if visit(n) {
			return true
		}
	}
	return false
}

func (st *overlapStats) addGo(obs, doc string) {
	st.cases++
	if strings.Contains(doc, "fragment ") {
		st.withFrags++
		if hasFragmentCycle(doc) {
			st.cyclic++
		}
	}
	if obs == "OK" {
		st.valid++
		return
	}
	for _, e := range strings.Split(obs, ";") {
		f := strings.SplitN(e, ",", 3)
		if len(f) < 3 {
			continue
		}
		rb, _ := impl.UnhexW(f[0])
		if string(rb) != OverlapRule {
			continue
		}
		mb, _ := impl.UnhexW(f[1])
		st.errors++
		hit := false
		for _, t := range overlapReasons {
			if t.re.Match(mb) {
				st.reasons[t.name]++
				hit = true
			}
		}
		if !hit {
			st.reasons["UNMATCHED: "+string(mb)]++
		}
		if n := strings.Count(string(mb), "subfields \""); n > st.maxNesting {
			st.maxNesting = n
		}
	}
}

func (st *overlapStats) print() {
	fmt.Printf("overlap correspondence: cases=%d valid=%d rule errors=%d documents with fragments=%d (cyclic: %d) skipped=%v observer calls compared=%d\n",
		st.cases, st.valid, st.errors, st.withFrags, st.cyclic, st.skipped, st.events)
	keys := make([]string, 0, len(st.reasons))
	for k := range st.reasons {
		keys = append(keys, k)
	}
	sort.Strings(keys)
	for _, k := range keys {
		fmt.Printf("  message shape %-26s %d\n", k, st.reasons[k])
	}
	fmt.Printf("  most `subfields` in one message: %d\n", st.maxNesting)
}

// corrOverlap runs the real validator (worker subprocesses) and the model on the pairs.
func (c *Ctx) corrOverlap(pairs [][2]string, rules string, st *overlapStats, tolerateTimeout bool) {
	reqs := make([]string, len(pairs))
	for i, p := range pairs {
		reqs[i] = "vall " + rules + " " + impl.HexW([]byte(p[0])) + " " + impl.HexW([]byte(p[1]))
	}
	goOut := c.Worker.Map(reqs)
	if st.old != nil && rules == OverlapRule {
		c.compareWithOldRule(pairs, goOut, st.old)
	}
	for _, p := range pairs {
		c.checkSelectionIdentity(p[1], st)
	}
	var dreqs []string
	var idx []int
	for i, o := range goOut {
		parts := strings.SplitN(o, " # ", 4)
		if len(parts) != 4 {
			key := o
			if strings.HasPrefix(o, "CRASH") {
				key = "CRASH"
				c.Report("runtime", "overlap-go-crash", "real validator crashed the worker on: "+pairs[i][1], map[string]any{"op": "vall", "rules": rules, "schema": pairs[i][0], "document": pairs[i][1], "go_observation": trunc(o, 2000)})
			}
			if o == "TIMEOUT" && !tolerateTimeout {
				c.Report("runtime", "overlap-go-timeout", "real validator exceeded the worker deadline on: "+pairs[i][1], map[string]any{"op": "vall", "rules": rules, "schema": pairs[i][0], "document": pairs[i][1]})
			}
			st.skipped[key]++
			continue
		}
		dreqs = append(dreqs, "validatelinks "+rules+" "+parts[3])
		idx = append(idx, i)
	}
	model := c.Driver.Map(dreqs)
	for k, i := range idx {
		parts := strings.SplitN(goOut[i], " # ", 4)
		mp := strings.SplitN(model[k], " # ", 3)
		c.Ev.Traces++
		c.Ev.Case(parts[0], parts[0] != "OK")
		st.addGo(parts[0], pairs[i][1])
		replay := map[string]any{"op": "validate", "rules": rules, "schema": pairs[i][0], "document": pairs[i][1], "go_observation": parts[0], "model_observation": trunc(model[k], 4000)}
		if len(mp) != 3 {
			if model[k] == "TIMEOUT" {
				// the real rule answered within its deadline but the (slower) model did not within its
				// own: nothing was compared; counted, and reported only if it is not a rare event
				st.skipped["MODEL-TIMEOUT"]++
				st.modelTimeoutDoc = pairs[i]
				continue
			}
			c.Report("correspondence", "overlap-model-reply", fmt.Sprintf("model reply %q on %q", trunc(model[k], 200), pairs[i][1]), replay)
			continue
		}
		if parts[0] != mp[0] {
			c.Report("correspondence", "overlap-errors-differ:"+firstDiffRule(parts[0], mp[0]), fmt.Sprintf("validator and model disagree (rules %s) on %q:\n go    = %s\n model = %s", trunc(rules, 60), pairs[i][1], readable(parts[0]), readable(mp[0])), replay)
		}
		st.events += strings.Count(parts[2], ",") + 1
		if os.Getenv("VERIF_OVERLAP_NOWALKER") != "" {
			// error lists only (while the walker model is being changed by another builder)
			continue
		}
		if parts[2] != mp[2] {
			c.Report("correspondence", "overlap-events-differ", fmt.Sprintf("observer call sequences differ on %q", pairs[i][1]), replay)
		}
		if parts[1] != mp[1] {
			c.Report("correspondence", "overlap-links-differ", fmt.Sprintf("link dumps differ on %q:\n go    = %s\n model = %s", pairs[i][1], linkDiff(parts[1], mp[1]), linkDiff(mp[1], parts[1])), replay)
		}
	}
}

// checkSelectionIdentity checks the assumption under which the model identifies a selection set
// by the start position of its first selection (Go: the first ast.Selection value itself): in a
// parsed document all selection nodes have a position, distinct selection nodes have distinct
// Position.Start, and hence distinct non-empty selection sets have distinct first-selection starts.
func (c *Ctx) checkSelectionIdentity(doc string, st *overlapStats) {
	d, err := parser.ParseQuery(&ast.Source{Input: doc})
	if err != nil {
		return
	}
	nodeAt := map[int]ast.Selection{}
	firstOf := map[int]bool{}
	bad := ""
	var walk func(ss ast.SelectionSet)
	walk = func(ss ast.SelectionSet) {
		if len(ss) > 0 {
			st.selSets++
			p := ss[0].GetPosition()
			if p == nil {
				bad = "first selection without position"
			} else {
				if firstOf[p.Start] {
					bad = fmt.Sprintf("two selection sets whose first selection starts at %d", p.Start)
				}
				firstOf[p.Start] = true
			}
		}
		for _, x := range ss {
			p := x.GetPosition()
			if p == nil {
				bad = "selection without position"
				continue
			}
			if o, ok := nodeAt[p.Start]; ok && o != x {
				bad = fmt.Sprintf("two selection nodes starting at %d", p.Start)
			}
			nodeAt[p.Start] = x
			switch x := x.(type) {
			case *ast.Field:
				walk(x.SelectionSet)
			case *ast.InlineFragment:
				walk(x.SelectionSet)
			}
		}
	}
	for _, op := range d.Operations {
		walk(op.SelectionSet)
	}
	for _, f := range d.Fragments {
		walk(f.SelectionSet)
	}
	if bad != "" {
		c.Report("correspondence", "overlap-selection-identity", "the identity assumption of the model fails: "+bad+" in "+trunc(doc, 300), map[string]any{"document": doc})
	}
}

func overlapErrsOf(obs string) []string {
	if obs == "OK" {
		return nil
	}
	return strings.Split(obs, ";")
}

// compareWithOldRule runs the rule as it was before the polynomial repair (a vcheck binary linked
// against the previous sources) on the same pairs: the verdict (no error / some error) must be the
// same; the lists may differ where the old rule compared one (selection set, fragment) pair twice.
func (c *Ctx) compareWithOldRule(pairs [][2]string, newOut []string, o *overlapOldStats) {
	reqs := make([]string, len(pairs))
	creqs := make([]string, len(pairs))
	for i, p := range pairs {
		reqs[i] = "validate " + OverlapRule + " " + impl.HexW([]byte(p[0])) + " " + impl.HexW([]byte(p[1]))
		creqs[i] = "validate NoFragmentCycles " + impl.HexW([]byte(p[0])) + " " + impl.HexW([]byte(p[1]))
	}
	oldOut := o.pool.Map(reqs)
	cyc := c.Worker.Map(creqs)
	for i := range pairs {
		parts := strings.SplitN(newOut[i], " # ", 4)
		if len(parts) != 4 {
			continue
		}
		nw := parts[0]
		od := oldOut[i]
		if od == "TIMEOUT" || od == "SKIPPED" || strings.HasPrefix(od, "CRASH") {
			o.oldTimeout++
			continue
		}
		if od == "LOADERR" || od == "PARSEERR" {
			continue
		}
		o.cases++
		if od == nw {
			o.same++
			continue
		}
		if (od == "OK") != (nw == "OK") {
			o.verdictDiff++
			if cyc[i] != "OK" {
				o.verdictDiffCyclic++
			}
			c.Report("correspondence", "overlap-repair-verdict-differs", fmt.Sprintf("the repaired rule changes the verdict on %q:\n old = %s\n new = %s", pairs[i][1], readable(od), readable(nw)), map[string]any{"schema": pairs[i][0], "document": pairs[i][1], "old": od, "new": nw})
			continue
		}
		if cyc[i] != "OK" {
			o.listDiffCyclic++
			continue
		}
		o.listDiffAcylic++
		in := map[string]int{}
		for _, e := range overlapErrsOf(nw) {
			in[e]++
		}
		for _, e := range overlapErrsOf(od) {
			if in[e] > 0 {
				in[e]--
			} else {
				o.acyclicLost++
			}
		}
		for _, n := range in {
			o.acyclicGained += n
		}
		o.acyclicExamples = append(o.acyclicExamples, [3]string{pairs[i][1], readable(od), readable(nw)})
		sort.SliceStable(o.acyclicExamples, func(a, b int) bool { return len(o.acyclicExamples[a][0]) < len(o.acyclicExamples[b][0]) })
		if len(o.acyclicExamples) > 6 {
			o.acyclicExamples = o.acyclicExamples[:6]
		}
	}
}

func (o *overlapOldStats) print() {
	fmt.Printf("repaired rule vs previous rule: documents compared=%d identical error lists=%d; previous rule timed out / crashed on %d\n", o.cases, o.same, o.oldTimeout)
	fmt.Printf("  verdict differs: %d (of which on cyclic documents: %d); same verdict but different list: %d cyclic documents, %d ACYCLIC documents (errors only the previous rule reports: %d, only the repaired rule: %d)\n",
		o.verdictDiff, o.verdictDiffCyclic, o.listDiffCyclic, o.listDiffAcylic, o.acyclicLost, o.acyclicGained)
	for _, e := range o.acyclicExamples {
		fmt.Printf("  acyclic example: %q\n    old: %s\n    new: %s\n", e[0], trunc(e[1], 900), trunc(e[2], 900))
	}
}

// ---------- mutations biased towards this rule ----------

func cloneArgs(as ast.ArgumentList) ast.ArgumentList {
	var out ast.ArgumentList
	for _, a := range as {
		out = append(out, &ast.Argument{Name: a.Name, Value: cloneValue(a.Value)})
	}
	return out
}

// cloneSels copies a selection set deeply (a shallow copy pasted below one of its own nodes would
// make the tree cyclic).
func cloneSels(ss ast.SelectionSet) ast.SelectionSet {
	var out ast.SelectionSet
	for _, x := range ss {
		switch x := x.(type) {
		case *ast.Field:
			out = append(out, cloneField(x))
		case *ast.InlineFragment:
			out = append(out, &ast.InlineFragment{TypeCondition: x.TypeCondition, Directives: x.Directives, SelectionSet: cloneSels(x.SelectionSet)})
		case *ast.FragmentSpread:
			out = append(out, &ast.FragmentSpread{Name: x.Name, Directives: x.Directives})
		}
	}
	return out
}

func cloneField(f *ast.Field) *ast.Field {
	return &ast.Field{Alias: f.Alias, Name: f.Name, Arguments: cloneArgs(f.Arguments), Directives: f.Directives,
		SelectionSet: cloneSels(f.SelectionSet)}
}

func respName(f *ast.Field) string {
	if f.Alias != "" {
		return f.Alias
	}
	return f.Name
}

type fieldSite struct {
	f  *ast.Field
	ss *ast.SelectionSet
}

func fieldSites(s *sites) []fieldSite {
	var out []fieldSite
	for _, ss := range s.sels {
		for _, x := range *ss {
			if f, ok := x.(*ast.Field); ok {
				out = append(out, fieldSite{f, ss})
			}
		}
	}
	return out
}

func spreadSites(s *sites) []*ast.FragmentSpread {
	var out []*ast.FragmentSpread
	for _, ss := range s.sels {
		for _, x := range *ss {
			if f, ok := x.(*ast.FragmentSpread); ok {
				out = append(out, f)
			}
		}
	}
	return out
}

// tweakArgs changes an argument list in a way sameArguments may or may not notice.
func tweakArgs(r *rng.R, f *ast.Field, pool *NamePool, s *sites) {
	as := &f.Arguments
	switch r.Intn(8) {
	case 0: // reverse the order (never a difference)
		for i, j := 0, len(*as)-1; i < j; i, j = i+1, j-1 {
			(*as)[i], (*as)[j] = (*as)[j], (*as)[i]
		}
	case 1: // drop one
		if len(*as) > 0 {
			i := r.Intn(len(*as))
			*as = append(append(ast.ArgumentList{}, (*as)[:i]...), (*as)[i+1:]...)
		}
	case 2: // add one
		*as = append(*as, &ast.Argument{Name: pickNameV(r, pool, s, 5), Value: randLiteral(r, pool, 0)})
	case 3: // duplicate one (same length trick: a a vs a b)
		if len(*as) > 0 {
			a := (*as)[r.Intn(len(*as))]
			*as = append(*as, &ast.Argument{Name: a.Name, Value: cloneValue(a.Value)})
		}
	case 4: // replace a value
		if len(*as) > 0 {
			(*as)[r.Intn(len(*as))].Value = randLiteral(r, pool, 1)
		}
	case 5: // change something inside a list / object value
		if len(*as) > 0 {
			a := (*as)[r.Intn(len(*as))]
			v := a.Value
			for depth := 0; depth < 3 && v != nil && len(v.Children) > 0 && r.Chance(2, 3); depth++ {
				v = v.Children[r.Intn(len(v.Children))].Value
			}
			if v != nil {
				switch {
				case len(v.Children) > 1 && r.Bool(): // permute children (objects: no difference, lists: difference)
					i, j := r.Intn(len(v.Children)), r.Intn(len(v.Children))
					v.Children[i], v.Children[j] = v.Children[j], v.Children[i]
				case len(v.Children) > 0 && r.Bool(): // duplicate / drop a child
					if r.Bool() {
						ch := v.Children[r.Intn(len(v.Children))]
						v.Children = append(v.Children, &ast.ChildValue{Name: ch.Name, Value: cloneValue(ch.Value)})
					} else {
						i := r.Intn(len(v.Children))
						v.Children = append(append(ast.ChildValueList{}, v.Children[:i]...), v.Children[i+1:]...)
					}
				case len(v.Children) > 0:
					v.Children[r.Intn(len(v.Children))].Value = randLiteral(r, pool, 1)
				default:
					nv := randLiteral(r, pool, 1)
					*v = *nv
				}
			}
		}
	case 6: // wrap a value into a list / an object
		if len(*as) > 0 {
			a := (*as)[r.Intn(len(*as))]
			if r.Bool() {
				a.Value = &ast.Value{Kind: ast.ListValue, Children: ast.ChildValueList{{Value: a.Value}, {Value: cloneValue(a.Value)}}}
			} else {
				a.Value = &ast.Value{Kind: ast.ObjectValue, Children: ast.ChildValueList{{Name: "a", Value: a.Value}, {Name: "b", Value: randLiteral(r, pool, 0)}}}
			}
		}
	default: // same content, other kind: "x" vs """x""", 1 vs 1.0, enum vs string
		if len(*as) > 0 {
			v := (*as)[r.Intn(len(*as))].Value
			switch v.Kind {
			case ast.StringValue:
				v.Kind = ast.BlockValue
			case ast.BlockValue:
				v.Kind = ast.StringValue
			case ast.IntValue:
				v.Kind = ast.FloatValue
				v.Raw += ".0"
			case ast.EnumValue:
				v.Kind = ast.StringValue
			default:
				nv := randLiteral(r, pool, 0)
				*v = *nv
			}
		}
	}
}

func objectTypeNames(pool *NamePool, schema *ast.Schema) []string {
	var out []string
	for _, n := range pool.Types {
		if d := schema.Types[n]; d != nil && (d.Kind == ast.Object || d.Kind == ast.Interface || d.Kind == ast.Union) && !strings.HasPrefix(n, "__") {
			out = append(out, n)
		}
	}
	return out
}

// mutateOverlap applies one mutation aimed at OverlappingFieldsCanBeMerged; false if no site.
func mutateOverlap(r *rng.R, d *ast.QueryDocument, pool *NamePool, composite []string) bool {
	s := collectSites(d)
	if len(s.sels) == 0 {
		return false
	}
	fs := fieldSites(s)
	pickType := func() string {
		if len(composite) > 0 && !r.Chance(1, 8) {
			return rng.Pick(r, composite)
		}
		return pickNameV(r, pool, s, 1)
	}
	pickFrag := func() string {
		if len(s.frags) > 0 && !r.Chance(1, 10) {
			return rng.Pick(r, s.frags)
		}
		return "Missing"
	}
	switch r.Intn(16) {
	case 0, 1: // duplicate a field next to itself, possibly changed
		if len(fs) == 0 {
			return false
		}
		x := rng.Pick(r, fs)
		nf := cloneField(x.f)
		switch r.Intn(6) {
		case 0:
			tweakArgs(r, nf, pool, s)
		case 1:
			nf.Alias = respName(x.f)
			nf.Name = pickNameV(r, pool, s, 0)
		case 2:
			if len(nf.SelectionSet) > 0 {
				i := r.Intn(len(nf.SelectionSet))
				if sf, ok := nf.SelectionSet[i].(*ast.Field); ok {
					c := cloneField(sf)
					if r.Bool() {
						tweakArgs(r, c, pool, s)
					} else {
						c.Alias = respName(sf)
						c.Name = pickNameV(r, pool, s, 0)
					}
					nf.SelectionSet[i] = c
				}
			}
		}
		*x.ss = append(*x.ss, nf)
	case 2: // copy a field into another selection set (as is, or under an inline fragment on a type)
		if len(fs) == 0 {
			return false
		}
		x := rng.Pick(r, fs)
		to := rng.Pick(r, s.sels)
		nf := cloneField(x.f)
		if r.Chance(1, 3) {
			tweakArgs(r, nf, pool, s)
		}
		if r.Bool() {
			*to = append(*to, &ast.InlineFragment{TypeCondition: pickType(), SelectionSet: ast.SelectionSet{nf}})
		} else {
			*to = append(*to, nf)
		}
	case 3: // give a field the response name of a sibling
		var cands []fieldSite
		for _, x := range fs {
			if len(*x.ss) > 1 {
				cands = append(cands, x)
			}
		}
		if len(cands) == 0 {
			return false
		}
		x := rng.Pick(r, cands)
		var sib []*ast.Field
		for _, y := range *x.ss {
			if f, ok := y.(*ast.Field); ok && f != x.f {
				sib = append(sib, f)
			}
		}
		if len(sib) == 0 {
			return false
		}
		x.f.Alias = respName(rng.Pick(r, sib))
	case 4: // arguments of an existing field
		if len(fs) == 0 {
			return false
		}
		tweakArgs(r, rng.Pick(r, fs).f, pool, s)
	case 5: // rewire a spread to another fragment
		sp := spreadSites(s)
		if len(sp) == 0 {
			return false
		}
		rng.Pick(r, sp).Name = pickFrag()
	case 6, 7: // insert a spread of an existing fragment somewhere (cycles)
		to := rng.Pick(r, s.sels)
		*to = append(*to, &ast.FragmentSpread{Name: pickFrag()})
	case 8: // wrap a selection set's content into inline fragments on two types
		ss := rng.Pick(r, s.sels)
		if len(*ss) == 0 {
			return false
		}
		a := &ast.InlineFragment{TypeCondition: pickType(), SelectionSet: append(ast.SelectionSet{}, *ss...)}
		var b ast.SelectionSet
		for _, x := range *ss {
			if f, ok := x.(*ast.Field); ok {
				c := cloneField(f)
				if r.Chance(1, 3) {
					c.Alias = respName(f)
					c.Name = pickNameV(r, pool, s, 0)
				}
				b = append(b, c)
			} else {
				b = append(b, x)
			}
		}
		*ss = ast.SelectionSet{a, &ast.InlineFragment{TypeCondition: pickType(), SelectionSet: b}}
	case 9: // move a selection set into a new fragment, spread it (also inside itself)
		ss := rng.Pick(r, s.sels)
		if len(*ss) == 0 {
			return false
		}
		name := rng.Pick(r, []string{"N1", "N2", "N3"})
		body := append(ast.SelectionSet{}, *ss...)
		if r.Chance(1, 3) {
			body = append(body, &ast.FragmentSpread{Name: pickFrag()})
		}
		d.Fragments = append(d.Fragments, &ast.FragmentDefinition{Name: name, TypeCondition: pickType(), SelectionSet: body})
		*ss = ast.SelectionSet{&ast.FragmentSpread{Name: name}}
		if r.Bool() {
			*ss = append(*ss, cloneSels(body[:1])...)
		}
	case 10: // a field with a sub-selection that spreads a fragment: cycle through a field
		if len(fs) == 0 {
			return false
		}
		x := rng.Pick(r, fs)
		nf := cloneField(x.f)
		nf.SelectionSet = append(nf.SelectionSet, &ast.FragmentSpread{Name: pickFrag()})
		if r.Bool() {
			*x.ss = append(*x.ss, nf)
		} else {
			to := rng.Pick(r, s.sels)
			*to = append(*to, nf)
		}
	case 11: // new fragment copying a fragment's body with a spread back
		if len(d.Fragments) == 0 {
			return false
		}
		f := rng.Pick(r, d.Fragments)
		name := rng.Pick(r, []string{"N1", "N2", "N3"})
		body := cloneSels(f.SelectionSet)
		body = append(body, &ast.FragmentSpread{Name: f.Name})
		d.Fragments = append(d.Fragments, &ast.FragmentDefinition{Name: name, TypeCondition: f.TypeCondition, SelectionSet: body})
		f.SelectionSet = append(f.SelectionSet, &ast.FragmentSpread{Name: name})
	case 12: // replace the sub-selection of a field by (a variation of) another field's
		var with []fieldSite
		for _, x := range fs {
			if len(x.f.SelectionSet) > 0 {
				with = append(with, x)
			}
		}
		if len(with) < 2 {
			return false
		}
		a, b := rng.Pick(r, with), rng.Pick(r, with)
		a.f.SelectionSet = cloneSels(b.f.SelectionSet)
		a.f.Alias = respName(b.f)
	case 13: // __typename under an alias that collides / a field aliased as __typename
		ss := rng.Pick(r, s.sels)
		if r.Bool() && len(fs) > 0 {
			*ss = append(*ss, &ast.Field{Alias: respName(rng.Pick(r, fs).f), Name: "__typename"})
		} else {
			*ss = append(*ss, &ast.Field{Alias: "__typename", Name: pickNameV(r, pool, s, 0)})
		}
	case 14: // duplicate a spread / an inline fragment in place
		ss := rng.Pick(r, s.sels)
		if len(*ss) == 0 {
			return false
		}
		*ss = append(*ss, (*ss)[r.Intn(len(*ss))])
	default: // change the type condition of a fragment / inline fragment
		var tcs []*string
		for _, f := range d.Fragments {
			tcs = append(tcs, &f.TypeCondition)
		}
		for _, ss := range s.sels {
			for _, x := range *ss {
				if f, ok := x.(*ast.InlineFragment); ok {
					tcs = append(tcs, &f.TypeCondition)
				}
			}
		}
		if len(tcs) == 0 {
			return false
		}
		*rng.Pick(r, tcs) = pickType()
	}
	return true
}

// MutateDocOverlap: like MutateDoc, but two of three mutations are drawn from mutateOverlap.
func MutateDocOverlap(r *rng.R, src string, pool *NamePool, composite []string, n int) (string, bool) {
	d, err := parser.ParseQuery(&ast.Source{Input: src})
	if err != nil {
		return "", false
	}
	for i := 0; i < n; i++ {
		for try := 0; try < 4; try++ {
			var ok bool
			if r.Chance(2, 3) {
				ok = mutateOverlap(r, d, pool, composite)
			} else {
				ok = mutateOnce(r, d, pool)
			}
			if ok {
				break
			}
		}
	}
	for _, op := range d.Operations {
		for _, v := range op.VariableDefinitions {
			if hasVarInConst(v.DefaultValue) {
				return "", false
			}
		}
	}
	out := PrintQueryDoc(d)
	if _, err := parser.ParseQuery(&ast.Source{Input: out}); err != nil {
		return "", false
	}
	return out, true
}

// overlapSeeds: hand-written documents for the adversarial schema and the extra schema that put
// the interesting shapes into the mutation corpus.
var overlapAdvSeeds = []string{
	`{ id id }`,
	`{ a: id a: u { id } }`,
	`{ n(a: 1) { id } n(a: 2) { id } }`,
	`{ ab { ... on A { k } ... on B { k } } }`,
	`{ ab { ... on A { k: x } ... on B { k: o { id } } } }`,
	`{ ab { ... on A { o { id } } ... on B { o { id: x } } } }`,
	`{ u { id: u { id } } u { id } }`,
	`{ u { x: id ...F } } fragment F on Node { x: u { id } }`,
	`{id} fragment F1 on Query{u{... on Node{...F3 u{__typename}}}} fragment F2 on T{...F3 ... on T{__typename{...F0}}} fragment F3 on Node{... on Bogus{...F2 ... on Bogus{...F1}}} fragment F0 on Bogus{id}`,
	`{ u { ...F0 } } fragment F0 on Node { id u { ...F1 } } fragment F1 on Node { id: u { id } u { ...F0 } }`,
	`{ t { u { a: id } ... on T { u { a: x ...X } } } } fragment X on T { a: t { id } }`,
	`{ __typename a: __typename a: id }`,
	`{ ...A ...B } fragment A on Query { x: id ...B } fragment B on Query { x: u { id } ...A }`,
	`{ t { ...A } t { ...B } } fragment A on T { t { ...B x } } fragment B on T { t { ...A x: id } }`,
	`{ u { ...E } } fragment E on Node { ...E2 } fragment E2 on Node { ...E u { ...E id } }`,
	`query A { t { ...P } } query B { t { ...P x } } fragment P on T { x t { x: id ...P } }`,
}

var overlapExtraSeeds = []string{
	`{ user(id: 1) { id } user(id: 2) { id } }`,
	`{ user(id: 1, in: {req: 1, l: [1, 2]}) { id } user(in: {l: [1, 2], req: 1}, id: 1) { id } }`,
	`{ user(id: 1, in: {req: 1, l: [1, 2]}) { id } user(id: 1, in: {req: 1, l: [2, 1]}) { id } }`,
	`{ search(q: "x", ll: [[1, 2], null]) { __typename } search(q: "x", ll: [[1, 2], []]) { __typename } }`,
	`{ search(q: "x") { ... on Dog { name } ... on Cat { name: meows } } }`,
	`{ search(q: "x") { ... on Dog { n: name } ... on Cat { n: id } } }`,
	`{ search(q: "x") { ... on Dog { owner { id } } ... on Cat { owner: name } } }`,
	`{ node(id: 1) { ... on User { pet { ... on Dog { name } } } ... on Dog { pet: owner { name: id } } } }`,
	`{ me { ...N } node(id: 1) { ...N ...M } } fragment N on Node { id ...M } fragment M on Named { name id: name ...N }`,
	`query ($a: Int, $b: Int) { scalarArg(x: $a) scalarArg(x: $b) }`,
	`{ user(id: 1) { friends { id friends { name } } friends { id friends { name: id } } } }`,
	`{ user(id: 1) { friends(first: 1) { id } ...UF } } fragment UF on User { friends(first: 2) { id } }`,
}

// overlapDeepCycle: `fragment F on Node { u { u { … { id ...F } … ...F } ...F } }` with k levels —
// a fragment that spreads itself at every nesting level. Before the memo of (selection set, fragment)
// comparisons the number of `findConflict` calls grew like c^k on it (every pair (u_i, u_j) was reached
// along exponentially many paths: 214 s at k = 12).
func overlapDeepCycle(k int) gen.AdvCase {
	s := "id"
	for i := 0; i < k; i++ {
		s = "u { " + s + " ...F }"
	}
	return gen.AdvCase{Name: "fragment-cycle-every-level", SchemaSDL: gen.Adversarial(1)[0].SchemaSDL,
		Doc: "{ u { ...F } }\nfragment F on Node { " + s + " }\n"}
}

// overlapScaleDiv divides the default sizes of the X-overlap stages when the run is embedded in
// another check (C08); overlapOnBatch, when set, also receives every batch of mutated documents.
var (
	overlapScaleDiv = 1
	overlapOnBatch  func([][2]string)
)

func overlapEnvInt(name string, def int) int {
	if v := os.Getenv(name); v != "" {
		if n, err := strconv.Atoi(v); err == nil {
			return n
		}
	}
	return max(def/overlapScaleDiv, 1)
}

func init() {
	Checks["X-overlap"] = func(c *Ctx) {
		st := newOverlapStats()
		t0 := time.Now()
		if ow := os.Getenv("VERIF_OVERLAP_OLD_WORKER"); ow != "" {
			st.old = &overlapOldStats{pool: pool.New([]string{ow, "-worker"}, c.Worker.N, 20*time.Second)}
			st.old.pool.Env = []string{"GOMEMLIMIT=2GiB"}
			st.old.pool.MaxCrashes = 1 << 30 // the previous rule is exponential: its timeouts are expected
		}

		// (a) imported graphql-js cases: those of this rule, and every other imported document
		cases, _ := ImportedCases()
		var own, others [][2]string
		seen := map[string]bool{}
		for _, s := range cases {
			p := [2]string{s.Schema, s.Query}
			if s.Rule == OverlapRule {
				own = append(own, p)
			} else if !seen[p[0]+"\x00"+p[1]] {
				seen[p[0]+"\x00"+p[1]] = true
				others = append(others, p)
			}
		}
		c.corrOverlap(own, OverlapRule, st, false)
		fmt.Printf("imported %s cases: %d (rule errors so far %d)\n", OverlapRule, len(own), st.errors)
		c.corrOverlap(own, OverlapMixRules, st, false)
		c.corrOverlap(own, "default", st, false)
		c.corrOverlap(others, OverlapRule, st, false)
		fmt.Printf("other imported documents under this rule: %d\n", len(others))

		// (b) seed pairs of X-validate and the hand-written overlap seeds
		seedPairs, _ := ValidateSeedPairs()
		advSchema := gen.Adversarial(1)[0].SchemaSDL
		for _, q := range overlapAdvSeeds {
			seedPairs = append(seedPairs, [2]string{advSchema, q})
		}
		for _, q := range overlapExtraSeeds {
			seedPairs = append(seedPairs, [2]string{ExtraSchema, q})
		}
		c.corrOverlap(seedPairs, OverlapRule, st, false)
		c.corrOverlap(seedPairs, OverlapMixRules, st, false)
		fmt.Printf("seed pairs: %d\n", len(seedPairs))

		// (c) generated schemas, documents, faults
		nSchemas := overlapEnvInt("VERIF_OVERLAP_SCHEMAS", c.Pick(150, 600))
		var schemas []*gen.Schema
		var reqs []string
		for i := 0; i < nSchemas; i++ {
			s := gen.GenSchema(c.R.Fork(uint64(i)+7_000_000), c.R.Intn(14))
			schemas = append(schemas, s)
			reqs = append(reqs, "genload "+impl.HexW([]byte(s.SDL())))
		}
		out := c.Worker.Map(reqs)
		var good []*gen.Schema
		for i, o := range out {
			if o == "OK" {
				good = append(good, schemas[i])
			}
		}
		fmt.Printf("generated schemas: %d loadable of %d\n", len(good), nSchemas)
		var genPairs [][2]string
		feat := map[string]int{}
		perSchema := overlapEnvInt("VERIF_OVERLAP_DOCS_PER_SCHEMA", c.Pick(40, 120))
		for _, s := range good {
			sdl := s.SDL()
			for k := 0; k < perSchema; k++ {
				d := gen.GenDoc(c.R, s, 2+c.R.Intn(12))
				for _, f := range []string{"identical-field-repeated", "same-response-name-on-exclusive-objects", "alias", "fragment-spread", "inline-fragment"} {
					if d.Has(f) {
						feat[f]++
					}
				}
				genPairs = append(genPairs, [2]string{sdl, d.Text})
			}
		}
		before := st.errors
		c.corrOverlap(genPairs, OverlapRule, st, false)
		fmt.Printf("gen.GenDoc documents: %d (features: %v); rule errors on valid-by-construction documents: %d\n", len(genPairs), feat, st.errors-before)

		var variants []string
		for _, v := range gen.DocFaultVariants() {
			if strings.HasPrefix(v, OverlapRule+"/") {
				variants = append(variants, v)
			}
		}
		var faultPairs [][2]string
		perVariant := map[string]int{}
		noSite := map[string]int{}
		perV := overlapEnvInt("VERIF_OVERLAP_FAULTS_PER_VARIANT", c.Pick(4, 12))
		for _, s := range good {
			sdl := s.SDL()
			for _, v := range variants {
				for k := 0; k < perV; k++ {
					f, ok := gen.InjectDocFaultVariant(c.R, s, 2+c.R.Intn(10), v)
					if !ok {
						noSite[v]++
						continue
					}
					perVariant[v]++
					faultPairs = append(faultPairs, [2]string{sdl, f.Doc})
				}
			}
			// multi-fault carriers of any rule: this rule must stay silent or agree
			for k := 0; k < 4; k++ {
				for _, f := range gen.InjectDocFaults(c.R, s, 2+c.R.Intn(10), 2+c.R.Intn(2)) {
					faultPairs = append(faultPairs, [2]string{sdl, f.Doc})
					break
				}
			}
		}
		before = st.errors
		c.corrOverlap(faultPairs, OverlapRule, st, false)
		fmt.Printf("fault documents: %d, rule errors %d; per variant: %v; no site: %v\n", len(faultPairs), st.errors-before, perVariant, noSite)
		for _, v := range variants {
			if perVariant[v] == 0 {
				c.ReportNoInput("correspondence", "overlap-variant-never-injected:"+v, "no document could be produced for fault variant "+v, nil)
			}
		}

		// (d) adversarial families
		var advPairs [][2]string
		maxAdv := overlapEnvInt("VERIF_OVERLAP_ADV_MAX", 12)
		for k := 1; k <= maxAdv; k++ {
			for _, a := range gen.Adversarial(k) {
				if a.Name == "introspection-fanout" && k > 10 {
					continue
				}
				advPairs = append(advPairs, [2]string{a.SchemaSDL, a.Doc})
			}
		}
		for _, k := range []int{16, 24, 32, 48} {
			for _, a := range gen.Adversarial(k) {
				if strings.HasSuffix(a.Name, "-fanout") {
					continue
				}
				advPairs = append(advPairs, [2]string{a.SchemaSDL, a.Doc})
			}
		}
		for _, k := range []int{1, 2, 3, 4, 5, 6, 7, 8, 10, 12, 16, 24, 48} {
			a := overlapDeepCycle(k)
			advPairs = append(advPairs, [2]string{a.SchemaSDL, a.Doc})
		}
		c.corrOverlap(advPairs, OverlapRule, st, true)
		fmt.Printf("adversarial family documents: %d\n", len(advPairs))

		// (e) mutations
		target := overlapEnvInt("VERIF_OVERLAP_MUTATIONS", c.Pick(200000, 1000000))
		type seed struct {
			schema    string
			pool      *NamePool
			composite []string
			docs      []string
		}
		var seeds []*seed
		bySchema := map[string]*seed{}
		addSeed := func(p [2]string) {
			sd, ok := bySchema[p[0]]
			if !ok {
				sch, err := impl.LoadSchema(p[0])
				if err != nil {
					return
				}
				pl := PoolOfSchema(sch)
				sd = &seed{schema: p[0], pool: pl, composite: objectTypeNames(pl, sch)}
				bySchema[p[0]] = sd
				seeds = append(seeds, sd)
			}
			sd.docs = append(sd.docs, p[1])
		}
		for _, p := range own {
			addSeed(p)
		}
		for _, p := range seedPairs {
			addSeed(p)
		}
		for _, p := range advPairs {
			if len(p[1]) < 600 {
				addSeed(p)
			}
		}
		nGenSeeds := 0
		for i, p := range genPairs {
			if i%7 == 0 && len(p[1]) < 1200 {
				addSeed(p)
				nGenSeeds++
			}
		}
		for i, p := range faultPairs {
			if i%5 == 0 && len(p[1]) < 1200 {
				addSeed(p)
			}
		}
		hot := []*seed{bySchema[advSchema], bySchema[ExtraSchema]}
		for _, p := range own {
			if sd := bySchema[p[0]]; sd != nil {
				hot = append(hot, sd)
				break
			}
		}
		done := 0
		sizes := map[int]int{}
		for done < target {
			var batch [][2]string
			for len(batch) < 20000 && done+len(batch) < target {
				sd := seeds[c.R.Intn(len(seeds))]
				if c.R.Chance(1, 2) {
					sd = hot[c.R.Intn(len(hot))]
				}
				if sd == nil || len(sd.docs) == 0 {
					continue
				}
				doc := sd.docs[c.R.Intn(len(sd.docs))]
				out, ok := MutateDocOverlap(c.R, doc, sd.pool, sd.composite, 1+c.R.Intn(5))
				if !ok || len(out) > 2500 {
					continue
				}
				if c.R.Chance(1, 40) && len(sd.docs) < 4000 && len(out) < 1500 {
					sd.docs = append(sd.docs, out)
				}
				sizes[len(out)/250]++
				batch = append(batch, [2]string{sd.schema, out})
			}
			rules := OverlapRule
			if c.R.Chance(1, 5) {
				rules = OverlapMixRules
			}
			c.corrOverlap(batch, rules, st, false)
			if overlapOnBatch != nil {
				overlapOnBatch(batch)
			}
			done += len(batch)
			fmt.Printf("  mutations so far: %d (%.0f s)\n", done, time.Since(t0).Seconds())
		}
		fmt.Printf("mutations: %d over %d schemas (document size histogram, 250-byte buckets: %v)\n", done, len(seeds), sizes)
		st.print()
		fmt.Printf("  selection sets checked for the identity assumption (distinct first-selection starts): %d\n", st.selSets)
		if st.old != nil {
			st.old.print()
		}
		if n := st.skipped["MODEL-TIMEOUT"]; n > 0 {
			fmt.Printf("  model deadline (60 s) exceeded on %d documents that the real rule answered within 20 s; last: %q\n", n, trunc(st.modelTimeoutDoc[1], 300))
			if n*2000 > st.cases {
				c.Report("correspondence", "overlap-model-too-slow", fmt.Sprintf("the model timed out on %d of %d cases", n, st.cases), map[string]any{"schema": st.modelTimeoutDoc[0], "document": st.modelTimeoutDoc[1]})
			}
		}

		// (f) time budget of the real rule on the adversarial families (always), and the largest
		// family size at which one validation stays under 1 s, Go and model
		if overlapScaleDiv == 1 {
			overlapBudget(c)
			if os.Getenv("VERIF_OVERLAP_NOTIMING") == "" {
				overlapTiming(c)
			}
			c.Ev.Evals = st.cases
		}
		c.Ev.Extra["overlap_message_shapes"] = st.reasons
	}
}

// overlapBudget asserts that the real rule scales polynomially on every adversarial family: with
// t(k) the time of one validation (this rule only) at size k, t(4k) must stay below
// 1024 · max(t(k), 5 ms) (a polynomial of degree ≤ 5; the exponential behaviour of the rule before
// the repair gave ratios beyond 10⁶ at these sizes) and below 10 s.
func overlapBudget(c *Ctx) {
	fmt.Println("time budget of the real rule (sizes k, 2k, 4k; ratio t(4k)/max(t(k), 5 ms) must be ≤ 1024):")
	type fam struct {
		name string
		base int
		doc  func(k int) gen.AdvCase
	}
	var fams []fam
	for fi, a := range gen.Adversarial(1) {
		if a.Name == "introspection-fanout" {
			continue // MaxIntrospectionDepth's family; this rule never looks below __schema
		}
		if a.Name == "fragment-fanout" {
			// the document itself has 2k fragments of constant size: sizes 16, 32, 64
			fi := fi
			fams = append(fams, fam{a.Name, 16, func(k int) gen.AdvCase { return gen.Adversarial(k)[fi] }})
			continue
		}
		fi := fi
		fams = append(fams, fam{a.Name, 64, func(k int) gen.AdvCase { return gen.Adversarial(k)[fi] }})
	}
	fams = append(fams, fam{"fragment-cycle-every-level", 32, overlapDeepCycle})
	measure := func(a gen.AdvCase) (time.Duration, string) {
		req := "validate " + OverlapRule + " " + impl.HexW([]byte(a.SchemaSDL)) + " " + impl.HexW([]byte(a.Doc))
		best := time.Duration(0)
		out := ""
		for rep := 0; rep < 3; rep++ {
			t := time.Now()
			out = c.Worker.One(req)
			el := time.Since(t)
			if rep == 0 || el < best {
				best = el
			}
			if out == "TIMEOUT" || strings.HasPrefix(out, "CRASH") {
				break
			}
		}
		return best, out
	}
	for _, f := range fams {
		var ts [3]time.Duration
		failed := ""
		for i, k := range []int{f.base, 2 * f.base, 4 * f.base} {
			a := f.doc(k)
			t, out := measure(a)
			ts[i] = t
			if out == "TIMEOUT" || strings.HasPrefix(out, "CRASH") {
				failed = fmt.Sprintf("size %d: %s", k, trunc(out, 40))
				break
			}
		}
		den := ts[0]
		if den < 5*time.Millisecond {
			den = 5 * time.Millisecond
		}
		ratio := float64(ts[2]) / float64(den)
		fmt.Printf("  %-28s k=%-3d %8.1f ms   2k %8.1f ms   4k %8.1f ms   ratio %.1f %s\n", f.name, f.base,
			float64(ts[0].Microseconds())/1000, float64(ts[1].Microseconds())/1000, float64(ts[2].Microseconds())/1000, ratio, failed)
		if failed != "" || ratio > 1024 || ts[2] > 10*time.Second {
			a := f.doc(4 * f.base)
			c.Report("runtime", "overlap-time-budget:"+f.name, fmt.Sprintf("the real rule does not scale polynomially on family %s: t(%d)=%v t(%d)=%v t(%d)=%v %s", f.name, f.base, ts[0], 2*f.base, ts[1], 4*f.base, ts[2], failed),
				map[string]any{"op": "validate", "rules": OverlapRule, "schema": a.SchemaSDL, "document": a.Doc})
		}
	}
}

// overlapTiming measures, per adversarial family, the largest size (doubling, then the byte size of
// the document) for which the real rule / the model answers within one second.
func overlapTiming(c *Ctx) {
	fmt.Println("timing (single validation with only this rule; sizes double until > 1 s or size 4096):")
	names := []string{}
	for _, a := range gen.Adversarial(1) {
		names = append(names, a.Name)
	}
	names = append(names, "fragment-cycle-every-level")
	for fi, name := range names {
		if name == "introspection-fanout" {
			continue
		}
		lastGo, lastModel := "", ""
		goDone, modelDone := false, false
		step := func(k int) int { return k * 2 }
		if strings.HasSuffix(name, "-fanout") || name == "fragment-cycle-every-level" {
			step = func(k int) int { return k + 1 } // exponential families: linear steps
		}
		for k := 1; k <= 4096 && !(goDone && modelDone); k = step(k) {
			if strings.HasSuffix(name, "-fanout") && k > 24 {
				break
			}
			var a gen.AdvCase
			if name == "fragment-cycle-every-level" {
				a = overlapDeepCycle(k)
			} else {
				a = gen.Adversarial(k)[fi]
			}
			req := "validate " + OverlapRule + " " + impl.HexW([]byte(a.SchemaSDL)) + " " + impl.HexW([]byte(a.Doc))
			var sexp string
			{
				// the request for the model comes from the Go side's parse (valreq: no validation)
				o := c.Worker.One("valreq " + impl.HexW([]byte(a.SchemaSDL)) + " " + impl.HexW([]byte(a.Doc)))
				sexp = o
			}
			if !goDone {
				t := time.Now()
				o := c.Worker.One(req)
				el := time.Since(t)
				if el > time.Second || o == "TIMEOUT" || strings.HasPrefix(o, "CRASH") {
					goDone = true
				} else {
					lastGo = fmt.Sprintf("size %d (%d bytes, %.0f ms)", k, len(a.Doc), float64(el.Microseconds())/1000)
				}
			}
			if !modelDone {
				t := time.Now()
				o := c.Driver.One("validate " + OverlapRule + " " + sexp)
				el := time.Since(t)
				if el > time.Second || o == "TIMEOUT" {
					modelDone = true
				} else {
					lastModel = fmt.Sprintf("size %d (%d bytes, %.0f ms)", k, len(a.Doc), float64(el.Microseconds())/1000)
				}
			}
		}
		fmt.Printf("  %-24s Go < 1 s up to %-34s model < 1 s up to %s\n", name, lastGo, lastModel)
	}
}
