package props

import (
	"sort"
	"fmt"
	"strconv"
	"strings"
	"verifharness/internal/rng"

	"verifharness/internal/gen"
	"verifharness/internal/impl"
	"verifharness/internal/pool"
)

// genPairs produces (schema, document) pairs from the typed generators: valid documents,
// documents with 1–3 injected faults, type-blind documents.
func (c *Ctx) genPairs(nSchemas, perSchema int) [][2]string {
	var out [][2]string
	for i := 0; i < nSchemas; i++ {
		s := gen.GenSchema(c.R, 2+c.R.Intn(6))
		sdl := s.SDL()
		for j := 0; j < perSchema; j++ {
			var doc string
			switch c.R.Intn(4) {
			case 0:
				doc = gen.GenDocument(c.R, s, 1+c.R.Intn(5))
			case 1, 2:
				fs := gen.InjectDocFaults(c.R, s, 1+c.R.Intn(4), 1+c.R.Intn(3))
				if len(fs) == 0 {
					continue
				}
				doc = fs[len(fs)-1].Doc
			default:
				doc = gen.GenBlindDocument(c.R, s, 1+c.R.Intn(5))
			}
			if len(doc) > 4000 {
				continue
			}
			out = append(out, [2]string{sdl, doc})
		}
	}
	return out
}

func (c *Ctx) valPropsSweep(pairs [][2]string, want func(sig string) bool) {
	reqs := make([]string, len(pairs))
	for i, p := range pairs {
		reqs[i] = "valprops " + impl.HexW([]byte(p[0])) + " " + impl.HexW([]byte(p[1]))
	}
	out := c.Worker.Map(reqs)
	for i, o := range out {
		rep := map[string]any{"op": "valprops", "schema": pairs[i][0], "document": pairs[i][1], "go_observation": clip(o, 1500)}
		switch {
		case strings.HasPrefix(o, "OK "):
			f := strings.SplitN(o, " ", 4)
			c.Ev.Case(f[3], f[1] != "0")
			c.Ev.Count("valprops:ok", 1)
		case strings.HasPrefix(o, "VIOL "):
			f := strings.SplitN(o, " ", 3)
			d, _ := impl.UnhexW(f[2])
			if want(f[1]) {
				c.Report("spec", f[1], fmt.Sprintf("document %q: %s", clip(pairs[i][1], 300), clip(string(d), 600)), rep)
			}
		case strings.HasPrefix(o, "CRASH"), strings.HasPrefix(o, "PANIC"):
			c.Report("runtime", "validate-crash", fmt.Sprintf("validating %q: %s", clip(pairs[i][1], 300), clip(o, 300)), rep)
		case o == "TIMEOUT":
			c.Report("runtime", "validate-timeout", fmt.Sprintf("validating %q did not return within the deadline", clip(pairs[i][1], 300)), rep)
		default:
			c.Ev.Count("valprops:"+o, 1)
		}
	}
}

func isC10Sig(s string) bool { return strings.HasPrefix(s, "revalidate-") }
func isC18Sig(s string) bool { return !isC10Sig(s) }

// adversarial: size-parametrised families; validation time must stay polynomial (C02).
func (c *Ctx) adversarialTimes() {
	type key struct {
		name string
		size int
	}
	var reqs []string
	var keys []key
	// (the fan-out families double the work per level when a memo is lost: 32–48 levels of a 2 KB
	// document decide between microseconds and hours)
	sizes := []int{2, 4, 8, 12, 16, 24, 32, 48}
	if c.Thorough() {
		sizes = append(sizes, 64, 96, 128)
	}
	for _, n := range sizes {
		for _, f := range gen.Adversarial(n) {
			if len(f.Doc) > 200000 {
				continue
			}
			reqs = append(reqs, "valtime "+impl.HexW([]byte(f.SchemaSDL))+" "+impl.HexW([]byte(f.Doc)))
			keys = append(keys, key{f.Name, n})
		}
	}
	out := c.Worker.Map(reqs)
	for i, o := range out {
		k := keys[i]
		b, _ := impl.UnhexW(strings.Fields(reqs[i])[2])
		c.Ev.Case("adv:"+k.name+strconv.Itoa(k.size)+o[:min(3, len(o))], true)
		rep := map[string]any{"op": "valtime", "family": k.name, "size": k.size, "document_bytes": len(b), "go_observation": clip(o, 400), "request": clip(reqs[i], 4000)}
		switch {
		case strings.HasPrefix(o, "CRASH"), strings.HasPrefix(o, "PANIC"):
			c.Report("runtime", "validate-crash:"+k.name, fmt.Sprintf("family %s size %d (%d bytes): %s", k.name, k.size, len(b), clip(o, 300)), rep)
		case o == "TIMEOUT":
			c.Report("runtime", "validate-timeout:"+k.name, fmt.Sprintf("family %s size %d (%d bytes) did not validate within %v", k.name, k.size, len(b), c.Worker.Timeout), rep)
		default:
			f := strings.Fields(o)
			if len(f) == 2 {
				ns, _ := strconv.ParseInt(f[1], 10, 64)
				c.Ev.Count("adversarial-runs", 1)
				// a kilobyte-sized request must not occupy the validator for seconds
				if ns > 2_000_000_000 && len(b) < 20000 {
					c.Report("runtime", "validate-slow:"+k.name, fmt.Sprintf("family %s size %d (%d bytes) took %d ms", k.name, k.size, len(b), ns/1e6), rep)
				}
			}
		}
	}
}

// loaderCrashSweep: the loading half of C02 on the real loader — every generated single-fault type
// system (each clause, one source and split over several), valid ones, and token mutations of the
// corpus must come back with a schema or an error: no panic, no crash, no hang. (What the loader
// answers is C07's business.)
func (c *Ctx) loaderCrashSweep() {
	var reqs []string
	add := func(srcs []string) {
		var hx []string
		for _, s := range srcs {
			hx = append(hx, impl.HexW([]byte(s)))
		}
		reqs = append(reqs, "loadcanon "+strings.Join(hx, " "))
	}
	for i := 0; i < c.Pick(1500, 15000); i++ {
		r := c.R.Fork(uint64(i) + 41_000_000)
		s := gen.GenSchema(r, r.Intn(12))
		cl := gen.SchemaClauses[i%len(gen.SchemaClauses)]
		if i%2 == 1 {
			// dangling references are what a loader dereferences: half of the budget goes to them
			cl = []string{"undefined-type:union-member", "undefined-type:interface", "undefined-type:field", "undefined-type:argument", "undefined-type:input-field", "undefined-type:root", "directive-undefined"}[(i/2)%7]
		}
		f := gen.InjectSchemaFaultClause(r, s, cl)
		add(f.Sources)
		add(f.Schema.Render(r, 1+r.Intn(4)))
		// two and three faults at once: an error path that trusts what an earlier check would have refused
		g := f
		for k := 0; k < 1+r.Intn(2); k++ {
			cl2 := gen.SchemaClauses[r.Intn(len(gen.SchemaClauses))]
			if i%3 == 0 {
				cl2 = []string{"interface-field-not-covariant", "undefined-type:union-member", "interface-field-missing", "wrong-kind:union-member-not-object", "undefined-type:interface"}[r.Intn(5)]
			}
			g2, ok := injectAgain(r, g.Schema, cl2)
			if !ok {
				break // the injector needs something the earlier fault removed
			}
			g = g2
			add(g.Sources)
		}
		if i%4 == 0 {
			add(s.Render(r, 1+r.Intn(3)))
		}
	}
	_, ss := RepoGraphQLInputs()
	for i := 0; i < c.Pick(3000, 30000); i++ {
		add([]string{MutateTokens(c.R, ss[c.R.Intn(len(ss))])})
	}
	// every pair of type wrappers between an interface field (or argument) and its implementation
	wrappers := []string{"X", "X!", "[X]", "[X]!", "[X!]", "[X!]!", "[[X]]", "[[X]!]", "[[X!]]!", "[[[X]]]"}
	for _, wi := range wrappers {
		for _, wt := range wrappers {
			for _, base := range [][2]string{{"Int", "Int"}, {"U", "A"}, {"I", "T"}, {"Int", "String"}} {
				ti := strings.ReplaceAll(wi, "X", base[0])
				tt := strings.ReplaceAll(wt, "X", base[1])
				add([]string{"interface I { f: " + ti + " g(a: " + strings.ReplaceAll(wi, "X", "Int") + "): Int }\ntype T implements I { f: " + tt + " g(a: " + strings.ReplaceAll(wt, "X", "Int") + "): Int }\ntype A { x: Int }\nunion U = A | T\ntype Query { i: I }"})
			}
		}
	}
	// directive definitions whose arguments carry directives: chains, cycles and lassos (a cycle entered
	// from a directive that sorts before it or after it), in every rotation of the names
	for n := 1; n <= 4; n++ {
		for entry := 0; entry <= n; entry++ {
			for _, names := range [][]string{{"a", "b", "c", "d", "e"}, {"z", "b", "c", "d", "e"}, {"m", "z", "y", "x", "w"}} {
				var sb strings.Builder
				// names[0] → names[1] → … → names[n] → names[entry]
				for i := 0; i <= n; i++ {
					next := names[(i+1)%5]
					if i == n {
						next = names[entry]
					}
					sb.WriteString("directive @" + names[i] + "(x: Int @" + next + ") on ARGUMENT_DEFINITION\n")
				}
				add([]string{sb.String() + "type Query { f(a: Int @" + names[0] + "): Int }"})
				add([]string{sb.String(), "type Query { f: Int }"})
			}
		}
	}
	// the corpus of the loader checks, former crash witnesses included, and its token mutations
	for _, s := range loadCorpus() {
		add([]string{s})
		if len(s) < 400 {
			for k := 0; k < 20; k++ {
				add([]string{MutateTokens(c.R, s)})
			}
		}
	}
	out := c.Worker.Map(reqs)
	for i, o := range out {
		c.Ev.Case("load:"+clip(o, 60), true)
		if strings.HasPrefix(o, "CRASH") || strings.HasPrefix(o, "PANIC") || o == "TIMEOUT" {
			c.Report("runtime", "load-crash", fmt.Sprintf("LoadSchema did not return normally: %s on %s", clip(o, 300), clip(reqs[i], 300)), map[string]any{"op": "loadcanon", "request": reqs[i], "go_observation": clip(o, 2000)})
		}
	}
	c.Ev.Count("loader-crash-sweep", len(reqs))
}

// oddStringsIllTyped: string literals with characters that printers treat specially, written where
// they are ill-typed (the error path renders the offending value) and where they are well-typed.
func (c *Ctx) oddStringsIllTyped() {
	sdl := "enum E { A B }\ninput In { i: Int s: String e: E l: [Int] }\ntype Query { f(i: Int, s: String, e: E, b: Boolean, d: ID, fl: Float, l: [Int], in: In): Int }"
	odd := []string{`\u2028`, `\u2029`, `\u0085`, `\u0000`, `\u001f`, `\u007f`, `\ufeff`, `\ud800`, `\udfff`, `\uffff`, `\u00e9`, `\\`, `\"`, `\u{1F600}`, `\n\r\t\b\f`}
	var reqs []string
	for _, o := range odd {
		for _, form := range []string{`"x` + o + `y"`, `"""x` + o + `y"""`, `"` + o + `"`} {
			for _, pos := range []string{"i: %s", "s: %s", "e: %s", "b: %s", "d: %s", "fl: %s", "l: %s", "l: [%s]", "in: {i: %s}", "in: {e: %s}", "in: {l: [%s]}", "in: %s", "zz: %s"} {
				doc := "{ f(" + fmt.Sprintf(pos, form) + ") }"
				reqs = append(reqs, "validate default "+impl.HexW([]byte(sdl))+" "+impl.HexW([]byte(doc)))
				reqs = append(reqs, "validate default "+impl.HexW([]byte(sdl))+" "+impl.HexW([]byte("query($v: Int = "+form+") "+doc)))
			}
		}
	}
	// the same characters raw (not as escapes)
	for _, raw := range []string{"\u2028", "\u2029", "\u0085", "\ufeff", "\U0001F600", "\xff", "\xc3"} {
		doc := "{ f(i: \"" + raw + "\", e: \"" + raw + "\", in: {l: \"" + raw + "\"}) }"
		reqs = append(reqs, "validate default "+impl.HexW([]byte(sdl))+" "+impl.HexW([]byte(doc)))
	}
	out := c.Worker.Map(reqs)
	for i, o := range out {
		c.Ev.Case("odd:"+clip(o, 40), true)
		if strings.HasPrefix(o, "CRASH") || strings.HasPrefix(o, "PANIC") || o == "TIMEOUT" {
			b, _ := impl.UnhexW(strings.Fields(reqs[i])[3])
			c.Report("runtime", "validate-crash:odd-string-ill-typed", fmt.Sprintf("validation of %q did not return normally: %s", string(b), clip(o, 300)), map[string]any{"op": "validate", "request": reqs[i], "go_observation": clip(o, 2000)})
		}
	}
	c.Ev.Count("odd-strings-ill-typed", len(reqs))
}

func injectAgain(r *rng.R, s *gen.Schema, clause string) (f gen.SchemaFault, ok bool) {
	defer func() {
		if recover() != nil {
			ok = false
		}
	}()
	return gen.InjectSchemaFaultClause(r, s, clause), true
}

func checkC02(c *Ctx) {
	c.validateSuite(c.Pick(60000, 600000))
	pairs := c.genPairs(c.Pick(150, 1500), 40)
	c.valPropsSweep(pairs, func(string) bool { return false }) // crashes and timeouts only
	c.adversarialTimes()
	c.oddStringsIllTyped()
	c.loaderCrashSweep()
	c.Ev.Rule = "validator vs Lean model on the imported graphql-js cases, their mutations (22 mutation kinds) and random rule subsets (all rules but OverlappingFieldsCanBeMerged are modelled); the REAL default rule set on generated valid / faulty / type-blind documents over generated schemas and on the adversarial size families (fragment fan-out, cycles through fields, alias ladders …): no crash, no timeout, no multi-second validation. Non-trivial: at least one error; distinct by error list."
}

func checkC10(c *Ctx) {
	c.validateSuite(c.Pick(30000, 300000))
	pairs := c.genPairs(c.Pick(150, 1500), 40)
	for i := 0; i < c.Pick(40, 400); i++ {
		a := gen.Equidistant(c.R, 3+c.R.Intn(6))
		pairs = append(pairs, [2]string{a.SchemaSDL, a.Doc})
	}
	c.valPropsSweep(pairs, isC10Sig)
	c.validationHistories(pairs)
	// across processes: the same requests through independent fresh worker pools (Go randomises map
	// iteration per range statement and the hash seed per process)
	reqs := make([]string, 0, len(pairs))
	for _, p := range pairs {
		reqs = append(reqs, "validate default "+impl.HexW([]byte(p[0]))+" "+impl.HexW([]byte(p[1])))
	}
	base := c.Worker.Map(reqs)
	for k := 0; k < c.Pick(3, 16); k++ {
		fresh := pool.New(c.Worker.Argv, c.Worker.N, c.Worker.Timeout)
		fresh.Env = c.Worker.Env
		fresh.Chunk = 7 + 13*k // different request → process assignment every round
		other := fresh.Map(reqs)
		for i := range reqs {
			if other[i] != base[i] {
				c.Report("spec", "validation-differs-across-processes", fmt.Sprintf("document %q: run A %s, run B %s", clip(pairs[i][1], 300), readable(base[i]), readable(other[i])),
					map[string]any{"op": "validate", "rules": "default", "schema": pairs[i][0], "document": pairs[i][1], "run_a": base[i], "run_b": other[i]})
			}
		}
		c.Ev.Count("cross-process-rounds", 1)
	}
	c.Ev.Rule = "every pair validated on a fresh parse twice, the same document object re-validated, and the same requests replayed through independent fresh process pools (different hash seeds / map orders), byte-for-byte equality of the serialised error lists; plus the validator/model correspondence. Pairs: generated valid / faulty / blind documents, schemas whose type names are pairwise equidistant from a misspelt name, imported cases and their mutations."
}

// rulePairOrders: for every ordered pair (A, B) of the default rules and every crafted document, the
// errors of [A, B] and of [B, A] are the same multiset, and equal to the errors of [A] plus those of [B]
// (a rule that writes something another rule reads makes the list order, or the company, matter).
func (c *Ctx) rulePairOrders(sdl string, docs []string) {
	names := impl.DefaultRuleNames
	hs := impl.HexW([]byte(sdl))
	split := func(o string) []string {
		if o == "OK" {
			return nil
		}
		x := strings.Split(o, ";")
		sort.Strings(x)
		return x
	}
	for _, d := range docs {
		hd := impl.HexW([]byte(d))
		var reqs []string
		for _, a := range names {
			reqs = append(reqs, "validate "+a+" "+hs+" "+hd)
		}
		alone := c.Worker.Map(reqs)
		idx := map[string]int{}
		for i, a := range names {
			idx[a] = i
		}
		reqs = reqs[:0]
		type pr struct{ a, b string }
		var prs []pr
		for _, a := range names {
			for _, b := range names {
				if a != b {
					reqs = append(reqs, "validate "+a+","+b+" "+hs+" "+hd)
					prs = append(prs, pr{a, b})
				}
			}
		}
		out := c.Worker.Map(reqs)
		for i, p := range prs {
			c.Ev.Case("pair:"+p.a+","+p.b+clip(out[i], 30), out[i] != "OK")
			want := append(split(alone[idx[p.a]]), split(alone[idx[p.b]])...)
			sort.Strings(want)
			got := split(out[i])
			if strings.Join(got, ";") != strings.Join(want, ";") && !strings.HasPrefix(out[i], "PANIC") {
				c.Report("spec", "rule-pair-not-the-union-of-its-members", fmt.Sprintf("document %q: the rule list [%s, %s] reports %s; %s alone reports %s and %s alone %s", d, p.a, p.b, clip(describeValObs(out[i]), 300), p.a, clip(describeValObs(alone[idx[p.a]]), 200), p.b, clip(describeValObs(alone[idx[p.b]]), 200)),
					map[string]any{"op": "validate", "request": reqs[i], "schema": sdl, "document": d})
				break
			}
		}
	}
}

func checkC18(c *Ctx) {
	c.validateSuite(c.Pick(30000, 300000))
	pairs := c.genPairs(c.Pick(120, 1200), 30)
	seed, _ := ValidateSeedPairs()
	pairs = append(pairs, seed...)
	// documents with hundreds of errors from several rules at once (a cap or a de-duplication across
	// rules would break the union law only there)
	for _, n := range []int{40, 60, 101, 150, 400} {
		var sb strings.Builder
		sb.WriteString("query Q($u1: Int, $u2: Zz) {\n")
		for i := 0; i < n; i++ {
			sb.WriteString("  zz" + strconv.Itoa(i) + " @qq" + strconv.Itoa(i) + "(a: $nope" + strconv.Itoa(i) + ")\n")
		}
		sb.WriteString("}\n")
		pairs = append(pairs, [2]string{"type Query { a: Int b(x: Int!): Int }", sb.String()})
		pairs = append(pairs, [2]string{gen.GenSchema(c.R, 5).SDL(), sb.String()})
	}
	// documents in which one rule's subject is another rule's input: a variable with a default in a non-null
	// position next to the same argument omitted / null, duplicate definitions of everything, variables used only
	// in directives or nested values
	crossSchema := "enum E { A B }\ninput In { lo: Int! e: E! = A }\ntype Query { f(a: Int!, e: E! = A): Int g(in: In!): Int h(x: Int): Int }"
	crossDocs := []string{
		"query($v: Int = 1) { x: f(a: $v) y: f z: f(a: null) }",
		"query($e: E = B, $n: Int = 2) { f(a: $n, e: $e) w: f(a: 1, e: null) g(in: {lo: $n}) u: g(in: {}) }",
		"query Q($a: Int, $a: Int) { h(x: $a) }",
		"query Q($a: Int, $a: Int, $b: Int) { h(x: 1) @skip(if: $b) }",
		"query Q($a: Int) { ...F ...F } fragment F on Query { h(x: $a) } fragment F on Query { h } query Q { h }",
		"query($a: Int = 1, $b: [Int] = [1]) { h(x: [$a]) k: g(in: {lo: $a, zz: $b}) }",
		"{ h @skip(if: true) @skip(if: false) h @nope } { h }",
	}
	for _, d := range crossDocs {
		pairs = append(pairs, [2]string{crossSchema, d})
	}
	c.valPropsSweep(pairs, isC18Sig)
	c.rulePairOrders(crossSchema, crossDocs)
	c.Ev.Rule = "per pair, on the real validator: default rule set = explicit list of the 27 specified rules; each rule alone reports exactly its share of the full run (multiset of rule/message/locations), every error tagged with its rule; the four …WithoutSuggestions variants report the same errors with the ' Did you mean' suffix removed; plus validator vs Lean model on random rule subsets and orders."
}

func init() {
	Checks["C02"] = checkC02
	Checks["C10"] = checkC10
	Checks["C18"] = checkC18
}
