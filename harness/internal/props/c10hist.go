package props

import (
	"fmt"
	"strings"

	"verifharness/internal/gen"
	"verifharness/internal/impl"
	"verifharness/internal/pool"
)

// validationHistories (C10: "in the same process, in a fresh process"): the result of validating a
// (schema, document) pair must not depend on what the process validated before. Every history is
// run twice, forwards and backwards, each time in a process of its own; every request must give the
// same observation in both. Histories: random pairs of the generators, and pairs of schemas whose
// suggestion candidates concatenate to the same text (`name`+`s` / `names`) or share prefixes, queried
// with the same misspelt name — what a cache keyed too coarsely would confuse.
func (c *Ctx) validationHistories(pairs [][2]string) {
	var hists [][]string
	req := func(sdl, doc string) string {
		return "validate default " + impl.HexW([]byte(sdl)) + " " + impl.HexW([]byte(doc))
	}
	words := []string{"names", "userid", "totalcount", "createdat", "itemslist", "ab", "abc", "title", "titles", "first"}
	for _, w := range words {
		for i := 1; i < len(w); i++ {
			a, b := w[:i], w[i:]
			if !isGraphQLName(a) || !isGraphQLName(b) || a == b {
				continue
			}
			for _, typo := range []string{a[:max(1, len(a)-1)], a + "x", w[:max(1, len(w)-1)]} {
				if typo == a || typo == b || typo == w {
					continue
				}
				s1 := "type Query { t: T1 }\ntype T1 { " + a + ": Int " + b + ": Int }"
				s2 := "type Query { t: T2 }\ntype T2 { " + w + ": Int }"
				s3 := "type Query { t: T3 }\ntype T3 { " + b + ": Int " + a + ": Int }"
				d := "{ t { " + typo + " } }"
				hists = append(hists, []string{req(s1, d), req(s2, d), req(s3, d)})
				// the same through arguments, enum values and type names
				e1 := "type Query { f(" + a + ": Int, " + b + ": Int): Int }"
				e2 := "type Query { f(" + w + ": Int): Int }"
				hists = append(hists, []string{req(e1, "{ f("+typo+": 1) }"), req(e2, "{ f("+typo+": 1) }")})
			}
		}
	}
	// candidates that differ only in case (a memo keyed on a case-folded pair confuses distance 0 and 1)
	for _, w := range [][3]string{{"RED", "REX", "red"}, {"Name", "Nane", "name"}, {"userId", "userIt", "USERID"}, {"Ab", "Ac", "ab"}} {
		se := "enum Colour { " + w[1] + " " + w[0] + " GREEN }\ntype Query { f(c: Colour): Int }"
		hists = append(hists, []string{req(se, "{ f(c: \""+w[0]+"\") }"), req(se, "{ f(c: \""+w[2]+"\") }"), req(se, "{ f(c: "+w[2]+") }")})
		sf := "type Query { t: T }\ntype T { " + w[1] + ": Int " + w[0] + ": Int other: Int }"
		hists = append(hists, []string{req(sf, "{ t { "+w[2]+" } }"), req(sf, "{ t { "+strings.ToUpper(w[0])+" } }"), req(sf, "{ t { "+w[0]+"x } }")})
	}
	// one schema extends types of the prelude, the next one does not: what the first added must not be
	// visible through the second (a parsed prelude kept across loads would carry it over)
	for _, ext := range []string{"extend type __Type { origin: String }", "extend enum __TypeKind { EXTRA }", "directive @tag on SCALAR\nextend scalar String @tag", "extend type __Schema { zz: Int }"} {
		s1 := ext + "\ntype Query { a: String }"
		s2 := "type Query { a: String b: Int }"
		d := "{ __type(name: \"Query\") { name origin kind } __schema { zz description } a }"
		hists = append(hists, []string{req(s1, d), req(s2, d), req(s2, "{ a b }")})
	}
	targeted := len(hists)
	for i := 0; i+6 <= len(pairs) && len(hists) < targeted+c.Pick(150, 1500); i += 6 {
		var h []string
		for _, p := range pairs[i : i+6] {
			h = append(h, req(p[0], p[1]))
		}
		hists = append(hists, h)
	}
	for i := 0; i < c.Pick(40, 400); i++ {
		a := gen.Equidistant(c.R, 3+c.R.Intn(6))
		b := gen.Equidistant(c.R, 3+c.R.Intn(6))
		hists = append(hists, []string{req(a.SchemaSDL, a.Doc), req(b.SchemaSDL, b.Doc), req(a.SchemaSDL, b.Doc)})
	}
	n := 0
	for hi, h := range hists {
		rev := make([]string, len(h))
		for i := range h {
			rev[len(h)-1-i] = h[i]
		}
		p1 := pool.New(c.Worker.Argv, 1, c.Worker.Timeout)
		p1.Env = c.Worker.Env
		o1 := p1.Map(h)
		p2 := pool.New(c.Worker.Argv, 1, c.Worker.Timeout)
		p2.Env = c.Worker.Env
		o2 := p2.Map(rev)
		for i := range h {
			n++
			a, b := o1[i], o2[len(h)-1-i]
			c.Ev.Case("hist:"+clip(a, 80), a != "OK")
			if a != b {
				c.Report("spec", "validation-depends-on-history", fmt.Sprintf("history %d, request %d: validated after %d other requests it gives %s, after %d others (the same history backwards) %s",
					hi, i, i, clip(describeValObs(a), 300), len(h)-1-i, clip(describeValObs(b), 300)),
					map[string]any{"op": "valhist", "history": h, "position": i, "forwards": a, "backwards": b})
				break
			}
		}
	}
	c.Ev.Count("history-requests", n)
	c.Ev.Count("histories", len(hists))
	c.Ev.Count("histories-targeted-at-shared-candidate-text", targeted)
}

func isGraphQLName(s string) bool {
	if s == "" {
		return false
	}
	for i, r := range s {
		if !(r == '_' || r >= 'a' && r <= 'z' || r >= 'A' && r <= 'Z' || i > 0 && r >= '0' && r <= '9') {
			return false
		}
	}
	return true
}

// describeValObs renders a `validate` observation (hex fields) readably.
func describeValObs(o string) string {
	if o == "OK" || !strings.Contains(o, ",") {
		return o
	}
	var out []string
	for _, e := range strings.Split(o, ";") {
		f := strings.Split(e, ",")
		if len(f) == 3 {
			m, _ := impl.UnhexW(f[1])
			out = append(out, string(m))
		}
	}
	return strings.Join(out, " | ")
}

// HistoryProbe: requests that share state through the process (a cached schema object, package-level
// variables of the library) must give the same observation whatever the process did before. The
// requests are run forwards in one fresh process and backwards in another; every request must
// answer the same in both. `what` names the entry point in the signature.
func (c *Ctx) HistoryProbe(what string, reqs []string, chunk int) {
	n := 0
	for lo := 0; lo < len(reqs); lo += chunk {
		h := reqs[lo:min(lo+chunk, len(reqs))]
		rev := make([]string, len(h))
		for i := range h {
			rev[len(h)-1-i] = h[i]
		}
		p1 := pool.New(c.Worker.Argv, 1, c.Worker.Timeout)
		p1.Env = c.Worker.Env
		o1 := p1.Map(h)
		p2 := pool.New(c.Worker.Argv, 1, c.Worker.Timeout)
		p2.Env = c.Worker.Env
		o2 := p2.Map(rev)
		for i := range h {
			n++
			a, b := o1[i], o2[len(h)-1-i]
			if a != b && a != "SKIPPED" && b != "SKIPPED" {
				c.Report("spec", "depends-on-history:"+what, fmt.Sprintf("%s request %d of a history of %d: after %d other requests it answers %s, after %d others (the same history backwards) %s; request: %s",
					what, i, len(h), i, clip(a, 300), len(h)-1-i, clip(b, 300), clip(h[i], 200)),
					map[string]any{"op": "history", "history": h, "position": i, "forwards": a, "backwards": b})
				break
			}
		}
	}
	c.Ev.Count("history-probe-requests:"+what, n)
}
