package props

// Second half of X-vars: the strconv helper models, and `argmap` on every field and
// directive of a set of validated documents (C15), with the direct `argSpec` check.

import (
	"fmt"
	"github.com/vektah/gqlparser/v2/ast"
	"github.com/vektah/gqlparser/v2/parser"
	"sort"
	"strings"

	"verifharness/internal/gen"
	"verifharness/internal/impl"
)

var numAlpha = [][]byte{[]byte("0"), []byte("1"), []byte("9"), []byte("."), []byte("e"), []byte("-"), []byte("+"), []byte("_"), []byte("x"), []byte("p"), []byte("i"), []byte("n"), []byte("f"), []byte("a")}

func (c *Ctx) checkStrconv() {
	var inputs []string
	EnumUpTo(numAlpha, c.Pick(4, 5), func(s []byte) { inputs = append(inputs, string(s)) })
	inputs = append(inputs, jnTexts...)
	inputs = append(inputs, numStrTexts...)
	inputs = append(inputs, f64Texts...)
	maxInt := "179769313486231570814527423731704356798070567525844996598917476803157260780028538760589558632766878171540458953514382464234321326889464182768467546703537516986049910576551282076245490090389328944075868508455133942304583236903222948165808559332123348274797826204144723168738177180919299881250404026184124858368"
	half := "179769313486231580793728971405303415079934132710037826936173778980444968292764750946649017977587207096330286416692887910946555547851940402630657488671505820681908902000708383676273854845817711531764475730270069855571366959622842914819860834936475292719074168444365510704342711559699508093042880177904174497792"
	halfm := half[:len(half)-1] + "1"
	inputs = append(inputs, maxInt, half, halfm, half+".0", halfm+".99999999999999999999", half+"e0", "0."+half+"e309", "0."+halfm+"e309",
		"1.7976931348623157e308", "1.7976931348623158e308", "1.7976931348623159e308", "1.797693134862315807e308", "1.797693134862315808e308",
		"0x1.fffffffffffff8p1023", "0x1.fffffffffffff7p1023", "0x1.fffffffffffff7ffffffffffffffffp1023", "0x1p1024", "0x1p1023", "0x.8p1025", "0x8p1021", "-0x1p1024",
		"0X1P-1074", "0x1p-9999", "0x0p99999", "0e99999", "0.0000e999999", "1e309", "1e308", "1e-400", "1E+0400", "00000000000000000000001", strings.Repeat("9", 400),
		strings.Repeat("9", 308), strings.Repeat("9", 309), "0."+strings.Repeat("0", 400)+"1e700", "0."+strings.Repeat("0", 400)+"1e710", "1"+strings.Repeat("0", 400)+"e-100", "1"+strings.Repeat("0", 400)+"e-90",
		"1e10000", "1e99999", "1e100000", "1e123456789", "1e-123456789", "Infinity", "INFINITY", "iNf", "+inf", "-inf", "infinityx", "+nan", "NaN", "NAN", "nanx",
		"18446744073709551615", "18446744073709551616", "184467440737095516150", "1844674407370955161x", "99999999999999999999x", "-9223372036854775809", "+9223372036854775807", "- 1", "1 ", "true", "TRUE", "True", "tRUE", "t", "T", "f", "F", "False", "FALSE", "false", "0", "1", "yes", "")
	var reqs, want []string
	for _, in := range inputs {
		h := impl.HexW([]byte(in))
		for _, k := range []string{"pi", "pf", "pb"} {
			reqs = append(reqs, "strconv "+k+" "+h)
			want = append(want, impl.Call("strconvgo", []string{k, h}))
		}
	}
	for _, in := range []string{"", "12", "-3", "1e5", "1.50", "true", "a\"b", "a\\b", "\n\t\r\x00\x7f\a\b\f\v", "abc def"} {
		h := impl.HexW([]byte(in))
		reqs = append(reqs, "strconv quote "+h)
		want = append(want, impl.Call("strconvgo", []string{"quote", h}))
	}
	got := c.Driver.Map(reqs)
	bad := 0
	for i := range got {
		if got[i] != want[i] {
			bad++
			c.Report("correspondence", "strconv-model-differs", fmt.Sprintf("%s: go=%s model=%s", reqs[i], want[i], got[i]),
				map[string]any{"request": reqs[i], "go_observation": want[i], "model_observation": got[i]})
			if bad <= 5 {
				fmt.Printf("  strconv mismatch %s go=%s model=%s\n", reqs[i], want[i], got[i])
			}
		}
	}
	fmt.Printf("X-vars strconv helper models: %d cases, MISMATCHES %d\n", len(reqs), bad)
}

// documents for the argument-map run; %C is replaced by custom-scalar literals
var argDocs = []string{
	`{ args }`,
	`{ args(i: 1, s: "x", c: 1, l: [1, 2], in: {b: "b"}, b: true, f: 1.50, id: "a", e: GREEN) }`,
	`{ args(i: null, s: null, c: null, l: null, in: null, w: null, ll: null, e: null) }`,
	`{ args(c: %C) }`,
	`{ args(c: [%C, {k: %C}]) @dir(c: %C) }`,
	`{ args(c: {a: {b: [%C]}}) }`,
	`mutation { m(c: %C) }`,
	`query Q($a: Int, $b: Custom, $c: [Int], $d: Inner, $s: String = "sd", $i: Int = 7, $n: Int!, $cd: Custom = %C) { args(i: $a, c: $b, l: $c, in: $d, s: $s, nn: $n) x: args(i: $i, c: $cd) }`,
	`query Q($a: Int, $b: Custom, $i: Int = 7, $x: Custom = {z: 1}) { args(l: [$a, $i, 3], c: [$b, {k: $b, d: $x, l: [$a]}], in: {b: "s", a: $a, c: [1], e: {b: "t", a: $i}}, ll: [[$a], [$i, 2]]) }`,
	`query Q($a: Int, $b: Boolean! = true, $r: Int! = 3) @dir(x: $a) { args @dir @skip(if: $b) @include(if: true) sub { a1: args(i: $a) @dir(x: 5, l: [$a], s: null) ... @dir(x: $a) { a2: args(nn: 3) } ...F @dir(nn: 2) } } fragment F on Query @dir(s: "f") { a3: args(i: $a, w: {req: $r}) }`,
	`query Q($w: WithDefaults, $d: Deep, $e: Color = blue) { args(w: $w, d: $d, e: $e) y: args(w: {req: 2, lst: null, nested: {b: "q", d: RED}}, d: {lnn: [1], l2: [[1], null], m: [[{b: "x"}]]}) }`,
	`query A($v: Int) { ...F } query B($v: Int = 2) { ...F } fragment F on Query { args(l: [$v], c: {v: $v}) z: args(i: $v) }`,
	`query B($v: Int = 2) { ...F } query A($v: Int) { ...F } fragment F on Query { args(l: [$v], c: {v: $v}) z: args(i: $v) }`,
	`query Q($v: Int = 1 @dir(x: 2)) { args(i: $v, f: 3, id: 4, c: -0.0e0, s: """block
  string""") }`,
	// omitted variables whose default is a single value where the type (or a field of it) is a list: the
	// argument receives the COERCED default
	`query Q($l: [Int] = 5, $ll: [[Int]] = 1, $in: Inner = {b: "x", c: 1}, $d: Deep = {lnn: 1, l2: 2, m: {b: "m"}}) { args(l: $l, ll: $ll, in: $in, d: $d) @dir(l: $l, ll: $ll) }`,
	`query Q($l: [Int] = 5, $w: WithDefaults = {req: 1, lst: 4}, $c: Custom = [1, {k: 2}]) { args(l: $l, c: {v: $c, l: $l}, w: $w) sub { args(w: {req: 3, lst: 7}, ll: [5]) } }`,
	`{ args(c: "str", l: 5, ll: 1) a: args(ll: [1, 2]) b: args(ll: [[1], 2]) c: args(c: ENUMVAL, e: SK) __typename }`,
	`{ __schema { types { name fields(includeDeprecated: true) { name } } } __type(name: "Inner") { name } }`,
}

var customLits = []string{`1`, `"s"`, `99999999999999999999`, `-99999999999999999999`, `9223372036854775807`, `9223372036854775808`, `-9223372036854775808`, `1e999`, `-1e999`, `1e-999`, `1.7976931348623159e308`, `1.7976931348623157e308`, `0.0`, `true`, `null`, `[]`, `{}`,
	// integers beyond float64 (→ ±Inf), 2^63 boundaries, 2^64 boundaries, exponent forms
	strings.Repeat("9", 400), "-" + strings.Repeat("9", 400), `-9223372036854775809`, `18446744073709551615`, `18446744073709551616`, `1E+400`, `-0.0E-999`, `123456789012345678901234567890.5e-10`,
	// literals nested deeper than any fixed recursion budget a converter might have
	nestLit(31, "[", "]", "1"), nestLit(32, "[", "]", "1"), nestLit(33, "[", "]", `"s"`), nestLit(34, "{k: ", "}", "null"), nestLit(65, "[{k: ", "}]", "E"), nestLit(300, "[", "]", "[1, {}]"), nestLit(1100, "{k: [", "]}", "2.5")}

func nestLit(n int, open, close, leaf string) string {
	return strings.Repeat(open, n) + leaf + strings.Repeat(close, n)
}

var argVarSets = []string{
	`(m I)`,
	`(m I (x61 (i int 5)) (x62 (s x78)) (x63 (sl I (i int 1) nil)) (x64 (m I (x62 (s x62)))) (x6e (i int 1)) (x76 (i int 9)))`,
	`(m I (x61 nil) (x62 nil) (x63 nil) (x64 nil) (x73 nil) (x69 nil) (x6e (i int 2)) (x76 nil) (x77 nil) (x65 nil))`,
	`(m I (x61 (f64 x312e35)) (x62 (m I (x6b (sl I (jn x3132) (f64 x31652b3231))))) (x6e (i int64 3)) (x77 (m I (x726571 (i int 1)) (x6c7374 (i int 4)))) (x64 (m I (x6c6e6e (i int 1)) (x6c32 (sl I (i int 1) (sl I (i int 2)))))) (x65 (s x726564)) (x76 (jn x3132)))`,
	`(m I (x61 (i int 1)) (x78 (s x737570706c696564)) (x6364 (i int 1)) (x6e (i int 1)) (x69 (i int 8)) (x73 (s x)) (x62 (b 0)))`,
}

type argStats struct {
	docs, invalid, sites, ok, panics, mismatches, specChecked, specDiff, nocoerce int
	panicEx                                                                       map[string]string
	specEx                                                                        []string // differences explained by the variable links alone
	specOther                                                                     []string // any other difference
	specLinked                                                                    int
	replays                                                                       map[string]map[string]any
}

// reportArgMaps files the C15 findings of a run
func reportArgMaps(c *Ctx, st *argStats) {
	keys := make([]string, 0, len(st.panicEx))
	for k := range st.panicEx {
		keys = append(keys, k)
	}
	sort.Strings(keys)
	for _, k := range keys {
		c.Report("spec", "argmap-panic", fmt.Sprintf("ArgumentMap panics (%s) on a validated document: %s", k, st.panicEx[k]), st.replays["panic:"+k])
	}
	for _, e := range st.specEx {
		c.Report("spec", "argmap-precedence:default-of-another-operation-linked", "argument map differs from argSpec for the executed operation (it follows the variable definition of another operation): "+e[:min(900, len(e))], st.replays[e])
	}
	for _, e := range st.specOther {
		c.Report("spec", "argmap-precedence:differs-from-spec", "argument map differs from argSpec: "+e[:min(900, len(e))], st.replays[e])
	}
}

func replayArgMaps(c *Ctx, rep map[string]any) {
	str := func(k string) string { s, _ := rep[k].(string); return s }
	r := argRef{sdl: str("schema"), doc: str("document"), vars: str("vars")}
	if f, ok := rep["op_index"].(float64); ok {
		r.oi = int(f)
	}
	r.coerce, _ = rep["coerce"].(bool)
	if r.sdl == "" || r.doc == "" || r.vars == "" {
		c.ReportNoInput("runtime", "replay-unusable", "replay file has no schema/document/vars", nil)
		return
	}
	st := &argStats{panicEx: map[string]string{}, replays: map[string]map[string]any{}}
	c.runArgMaps([]argRef{r}, st, map[string]int{})
	fmt.Printf("replayed: %d sites, go OK %d, PANIC %d, model mismatches %d, differs from argSpec %d (by the links only: %d)\n", st.sites, st.ok, st.panics, st.mismatches, st.specDiff, st.specLinked)
	reportArgMaps(c, st)
}

func init() { Replayers["C15"] = replayArgMaps }

type argRef struct {
	sdl, doc, vars string
	oi             int
	coerce         bool
}

func (r argRef) request() string {
	co := "0"
	if r.coerce {
		co = "1"
	}
	return "argmapgo " + impl.HexW([]byte(r.sdl)) + " " + impl.HexW([]byte(r.doc)) + " " + fmt.Sprint(r.oi) + " " + co + " " + r.vars
}

func (r argRef) replay() map[string]any {
	return map[string]any{"op": "argmap", "schema": r.sdl, "document": r.doc, "op_index": r.oi, "coerce": r.coerce, "vars": r.vars}
}

// runArgMaps: the real ArgumentMap on every site of every (document, operation, variables) of refs,
// compared with the model (correspondence) and with argSpec (C15)
func (c *Ctx) runArgMaps(refs []argRef, st *argStats, dist map[string]int) {
	reqs := make([]string, len(refs))
	for i := range refs {
		reqs[i] = refs[i].request()
	}
	replies := c.Worker.Map(reqs)
	var dreqs, want, sreqs, lreqs []string
	var dref, sref []int
	invalidSeen := map[string]bool{}
	for i, rep := range replies {
		switch {
		case strings.HasPrefix(rep, "INVALID"):
			if !invalidSeen[refs[i].doc] {
				invalidSeen[refs[i].doc] = true
				st.invalid++
				b, _ := impl.UnhexW(strings.TrimPrefix(rep, "INVALID "))
				fmt.Printf("  (document rejected by validation, skipped: %s — %s)\n", refs[i].doc[:min(70, len(refs[i].doc))], strings.ReplaceAll(string(b), "\n", " | ")[:min(120, len(b))])
			}
			continue
		case strings.HasPrefix(rep, "NOCOERCE"):
			st.nocoerce++
			continue
		case strings.HasPrefix(rep, "HISTORY "):
			f := strings.Fields(rep)
			a, _ := impl.UnhexW(f[2])
			b, _ := impl.UnhexW(f[3])
			c.Report("spec", "argmap-depends-on-earlier-call", fmt.Sprintf("document %q: ArgumentMap of site %s gives %s, and after calls with other variables on the same node, with the SAME variables, %s", clip(refs[i].doc, 200), f[1], clip(string(a), 300), clip(string(b), 300)), refs[i].replay())
			continue
		case strings.HasPrefix(rep, "CRASH") || strings.HasPrefix(rep, "TIMEOUT") || strings.HasPrefix(rep, "bad"):
			c.Report("runtime", "argmap-worker", rep[:min(300, len(rep))], map[string]any{"request": reqs[i]})
			continue
		}
		parts := strings.Split(rep, "\t")
		for k := 0; k+4 <= len(parts); k += 4 {
			dreqs = append(dreqs, parts[k])
			want = append(want, parts[k+1])
			dref = append(dref, i)
			if refs[i].coerce {
				// (where Go panics after successful coercion the specification must be undefined: a literal without value)
				sreqs = append(sreqs, parts[k+2])
				lreqs = append(lreqs, parts[k+3])
				sref = append(sref, len(want)-1)
			}
		}
	}
	got := c.Driver.Map(dreqs)
	for i := range got {
		st.sites++
		c.Ev.Traces++
		c.Ev.Case(dreqs[i], strings.Contains(dreqs[i], "(A "))
		if k := strings.Index(dreqs[i], "(list "); k >= 0 {
			// the request is `argmap (list <argdefs|nodef> <args> <vardefs> <vars>)`
			rest := dreqs[i][k+6:]
			defs := "nodef"
			if strings.HasPrefix(rest, "(") {
				defs = balanced(rest, 0)
			}
			rest = strings.TrimLeft(rest[len(defs):], " ")
			args := balanced(rest, 0)
			dist[fmt.Sprintf("sites with %d arguments written", min(strings.Count(args, "(A "), 5))]++
			dist[fmt.Sprintf("sites with %d arguments declared", min(strings.Count(defs, "(AD "), 8))]++
			if strings.Contains(args, "(V 0 ") {
				dist["sites whose arguments mention a variable"]++
			}
			if strings.Contains(args, "(C ") {
				dist["sites with a list or object literal"]++
			}
		}
		if strings.HasPrefix(want[i], "OK") {
			st.ok++
		} else {
			st.panics++
			b, _ := impl.UnhexW(strings.TrimPrefix(want[i], "PANIC "))
			msg := string(b)
			if _, ok := st.panicEx[msg]; !ok {
				st.replays["panic:"+msg] = refs[dref[i]].replay()
				st.panicEx[msg] = refs[dref[i]].doc
			}
		}
		if impl.CanonFloats(got[i]) != impl.CanonFloats(want[i]) {
			st.mismatches++
			r := refs[dref[i]]
			c.Report("correspondence", "argmap-model-differs", fmt.Sprintf("ArgumentMap and the Lean model disagree on %s with %s: go=%s model=%s", r.doc, r.vars, want[i], got[i]),
				func() map[string]any {
					m := r.replay()
					m["request"], m["go_observation"], m["model_observation"] = dreqs[i], want[i], got[i]
					return m
				}())
		}
	}
	spec := c.Driver.Map(sreqs)
	specLinked := c.Driver.Map(lreqs)
	seen := map[string]bool{}
	for k, sp := range spec {
		st.specChecked++
		w := want[sref[k]]
		same := func(sp string) bool {
			return impl.CanonFloats(sp) == impl.CanonFloats(w) || (sp == "NONE" && strings.HasPrefix(w, "PANIC"))
		}
		if !same(sp) {
			st.specDiff++
			r := refs[dref[sref[k]]]
			ex := fmt.Sprintf("doc %s vars %s: go=%s spec=%s", r.doc, r.vars, w, sp)
			if same(specLinked[k]) {
				// Go follows the specification for the definitions its nodes are LINKED to: the
				// difference is the link to another operation's variable definition
				st.specLinked++
				if !seen[r.doc] && len(st.specEx) < 12 {
					seen[r.doc] = true
					st.specEx = append(st.specEx, ex)
					st.replays[ex] = r.replay()
				}
			} else {
				st.specOther = append(st.specOther, ex)
				st.replays[ex] = r.replay()
			}
		}
	}
}

// coercedVarsHypothesis: C15 speaks of "every variables map that passed coercion". The maps the argument
// maps above were computed from are what VariableValues returned; here the same (schema, operation,
// variables) go through the coercion correspondence and the conformance judgement of C14, so that a
// coerced map that is not the one the specification prescribes (a default that was not coerced, a value
// that does not conform) shows in C15 as what it is: the argument does not get the prescribed value.
func (c *Ctx) coercedVarsHypothesis(refs []argRef, report bool) {
	var cases []varsCase
	decl := map[string][][]varSpec{}
	for _, r := range refs {
		if !r.coerce {
			continue
		}
		d, ok := decl[r.doc]
		if !ok {
			if doc, err := parser.ParseQuery(&ast.Source{Input: r.doc, Name: "doc"}); err == nil {
				for _, op := range doc.Operations {
					vs := []varSpec{}
					for _, v := range op.VariableDefinitions {
						vs = append(vs, varSpec{v.Variable, v.Type})
					}
					d = append(d, vs)
				}
			}
			decl[r.doc] = d
		}
		if r.oi < 0 || r.oi >= len(d) || len(d[r.oi]) == 0 {
			continue
		}
		cases = append(cases, varsCase{schema: r.sdl, doc: r.doc, opIndex: r.oi, vars: d[r.oi], vals: []string{r.vars}})
	}
	vst := newVarsStats()
	c.runVarsCases(cases, vst)
	c.Ev.Count("coerced-variable-maps-judged", vst.cases)
	if report {
		// the tolerated __typename key (recorded under C14) is not this property's business
		delete(vst.specEx, "typenameKey(R14c)")
		reportVars(c, vst)
	}
}

func (c *Ctx) checkArgMaps(sdl string, report bool) {
	st := &argStats{panicEx: map[string]string{}, replays: map[string]map[string]any{}}
	evalsBefore := c.Ev.Evals
	var docs []string
	for _, d := range argDocs {
		if strings.Contains(d, "%C") {
			for _, l := range customLits {
				docs = append(docs, strings.ReplaceAll(d, "%C", l))
			}
		} else {
			docs = append(docs, d)
		}
	}
	var refs []argRef
	dist := map[string]int{}
	for _, d := range docs {
		nOps := strings.Count(d, "query ") + strings.Count(d, "mutation ")
		for oi := 0; oi < max(nOps, 1); oi++ {
			for _, v := range argVarSets {
				for _, co := range []string{"0", "1"} {
					refs = append(refs, argRef{sdl, d, v, oi, co == "1"})
					dist[fmt.Sprintf("hand-written family: operation %d executed", oi)]++
				}
			}
		}
	}
	// generated family: generated schemas, generated valid documents, every operation executed with
	// generated conforming variables (coerced first)
	nSchemas := c.Pick(120, 1200)
	for si := 0; si < nSchemas; si++ {
		gs := gen.GenSchema(c.R, c.R.Intn(9))
		gsdl := gs.SDL()
		for di := 0; di < 4; di++ {
			d := gen.GenDoc(c.R, gs, 1+c.R.Intn(5))
			for oi, op := range d.Ops {
				for j := 0; j < 2; j++ {
					m, _ := gen.GenVars(c.R, gs, d.Text, op.Name, true)
					v := impl.SexpGoVal(m)
					refs = append(refs, argRef{gsdl, d.Text, v, oi, true})
				}
				dist[fmt.Sprintf("generated family: operation with %d variables executed", min(len(op.Vars), 6))]++
			}
			dist[fmt.Sprintf("generated family: document with %d operations", min(len(d.Ops), 4))]++
			if d.Fragments > 0 {
				dist["generated family: document with fragments"]++
			}
		}
	}
	st.docs = len(docs) + nSchemas*4
	c.runArgMaps(refs, st, dist)
	c.coercedVarsHypothesis(refs, report)
	fmt.Printf("X-vars argmap: %d documents (%d rejected by validation), %d field/directive sites: go OK %d, PANIC %d; coercion failed for %d (document, vars) pairs; MISMATCHES %d\n",
		st.docs, st.invalid, st.sites, st.ok, st.panics, st.nocoerce, st.mismatches)
	keys := make([]string, 0, len(st.panicEx))
	for k := range st.panicEx {
		keys = append(keys, k)
	}
	sort.Strings(keys)
	fmt.Println("go panics in ArgumentMap (message — first document):")
	for _, k := range keys {
		fmt.Printf("  %s — %s\n", k, st.panicEx[k])
	}
	fmt.Printf("direct C15 check (argSpec for the executed operation vs Go, coerced variables only): %d sites, %d differ; %d of them agree with argSpec for the LINKED variable definitions (link to another operation), %d do not\n",
		st.specChecked, st.specDiff, st.specLinked, len(st.specOther))
	for _, e := range st.specEx {
		fmt.Println("  ", e[:min(700, len(e))])
	}
	for _, e := range st.specOther {
		fmt.Println("   OTHER:", e[:min(700, len(e))])
	}
	for _, e := range st.specEx {
		c.Ev.Sample(map[string]any{"kind": "differs from the specification by the variable links only (known finding)", "example": e[:min(600, len(e))]})
	}
	c.Ev.Assume = append(c.Ev.Assume,
		"the variables map passed coercion by VariableValues of the executed operation (C14): every variable with a default has an entry (DefaultsSupplied)",
		"the sites judged are those of the executed operation: its directives, its selection set and the fragments it reaches",
		"C15_precedence_linked assumes LinksAgree: the variable definitions the value nodes are linked to carry the same defaults as those of the executed operation (false only in the known finding default-of-another-operation-linked)",
		"literal leaves are written as the lexer writes them (wellLexedB), argument names of a definition are unique (C07)")
	printCounts("argmap distribution:", dist)
	c.Ev.Extra["argmap_distribution"] = dist
	c.Ev.Rule = "nontrivial = a site where at least one argument is written. hand-written documents (every argument kind, custom-scalar literals, variables nested in lists/objects, directives at every location, several operations sharing a fragment, every operation executed) + generated schemas/documents (internal/gen) executed with generated conforming variables; every field and directive site"
	c.Ev.Extra["argmap"] = map[string]int{"documents": st.docs, "documents_rejected_by_validation": st.invalid, "sites": st.sites, "go_ok": st.ok, "go_panic": st.panics,
		"coercion_failed_pairs": st.nocoerce, "spec_checked_sites": st.specChecked, "spec_differs": st.specDiff, "spec_differs_by_links_only": st.specLinked}
	c.Ev.Evals = evalsBefore + st.sites
	if report {
		reportArgMaps(c, st)
	}
}
