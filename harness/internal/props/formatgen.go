package props

// Text-level random generators for the formatter checks (C12 / C13): executable documents,
// type-system documents (parse level) and loadable schemas (valid by construction, still
// decided by the real loader).  Every random choice comes from rng.R.

import (
	"strings"

	"verifharness/internal/rng"
)

type tgen struct {
	r        *rng.R
	sb       strings.Builder
	lastWord bool
	comments bool // allow `# …` comments between tokens
	nasty    bool // allow invalid UTF-8 / exotic runes in strings
	tame     bool // avoid every trigger of the known deviations R12a, R12b, R13a–R13e
}

var tgNames = []string{"a", "b", "c", "foo", "Bar", "_", "x1", "on", "query", "fragment", "type", "null", "true", "false",
	"mutation", "subscription", "extend", "schema", "input", "implements", "repeatable", "directive", "enum", "__typename", "__a", "A_b9"}
var tgTypeNames = []string{"Int", "String", "T", "U", "Query", "Mutation", "Foo", "on", "type", "_T"}

func isWordTok(t string) bool {
	c := t[0]
	return c == '_' || c >= 'a' && c <= 'z' || c >= 'A' && c <= 'Z' || c >= '0' && c <= '9' || c == '-' || c == '"'
}

func (g *tgen) sep(mandatory bool) {
	r := g.r
	if g.comments && r.Chance(1, 25) {
		g.sb.WriteString(rng.Pick(r, []string{" # c\n", "#\n", "\n#x y \"z\"\n", " #é\r\n"}))
		return
	}
	if mandatory {
		g.sb.WriteString(rng.Pick(r, []string{" ", " ", " ", " ", "\n", ",", "\t", "  ", ", ", "\r\n", "\n  "}))
		return
	}
	if r.Chance(1, 2) {
		return
	}
	g.sb.WriteString(rng.Pick(r, []string{" ", " ", "\n", ",", "\t", "  ", "\n\t", "\ufeff", "\r"}))
}

func (g *tgen) emit(toks ...string) {
	for _, t := range toks {
		w := isWordTok(t)
		// "..." directly followed by a digit or '.' would lex differently; always separate spreads
		g.sep(g.lastWord && w)
		g.sb.WriteString(t)
		g.lastWord = w
	}
}

func (g *tgen) name() string {
	for {
		n := rng.Pick(g.r, tgNames)
		if !(g.tame && strings.HasPrefix(n, "__")) {
			return n
		}
	}
}
func (g *tgen) typeName() string { return rng.Pick(g.r, tgTypeNames) }
func (g *tgen) nameNot(bad ...string) string {
	for {
		n := g.name()
		ok := true
		for _, b := range bad {
			if n == b {
				ok = false
			}
		}
		if ok {
			return n
		}
	}
}

var strPlain = []string{"abc", " ", "x y", "#", ",", "'", "{", "}", "q", "0", "  ", "$", "é", "日本", "😀", "ß", "\t"}
var strEsc = []string{`\"`, `\\`, `\/`, `\b`, `\f`, `\n`, `\r`, `\t`, `\u0041`, `\u00e9`, `\u00E9`, `\u2603`}
var strCtl = []string{`\u0007`, `\u000b`, `\u0000`, `\u001f`, `\u007f`, `\u0001`, `\u001B`, "\x7f"}
var strExotic = []string{"\u2028", "\u00ad", "\ufeff", "\ue000", "\U000e0001", "\U0010ffff", "\u0085", "\u00a0", "\ufffd", "\u200b", "\u3000", "\U0001f600",
	`\u2028`, `\u00ad`, `\uFEFF`, `\ud83d\ude00`, `\ud800`, `\u0085`, `\u00a0`, `\ufffe`, `\ue000`}
var strTameExotic = []string{"\u2028", "\u00ad", "\ufeff", "\ue000", "\u0085", "\u00a0", "\ufffd", "\u200b", "\u3000", "\U0001f600",
	`\u2028`, `\u00ad`, `\uFEFF`, `\ud83d\ude00`, `\u0085`, `\u00a0`, `\ufffe`, `\ue000`}
var strInvalid = []string{"\xff", "\xc0\x80", "\xe0\x80", "\xed\xa0\x80", "\x80", "\xf4\x90\x80\x80", "\xc3"}

func (g *tgen) stringBody() string {
	r := g.r
	var sb strings.Builder
	n := r.Intn(5)
	for i := 0; i < n; i++ {
		switch k := r.Intn(20); {
		case g.tame && k >= 14:
			sb.WriteString(rng.Pick(r, strTameExotic))
		case k < 9:
			sb.WriteString(rng.Pick(r, strPlain))
		case k < 14:
			sb.WriteString(rng.Pick(r, strEsc))
		case k < 16:
			sb.WriteString(rng.Pick(r, strCtl))
		case k < 18 || !g.nasty:
			sb.WriteString(rng.Pick(r, strExotic))
		default:
			sb.WriteString(rng.Pick(r, strInvalid))
		}
	}
	return sb.String()
}

var blkPieces = []string{"text", "a b", "\n", "\n", "  ", "    ", "\t", `\"""`, `"`, `""`, `\`, `\n`, `\\`, "é", "😀", "\r\n", "\r", " ", "#", "x", "\n  ", "\n\n", " ", "\u00ad"}

func (g *tgen) blockBody() string {
	r := g.r
	var sb strings.Builder
	n := r.Intn(7)
	lastQuote := false
	for i := 0; i < n; i++ {
		p := rng.Pick(r, blkPieces)
		q := strings.HasPrefix(p, `"`)
		if q && lastQuote {
			continue
		}
		// a backslash directly before a quote piece would change the meaning of the quotes
		if q && strings.HasSuffix(sb.String(), `\`) {
			continue
		}
		sb.WriteString(p)
		lastQuote = strings.HasSuffix(p, `"`)
	}
	s := sb.String()
	for strings.HasSuffix(s, `\`) || strings.HasSuffix(s, `"`) {
		s = s[:len(s)-1]
	}
	return s
}

func (g *tgen) stringLit() string {
	if g.r.Chance(1, 4) {
		return `"""` + g.blockBody() + `"""`
	}
	return `"` + g.stringBody() + `"`
}

func (g *tgen) value(konst bool, depth int) {
	r := g.r
	k := r.Intn(12)
	if depth <= 0 && k >= 10 {
		k = r.Intn(10)
	}
	switch k {
	case 0:
		if konst {
			g.emit(rng.Pick(r, []string{"0", "-1", "123", "-0"}))
		} else {
			g.emit("$", g.name())
		}
	case 1:
		g.emit(rng.Pick(r, []string{"0", "-1", "123", "9007199254740993", "-0"}))
	case 2:
		g.emit(rng.Pick(r, []string{"1.5", "-0.0", "1e10", "1.25E-3", "0.1e+2", "123456789.123456789"}))
	case 3, 4, 5:
		g.emit(g.stringLit())
	case 6:
		g.emit(rng.Pick(r, []string{"true", "false"}))
	case 7:
		g.emit("null")
	case 8, 9:
		g.emit(g.nameNot("true", "false", "null"))
	case 10:
		g.emit("[")
		for n := r.Intn(4); n > 0; n-- {
			g.value(konst, depth-1)
		}
		g.emit("]")
	case 11:
		g.emit("{")
		for n := r.Intn(4); n > 0; n-- {
			g.emit(g.name(), ":")
			g.value(konst, depth-1)
		}
		g.emit("}")
	}
}

func (g *tgen) args(konst bool) {
	if !g.r.Chance(1, 3) {
		return
	}
	g.emit("(")
	for n := 1 + g.r.Intn(3); n > 0; n-- {
		g.emit(g.name(), ":")
		g.value(konst, 2)
	}
	g.emit(")")
}

func (g *tgen) dirs(konst bool) {
	for n := []int{0, 0, 0, 1, 1, 2}[g.r.Intn(6)]; n > 0; n-- {
		g.emit("@", g.name())
		g.args(konst)
	}
}

func (g *tgen) typeRef(depth int) {
	if depth > 0 && g.r.Chance(1, 3) {
		g.emit("[")
		g.typeRef(depth - 1)
		g.emit("]")
	} else {
		g.emit(g.typeName())
	}
	if g.r.Chance(1, 3) {
		g.emit("!")
	}
}

func (g *tgen) varDefs() {
	if !g.r.Chance(1, 3) {
		return
	}
	g.emit("(")
	for n := 1 + g.r.Intn(3); n > 0; n-- {
		g.emit("$", g.name(), ":")
		g.typeRef(2)
		if g.r.Chance(1, 2) {
			g.emit("=")
			g.value(true, 2)
		}
		if g.r.Chance(1, 4) && !g.tame {
			g.dirs(true)
		}
	}
	g.emit(")")
}

func (g *tgen) selSet(depth int) {
	r := g.r
	g.emit("{")
	for n := 1 + r.Intn(3); n > 0; n-- {
		switch k := r.Intn(10); {
		case k < 6:
			if r.Chance(1, 4) {
				g.emit(g.name(), ":")
			}
			g.emit(g.name())
			g.args(false)
			g.dirs(false)
			if depth > 0 && r.Chance(1, 3) {
				g.selSet(depth - 1)
			}
		case k < 8:
			g.emit("...", g.nameNot("on"))
			g.dirs(false)
		default:
			g.emit("...")
			if r.Chance(2, 3) {
				g.emit("on", g.typeName())
			}
			g.dirs(false)
			g.selSet(depth - 1)
		}
	}
	g.emit("}")
}

// GenQueryText: a random executable document.
func GenQueryText(r *rng.R, comments, nasty, tame bool) string {
	g := &tgen{r: r, comments: comments, nasty: nasty && !tame, tame: tame}
	for n := 1 + r.Intn(3); n > 0; n-- {
		switch k := r.Intn(10); {
		case k < 2:
			g.selSet(2)
		case k < 7:
			g.emit(rng.Pick(r, []string{"query", "query", "mutation", "subscription"}))
			if r.Chance(2, 3) {
				g.emit(g.name())
			}
			g.varDefs()
			g.dirs(false)
			g.selSet(2)
		default:
			g.emit("fragment", g.nameNot("on"))
			if r.Chance(1, 4) {
				g.varDefs()
			}
			g.emit("on", g.typeName())
			g.dirs(false)
			g.selSet(2)
		}
	}
	return g.sb.String()
}

/* ---------------- type-system documents ---------------- */

var descPieces = []string{"text", "Some words.", "\n", "\n", " ", "  ", "\t", `"`, `""`, "\\", "\\n", "é", "😀", "#", "x", "\n\n", "  lead", "trail  ", `"""`, "\r\n", " ", "\a", "\x7f"}

// descValue: the intended description VALUE (what the parser should produce).
func (g *tgen) descValue() string {
	r := g.r
	if r.Chance(1, 3) {
		return rng.Pick(r, []string{"d", "A description.", "line1\nline2", "  lead\n", "a\n  b\n c", "say \"hi\"", "tri\"\"\"ple", "back\\slash", " x ", "\n\nx", "x\n", "\t", " ", "é\n\n  日本", "\\\"\"\""})
	}
	var sb strings.Builder
	for n := 1 + r.Intn(5); n > 0; n-- {
		sb.WriteString(rng.Pick(r, descPieces))
	}
	return sb.String()
}

// quoteGql renders a value as a GraphQL string literal (reference quoting on the Go side).
func quoteGql(s string) string {
	var sb strings.Builder
	sb.WriteByte('"')
	const hexd = "0123456789abcdef"
	for i := 0; i < len(s); i++ {
		b := s[i]
		switch {
		case b == '"':
			sb.WriteString(`\"`)
		case b == '\\':
			sb.WriteString(`\\`)
		case b == 8:
			sb.WriteString(`\b`)
		case b == 12:
			sb.WriteString(`\f`)
		case b == 10:
			sb.WriteString(`\n`)
		case b == 13:
			sb.WriteString(`\r`)
		case b == 9:
			sb.WriteString(`\t`)
		case b < 32 || b == 127:
			sb.WriteString(`\u00`)
			sb.WriteByte(hexd[b>>4])
			sb.WriteByte(hexd[b&15])
		default:
			sb.WriteByte(b)
		}
	}
	sb.WriteByte('"')
	return sb.String()
}

// desc emits an optional description: quoted form of a chosen value, or a raw block string.
func (g *tgen) desc() {
	r := g.r
	if g.tame {
		if r.Chance(1, 2) {
			return
		}
		// a description the block-string rendering can represent: no triple quote, no CR, no control
		// characters, first and last line not blank, first line not indented
		words := []string{"text", "Some words.", "é", "😀", "#", "say \"hi\"", "\"\"", "back\\slash", "x", "a  b", "\\", "tab\there", "\u00a0", "\u2028"}
		var sb strings.Builder
		sb.WriteString(rng.Pick(r, words))
		for n := r.Intn(3); n > 0; n-- {
			sb.WriteString(rng.Pick(r, []string{"\n", "\n\n", "\n  ", "\n\t", " ", "\n \n"}))
			sb.WriteString(rng.Pick(r, words))
		}
		g.emit(quoteGql(sb.String()))
		return
	}
	switch k := r.Intn(10); {
	case k < 4:
		return
	case k < 7:
		g.emit(quoteGql(g.descValue()))
	default:
		g.emit(`"""` + g.blockBody() + `"""`)
	}
}

func (g *tgen) argDefs() {
	if !g.r.Chance(1, 3) {
		return
	}
	g.emit("(")
	for n := 1 + g.r.Intn(3); n > 0; n-- {
		if g.r.Chance(1, 3) {
			g.desc()
		}
		g.emit(g.name(), ":")
		g.typeRef(2)
		if g.r.Chance(1, 3) {
			g.emit("=")
			g.value(true, 2)
		}
		g.dirs(true)
	}
	g.emit(")")
}

func (g *tgen) fieldDefs(input bool) {
	if g.r.Chance(1, 6) {
		return
	}
	g.emit("{")
	for n := 1 + g.r.Intn(3); n > 0; n-- {
		g.desc()
		g.emit(g.name())
		if !input {
			g.argDefs()
		}
		g.emit(":")
		g.typeRef(2)
		if input && g.r.Chance(1, 3) {
			g.emit("=")
			g.value(true, 2)
		}
		g.dirs(true)
	}
	g.emit("}")
}

func (g *tgen) typeDef(ext bool) {
	r := g.r
	if ext {
		g.emit("extend")
	} else {
		g.desc()
	}
	switch r.Intn(6) {
	case 0:
		g.emit("scalar", g.typeName())
		if ext {
			g.emit("@", g.name()) // an extension needs something
		}
		g.dirs(true)
	case 1, 2:
		g.emit(rng.Pick(r, []string{"type", "interface"}), g.typeName())
		if r.Chance(1, 3) {
			g.emit("implements")
			if r.Chance(1, 4) {
				g.emit("&")
			}
			g.emit(g.typeName())
			for r.Chance(1, 3) {
				g.emit("&", g.typeName())
			}
		}
		g.dirs(true)
		g.fieldDefs(false)
	case 3:
		g.emit("union", g.typeName())
		g.dirs(true)
		if r.Chance(3, 4) {
			g.emit("=")
			if r.Chance(1, 4) {
				g.emit("|")
			}
			g.emit(g.typeName())
			for r.Chance(1, 2) {
				g.emit("|", g.typeName())
			}
		}
	case 4:
		g.emit("enum", g.typeName())
		g.dirs(true)
		if r.Chance(5, 6) {
			g.emit("{")
			for n := 1 + r.Intn(3); n > 0; n-- {
				g.desc()
				g.emit(g.nameNot("true", "false", "null"))
				g.dirs(true)
			}
			g.emit("}")
		}
	case 5:
		g.emit("input", g.typeName())
		g.dirs(true)
		g.fieldDefs(true)
	}
}

var tgLocations = []string{"QUERY", "MUTATION", "SUBSCRIPTION", "FIELD", "FRAGMENT_DEFINITION", "FRAGMENT_SPREAD", "INLINE_FRAGMENT",
	"VARIABLE_DEFINITION", "SCHEMA", "SCALAR", "OBJECT", "FIELD_DEFINITION", "ARGUMENT_DEFINITION", "INTERFACE", "UNION", "ENUM",
	"ENUM_VALUE", "INPUT_OBJECT", "INPUT_FIELD_DEFINITION"}

func (g *tgen) directiveDef() {
	r := g.r
	g.desc()
	g.emit("directive", "@", g.name())
	g.argDefs()
	if r.Chance(1, 3) {
		g.emit("repeatable")
	}
	g.emit("on")
	if r.Chance(1, 4) {
		g.emit("|")
	}
	g.emit(rng.Pick(r, tgLocations))
	for r.Chance(1, 2) {
		g.emit("|", rng.Pick(r, tgLocations))
	}
}

func (g *tgen) opTypes() {
	g.emit("{")
	for n := 1 + g.r.Intn(3); n > 0; n-- {
		g.emit(rng.Pick(g.r, []string{"query", "mutation", "subscription"}), ":", g.typeName())
	}
	g.emit("}")
}

// GenSchemaDocText: a random type-system document (parse level; need not load).
func GenSchemaDocText(r *rng.R, comments, nasty, tame bool) string {
	g := &tgen{r: r, comments: comments, nasty: nasty && !tame, tame: tame}
	for n := 1 + r.Intn(4); n > 0; n-- {
		switch k := r.Intn(12); {
		case k == 0:
			g.desc()
			g.emit("schema")
			g.dirs(true)
			g.opTypes()
		case k == 1:
			g.emit("extend", "schema")
			if r.Chance(1, 2) {
				g.emit("@", g.name())
				g.dirs(true)
				if r.Chance(1, 2) {
					g.opTypes()
				}
			} else {
				g.dirs(true)
				g.opTypes()
			}
		case k < 4:
			g.directiveDef()
		case k < 10:
			g.typeDef(false)
		default:
			g.typeDef(true)
		}
	}
	return g.sb.String()
}

/* ---------------- loadable schemas ---------------- */

type lgen struct {
	*tgen
	dirNames []string // declared directives usable at every type-system location
	dirArgs  map[string][]string
	dirRep   map[string]bool
}

func (g *lgen) ldesc() {
	if g.r.Chance(1, 2) {
		g.desc()
	}
}

// ldirs: apply declared directives (each at most once unless repeatable)
func (g *lgen) ldirs() {
	r := g.r
	for _, d := range g.dirNames {
		if !r.Chance(1, 5) {
			continue
		}
		reps := 1
		if g.dirRep[d] && r.Chance(1, 2) {
			reps = 2
		}
		for ; reps > 0; reps-- {
			g.emit("@", d)
			as := g.dirArgs[d]
			if len(as) > 0 && r.Chance(2, 3) {
				g.emit("(")
				for _, a := range as {
					if r.Chance(2, 3) {
						g.emit(a, ":")
						if a[0] == 's' {
							g.emit(g.stringLit())
						} else {
							g.emit(rng.Pick(r, []string{"1", "-7", "0"}))
						}
					}
				}
				g.emit(")")
				// "()" is a syntax error: make sure one argument is there
				s := g.sb.String()
				if strings.HasSuffix(strings.TrimRight(s[:len(s)-1], " ,\n\t\r\ufeff"), "(") {
					g.sb.Reset()
					g.sb.WriteString(s[:len(s)-1])
					g.emit(as[0], ":")
					if as[0][0] == 's' {
						g.emit(`"v"`)
					} else {
						g.emit("3")
					}
					g.emit(")")
				}
			}
		}
	}
}

// GenLoadableSchemaText: a type system that is meant to load (the real loader decides).
func GenLoadableSchemaText(r *rng.R, nasty, tame bool) string {
	g := &lgen{tgen: &tgen{r: r, nasty: nasty && !tame, tame: tame}, dirArgs: map[string][]string{}, dirRep: map[string]bool{}}
	allTS := "SCHEMA | SCALAR | OBJECT | FIELD_DEFINITION | ARGUMENT_DEFINITION | INTERFACE | UNION | ENUM | ENUM_VALUE | INPUT_OBJECT | INPUT_FIELD_DEFINITION"
	// directives
	for i, n := 0, r.Intn(3); i < n; i++ {
		name := []string{"d0", "tag", "on"}[i]
		g.ldesc()
		g.emit("directive", "@", name)
		var as []string
		if r.Chance(2, 3) {
			g.emit("(")
			for j, m := 0, 1+r.Intn(2); j < m; j++ {
				a := []string{"s", "i"}[j]
				if r.Chance(1, 3) {
					g.desc()
				}
				g.emit(a, ":", map[string]string{"s": "String", "i": "Int"}[a])
				if r.Chance(1, 2) {
					g.emit("=")
					if a == "s" {
						g.emit(g.stringLit())
					} else {
						g.emit("42")
					}
				}
				as = append(as, a)
			}
			g.emit(")")
		}
		if r.Chance(1, 3) {
			g.emit("repeatable")
			g.dirRep[name] = true
		}
		g.emit("on")
		for _, l := range strings.Split(allTS, " | ") {
			g.emit(l, "|")
		}
		g.emit(rng.Pick(r, []string{"QUERY", "FIELD", "VARIABLE_DEFINITION"}))
		g.dirArgs[name] = as
		g.dirNames = append(g.dirNames, name)
	}
	// scalars, enums, inputs
	inTypes := []string{"Int", "String", "Boolean", "ID", "Float"}
	if r.Chance(1, 2) {
		g.ldesc()
		g.emit("scalar", "Date")
		g.ldirs()
		inTypes = append(inTypes, "Date")
	}
	for i, n := 0, r.Intn(3); i < n; i++ {
		name := []string{"Color", "E1"}[i%2]
		if i >= 2 {
			break
		}
		g.ldesc()
		g.emit("enum", name)
		g.ldirs()
		g.emit("{")
		for j, m := 0, 1+r.Intn(3); j < m; j++ {
			g.ldesc()
			g.emit([]string{"RED", "green", "B_1"}[j])
			g.ldirs()
		}
		g.emit("}")
		inTypes = append(inTypes, name)
	}
	wrap := func(t string) string {
		switch r.Intn(6) {
		case 0:
			return t + "!"
		case 1:
			return "[" + t + "]"
		case 2:
			return "[" + t + "!]!"
		case 3:
			return "[[" + t + "]]"
		}
		return t
	}
	emitType := func(t string) {
		for _, c := range wrap(t) {
			if c == '[' || c == ']' || c == '!' {
				g.emit(string(c))
			}
		}
	}
	_ = emitType
	typeToks := func(t string) {
		w := wrap(t)
		// split into punctuators and the name
		i := 0
		for i < len(w) {
			if w[i] == '[' || w[i] == ']' || w[i] == '!' {
				g.emit(w[i : i+1])
				i++
			} else {
				j := i
				for j < len(w) && w[j] != '[' && w[j] != ']' && w[j] != '!' {
					j++
				}
				g.emit(w[i:j])
				i = j
			}
		}
	}
	constFor := func(t string) {
		switch t {
		case "Int":
			g.emit(rng.Pick(r, []string{"1", "-5"}))
		case "Float":
			g.emit("1.5")
		case "Boolean":
			g.emit("true")
		case "Color":
			g.emit("RED")
		default:
			g.emit(g.stringLit())
		}
	}
	for i, n := 0, r.Intn(3); i < n; i++ {
		name := []string{"In0", "In1"}[i]
		g.ldesc()
		g.emit("input", name)
		g.ldirs()
		g.emit("{")
		for j, m := 0, 1+r.Intn(3); j < m; j++ {
			g.ldesc()
			t := rng.Pick(r, inTypes)
			g.emit([]string{"f", "g", "h"}[j], ":")
			if r.Chance(1, 3) && t != "In0" && t != "In1" && t != "E1" {
				g.emit(t, "=")
				constFor(t)
			} else {
				typeToks(t)
			}
			g.ldirs()
		}
		g.emit("}")
		inTypes = append(inTypes, name)
	}
	// output types
	outTypes := append([]string{}, "Int", "String", "Boolean", "ID")
	argList := func() {
		if !r.Chance(1, 3) {
			return
		}
		g.emit("(")
		for j, m := 0, 1+r.Intn(3); j < m; j++ {
			if r.Chance(1, 3) {
				g.desc()
			}
			t := rng.Pick(r, inTypes)
			g.emit([]string{"x", "y", "z"}[j], ":")
			if r.Chance(1, 3) && t != "In0" && t != "In1" && t != "E1" {
				g.emit(t, "=")
				constFor(t)
			} else {
				typeToks(t)
			}
			g.ldirs()
		}
		g.emit(")")
	}
	hasIface := r.Chance(1, 2)
	if hasIface {
		g.ldesc()
		g.emit("interface", "Node")
		g.ldirs()
		g.emit("{")
		g.ldesc()
		g.emit("id", ":", "ID", "!")
		g.emit("}")
		outTypes = append(outTypes, "Node")
	}
	var objs []string
	object := func(name string) {
		g.ldesc()
		g.emit("type", name)
		if hasIface && r.Chance(1, 2) {
			g.emit("implements", "Node")
		}
		impl := strings.HasSuffix(strings.TrimRight(g.sb.String(), " ,\n\t\r\ufeff"), "Node")
		g.ldirs()
		g.emit("{")
		if impl {
			g.ldesc()
			g.emit("id", ":", "ID", "!")
			g.ldirs()
		}
		for j, m := 0, 1+r.Intn(3); j < m; j++ {
			g.ldesc()
			g.emit([]string{"a", "b", "c"}[j])
			argList()
			g.emit(":")
			typeToks(rng.Pick(r, outTypes))
			g.ldirs()
		}
		g.emit("}")
		objs = append(objs, name)
		outTypes = append(outTypes, name)
	}
	for i, n := 0, r.Intn(3); i < n; i++ {
		object([]string{"T0", "T1"}[i])
	}
	if len(objs) > 0 && r.Chance(1, 2) {
		g.ldesc()
		g.emit("union", "U")
		g.ldirs()
		g.emit("=")
		for i, o := range objs {
			if i > 0 {
				g.emit("|")
			}
			g.emit(o)
		}
		outTypes = append(outTypes, "U")
	}
	// roots
	qName := rng.Pick(r, []string{"Query", "Query", "Q", "Mutation"})
	object(qName)
	if tame && qName == "Mutation" {
		qName = "Q"
	}
	mMode := r.Intn(5) // 0 none, 1 Mutation root (default name), 2 custom root M, 3 type named Mutation that is NOT a root, 4 none
	mName := ""
	if tame && mMode == 3 {
		mMode = 1
	}
	switch mMode {
	case 1, 3:
		if qName != "Mutation" {
			mName = "Mutation"
			object("Mutation")
		}
	case 2:
		mName = "M"
		object("M")
	}
	sName := ""
	if r.Chance(1, 5) {
		sName = rng.Pick(r, []string{"Subscription", "Sub"})
		object(sName)
	}
	needBlock := qName != "Query" || mName == "M" || sName == "Sub" || mMode == 3
	if needBlock || r.Chance(1, 3) {
		if !tame {
			g.ldesc()
		}
		g.emit("schema")
		g.ldirs()
		g.emit("{", "query", ":", qName)
		if mName != "" && mMode != 3 {
			g.emit("mutation", ":", mName)
		}
		if sName != "" {
			g.emit("subscription", ":", sName)
		}
		g.emit("}")
	}
	if len(g.dirNames) > 0 && r.Chance(1, 4) {
		g.emit("extend", "schema", "@", g.dirNames[0])
	}
	if r.Chance(1, 4) {
		g.emit("extend", "type", qName, "{", "extra", ":", "Int", "}")
	}
	return g.sb.String()
}
