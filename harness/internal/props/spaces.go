package props

// Enumerated input spaces (DESIGN appendix B). The index → input function is mixed radix:
// all strings of length 0, then 1, … over the alphabet, in lexicographic order.

var Lex19 = [][]byte{
	[]byte("a"), []byte("e"), []byte("u"), []byte("_"), []byte("0"), []byte("1"), []byte("-"), []byte("+"), []byte("."),
	[]byte("\""), []byte("\\"), []byte(" "), []byte("\n"), []byte("\r"), []byte(","), []byte("#"), []byte("{"),
	{0xC3, 0xA9}, {0xEF, 0xBB, 0xBF},
}

var LexRaw16 = [][]byte{
	{0xEF}, {0xBB}, {0xBF}, {0xC3}, {0xA9}, {0xFF}, {0x00}, []byte("\""), []byte("\\"), []byte("u"), []byte("0"),
	[]byte("."), []byte("-"), []byte("#"), []byte(" "), []byte("\n"),
}

var Block6 = [][]byte{[]byte(" "), []byte("a"), []byte("\n"), []byte("\r"), []byte("\""), []byte("\\")}
var Block6Tab = [][]byte{[]byte("\t"), []byte("a"), []byte("\n"), []byte("\r"), []byte("\""), []byte("\\")}

// EnumStrings calls f with every string of exactly n symbols.
func EnumStrings(alpha [][]byte, n int, f func(s []byte)) {
	idx := make([]int, n)
	buf := make([]byte, 0, 4*n)
	for {
		buf = buf[:0]
		for _, i := range idx {
			buf = append(buf, alpha[i]...)
		}
		f(buf)
		k := n - 1
		for k >= 0 {
			idx[k]++
			if idx[k] < len(alpha) {
				break
			}
			idx[k] = 0
			k--
		}
		if k < 0 {
			return
		}
	}
}

// EnumUpTo calls f with every string of at most n symbols (f must copy what it keeps).
func EnumUpTo(alpha [][]byte, n int, f func(s []byte)) {
	for l := 0; l <= n; l++ {
		EnumStrings(alpha, l, f)
	}
}
