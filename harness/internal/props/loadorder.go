package props

import (
	"encoding/hex"
	"fmt"
	"strings"
)

func loadClass(o string) string {
	switch {
	case strings.HasPrefix(o, "C:"):
		return "ok"
	case strings.HasPrefix(o, "E,"):
		return "err"
	default:
		return "panic"
	}
}

// MetaLoadOrder (C17, direct on the real loader): the same top-level definitions in several orders and
// partitions must give the same verdict and, when they load, the same schema up to order.
// Returns (cases, verdict differences, schema differences).
func (c *Ctx) MetaLoadOrder(tokLists [][]sdlTok, orderings int) (int, int, int) {
	type variant struct {
		item int
		set  []string
	}
	var vs []variant
	for i, t := range tokLists {
		vs = append(vs, variant{i, []string{renderToks(nil, t)}})
		for k := 1; k < orderings; k++ {
			vs = append(vs, variant{i, splitSources(c.R, t, 1+k%3)})
		}
	}
	reqs := make([]string, len(vs))
	for i, v := range vs {
		reqs[i] = "loadcanon " + hexAll(v.set)
	}
	res := c.Worker.Map(reqs)
	nv, ns := 0, 0
	type best struct {
		n      int
		a, b   []string
		oa, ob string
	}
	show := func(o string) string {
		if strings.HasPrefix(o, "C:") {
			b, _ := hex.DecodeString(o[2:])
			return string(b)
		}
		return describeObs(o)
	}
	bests := map[string]*best{}
	note := func(sig string, a, b []string, oa, ob string) {
		x := bests[sig]
		if x == nil {
			x = &best{a: a, b: b, oa: oa, ob: ob}
			bests[sig] = x
		}
		x.n++
		if totalLen(a)+totalLen(b) < totalLen(x.a)+totalLen(x.b) {
			x.a, x.b, x.oa, x.ob = a, b, oa, ob
		}
	}
	first := map[int]int{}
	for i, v := range vs {
		f, ok := first[v.item]
		if !ok {
			first[v.item] = i
			continue
		}
		ca, cb := loadClass(res[f]), loadClass(res[i])
		// parse errors are the parser's business: splitting can only change them if a chunk boundary was misjudged
		if ca == "err" && LoadTemplateOf(errMessage(res[f])) == "" || cb == "err" && LoadTemplateOf(errMessage(res[i])) == "" {
			continue
		}
		if ca != cb {
			nv++
			tmpl := LoadTemplateOf(errMessage(res[f])) + LoadTemplateOf(errMessage(res[i]))
			note("load-verdict-depends-on-order:"+ca+"/"+cb+":"+tmpl, vs[f].set, v.set, res[f], res[i])
		} else if ca == "ok" && res[f] != res[i] {
			ns++
			da, _ := firstDiffLine(show(res[f]), show(res[i]))
			w := strings.FieldsFunc(da, func(r rune) bool { return r == ' ' || r == '=' || r == '(' })
			k := "?"
			if len(w) > 0 {
				k = w[0]
			}
			note("loaded-schema-depends-on-order:"+k, vs[f].set, v.set, res[f], res[i])
		}
	}
	for sig, x := range bests {
		da, db := firstDiffLine(show(x.oa), show(x.ob))
		c.Report("spec", sig, fmt.Sprintf("%d cases; smallest: %q vs %q: [%s] vs [%s]", x.n, x.a, x.b, clipL(da), clipL(db)),
			map[string]any{"op": "loadcanon", "sources_a": x.a, "sources_b": x.b, "a": clipL(da), "b": clipL(db)})
	}
	return len(vs), nv, ns
}

func firstDiffLine(a, b string) (string, string) {
	la, lb := strings.Split(a, "\n"), strings.Split(b, "\n")
	for i := 0; i < len(la) && i < len(lb); i++ {
		if la[i] != lb[i] {
			return la[i], lb[i]
		}
	}
	return fmt.Sprint(len(la), " lines"), fmt.Sprint(len(lb), " lines")
}

func init() {
	Checks["X-loadorder"] = func(c *Ctx) {
		corpus := loadCorpus()
		var toks [][]sdlTok
		for _, s := range corpus {
			t := sdlTokens(s)
			if len(t) > 0 && len(t) < 3000 && !strings.Contains(s, "\r") {
				toks = append(toks, t) // (inputs with CR inside block strings re-render ambiguously: lexer test data, skipped)
			}
		}
		items := append([][]sdlTok(nil), toks...)
		n := c.Pick(20000, 200000)
		if v := envIntL("XLOAD_N"); v > 0 {
			n = v
		}
		for i := 0; i < n; i++ {
			t := toks[c.R.Intn(len(toks))]
			if c.R.Chance(1, 6) {
				t = append(cloneToks(t), toks[c.R.Intn(len(toks))]...)
			}
			for m := 1 + c.R.Intn(3); m > 0; m-- {
				t = mutateSDL(c.R, t)
			}
			items = append(items, t)
		}
		total, nv, ns := 0, 0, 0
		for lo := 0; lo < len(items); lo += 2000 {
			hi := min(lo+2000, len(items))
			a, b, d := c.MetaLoadOrder(items[lo:hi], 4)
			total, nv, ns = total+a, nv+b, ns+d
		}
		fmt.Printf("load order: %d schemas x 4 orderings/partitions = %d loads; verdict differences %d, schema differences %d\n", len(items), total, nv, ns)
		c.Ev.Evals = total
	}
}
