package props

import (
	"fmt"
	"strings"
)

func loadClass(o string) string {
	switch {
	case strings.HasPrefix(o, "C:"):
		return "ok"
	case strings.HasPrefix(o, "E,"):
		return "err"
	default:
		return "panic"
	}
}

func firstDiffLine(a, b string) (string, string) {
	la, lb := strings.Split(a, "\n"), strings.Split(b, "\n")
	for i := 0; i < len(la) && i < len(lb); i++ {
		if la[i] != lb[i] {
			return la[i], lb[i]
		}
	}
	return fmt.Sprint(len(la), " lines"), fmt.Sprint(len(lb), " lines")
}
