package props

import (
	"os"
	"path/filepath"
	"strings"

	"verifharness/internal/impl"
)

// RepoGraphQLInputs collects query / schema texts that live in /repo's own test data
// (read at run time so the corpus follows the repository).
func RepoGraphQLInputs() (queries, schemas []string) {
	filepath.Walk("/var/tmp/repo-snap13", func(p string, info os.FileInfo, err error) error {
		if err != nil || info.IsDir() {
			return nil
		}
		if strings.HasSuffix(p, ".graphql") || strings.HasSuffix(p, ".graphqls") {
			b, _ := os.ReadFile(p)
			if strings.Contains(p, "formatter/testdata/source/query") {
				queries = append(queries, string(b))
			} else {
				schemas = append(schemas, string(b))
			}
		}
		return nil
	})
	for _, f := range []string{"/repo/parser/query_test.yml", "/repo/parser/schema_test.yml", "/repo/validator/schema_test.yml", "/repo/lexer/lexer_test.yml"} {
		for _, in := range YamlInputs(f) {
			if strings.Contains(f, "query") || strings.Contains(f, "lexer") {
				queries = append(queries, in)
			} else {
				schemas = append(schemas, in)
			}
		}
	}
	return
}

// YamlInputs pulls the `input:` scalars out of the repository's yml test files with a small
// hand-rolled reader (plain, quoted and block scalars) — enough to seed corpora.
func YamlInputs(path string) []string {
	b, err := os.ReadFile(path)
	if err != nil {
		return nil
	}
	lines := strings.Split(string(b), "\n")
	var out []string
	for i := 0; i < len(lines); i++ {
		t := strings.TrimLeft(lines[i], " -")
		if !strings.HasPrefix(t, "input:") {
			continue
		}
		indent := len(lines[i]) - len(strings.TrimLeft(lines[i], " "))
		v := strings.TrimSpace(strings.TrimPrefix(t, "input:"))
		switch {
		case v == "|" || v == "|-" || v == ">" || v == "|+":
			var sb strings.Builder
			bi := -1
			for i+1 < len(lines) {
				l := lines[i+1]
				if strings.TrimSpace(l) == "" {
					sb.WriteByte('\n')
					i++
					continue
				}
				li := len(l) - len(strings.TrimLeft(l, " "))
				if li <= indent {
					break
				}
				if bi < 0 {
					bi = li
				}
				if li < bi {
					break
				}
				sb.WriteString(l[bi:])
				sb.WriteByte('\n')
				i++
			}
			out = append(out, strings.TrimRight(sb.String(), "\n")+"\n")
		case strings.HasPrefix(v, "\""):
			// double-quoted: handle the common escapes
			s := v[1:]
			if j := strings.LastIndex(s, "\""); j >= 0 {
				s = s[:j]
			}
			r := strings.NewReplacer(`\n`, "\n", `\r`, "\r", `\t`, "\t", `\"`, "\"", `\\`, "\\", `\uFEFF`, "\ufeff", `\u0007`, "\u0007")
			out = append(out, r.Replace(s))
		case strings.HasPrefix(v, "'"):
			s := strings.Trim(v, "'")
			out = append(out, strings.ReplaceAll(s, "''", "'"))
		default:
			out = append(out, v)
		}
	}
	return out
}

func init() {
	Checks["X-wire"] = func(c *Ctx) {
		qs, ss := RepoGraphQLInputs()
		var reqs, want []string
		for _, q := range qs {
			o := impl.ParseQueryObs(q, -1)
			if strings.HasPrefix(o, "(") {
				reqs = append(reqs, "echoq "+o)
				want = append(want, o)
			}
		}
		for _, s := range ss {
			o := impl.ParseSchemaObs(s, -1)
			if strings.HasPrefix(o, "(") {
				reqs = append(reqs, "echos "+o)
				want = append(want, o)
			}
		}
		got := c.Driver.Map(reqs)
		bad := 0
		for i := range got {
			c.Ev.Case(want[i], true)
			if got[i] != want[i] {
				bad++
				if bad < 3 {
					c.Report("correspondence", "wire-echo", "echo differs: "+want[i][:min(200, len(want[i]))]+" vs "+got[i][:min(200, len(got[i]))], nil)
				}
			}
		}
		println("wire echo cases", len(reqs), "bad", bad, "queries", len(qs), "schemas", len(ss))
	}
}

func init() {
	Checks["X-wireload"] = func(c *Ctx) {
		_, ss := RepoGraphQLInputs()
		var reqs, want []string
		for _, s := range ss {
			o := impl.Call("loadobs", []string{impl.HexW([]byte(s))})
			if strings.HasPrefix(o, "(") {
				reqs = append(reqs, "echol "+o)
				want = append(want, o)
			}
		}
		got := c.Driver.Map(reqs)
		bad := 0
		for i := range got {
			if got[i] != want[i] {
				bad++
				if bad < 3 {
					println(want[i][:300], "\n", got[i][:min(300, len(got[i]))])
				}
			}
		}
		println("loaded schemas", len(reqs), "bad", bad)
	}
}
