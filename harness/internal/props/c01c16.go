package props

import (
	"fmt"
	"strconv"
	"strings"

	"verifharness/internal/impl"
)

// judgeParse applies the direct C01 oracle to one real-parser observation: no crash, no hang, and a
// syntax error names a line and column inside the input (the token-limit error has no location).
func (c *Ctx) judgeParse(req, real string) {
	f := strings.Fields(req)
	var in []byte
	if len(f) > 2 {
		in, _ = impl.UnhexW(f[2])
	}
	rep := map[string]any{"op": f[0], "request": req, "go_observation": clip(real, 2000), "input": string(in)}
	switch {
	case strings.HasPrefix(real, "PANIC"), strings.HasPrefix(real, "CRASH"):
		c.Report("runtime", "parser-crash", fmt.Sprintf("parsing %q (%s %s): %s", clip(string(in), 200), f[0], f[1], clip(real, 300)), rep)
	case real == "TIMEOUT":
		c.Report("runtime", "parser-timeout", fmt.Sprintf("parsing %q (%s %s) did not return", clip(string(in), 200), f[0], f[1]), rep)
	case strings.HasPrefix(real, "E,"):
		p := strings.SplitN(real, ",", 4)
		if len(p) != 4 {
			c.Report("spec", "parse-error-malformed", real, rep)
			return
		}
		l, _ := strconv.Atoi(p[1])
		col, _ := strconv.Atoi(p[2])
		msg, _ := impl.UnhexW(p[3])
		if len(msg) == 0 {
			c.Report("spec", "parse-error-empty-message", fmt.Sprintf("parsing %q: error without message", in), rep)
		}
		if l == 0 && col == 0 && strings.Contains(string(msg), "exceeded token limit") {
			return
		}
		if !posInside(in, l, col) && len(f) == 3 { // single-source requests only
			c.Report("spec", "parse-error-position-outside-input", fmt.Sprintf("parsing %q: error %q at %d:%d is outside the input", clip(string(in), 200), msg, l, col), rep)
		}
	}
}

// limitSweep: the direct C16 oracle on the real parser. For every input and every limit L in
// [0, n+2] (n = number of tokens incl. comments): limit 0 = unlimited; success under L iff success
// without a limit and n ≤ L, with the identical tree; otherwise an error; accept is monotone in L.
func (c *Ctx) limitSweep(grammar string, inputs [][]byte) {
	op := parseOp(grammar)
	var reqs []string
	type span struct{ lo, n int }
	var spans []span
	for _, in := range inputs {
		n := TokenCount(in)
		h := impl.HexW(in)
		spans = append(spans, span{len(reqs), n})
		reqs = append(reqs, op+" -1 "+h)
		for l := 0; l <= n+2; l++ {
			reqs = append(reqs, op+" "+strconv.Itoa(l)+" "+h)
		}
	}
	obs := c.CorrParseReqs(reqs, grammar+"-limits")
	for k, sp := range spans {
		in := inputs[k]
		base := obs[sp.lo]
		accepted := strings.HasPrefix(base, "(")
		rep := func(l int, o string) map[string]any {
			return map[string]any{"op": op, "input": string(in), "input_hex": impl.HexW(in), "limit": l, "tokens": sp.n, "unlimited": clip(base, 500), "limited": clip(o, 500)}
		}
		c.Ev.Case(grammar+base, sp.n >= 3)
		for l := 0; l <= sp.n+2; l++ {
			o := obs[sp.lo+1+l]
			isLimitErr := strings.HasPrefix(o, "E,0,0,") && func() bool { m, _ := impl.UnhexW(o[6:]); return strings.Contains(string(m), "exceeded token limit") }()
			switch {
			case l == 0 && o != base:
				c.Report("spec", "limit-zero-not-unlimited", fmt.Sprintf("%q: limit 0 gives %s, no limit gives %s", clip(string(in), 200), clip(o, 200), clip(base, 200)), rep(l, o))
			case l > 0 && accepted && l >= sp.n && o != base:
				c.Report("spec", "limit-rejects-or-changes-document-within-limit", fmt.Sprintf("%q has %d tokens; limit %d gives %s", clip(string(in), 200), sp.n, l, clip(o, 200)), rep(l, o))
			case l > 0 && accepted && l < sp.n && !isLimitErr:
				c.Report("spec", "limit-not-enforced", fmt.Sprintf("%q has %d tokens; limit %d gives %s", clip(string(in), 200), sp.n, l, clip(o, 200)), rep(l, o))
			case l > 0 && !accepted && strings.HasPrefix(o, "("):
				c.Report("spec", "limit-accepts-what-unlimited-rejects", fmt.Sprintf("%q: rejected without limit, accepted with limit %d", clip(string(in), 200), l), rep(l, o))
			}
		}
	}
}

// bigInputs: hostile multi-megabyte inputs (C01: unlimited up to 64 KiB; C16: any size under small
// limits). Work must not depend on the input size once the limit is exceeded: wall time is checked
// with an order-of-magnitude margin against the same family at 1/64 of the size.
func (c *Ctx) bigInputs(withLimits bool) {
	var reqs []string
	type key struct {
		g, fam string
		lim, n int
	}
	var keys []key
	add := func(g, fam string, lim, n int) {
		reqs = append(reqs, fmt.Sprintf("bigparse %s %d %s %d", g, lim, fam, n))
		keys = append(keys, key{g, fam, lim, n})
	}
	for _, fam := range impl.Families {
		for _, g := range []string{"q", "s"} {
			if !withLimits {
				for _, n := range []int{1 << 8, 1 << 12, c.Pick(1<<13, 1<<15)} {
					add(g, fam, -1, n)
				}
			} else {
				for _, lim := range []int{1, 16, 1024} {
					for _, n := range []int{1 << 14, c.Pick(1<<20, 1<<22)} {
						add(g, fam, lim, n)
					}
				}
			}
		}
	}
	old := c.Worker.Timeout
	c.Worker.Timeout = 120e9
	out := c.Worker.Map(reqs)
	c.Worker.Timeout = old
	times := map[key]int64{}
	for i, o := range out {
		k := keys[i]
		c.Ev.Case(reqs[i]+o[:min(len(o), 8)], true)
		f := strings.Fields(o)
		rep := map[string]any{"op": "bigparse", "request": reqs[i], "go_observation": clip(o, 600)}
		if len(f) < 3 || strings.HasPrefix(o, "PANIC") || strings.HasPrefix(o, "CRASH") || o == "TIMEOUT" {
			c.Report("runtime", "parser-crash-or-hang-on-large-input", fmt.Sprintf("%s: %s", reqs[i], clip(o, 300)), rep)
			continue
		}
		ns, _ := strconv.ParseInt(f[1], 10, 64)
		times[k] = ns
		c.Ev.Count("bigparse:"+f[0], 1)
		if withLimits && f[0] == "ok" && k.fam != "bigtoken" && k.fam != "blockstring" && k.fam != "escapes" {
			// more tokens than the limit must not be accepted
			if k.n > k.lim+4 {
				c.Report("spec", "limit-not-enforced-on-large-input", fmt.Sprintf("%s accepted", reqs[i]), rep)
			}
		}
	}
	if withLimits {
		// work proportional to the limit: the 64×/4× larger input must not take ≥ 10× longer (+2 ms slack)
		for k, t := range times {
			if k.n <= 1<<14 {
				continue
			}
			small := times[key{k.g, k.fam, k.lim, 1 << 14}]
			if k.fam == "bigtoken" || k.fam == "blockstring" || k.fam == "escapes" {
				continue // one giant token has to be scanned whatever the limit
			}
			if small > 0 && t > 10*small+25_000_000 {
				c.Report("runtime", "work-grows-with-input-under-limit", fmt.Sprintf("family %s grammar %s limit %d: %d bytes·n took %d ns, n=16384 took %d ns", k.fam, k.g, k.lim, k.n, t, small),
					map[string]any{"op": "bigparse", "family": k.fam, "limit": k.lim, "n": k.n, "ns": t, "ns_small": small})
			}
		}
	} else {
		// polynomial (≤ quadratic with margin): 8×/4× the size must not take more than 200× longer
		for k, t := range times {
			if k.n != c.Pick(1<<13, 1<<15) {
				continue
			}
			small := times[key{k.g, k.fam, -1, 1 << 12}]
			ratio := int64(k.n / (1 << 12))
			if small > 0 && t > ratio*ratio*4*small+50_000_000 {
				c.Report("runtime", "parse-time-superquadratic", fmt.Sprintf("family %s grammar %s: n=%d took %d ns, n=4096 took %d ns", k.fam, k.g, k.n, t, small),
					map[string]any{"op": "bigparse", "family": k.fam, "n": k.n, "ns": t, "ns_small": small})
			}
		}
	}
}

func checkC01(c *Ctx) {
	c.lexerExploration()
	c.JudgeParse = true
	c.ParseCorrSuite(c.Pick(4, 5), c.Pick(3, 4), c.Pick(40000, 400000), c.Pick(30000, 300000))
	c.bigInputs(false)
	c.bigInputs(true)
	c.Ev.Rule += " Parser: repository corpus with limits around the token count, every sequence of ≤N tokens over the 16-class alphabets (both grammars), single-token mutations, random bytes, nesting families up to 64 KiB without limit and up to 4 MiB under limits."
}

func checkC16(c *Ctx) {
	c.JudgeParse = true
	qs, ss := RepoGraphQLInputs()
	c.limitSweep("query", toBytes(qs))
	c.limitSweep("schema", toBytes(ss))
	var q, s [][]byte
	for i := 0; i < c.Pick(3000, 30000); i++ {
		q = append(q, []byte(MutateTokens(c.R, qs[c.R.Intn(len(qs))])))
		s = append(s, []byte(MutateTokens(c.R, ss[c.R.Intn(len(ss))])))
	}
	c.limitSweep("query", q)
	c.limitSweep("schema", s)
	var batch [][]byte
	EnumTokenSeqs(QTok16, c.Pick(3, 4), func(b []byte) { batch = append(batch, b) })
	c.limitSweep("query", batch)
	c.limitSweep("query", denseDocs(c.R, c.Pick(1500, 15000)))
	c.builtinFlagSweep(ss)
	// limit 0 means unlimited however long the document is, on every entry point; and a single source through
	// the multi-source entry point obeys the limit like ParseSchemaWithLimit does
	{
		var big strings.Builder
		big.WriteString("{")
		for i := 0; i < 20000; i++ {
			big.WriteString(" f" + strconv.Itoa(i))
		}
		big.WriteString(" }")
		var bigS strings.Builder
		bigS.WriteString("enum E {")
		for i := 0; i < 20000; i++ {
			bigS.WriteString(" V" + strconv.Itoa(i))
		}
		bigS.WriteString(" }")
		hq, hs := impl.HexW([]byte(big.String())), impl.HexW([]byte(bigS.String()))
		reqs := []string{"pq -1 " + hq, "pq 0 " + hq, "pq 20002 " + hq, "ps -1 " + hs, "ps 0 " + hs, "ps 20004 " + hs, "pss 0 " + hs, "pss 20004 " + hs}
		out := c.Worker.Map(reqs)
		for i := range reqs {
			base := out[0]
			if i >= 3 {
				base = out[3]
			}
			if out[i] != base {
				c.Report("spec", "limit-rejects-or-changes-document-within-limit", fmt.Sprintf("a 20 000-token document: %s gives %s, the unlimited parse %s", clip(reqs[i], 20), clip(out[i], 200), clip(base, 80)), map[string]any{"op": "pq", "request": clip(reqs[i], 200)})
			}
		}
		var reqs2, want []string
		for _, src := range ss {
			n := TokenCount([]byte(src))
			if n < 2 || len(src) > 4000 {
				continue
			}
			h := impl.HexW([]byte(src))
			for _, l := range []int{1, n - 1, n, n + 3} {
				reqs2 = append(reqs2, "pss "+strconv.Itoa(l)+" "+h)
				want = append(want, "ps "+strconv.Itoa(l)+" "+h)
			}
		}
		o1, o2 := c.Worker.Map(reqs2), c.Worker.Map(want)
		for i := range reqs2 {
			a, b := o1[i], o2[i]
			if strings.HasPrefix(a, "E,0,0,") != strings.HasPrefix(b, "E,0,0,") || strings.HasPrefix(a, "(") != strings.HasPrefix(b, "(") {
				c.Report("spec", "limit-not-enforced", fmt.Sprintf("one source through ParseSchemasWithLimit: %s gives %s, ParseSchemaWithLimit gives %s", clip(reqs2[i], 30), clip(a, 120), clip(b, 120)), map[string]any{"op": "pss", "request": reqs2[i]})
			}
		}
		c.Ev.Count("single-source-multi-entry-point", len(reqs2))
	}
	c.limitHistories("query", qs)
	c.limitHistories("schema", ss)
	c.bigInputs(true)
	c.Ev.Rule = "every document × every limit 0..tokens+2 (repository corpus, token-level mutations of it, every sequence of ≤N tokens over the 16 query token classes, dense documents whose byte count equals their token count), compared with the unlimited parse and with the Lean model; sources with the BuiltIn flag set (definitions and extensions) through ParseSchemas[WithLimit] under no limit, 0, the token count and beyond; hostile families of 16 Ki–4 Mi repetitions under limits 1, 16, 1024 (time must not grow with the input). Non-trivial: ≥3 tokens; distinct by unlimited observation."
}

func init() {
	Checks["C01"] = checkC01
	Checks["C16"] = checkC16
}
