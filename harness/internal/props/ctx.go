// Package props holds one check per property plus the shared verdict logic (DESIGN §5).
package props

import (
	"crypto/sha1"
	"encoding/hex"
	"encoding/json"
	"fmt"
	"os"
	"path/filepath"
	"runtime"
	"sort"
	"strings"
	"sync"
	"time"

	"verifharness/internal/ev"
	"verifharness/internal/kf"
	"verifharness/internal/pool"
	"verifharness/internal/rng"
)

// Root is the framework directory (VERIF_ROOT overrides it for scratch copies).
var Root = func() string {
	if r := os.Getenv("VERIF_ROOT"); r != "" {
		return r
	}
	return "/verif"
}()

type Violation struct {
	Kind   string // spec | correspondence | theorem | runtime
	Sig    string
	What   string
	Replay map[string]any
	NoFail bool // no failing input found (broken obligation / correspondence only)
}

type Ctx struct {
	Prop   string
	Tier   string
	Seed   uint64
	R      *rng.R
	Ev     *ev.Evidence
	KF     *kf.File
	Driver *pool.Pool
	Worker *pool.Pool

	mu        sync.Mutex
	viol      map[string]*Violation
	violOrder []string
	known     map[string]int
	Proof     *ev.Proof
	// SigFilter, when set, drops reports whose signature it rejects (a shared sweep serving
	// several properties reports only what concerns c.Prop)
	SigFilter func(sig string) bool
	// JudgeParse: apply the direct C01 oracle to every real-parser observation of the parse sweeps
	JudgeParse bool
}

func (c *Ctx) Thorough() bool { return c.Tier == "thorough" }

// Pick returns q in the quick tier, t in the thorough tier.
func (c *Ctx) Pick(q, t int) int {
	if c.Thorough() {
		return t
	}
	return q
}

func NewCtx(prop, tier string, seed uint64) *Ctx {
	n := runtime.NumCPU()
	self, _ := os.Executable()
	c := &Ctx{Prop: prop, Tier: tier, Seed: seed, R: rng.New(seed), Ev: ev.New(prop, tier, seed),
		KF: kf.Load(filepath.Join(Root, "KNOWN_FINDINGS.txt")), viol: map[string]*Violation{}, known: map[string]int{}}
	c.Driver = pool.New([]string{filepath.Join(Root, "lean/.lake/build/bin/driver")}, n, 60*time.Second)
	c.Worker = pool.New([]string{self, "-worker"}, n, 20*time.Second)
	c.Worker.Env = []string{"GOMEMLIMIT=2GiB"}
	return c
}

// Report files a failing case under a classifier signature. A signature listed as `known:`
// in KNOWN_FINDINGS.txt is counted and printed as KNOWN-FINDING; anything else is a violation.
// Only the first (callers report the smallest they have) case per signature is kept.
func (c *Ctx) Report(kind, sig, what string, replay map[string]any) {
	if c.SigFilter != nil && !c.SigFilter(sig) {
		return
	}
	c.mu.Lock()
	defer c.mu.Unlock()
	if c.KF.Match(c.Prop, sig) != nil {
		c.known[sig]++
		return
	}
	if _, ok := c.viol[sig]; ok {
		return
	}
	c.viol[sig] = &Violation{Kind: kind, Sig: sig, What: what, Replay: replay}
	c.violOrder = append(c.violOrder, sig)
}

// ReportNoInput files a broken obligation / correspondence for which no failing input was found.
func (c *Ctx) ReportNoInput(kind, sig, what string, replay map[string]any) {
	c.mu.Lock()
	defer c.mu.Unlock()
	if _, ok := c.viol[sig]; ok {
		return
	}
	c.viol[sig] = &Violation{Kind: kind, Sig: sig, What: what, Replay: replay, NoFail: true}
	c.violOrder = append(c.violOrder, sig)
}

func (c *Ctx) HasViolations() bool { c.mu.Lock(); defer c.mu.Unlock(); return len(c.viol) > 0 }

// HasInputViolation: some violation with a concrete failing input has been found.
func (c *Ctx) HasInputViolation() bool {
	c.mu.Lock()
	defer c.mu.Unlock()
	for _, v := range c.viol {
		if !v.NoFail {
			return true
		}
	}
	return false
}

// Finish prints the verdict lines, writes replays and evidence, and returns the exit code.
func (c *Ctx) Finish() int {
	c.mu.Lock()
	sigs := make([]string, 0, len(c.known))
	for s := range c.known {
		sigs = append(sigs, s)
	}
	sort.Strings(sigs)
	knownOut := map[string]int{}
	for _, s := range sigs {
		e := c.KF.Match(c.Prop, s)
		fmt.Printf("KNOWN-FINDING: property=%s sig=%s (%d cases this run) %s\n", c.Prop, s, c.known[s], e.Text)
		knownOut[s] = c.known[s]
	}
	c.Ev.Extra["known_findings_hit"] = knownOut
	// A violation of kind spec/runtime carries an input on which the PROPERTY fails (judged directly on
	// the real code). Kinds correspondence/theorem say that the tie between the proved model and the
	// code, or a proof obligation, no longer checks: the property is then no longer shown to hold, but
	// the differing input is not by itself an input on which the property fails. Those are reported
	// only when no failing input was found, and say so.
	for _, s := range c.violOrder {
		if v := c.viol[s]; v.Kind == "correspondence" || v.Kind == "theorem" {
			v.NoFail = true
		}
	}
	concrete := false
	for _, s := range c.violOrder {
		if !c.viol[s].NoFail {
			concrete = true
		}
	}
	code := 0
	n := 0
	os.MkdirAll(filepath.Join(Root, "replays"), 0o755)
	for _, s := range c.violOrder {
		v := c.viol[s]
		if v.NoFail && concrete {
			continue // the concrete input is the replay for the broken obligation
		}
		rep := map[string]any{"property": c.Prop, "kind": v.Kind, "sig": v.Sig, "what": v.What, "seed": c.Seed, "tier": c.Tier}
		for k, x := range v.Replay {
			rep[k] = x
		}
		b, _ := json.MarshalIndent(rep, "", " ")
		h := sha1.Sum(b)
		path := filepath.Join(Root, "replays", fmt.Sprintf("%s-%s-%s.json", c.Prop, sanitize(v.Sig), hex.EncodeToString(h[:4])))
		os.WriteFile(path, append(b, '\n'), 0o644)
		suffix := ""
		if v.NoFail {
			suffix = " no-failing-input-found"
		}
		fmt.Printf("VIOLATION property=%s replay=%s%s\n", c.Prop, path, suffix)
		fmt.Printf("  %s: %s\n", v.Sig, v.What)
		code = 1
		n++
	}
	c.Ev.Violations = n
	c.mu.Unlock()
	if err := c.Ev.Write(filepath.Join(Root, "evidence"), c.Proof); err != nil {
		fmt.Fprintln(os.Stderr, "evidence:", err)
		return 2
	}
	if code == 0 {
		fmt.Printf("OK property=%s tier=%s evaluations=%d\n", c.Prop, c.Tier, c.Ev.Evals)
	}
	return code
}

func sanitize(s string) string {
	var sb strings.Builder
	for _, r := range s {
		if r >= 'a' && r <= 'z' || r >= 'A' && r <= 'Z' || r >= '0' && r <= '9' || r == '-' || r == '_' {
			sb.WriteRune(r)
		} else {
			sb.WriteByte('_')
		}
	}
	if sb.Len() > 60 {
		return sb.String()[:60]
	}
	return sb.String()
}

type Check func(c *Ctx)

var Checks = map[string]Check{}
