package props

// X-vars: correspondence of the Lean model of validator/vars.go, ast/value.go, ast/argmap.go with
// the real code, plus the direct C14 / C15 specification checks on the Go outputs.
//
// What is compared for `vars` (per (schema, operation, variables) triple), after rewriting every
// float64 text to the canonical text of the value it denotes:
//   * OK  : the whole canonical result map (keys sorted at every level);
//   * ERR : message bytes and path; when the model says that several keys of one map are
//           offending ("ALT"), Go's random map order may have reported any of them: the last path
//           element has to be one of the model's candidates, everything else identical;
//   * PANIC: as such (no message).

import (
	"encoding/hex"
	"fmt"
	"os"
	"sort"
	"strconv"
	"strings"
	"time"

	"github.com/vektah/gqlparser/v2/ast"

	"verifharness/internal/gen"
	"verifharness/internal/impl"
	"verifharness/internal/rng"
)

const varsBaseSDL = `
scalar Custom
enum Color { RED GREEN blue Kelvin SK }
input Inner { a: Int b: String! c: [Int!] d: Color e: Inner k: Custom f: Float i: ID t: Boolean }
input WithDefaults { req: Int! opt: Int = 5 reqDef: Int! = 7 lst: [Int] = [1, 2] nested: Inner = {b: "x"} f: Float! = 1.5 }
input Rec { self: Rec items: [Rec!] v: Int! }
input Deep { l2: [[Int]] l3: [[[String!]]!] lnn: [Int!]! m: [[Inner]] w: [WithDefaults!] }
input BadDefaults { c: Custom! = 99999999999999999999 d: Custom! = 1e999 ok: Custom! = 12 o: Int }
directive @dir(x: Int = 3, c: Custom, l: [Int], i: Inner, s: String = "dflt", nn: Int! = 1, ll: [[Int]] = [[1], [2, 3]]) on QUERY | MUTATION | FIELD | FRAGMENT_SPREAD | INLINE_FRAGMENT | FRAGMENT_DEFINITION | VARIABLE_DEFINITION
`

var varsBaseNames = []string{"Int", "String", "Boolean", "ID", "Float", "Color", "Inner", "Rec", "Custom", "WithDefaults", "Deep", "BadDefaults"}

// varTypes enumerates the `vartypes` space: base × list depth ≤ 3 × every non-null pattern.
func varTypes() []*ast.Type {
	var out []*ast.Type
	for _, b := range varsBaseNames {
		for depth := 0; depth <= 3; depth++ {
			for bits := 0; bits < 1<<(depth+1); bits++ {
				t := &ast.Type{NamedType: b, NonNull: bits&1 == 1}
				for l := 1; l <= depth; l++ {
					t = &ast.Type{Elem: t, NonNull: bits>>l&1 == 1}
				}
				out = append(out, t)
			}
		}
	}
	return out
}

func varsSchemaSDL(types []*ast.Type) string {
	var sb strings.Builder
	sb.WriteString(varsBaseSDL)
	sb.WriteString("type Query {\n")
	for i, t := range types {
		fmt.Fprintf(&sb, " v%d(x: %s): Int\n", i, t.String())
	}
	sb.WriteString(` args(i: Int = 4, s: String, c: Custom, l: [Int] = [1, 2], in: Inner, w: WithDefaults = {req: 1}, nn: Int! = 9, ll: [[Int]], d: Deep, b: Boolean, f: Float, id: ID, e: Color = RED): Int
 sub: Query
}
type Mutation { m(c: Custom): Int }
`)
	return sb.String()
}

func xh(s string) string { return "x" + hex.EncodeToString([]byte(s)) }

type gv struct{ sx, ty string } // S-expression of a value and of its dynamic type ("" for nil)

type vgen struct {
	r    *rng.R
	s    *ast.Schema
	dist map[string]int // generator distribution (printed and written into the evidence)
}

func (g *vgen) count(k string) {
	if g.dist != nil {
		g.dist[k]++
	}
}

// element types of the typed slices / typed maps that are generated on purpose (besides the ones
// that arise when all items happen to share a dynamic type)
var elemKinds = []string{"bool", "int", "int8", "int16", "int32", "int64", "uint", "uint8", "uint16", "uint32", "uint64",
	"f32", "f64", "str", "jn", "I", "(sl I)", "(sl int)", "(sl str)", "(sl f64)", "(sl (sl int))", "(m I)", "(m int)", "(m str)", "(m f32)", "(m (sl int))", "(sl (m I))", "(sl (m f64))"}

// typedValue builds a value whose dynamic type is exactly ty (for "I": anything, nil included).
// keys: the map keys to use (declared field names of the input object met here, if any).
func (g *vgen) typedValue(ty string, keys []string, d int) gv {
	switch ty {
	case "I":
		return g.junk(d + 2)
	case "bool":
		return bo(g.r.Bool())
	case "int", "int8", "int16", "int32", "int64":
		return g.intOfKind(ty)
	case "uint", "uint8", "uint16", "uint32", "uint64":
		return g.uintOfKind(ty)
	case "f32":
		return fl("f32", rng.Pick(g.r, []string{"1.5", "2", "0", "-1", "1e+10", "NaN"}))
	case "f64":
		return fl("f64", rng.Pick(g.r, f64Texts))
	case "str":
		return st(rng.Pick(g.r, []string{"", "x", "RED", "12", "1.5", "b", "red", "__typename"}))
	case "jn":
		return jn(rng.Pick(g.r, jnTexts))
	}
	inner := strings.TrimSuffix(ty[strings.Index(ty, " ")+1:], ")")
	if strings.HasPrefix(ty, "(sl ") {
		n := g.r.Intn(3)
		if d >= 4 {
			n = g.r.Intn(2)
		}
		var sb strings.Builder
		sb.WriteString("(sl " + inner)
		for i := 0; i < n; i++ {
			sb.WriteString(" " + g.typedValue(inner, keys, d+1).sx)
		}
		sb.WriteString(")")
		return gv{sb.String(), ty}
	}
	// (m inner)
	if len(keys) == 0 {
		keys = []string{"a", "b", "c", "v"}
	}
	var sb strings.Builder
	sb.WriteString("(m " + inner)
	for _, k := range keys {
		if g.r.Chance(2, 3) {
			x := g.typedValue(inner, nil, d+1)
			if x.sx == "nil" && inner != "I" {
				continue
			}
			sb.WriteString(" (" + xh(k) + " " + x.sx + ")")
		}
	}
	sb.WriteString(")")
	return gv{sb.String(), ty}
}

func jnClass(t string) string {
	if _, err := strconv.ParseInt(t, 10, 64); err == nil {
		return "integer text"
	}
	if _, err := strconv.ParseFloat(t, 64); err == nil {
		return "float text (not an integer)"
	}
	if _, err := strconv.ParseFloat(t, 64); err != nil && strings.Contains(err.Error(), "range") {
		return "number out of float64 range"
	}
	return "not a number"
}

var intPool = []string{"0", "1", "-1", "7", "12", "2147483647", "2147483648", "-2147483649", "9223372036854775807", "-9223372036854775808"}
var smallPool = []string{"0", "1", "-1", "7", "12", "100", "-100"}

func (g *vgen) intOfKind(kind string) gv {
	pool := intPool
	if kind == "int8" || kind == "int16" || kind == "int32" {
		pool = smallPool
	}
	return gv{"(i " + kind + " " + rng.Pick(g.r, pool) + ")", kind}
}
func (g *vgen) uintOfKind(kind string) gv {
	return gv{"(u " + kind + " " + rng.Pick(g.r, []string{"0", "1", "7", "200"}) + ")", kind}
}
func fl(bits, text string) gv { return gv{"(" + bits + " " + xh(text) + ")", bits} }
func jn(text string) gv       { return gv{"(jn " + xh(text) + ")", "jn"} }
func st(text string) gv       { return gv{"(s " + xh(text) + ")", "str"} }
func bo(b bool) gv {
	if b {
		return gv{"(b 1)", "bool"}
	}
	return gv{"(b 0)", "bool"}
}

var f64Texts = []string{"1.5", "0", "-0", "3", "-7", "1e+21", "1e-07", "NaN", "+Inf", "-Inf", "2.147483648e+09", "0.1", "123456789"}
var jnTexts = []string{"12", "-3", "0", "1.5", "1e3", "1E5", "abc", "", "99999999999999999999", "-99999999999999999999", "9223372036854775808",
	"1e999", "-1e999", "1e-999", "0x1p-2", "0x1p99999", "inf", "-Infinity", "nan", "1_0", "1__0", ".", "+5", "5.", ".5", "RED", "1.0", " 1", "0x10", "1e", "infinit"}
var numStrTexts = []string{"12", "+5", "-0", "abc", "1.5", "1_0", "1e5", "Infinity", "1e400", "", "0x1p3", "99999999999999999999", "nan", "１"}

func (g *vgen) numberLike() gv {
	switch g.r.Intn(12) {
	case 0, 1:
		return g.intOfKind("int")
	case 2:
		return g.intOfKind("int32")
	case 3:
		return g.intOfKind("int64")
	case 4:
		return g.intOfKind(rng.Pick(g.r, []string{"int8", "int16"}))
	case 5:
		return g.uintOfKind(rng.Pick(g.r, []string{"uint", "uint8", "uint16", "uint32", "uint64"}))
	case 6, 7:
		return fl("f64", rng.Pick(g.r, f64Texts))
	case 8:
		return fl("f32", rng.Pick(g.r, []string{"1.5", "2", "0", "-1", "1e+10", "NaN"}))
	case 9, 10:
		t := rng.Pick(g.r, jnTexts)
		g.count("json.Number: " + jnClass(t))
		return jn(t)
	default:
		t := rng.Pick(g.r, numStrTexts)
		g.count("numeric string: " + jnClass(t))
		return st(t)
	}
}

// junk: a value of a random kind, ignoring the expected type
func (g *vgen) junk(d int) gv {
	switch g.r.Intn(9) {
	case 0:
		return gv{"nil", ""}
	case 1:
		return bo(g.r.Bool())
	case 2, 3:
		return g.numberLike()
	case 4:
		return st(rng.Pick(g.r, []string{"", "x", "RED", "true", "12", "__typename", "\xff", "Kelvin"}))
	case 5:
		if d < 4 {
			return g.slice([]gv{g.junk(d + 1), g.junk(d + 1)})
		}
		return gv{"(sl I)", "(sl I)"}
	case 6:
		if d < 4 {
			return g.mapOf([]string{"a", "b"}, []gv{g.junk(d + 1), g.junk(d + 1)})
		}
		return gv{"(m I)", "(m I)"}
	case 7:
		return gv{"(sl I)", "(sl I)"}
	default:
		return gv{"(m I)", "(m I)"}
	}
}

// slice builds []interface{} or, when every item has the same dynamic type, sometimes a typed slice
func (g *vgen) slice(items []gv) gv {
	et := "I"
	if len(items) > 0 && g.r.Chance(1, 4) {
		same := items[0].ty != ""
		for _, it := range items {
			if it.ty != items[0].ty {
				same = false
			}
		}
		if same {
			et = items[0].ty
			g.count("typed slice (items share a type): []" + et)
		}
	} else if len(items) == 0 && g.r.Chance(1, 6) {
		et = rng.Pick(g.r, []string{"int", "str", "jn", "(m I)", "(sl I)", "f64"})
	}
	var sb strings.Builder
	sb.WriteString("(sl " + et)
	for _, it := range items {
		sb.WriteString(" " + it.sx)
	}
	sb.WriteString(")")
	return gv{sb.String(), "(sl " + et + ")"}
}

func (g *vgen) mapOf(keys []string, vals []gv) gv {
	et := "I"
	if len(vals) > 0 && g.r.Chance(1, 8) {
		same := vals[0].ty != ""
		for _, it := range vals {
			if it.ty != vals[0].ty {
				same = false
			}
		}
		if same {
			et = vals[0].ty
			g.count("typed map (entries share a type): map[string]" + et)
		}
	}
	var sb strings.Builder
	sb.WriteString("(m " + et)
	seen := map[string]bool{}
	for i, k := range keys {
		if seen[k] {
			continue
		}
		seen[k] = true
		sb.WriteString(" (" + xh(k) + " " + vals[i].sx + ")")
	}
	sb.WriteString(")")
	return gv{sb.String(), "(m " + et + ")"}
}

func (g *vgen) value(t *ast.Type, d int) gv {
	g.count(fmt.Sprintf("values generated at depth %d", d))
	if g.r.Chance(1, 14) {
		g.count(fmt.Sprintf("defect at depth %d: value of a random kind", d))
		return g.junk(d)
	}
	if (!t.NonNull && g.r.Chance(1, 8)) || (t.NonNull && g.r.Chance(1, 30)) {
		if t.NonNull {
			g.count(fmt.Sprintf("defect at depth %d: null at a non-null position", d))
		} else {
			g.count(fmt.Sprintf("null at a nullable position, depth %d", d))
		}
		return gv{"nil", ""}
	}
	if t.Elem != nil {
		if g.r.Chance(1, 6) {
			g.count(fmt.Sprintf("single value where a list is expected, depth %d", d))
			return g.value(t.Elem, d) // a single value where a list is expected
		}
		if g.r.Chance(1, 7) {
			// a typed slice of a deliberately chosen element type (fitting or not)
			et := rng.Pick(g.r, elemKinds)
			g.count("typed slice on purpose: []" + et)
			return g.typedValue("(sl "+et+")", nil, d)
		}
		n := g.r.Intn(4)
		if d >= 3 {
			n = g.r.Intn(2)
		}
		items := make([]gv, n)
		for i := range items {
			items[i] = g.value(t.Elem, d+1)
		}
		return g.slice(items)
	}
	def := g.s.Types[t.NamedType]
	switch def.Kind {
	case ast.Enum:
		switch g.r.Intn(10) {
		case 0, 1, 2, 3:
			return st(rng.Pick(g.r, []string{"RED", "GREEN", "blue", "Kelvin", "SK"}))
		case 4, 5:
			return st(rng.Pick(g.r, []string{"red", "Green", "BLUE", "Kelvin", "ſK", "sK", "PURPLE", "", "\xff", "KELVIN", "REDD", "RE"}))
		case 6:
			return jn(rng.Pick(g.r, []string{"RED", "red", "12", "nope"}))
		case 7:
			return g.intOfKind(rng.Pick(g.r, []string{"int", "int32", "int64", "int8"}))
		default:
			return g.junk(d)
		}
	case ast.Scalar:
		switch t.NamedType {
		case "Int", "Float":
			return g.numberLike()
		case "String":
			if g.r.Chance(3, 4) {
				return st(rng.Pick(g.r, []string{"", "hello", "12", "\xff\xfe", "日本"}))
			}
			return g.junkScalar()
		case "Boolean":
			if g.r.Chance(3, 4) {
				return bo(g.r.Bool())
			}
			return g.junkScalar()
		case "ID":
			switch g.r.Intn(5) {
			case 0, 1:
				return st(rng.Pick(g.r, []string{"id1", "", "12"}))
			case 2:
				return g.intOfKind(rng.Pick(g.r, []string{"int", "int32", "int64", "int8"}))
			default:
				return g.junkScalar()
			}
		default:
			return g.junk(d)
		}
	case ast.InputObject:
		if g.r.Chance(1, 6) {
			// a typed map of a deliberately chosen element type over the declared field names
			et := rng.Pick(g.r, elemKinds)
			g.count("typed map on purpose: map[string]" + et)
			var names []string
			for _, f := range def.Fields {
				names = append(names, f.Name)
			}
			if g.r.Chance(1, 10) {
				names = append(names, "__typename")
			}
			return g.typedValue("(m "+et+")", names, d)
		}
		if def.Name == "Rec" {
			g.count(fmt.Sprintf("recursive input object Rec at depth %d", d))
		}
		var keys []string
		var vals []gv
		for _, f := range def.Fields {
			p := 2
			if f.Type.NonNull {
				p = 9
			}
			if d >= 4 && !f.Type.NonNull {
				p = 0
			}
			if g.r.Chance(p, 10) {
				keys = append(keys, f.Name)
				vals = append(vals, g.value(f.Type, d+1))
			}
		}
		if g.r.Chance(1, 15) {
			g.count(fmt.Sprintf("defect at depth %d: undeclared key", d))
			keys = append(keys, "zzz")
			vals = append(vals, g.junk(4))
		}
		if g.r.Chance(1, 15) {
			g.count(fmt.Sprintf("key __typename at depth %d", d))
			keys = append(keys, "__typename")
			vals = append(vals, st("Inner"))
		}
		if g.r.Chance(1, 40) {
			g.count(fmt.Sprintf("defect at depth %d: undeclared key", d))
			keys = append(keys, "yyy", "xxx")
			vals = append(vals, g.junk(4), g.junk(4))
		}
		return g.mapOf(keys, vals)
	}
	return g.junk(d)
}

func (g *vgen) junkScalar() gv {
	switch g.r.Intn(4) {
	case 0:
		return bo(g.r.Bool())
	case 1:
		return st(rng.Pick(g.r, []string{"true", "1", "x"}))
	default:
		return g.numberLike()
	}
}

func (g *vgen) varsMap(t *ast.Type, multi bool) string {
	if multi {
		// operation ($a: Int = 1, $v: T, $z: [Int!])
		var sb strings.Builder
		sb.WriteString("(m I")
		if g.r.Chance(1, 2) {
			sb.WriteString(" (" + xh("a") + " " + g.value(&ast.Type{NamedType: "Int"}, 1).sx + ")")
		}
		if g.r.Chance(4, 5) {
			sb.WriteString(" (" + xh("v") + " " + g.value(t, 0).sx + ")")
		}
		if g.r.Chance(1, 2) {
			sb.WriteString(" (" + xh("z") + " " + g.value(&ast.Type{Elem: &ast.Type{NamedType: "Int", NonNull: true}}, 1).sx + ")")
		}
		sb.WriteString(")")
		g.count("variables map for a 3-variable operation")
		return sb.String()
	}
	switch {
	case g.r.Chance(1, 25):
		return "(m I)"
	case g.r.Chance(1, 40):
		return "(m I (" + xh("other") + " (b 1)))"
	case g.r.Chance(1, 40):
		return "(m I (" + xh("other") + " (b 1)) (" + xh("v") + " " + g.value(t, 0).sx + "))"
	}
	return "(m I (" + xh("v") + " " + g.value(t, 0).sx + "))"
}

// constLit: a constant literal for a default value of type t (mostly valid, sometimes null/single)
func (g *vgen) constLit(t *ast.Type, d int) string {
	if !t.NonNull && g.r.Chance(1, 8) {
		return "null"
	}
	if t.Elem != nil {
		if g.r.Chance(1, 5) {
			return g.constLit(t.Elem, d)
		}
		n := g.r.Intn(3)
		parts := make([]string, n)
		for i := range parts {
			parts[i] = g.constLit(t.Elem, d+1)
		}
		return "[" + strings.Join(parts, ", ") + "]"
	}
	def := g.s.Types[t.NamedType]
	switch def.Kind {
	case ast.Enum:
		return rng.Pick(g.r, []string{"RED", "GREEN", "blue"})
	case ast.Scalar:
		switch t.NamedType {
		case "Int":
			return rng.Pick(g.r, []string{"0", "3", "-12", "2147483647"})
		case "Float":
			return rng.Pick(g.r, []string{"1.50", "3", "1e3", "-0.0", "1.0E-2"})
		case "String":
			return rng.Pick(g.r, []string{`""`, `"abc"`, `"""block"""`})
		case "Boolean":
			return rng.Pick(g.r, []string{"true", "false"})
		case "ID":
			return rng.Pick(g.r, []string{`"id"`, "12"})
		default:
			return rng.Pick(g.r, []string{"1", `"s"`, "1.5", "true", "ENUMLIKE", "[1, [2]]", "{a: 1, b: {c: null}}", "99999999999999999999", "1e999", "[1, 99999999999999999999]", "{a: 1e999}", "-9223372036854775808", "null"})
		}
	case ast.InputObject:
		var parts []string
		for _, f := range def.Fields {
			need := f.Type.NonNull && f.DefaultValue == nil
			if need || (d < 2 && g.r.Chance(1, 3)) {
				parts = append(parts, f.Name+": "+g.constLit(f.Type, d+1))
			}
		}
		return "{" + strings.Join(parts, ", ") + "}"
	}
	return "null"
}

// balanced returns the parenthesised expression of s starting at i.
func balanced(s string, i int) string {
	depth := 0
	for j := i; j < len(s); j++ {
		switch s[j] {
		case '(':
			depth++
		case ')':
			depth--
			if depth == 0 {
				return s[i : j+1]
			}
		}
	}
	return ""
}

// sameVarsObs compares a Go observation with the model's (see the header).
func sameVarsObs(goObs, model string) bool {
	goObs, model = impl.CanonFloats(goObs), impl.CanonFloats(model)
	if goObs == model {
		return true
	}
	i := strings.Index(model, " ALT ")
	if i < 0 || !strings.HasPrefix(model, "ERR ") {
		return false
	}
	main, alts := model[:i], strings.Fields(model[i+5:])
	if goObs == main {
		return true
	}
	// replace the last path element
	j := strings.LastIndex(main, " ")
	if j < 0 {
		j = strings.LastIndex(main, "(")
	}
	k := strings.LastIndexAny(main, " (")
	for _, a := range alts {
		if main[:k+1]+a+")" == goObs {
			return true
		}
	}
	_ = j
	return false
}

var tWorker, tDriver, tSpec time.Duration

type varSpec struct {
	name string
	typ  *ast.Type
}

type varsCase struct {
	schema, doc string
	opIndex     int
	vars        []varSpec // the declared variables whose values are judged against the specification
	vals        []string
}

func oneVar(t *ast.Type) []varSpec { return []varSpec{{"v", t}} }

// replay: everything needed to run value j of the case again (`vcheck -prop C14 -replay file`)
func (cs varsCase) replay(j int) map[string]any {
	decl := make([]any, len(cs.vars))
	for i, v := range cs.vars {
		decl[i] = map[string]any{"name": v.name, "type": v.typ.String()}
	}
	return map[string]any{"op": "vars", "schema": cs.schema, "document": cs.doc, "op_index": cs.opIndex, "vars": cs.vals[j], "declared": decl}
}

// parseTypeString reads `[[Int!]]!`
func parseTypeString(s string) *ast.Type {
	nn := strings.HasSuffix(s, "!")
	s = strings.TrimSuffix(s, "!")
	if strings.HasPrefix(s, "[") && strings.HasSuffix(s, "]") {
		return &ast.Type{Elem: parseTypeString(s[1 : len(s)-1]), NonNull: nn}
	}
	return &ast.Type{NamedType: s, NonNull: nn}
}

func (cs varsCase) declared() string {
	parts := make([]string, len(cs.vars))
	for i, v := range cs.vars {
		parts[i] = "$" + v.name + ": " + v.typ.String()
	}
	return strings.Join(parts, ", ")
}

type varsStats struct {
	cases, ok, err, panic_, invalidDocs, mismatches int
	errMsgs                                         map[string]int
	panics                                          map[string]string // panic message → shortest example
	panicCount                                      map[string]int
	specViol                                        map[string]int
	specEx                                          map[string]string
	outcome                                         map[string]int // what happened to the generated cases
	strict                                          map[string]int // informational: strict GraphQL reading
	judged                                          int
	sampled                                         map[string]int
	specReplay                                      map[string]map[string]any
}

func newVarsStats() *varsStats {
	return &varsStats{errMsgs: map[string]int{}, panics: map[string]string{}, panicCount: map[string]int{}, specViol: map[string]int{}, specEx: map[string]string{},
		outcome: map[string]int{}, strict: map[string]int{}, sampled: map[string]int{}, specReplay: map[string]map[string]any{}}
}

// reportVars files the specification findings of a run: Go panics and values that do not conform
func reportVars(c *Ctx, st *varsStats) {
	pk := make([]string, 0, len(st.panics))
	for k := range st.panics {
		pk = append(pk, k)
	}
	sort.Strings(pk)
	for _, k := range pk {
		rp := st.specReplay["panic:"+k]
		c.Report("spec", "vars-panic:"+sanitizePanic(k), fmt.Sprintf("VariableValues panics (%s), %d cases, e.g. %s", k, st.panicCount[k], st.panics[k]), rp)
	}
	ek := make([]string, 0, len(st.specEx))
	for k := range st.specEx {
		ek = append(ek, k)
	}
	sort.Strings(ek)
	for _, k := range ek {
		what := "a returned value does not conform to its declared type"
		if k == "accepted-although-not-coercible" {
			what = "values were returned although the supplied value cannot conform"
		}
		for n := 0; n < st.specViol[k]; n++ { // the count of cases shows in the KNOWN-FINDING line
			c.Report("spec", "vars-conforms:"+k, fmt.Sprintf("%s (%s, %d cases): %s", what, k, st.specViol[k], st.specEx[k]), st.specReplay[k])
		}
	}
}

func typeSexp(t *ast.Type) string { var s impl.Sx; s.Type(t); return s.String() }

func (c *Ctx) runVarsCases(cases []varsCase, st *varsStats) {
	reqs := make([]string, len(cases))
	for i, cs := range cases {
		reqs[i] = "varsgo " + impl.HexW([]byte(cs.schema)) + " " + impl.HexW([]byte(cs.doc)) + " " + strconv.Itoa(cs.opIndex) + " (list " + strings.Join(cs.vals, " ") + ")"
	}
	t0 := time.Now()
	replies := c.Worker.Map(reqs)
	tWorker += time.Since(t0)
	var dreqs []string
	var dix []int
	goObs := make([][]string, len(cases))
	for i, rep := range replies {
		if strings.HasPrefix(rep, "INVALID") {
			st.invalidDocs++
			continue
		}
		parts := strings.SplitN(rep, "\t", 2)
		if len(parts) != 2 {
			// a fatal crash of the worker: rerun the values one by one
			c.Report("runtime", "vars-worker-crash", "worker reply: "+rep[:min(300, len(rep))], map[string]any{"request": reqs[i][:min(2000, len(reqs[i]))]})
			continue
		}
		goObs[i] = strings.Split(parts[1], ";")
		dreqs = append(dreqs, parts[0])
		dix = append(dix, i)
	}
	t0 = time.Now()
	model := c.Driver.Map(dreqs)
	tDriver += time.Since(t0)
	// direct spec checks: one `judge` request per case.  Readings (bits: typenameKey single
	// strictNumStr strictFracInt strictJsonNumber), results: the C14 specification, … with the
	// R14c exception, then (informational) the strict GraphQL reading of the built-in scalars and
	// its three classes one by one; supplied values: Coercible, … with the R14c exception.
	var sreqs []string
	type sref struct {
		ci, vi       int // case, variable
		resIx, supIx []int
	}
	var srefs []sref
	const resBits = "00000,10000,10111,10100,10010,10001"
	const supBits = "01000,11000"
	for k, i := range dix {
		cs := cases[i]
		mo := strings.Split(model[k], ";")
		if len(mo) != len(goObs[i]) {
			st.mismatches++
			c.Report("correspondence", "vars-reply-shape", fmt.Sprintf("model reply has %d observations, go %d: %s", len(mo), len(goObs[i]), model[k][:min(300, len(model[k]))]),
				map[string]any{"op": "vars", "schema": cs.schema, "document": cs.doc})
			continue
		}
		schemaSx := balanced(dreqs[k], strings.Index(dreqs[k], "(SCHEMA"))
		resVals, supVals := make([][]string, len(cs.vars)), make([][]string, len(cs.vars))
		resIx, supIx := make([][]int, len(cs.vars)), make([][]int, len(cs.vars))
		for j := range mo {
			st.cases++
			c.Ev.Traces++
			g := goObs[i][j]
			// nontrivial: the variables map holds a container or the operation declares several variables
			c.Ev.Case(cs.doc+"\x00"+cs.vals[j]+"\x00"+g, strings.Count(cs.vals[j], "(") > 3 || len(cs.vars) > 1)
			switch {
			case strings.HasPrefix(g, "OK"):
				st.ok++
			case strings.HasPrefix(g, "ERR"):
				st.err++
				f := strings.Fields(g)
				if b, ok := impl.UnhexW(f[1]); ok {
					msg := string(b)
					if len(msg) > 60 {
						msg = msg[:60]
					}
					st.errMsgs[msg]++
				}
				if len(f) > 2 {
					pl := strings.Count(strings.Join(f[2:], " "), " ") + 1
					st.outcome[fmt.Sprintf("error reported at path length %d", pl)]++
					if pl >= 5 && st.sampled["err"] < 3 && len(cs.vals[j]) < 300 {
						st.sampled["err"]++
						b, _ := impl.UnhexW(f[1])
						c.Ev.Sample(map[string]any{"kind": "error deep inside a value", "declared": cs.declared(), "variables": cs.vals[j], "message": string(b), "path": strings.Join(f[2:], " ")})
					}
				}
			case strings.HasPrefix(g, "PANIC"):
				st.panic_++
				b, _ := impl.UnhexW(strings.TrimPrefix(g, "PANIC "))
				key := string(b)
				st.panicCount[key]++
				ex := "document `" + cs.doc + "`  vars " + cs.vals[j]
				if old, ok := st.panics[key]; !ok || len(ex) < len(old) {
					st.panics[key] = ex
					st.specReplay["panic:"+key] = cs.replay(j)
				}
			}
			if !sameVarsObs(g, mo[j]) {
				st.mismatches++
				rp := cs.replay(j)
				rp["go_observation"], rp["model_observation"] = g, mo[j]
				c.Report("correspondence", "vars-model-differs", fmt.Sprintf("VariableValues and the Lean model disagree: %s vars %s: go=%s model=%s", cs.declared(), cs.vals[j], g, mo[j]), rp)
			}
			if strings.HasPrefix(g, "OK ") {
				if n, err := impl.ParseSexp(g[3:]); err == nil {
					sup, _ := impl.ParseSexp(cs.vals[j])
					for vi, vs := range cs.vars {
						rv := n.MapEntry(vs.name)
						if rv == nil {
							st.outcome["variable absent without default: nothing returned for it"]++
							continue
						}
						resVals[vi] = append(resVals[vi], rv.String())
						resIx[vi] = append(resIx[vi], j)
						if sv := sup.MapEntry(vs.name); sv != nil {
							supVals[vi] = append(supVals[vi], sv.String())
							supIx[vi] = append(supIx[vi], j)
							rs, ss := rv.String(), sv.String()
							switch {
							case rs == ss:
								st.outcome["returned value identical to the supplied one"]++
							default:
								st.outcome["returned value differs from the supplied one (coerced)"]++
							}
							if strings.Count(rs, "(m I") > strings.Count(ss, "(m I") {
								st.outcome["a typed map was copied into map[string]interface{}"]++
								if st.sampled["copy"] < 3 && len(cs.vals[j]) < 300 {
									st.sampled["copy"]++
									c.Ev.Sample(map[string]any{"kind": "typed map copied", "declared": cs.declared(), "variables": cs.vals[j], "go": g})
								}
							}
							if strings.Count(rs, "(sl ") > strings.Count(ss, "(sl ") {
								st.outcome["a single value was wrapped into a list"]++
							}
						} else {
							st.outcome["variable absent: its default returned"]++
						}
					}
				}
			}
		}
		for vi, vs := range cs.vars {
			if len(resVals[vi]) > 0 {
				sreqs = append(sreqs, "judge "+resBits+" "+supBits+" (list "+schemaSx+" "+typeSexp(vs.typ)+" (list "+strings.Join(resVals[vi], " ")+") (list "+strings.Join(supVals[vi], " ")+"))")
				srefs = append(srefs, sref{i, vi, resIx[vi], supIx[vi]})
			}
		}
	}
	t0 = time.Now()
	verdicts := c.Driver.Map(sreqs)
	tSpec += time.Since(t0)
	note := func(class, ex string, cs varsCase, vi int) {
		st.specViol[class]++
		if old, ok := st.specEx[class]; !ok || len(ex) < len(old) {
			st.specEx[class] = ex
			st.specReplay[class] = cs.replay(vi)
		}
	}
	for k, v := range verdicts {
		r := srefs[k]
		groups := strings.Split(v, "|")
		if len(groups) != 8 || len(groups[0]) != len(r.resIx) || len(groups[6]) != len(r.supIx) {
			c.Report("correspondence", "judge-reply-shape", "judge reply: "+v[:min(200, len(v))], nil)
			continue
		}
		cs := cases[r.ci]
		vs := cs.vars[r.vi]
		for x, vi := range r.resIx {
			ex := fmt.Sprintf("$%s: %s  vars %s → %s", vs.name, vs.typ.String(), cs.vals[vi], goObs[r.ci][vi])
			st.judged++
			switch {
			case groups[0][x] == '1':
			case groups[1][x] == '1':
				note("typenameKey(R14c)", ex, cs, vi)
			default:
				note("result-does-not-conform", ex, cs, vi)
			}
			// informational: the strict GraphQL reading of the built-in scalars
			if groups[1][x] == '1' && groups[2][x] != '1' {
				st.strict["returned values that conform to C14 but not to strict GraphQL input coercion"]++
				for b, name := range []string{"numericStrings (a string that spells a number at Int/Float)", "fractionalInt (a non-integral float at Int)", "jsonNumberAsString (a json.Number at String/ID/enum)"} {
					if groups[3+b][x] != '1' {
						st.strict["  … class "+name]++
					}
				}
			}
		}
		for x, vi := range r.supIx {
			ex := fmt.Sprintf("$%s: %s  vars %s → %s", vs.name, vs.typ.String(), cs.vals[vi], goObs[r.ci][vi])
			switch {
			case groups[6][x] == '1':
			case groups[7][x] == '1':
				note("typenameKey(R14c)", ex, cs, vi)
			default:
				note("accepted-although-not-coercible", ex, cs, vi)
			}
		}
	}
}

func printCounts(title string, m map[string]int) {
	keys := make([]string, 0, len(m))
	for k := range m {
		keys = append(keys, k)
	}
	sort.Strings(keys)
	fmt.Println(title)
	for _, k := range keys {
		fmt.Printf("  %8d  %s\n", m[k], k)
	}
}

// runVarsCheck: doVars / doArgs select the halves; with report the direct specification
// violations are filed as findings (spec kind) under narrow signatures.
func runVarsCheck(c *Ctx, doVars, doArgs, report bool) {
	varsSDL := varsSchemaSDL(varTypes())
	if doVars {
		checkVarsHalf(c, report)
		c.checkStrconv()
	}
	if doArgs {
		c.checkArgMaps(varsSDL, report)
	}
}

func checkVarsHalf(c *Ctx, report bool) {
	types := varTypes()
	sdl := varsSchemaSDL(types)
	schema, err := impl.LoadSchema(sdl)
	if err != nil {
		fmt.Println("schema does not load:", err)
		c.Report("runtime", "vars-schema", err.Error(), nil)
		return
	}
	g := &vgen{r: c.R, s: schema, dist: map[string]int{}}
	st := newVarsStats()
	perType := c.Pick(120, 900)
	if v := os.Getenv("VARS_PER_TYPE"); v != "" {
		perType, _ = strconv.Atoi(v)
	}
	const batch = 150
	var cases []varsCase
	flush := func() {
		c.runVarsCases(cases, st)
		cases = cases[:0]
	}
	for i, t := range types {
		mk := func(doc string, n int, multi bool) {
			for n > 0 {
				k := min(n, batch)
				vals := make([]string, k)
				for j := range vals {
					vals[j] = g.varsMap(t, multi)
				}
				vars := oneVar(t)
				if multi {
					vars = []varSpec{{"a", &ast.Type{NamedType: "Int"}}, {"v", t}, {"z", &ast.Type{Elem: &ast.Type{NamedType: "Int", NonNull: true}}}}
				}
				cases = append(cases, varsCase{sdl, doc, 0, vars, vals})
				n -= k
			}
		}
		mk(fmt.Sprintf("query Q($v: %s) { v%d(x: $v) }", t.String(), i), perType, false)
		// several variables in one operation: $v between a variable with a default and a list variable
		mk(fmt.Sprintf("query Q($a: Int = 1, $v: %s, $z: [Int!]) { v%d(x: $v) args(i: $a, l: $z) }", t.String(), i), perType/6, true)
		// the same variable with default values: mostly absent / null
		for d := 0; d < 3; d++ {
			doc := fmt.Sprintf("query Q($v: %s = %s) { v%d(x: $v) }", t.String(), g.constLit(t, 0), i)
			vals := []string{"(m I)", "(m I (" + xh("v") + " nil))", "(m I (" + xh("w") + " (b 1)))"}
			for j := 0; j < perType/12; j++ {
				vals = append(vals, g.varsMap(t, false))
			}
			cases = append(cases, varsCase{sdl, doc, 0, oneVar(t), vals})
		}
		if len(cases) >= 600 {
			flush()
		}
	}
	flush()
	baseCases := st.cases
	// second family: generated schemas and generated valid documents (the typed generators of
	// internal/gen), every operation that declares variables, EVERY declared variable judged
	nSchemas := c.Pick(150, 1500)
	genOps := 0
	for si := 0; si < nSchemas; si++ {
		gs := gen.GenSchema(c.R, c.R.Intn(9))
		gsdl := gs.SDL()
		for di := 0; di < 6; di++ {
			d := gen.GenDoc(c.R, gs, 1+c.R.Intn(5))
			for oi, op := range d.Ops {
				if len(op.Vars) == 0 {
					continue
				}
				genOps++
				vars := make([]varSpec, len(op.Vars))
				for k, v := range op.Vars {
					vars[k] = varSpec{v.Name, astType(v.Type)}
					g.count(fmt.Sprintf("generated family: declared variable of list depth %d", listDepth(v.Type)))
				}
				g.count(fmt.Sprintf("generated family: operation with %d variables", min(len(op.Vars), 6)))
				var vals []string
				for j := 0; j < 12; j++ {
					m, defect := gen.GenVars(c.R, gs, d.Text, op.Name, j%3 == 0)
					cls := "conforming values"
					if k := strings.Index(defect, "@"); k > 0 {
						cls = "one defect: " + defect[:k]
					}
					g.count("generated family: variables map with " + cls)
					vals = append(vals, impl.SexpGoVal(m))
				}
				cases = append(cases, varsCase{gsdl, d.Text, oi, vars, vals})
			}
		}
		if len(cases) >= 300 {
			flush()
		}
	}
	flush()
	fmt.Printf("generated family: %d schemas, %d operations with variables, %d triples\n", nSchemas, genOps, st.cases-baseCases)
	fmt.Printf("X-vars: %d types, %d triples: go OK %d, ERR %d, PANIC %d; invalid documents skipped %d; MISMATCHES %d\n",
		len(types), st.cases, st.ok, st.err, st.panic_, st.invalidDocs, st.mismatches)
	fmt.Printf("time: go workers %v, driver (vars) %v, driver (spec verdicts) %v\n", tWorker.Round(time.Millisecond), tDriver.Round(time.Millisecond), tSpec.Round(time.Millisecond))
	printCounts("error messages seen (go):", st.errMsgs)
	pk := make([]string, 0, len(st.panics))
	for k := range st.panics {
		pk = append(pk, k)
	}
	sort.Strings(pk)
	fmt.Println("go panics in VariableValues (message, count, shortest input):")
	for _, k := range pk {
		fmt.Printf("  %q ×%d  e.g. %s\n", k, st.panicCount[k], st.panics[k])
	}
	probe := c.Worker.One("varsprobe " + impl.HexW([]byte(sdl)))
	fmt.Println("Go-only probes with values outside the model's domain (pointers, non-string keys, named types, …):")
	for _, l := range strings.Split(probe, "\t") {
		fmt.Println("  ", l)
	}
	// one map object at two positions of different declared types (Go-only: the model has values, not objects)
	for _, l := range strings.Split(c.Worker.One("varsalias "+impl.HexW([]byte(sdl))), "\t") {
		c.Ev.Count("shared-map-probes", 1)
		if strings.Contains(l, "fresh=ERR") && !strings.Contains(l, "shared=ERR") {
			c.Report("spec", "vars-conforms:shared-map-object-not-judged-per-position", "VariableValues with ONE map object supplied at two positions of different input types: "+l+" (two equal but distinct maps are refused)",
				map[string]any{"op": "varsalias", "schema": sdl, "probe": l})
		} else if !strings.Contains(l, "fresh=ERR") {
			fmt.Println("  (shared-map probe without a refused reference run: " + l + ")")
		}
	}
	printCounts("generator distribution (values generated, by feature):", g.dist)
	printCounts("what happened to the generated cases:", st.outcome)
	fmt.Printf("direct specification checks (Conforms on every returned value, Coercible on its supplied value): %d returned values judged\n", st.judged)
	printCounts("  specification violations (counts of triples):", st.specViol)
	ek := make([]string, 0, len(st.specEx))
	for k := range st.specEx {
		ek = append(ek, k)
	}
	sort.Strings(ek)
	for _, k := range ek {
		fmt.Printf("  example [%s]: %s\n", k, st.specEx[k])
	}
	printCounts("informational (NOT part of C14, never reported): strict GraphQL input coercion of built-in scalars", st.strict)
	c.Ev.Evals = st.cases
	for _, k := range ek {
		c.Ev.Sample(map[string]any{"kind": "specification class " + k, "example": st.specEx[k]})
	}
	c.Ev.Assume = append(c.Ev.Assume,
		"domain of the variables: nil, bool, every int/uint kind, float32/64, json.Number, string, slices and string-keyed maps of ANY element type, nested; pointers, structs, arrays, maps with non-string key types and named types other than json.Number are outside (Go-only probes printed by the check: pointers and non-string keys can still panic)",
		"theorem hypotheses about the schema are facts of loaded schemas (C07): InputsClosed, InputFieldsNodup, EnumNamesPlain; about the operation: variable names are unique (validation), every variable type exists",
		"wfFieldsB is the representation invariant of the Lean value type (nil interface only inside interface{} containers, map keys unique), not a restriction on Go values",
		"built-in scalars are judged by the compatible kind table (C14) of GqlModel/Vars/Spec.lean; the strict GraphQL reading is counted as information only")
	c.Ev.Rule = "nontrivial = the variables map holds a container value or the operation declares several variables. vartypes: 12 base types (5 built-in scalars, custom scalar, enum, 5 input objects incl. recursive) x list depth <= 3 x every non-null pattern; type-directed values (typed slices/maps of 28 element types, json.Number forms) with defects injected at every depth; 1- and 3-variable operations, defaults"
	c.Ev.Extra["generator_distribution"] = g.dist
	c.Ev.Extra["case_outcomes"] = st.outcome
	c.Ev.Extra["go_outcomes"] = map[string]int{"ok": st.ok, "err": st.err, "panic": st.panic_}
	c.Ev.Extra["returned_values_judged"] = st.judged
	c.Ev.Extra["strict_graphql_reading_informational"] = st.strict
	c.Ev.Extra["error_messages"] = st.errMsgs
	if report {
		reportVars(c, st)
	}
}

func astType(t *gen.TypeRef) *ast.Type {
	if t.Elem != nil {
		return &ast.Type{Elem: astType(t.Elem), NonNull: t.NonNull}
	}
	return &ast.Type{NamedType: t.Name, NonNull: t.NonNull}
}

func listDepth(t *gen.TypeRef) int {
	n := 0
	for t.Elem != nil {
		n++
		t = t.Elem
	}
	return n
}

func sanitizePanic(msg string) string {
	switch {
	case strings.Contains(msg, "reflect.Value.Type on zero Value"):
		return "type-on-zero-value"
	case strings.Contains(msg, "SetMapIndex"):
		return "typed-map-setmapindex-not-assignable"
	}
	return "other"
}

// replayVars re-runs a stored C14 case (correspondence and specification verdicts) on the current tree
func replayVars(c *Ctx, rep map[string]any) {
	str := func(k string) string { s, _ := rep[k].(string); return s }
	if str("op") == "varsalias" {
		for _, l := range strings.Split(c.Worker.One("varsalias "+impl.HexW([]byte(str("schema")))), "\t") {
			fmt.Println("  ", l)
			if strings.Contains(l, "fresh=ERR") && !strings.Contains(l, "shared=ERR") {
				c.Report("spec", "vars-conforms:shared-map-object-not-judged-per-position", "VariableValues with ONE map object supplied at two positions of different input types: "+l, rep)
			}
		}
		return
	}
	cs := varsCase{schema: str("schema"), doc: str("document"), vals: []string{str("vars")}}
	if f, ok := rep["op_index"].(float64); ok {
		cs.opIndex = int(f)
	}
	if ds, ok := rep["declared"].([]any); ok {
		for _, d := range ds {
			if m, ok := d.(map[string]any); ok {
				n, _ := m["name"].(string)
				t, _ := m["type"].(string)
				cs.vars = append(cs.vars, varSpec{n, parseTypeString(t)})
			}
		}
	}
	if cs.schema == "" || cs.doc == "" || cs.vals[0] == "" {
		fmt.Println("replay file has no schema/document/vars")
		c.ReportNoInput("runtime", "replay-unusable", "replay file has no schema/document/vars", nil)
		return
	}
	st := newVarsStats()
	c.runVarsCases([]varsCase{cs}, st)
	fmt.Printf("replayed: go OK %d, ERR %d, PANIC %d, model mismatches %d, specification classes %v\n", st.ok, st.err, st.panic_, st.mismatches, st.specViol)
	reportVars(c, st)
}

func init() {
	Replayers["C14"] = replayVars
	Checks["X-vars"] = func(c *Ctx) {
		// a scratch check has no GqlProofs/Props file: drop the pseudo-violation RunProofs files for that,
		// so that the exit status tells whether model and code agree
		c.mu.Lock()
		if v, ok := c.viol["no-props-file"]; ok && v.NoFail {
			delete(c.viol, "no-props-file")
			for i, s := range c.violOrder {
				if s == "no-props-file" {
					c.violOrder = append(c.violOrder[:i], c.violOrder[i+1:]...)
					break
				}
			}
		}
		c.mu.Unlock()
		runVarsCheck(c, true, true, false)
	}
	Checks["C14"] = func(c *Ctx) { runVarsCheck(c, true, false, true) }
	Checks["C15"] = func(c *Ctx) { runVarsCheck(c, false, true, true) }
}
