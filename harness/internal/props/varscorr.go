package props

// X-vars: correspondence of the Lean model of validator/vars.go, ast/value.go, ast/argmap.go with
// the real code, plus the direct C14 / C15 specification checks on the Go outputs.
//
// What is compared for `vars` (per (schema, operation, variables) triple), after rewriting every
// float64 text to the canonical text of the value it denotes:
//   * OK  : the whole canonical result map (keys sorted at every level);
//   * ERR : message bytes and path; when the model says that several keys of one map are
//           offending ("ALT"), Go's random map order may have reported any of them: the last path
//           element has to be one of the model's candidates, everything else identical;
//   * PANIC: as such (no message).

import (
	"encoding/hex"
	"fmt"
	"os"
	"sort"
	"strconv"
	"strings"
	"time"

	"github.com/vektah/gqlparser/v2/ast"

	"verifharness/internal/impl"
	"verifharness/internal/rng"
)

const varsBaseSDL = `
scalar Custom
enum Color { RED GREEN blue Kelvin SK }
input Inner { a: Int b: String! c: [Int!] d: Color e: Inner k: Custom f: Float i: ID t: Boolean }
input WithDefaults { req: Int! opt: Int = 5 reqDef: Int! = 7 lst: [Int] = [1, 2] nested: Inner = {b: "x"} f: Float! = 1.5 }
input Rec { self: Rec items: [Rec!] v: Int! }
input Deep { l2: [[Int]] l3: [[[String!]]!] lnn: [Int!]! m: [[Inner]] w: [WithDefaults!] }
input BadDefaults { c: Custom! = 99999999999999999999 d: Custom! = 1e999 ok: Custom! = 12 o: Int }
directive @dir(x: Int = 3, c: Custom, l: [Int], i: Inner, s: String = "dflt", nn: Int! = 1, ll: [[Int]] = [[1], [2, 3]]) on QUERY | MUTATION | FIELD | FRAGMENT_SPREAD | INLINE_FRAGMENT | FRAGMENT_DEFINITION | VARIABLE_DEFINITION
`

var varsBaseNames = []string{"Int", "String", "Boolean", "ID", "Float", "Color", "Inner", "Rec", "Custom", "WithDefaults", "Deep", "BadDefaults"}

// varTypes enumerates the `vartypes` space: base × list depth ≤ 3 × every non-null pattern.
func varTypes() []*ast.Type {
	var out []*ast.Type
	for _, b := range varsBaseNames {
		for depth := 0; depth <= 3; depth++ {
			for bits := 0; bits < 1<<(depth+1); bits++ {
				t := &ast.Type{NamedType: b, NonNull: bits&1 == 1}
				for l := 1; l <= depth; l++ {
					t = &ast.Type{Elem: t, NonNull: bits>>l&1 == 1}
				}
				out = append(out, t)
			}
		}
	}
	return out
}

func varsSchemaSDL(types []*ast.Type) string {
	var sb strings.Builder
	sb.WriteString(varsBaseSDL)
	sb.WriteString("type Query {\n")
	for i, t := range types {
		fmt.Fprintf(&sb, " v%d(x: %s): Int\n", i, t.String())
	}
	sb.WriteString(` args(i: Int = 4, s: String, c: Custom, l: [Int] = [1, 2], in: Inner, w: WithDefaults = {req: 1}, nn: Int! = 9, ll: [[Int]], d: Deep, b: Boolean, f: Float, id: ID, e: Color = RED): Int
 sub: Query
}
type Mutation { m(c: Custom): Int }
`)
	return sb.String()
}

func xh(s string) string { return "x" + hex.EncodeToString([]byte(s)) }

type gv struct{ sx, ty string } // S-expression of a value and of its dynamic type ("" for nil)

type vgen struct {
	r *rng.R
	s *ast.Schema
}

var intPool = []string{"0", "1", "-1", "7", "12", "2147483647", "2147483648", "-2147483649", "9223372036854775807", "-9223372036854775808"}
var smallPool = []string{"0", "1", "-1", "7", "12", "100", "-100"}

func (g *vgen) intOfKind(kind string) gv {
	pool := intPool
	if kind == "int8" || kind == "int16" || kind == "int32" {
		pool = smallPool
	}
	return gv{"(i " + kind + " " + rng.Pick(g.r, pool) + ")", kind}
}
func (g *vgen) uintOfKind(kind string) gv {
	return gv{"(u " + kind + " " + rng.Pick(g.r, []string{"0", "1", "7", "200"}) + ")", kind}
}
func fl(bits, text string) gv { return gv{"(" + bits + " " + xh(text) + ")", bits} }
func jn(text string) gv       { return gv{"(jn " + xh(text) + ")", "jn"} }
func st(text string) gv       { return gv{"(s " + xh(text) + ")", "str"} }
func bo(b bool) gv {
	if b {
		return gv{"(b 1)", "bool"}
	}
	return gv{"(b 0)", "bool"}
}

var f64Texts = []string{"1.5", "0", "-0", "3", "-7", "1e+21", "1e-07", "NaN", "+Inf", "-Inf", "2.147483648e+09", "0.1", "123456789"}
var jnTexts = []string{"12", "-3", "0", "1.5", "1e3", "1E5", "abc", "", "99999999999999999999", "-99999999999999999999", "9223372036854775808",
	"1e999", "-1e999", "1e-999", "0x1p-2", "0x1p99999", "inf", "-Infinity", "nan", "1_0", "1__0", ".", "+5", "5.", ".5", "RED", "1.0", " 1", "0x10", "1e", "infinit"}
var numStrTexts = []string{"12", "+5", "-0", "abc", "1.5", "1_0", "1e5", "Infinity", "1e400", "", "0x1p3", "99999999999999999999", "nan", "１"}

func (g *vgen) numberLike() gv {
	switch g.r.Intn(12) {
	case 0, 1:
		return g.intOfKind("int")
	case 2:
		return g.intOfKind("int32")
	case 3:
		return g.intOfKind("int64")
	case 4:
		return g.intOfKind(rng.Pick(g.r, []string{"int8", "int16"}))
	case 5:
		return g.uintOfKind(rng.Pick(g.r, []string{"uint", "uint8", "uint16", "uint32", "uint64"}))
	case 6, 7:
		return fl("f64", rng.Pick(g.r, f64Texts))
	case 8:
		return fl("f32", rng.Pick(g.r, []string{"1.5", "2", "0", "-1", "1e+10", "NaN"}))
	case 9, 10:
		return jn(rng.Pick(g.r, jnTexts))
	default:
		return st(rng.Pick(g.r, numStrTexts))
	}
}

// junk: a value of a random kind, ignoring the expected type
func (g *vgen) junk(d int) gv {
	switch g.r.Intn(9) {
	case 0:
		return gv{"nil", ""}
	case 1:
		return bo(g.r.Bool())
	case 2, 3:
		return g.numberLike()
	case 4:
		return st(rng.Pick(g.r, []string{"", "x", "RED", "true", "12", "__typename", "\xff", "Kelvin"}))
	case 5:
		if d < 4 {
			return g.slice([]gv{g.junk(d + 1), g.junk(d + 1)})
		}
		return gv{"(sl I)", "(sl I)"}
	case 6:
		if d < 4 {
			return g.mapOf([]string{"a", "b"}, []gv{g.junk(d + 1), g.junk(d + 1)})
		}
		return gv{"(m I)", "(m I)"}
	case 7:
		return gv{"(sl I)", "(sl I)"}
	default:
		return gv{"(m I)", "(m I)"}
	}
}

// slice builds []interface{} or, when every item has the same dynamic type, sometimes a typed slice
func (g *vgen) slice(items []gv) gv {
	et := "I"
	if len(items) > 0 && g.r.Chance(1, 4) {
		same := items[0].ty != ""
		for _, it := range items {
			if it.ty != items[0].ty {
				same = false
			}
		}
		if same {
			et = items[0].ty
		}
	} else if len(items) == 0 && g.r.Chance(1, 6) {
		et = rng.Pick(g.r, []string{"int", "str", "jn", "(m I)", "(sl I)", "f64"})
	}
	var sb strings.Builder
	sb.WriteString("(sl " + et)
	for _, it := range items {
		sb.WriteString(" " + it.sx)
	}
	sb.WriteString(")")
	return gv{sb.String(), "(sl " + et + ")"}
}

func (g *vgen) mapOf(keys []string, vals []gv) gv {
	et := "I"
	if len(vals) > 0 && g.r.Chance(1, 8) {
		same := vals[0].ty != ""
		for _, it := range vals {
			if it.ty != vals[0].ty {
				same = false
			}
		}
		if same {
			et = vals[0].ty
		}
	}
	var sb strings.Builder
	sb.WriteString("(m " + et)
	seen := map[string]bool{}
	for i, k := range keys {
		if seen[k] {
			continue
		}
		seen[k] = true
		sb.WriteString(" (" + xh(k) + " " + vals[i].sx + ")")
	}
	sb.WriteString(")")
	return gv{sb.String(), "(m " + et + ")"}
}

func (g *vgen) value(t *ast.Type, d int) gv {
	if g.r.Chance(1, 14) {
		return g.junk(d)
	}
	if (!t.NonNull && g.r.Chance(1, 8)) || (t.NonNull && g.r.Chance(1, 30)) {
		return gv{"nil", ""}
	}
	if t.Elem != nil {
		if g.r.Chance(1, 6) {
			return g.value(t.Elem, d) // a single value where a list is expected
		}
		n := g.r.Intn(4)
		if d >= 3 {
			n = g.r.Intn(2)
		}
		items := make([]gv, n)
		for i := range items {
			items[i] = g.value(t.Elem, d+1)
		}
		return g.slice(items)
	}
	def := g.s.Types[t.NamedType]
	switch def.Kind {
	case ast.Enum:
		switch g.r.Intn(10) {
		case 0, 1, 2, 3:
			return st(rng.Pick(g.r, []string{"RED", "GREEN", "blue", "Kelvin", "SK"}))
		case 4, 5:
			return st(rng.Pick(g.r, []string{"red", "Green", "BLUE", "Kelvin", "ſK", "sK", "PURPLE", "", "\xff", "KELVIN", "REDD", "RE"}))
		case 6:
			return jn(rng.Pick(g.r, []string{"RED", "red", "12", "nope"}))
		case 7:
			return g.intOfKind(rng.Pick(g.r, []string{"int", "int32", "int64", "int8"}))
		default:
			return g.junk(d)
		}
	case ast.Scalar:
		switch t.NamedType {
		case "Int", "Float":
			return g.numberLike()
		case "String":
			if g.r.Chance(3, 4) {
				return st(rng.Pick(g.r, []string{"", "hello", "12", "\xff\xfe", "日本"}))
			}
			return g.junkScalar()
		case "Boolean":
			if g.r.Chance(3, 4) {
				return bo(g.r.Bool())
			}
			return g.junkScalar()
		case "ID":
			switch g.r.Intn(5) {
			case 0, 1:
				return st(rng.Pick(g.r, []string{"id1", "", "12"}))
			case 2:
				return g.intOfKind(rng.Pick(g.r, []string{"int", "int32", "int64", "int8"}))
			default:
				return g.junkScalar()
			}
		default:
			return g.junk(d)
		}
	case ast.InputObject:
		var keys []string
		var vals []gv
		for _, f := range def.Fields {
			p := 2
			if f.Type.NonNull {
				p = 9
			}
			if d >= 4 && !f.Type.NonNull {
				p = 0
			}
			if g.r.Chance(p, 10) {
				keys = append(keys, f.Name)
				vals = append(vals, g.value(f.Type, d+1))
			}
		}
		if g.r.Chance(1, 15) {
			keys = append(keys, "zzz")
			vals = append(vals, g.junk(4))
		}
		if g.r.Chance(1, 15) {
			keys = append(keys, "__typename")
			vals = append(vals, st("Inner"))
		}
		if g.r.Chance(1, 40) {
			keys = append(keys, "yyy", "xxx")
			vals = append(vals, g.junk(4), g.junk(4))
		}
		return g.mapOf(keys, vals)
	}
	return g.junk(d)
}

func (g *vgen) junkScalar() gv {
	switch g.r.Intn(4) {
	case 0:
		return bo(g.r.Bool())
	case 1:
		return st(rng.Pick(g.r, []string{"true", "1", "x"}))
	default:
		return g.numberLike()
	}
}

func (g *vgen) varsMap(t *ast.Type) string {
	switch {
	case g.r.Chance(1, 25):
		return "(m I)"
	case g.r.Chance(1, 40):
		return "(m I (" + xh("other") + " (b 1)))"
	case g.r.Chance(1, 40):
		return "(m I (" + xh("other") + " (b 1)) (" + xh("v") + " " + g.value(t, 0).sx + "))"
	}
	return "(m I (" + xh("v") + " " + g.value(t, 0).sx + "))"
}

// constLit: a constant literal for a default value of type t (mostly valid, sometimes null/single)
func (g *vgen) constLit(t *ast.Type, d int) string {
	if !t.NonNull && g.r.Chance(1, 8) {
		return "null"
	}
	if t.Elem != nil {
		if g.r.Chance(1, 5) {
			return g.constLit(t.Elem, d)
		}
		n := g.r.Intn(3)
		parts := make([]string, n)
		for i := range parts {
			parts[i] = g.constLit(t.Elem, d+1)
		}
		return "[" + strings.Join(parts, ", ") + "]"
	}
	def := g.s.Types[t.NamedType]
	switch def.Kind {
	case ast.Enum:
		return rng.Pick(g.r, []string{"RED", "GREEN", "blue"})
	case ast.Scalar:
		switch t.NamedType {
		case "Int":
			return rng.Pick(g.r, []string{"0", "3", "-12", "2147483647"})
		case "Float":
			return rng.Pick(g.r, []string{"1.50", "3", "1e3", "-0.0", "1.0E-2"})
		case "String":
			return rng.Pick(g.r, []string{`""`, `"abc"`, `"""block"""`})
		case "Boolean":
			return rng.Pick(g.r, []string{"true", "false"})
		case "ID":
			return rng.Pick(g.r, []string{`"id"`, "12"})
		default:
			return rng.Pick(g.r, []string{"1", `"s"`, "1.5", "true", "ENUMLIKE", "[1, [2]]", "{a: 1, b: {c: null}}", "99999999999999999999", "1e999", "[1, 99999999999999999999]", "{a: 1e999}", "-9223372036854775808", "null"})
		}
	case ast.InputObject:
		var parts []string
		for _, f := range def.Fields {
			need := f.Type.NonNull && f.DefaultValue == nil
			if need || (d < 2 && g.r.Chance(1, 3)) {
				parts = append(parts, f.Name+": "+g.constLit(f.Type, d+1))
			}
		}
		return "{" + strings.Join(parts, ", ") + "}"
	}
	return "null"
}

// balanced returns the parenthesised expression of s starting at i.
func balanced(s string, i int) string {
	depth := 0
	for j := i; j < len(s); j++ {
		switch s[j] {
		case '(':
			depth++
		case ')':
			depth--
			if depth == 0 {
				return s[i : j+1]
			}
		}
	}
	return ""
}

// sameVarsObs compares a Go observation with the model's (see the header).
func sameVarsObs(goObs, model string) bool {
	goObs, model = impl.CanonFloats(goObs), impl.CanonFloats(model)
	if goObs == model {
		return true
	}
	i := strings.Index(model, " ALT ")
	if i < 0 || !strings.HasPrefix(model, "ERR ") {
		return false
	}
	main, alts := model[:i], strings.Fields(model[i+5:])
	if goObs == main {
		return true
	}
	// replace the last path element
	j := strings.LastIndex(main, " ")
	if j < 0 {
		j = strings.LastIndex(main, "(")
	}
	k := strings.LastIndexAny(main, " (")
	for _, a := range alts {
		if main[:k+1]+a+")" == goObs {
			return true
		}
	}
	_ = j
	return false
}

var tWorker, tDriver, tSpec time.Duration

type varsCase struct {
	schema, doc string
	typ         *ast.Type
	vals        []string
}

type varsStats struct {
	cases, ok, err, panic_, invalidDocs, mismatches int
	errMsgs                                         map[string]int
	panics                                          map[string]string // panic message → shortest example
	panicCount                                      map[string]int
	specViol                                        map[string]int
	specEx                                          map[string]string
}

func typeSexp(t *ast.Type) string { var s impl.Sx; s.Type(t); return s.String() }

var leniencyNames = []string{"enumFold(R14b)", "typenameKey(R14c)", "numericStrings", "fractionalInt", "jsonNumberAsString", "flatNested(R14d)"}

func (c *Ctx) runVarsCases(cases []varsCase, st *varsStats) {
	reqs := make([]string, len(cases))
	for i, cs := range cases {
		reqs[i] = "varsgo " + impl.HexW([]byte(cs.schema)) + " " + impl.HexW([]byte(cs.doc)) + " 0 (list " + strings.Join(cs.vals, " ") + ")"
	}
	t0 := time.Now()
	replies := c.Worker.Map(reqs)
	tWorker += time.Since(t0)
	var dreqs []string
	var dix []int
	goObs := make([][]string, len(cases))
	for i, rep := range replies {
		if strings.HasPrefix(rep, "INVALID") {
			st.invalidDocs++
			continue
		}
		parts := strings.SplitN(rep, "\t", 2)
		if len(parts) != 2 {
			// a fatal crash of the worker: rerun the values one by one
			c.Report("runtime", "vars-worker-crash", "worker reply: "+rep[:min(300, len(rep))], map[string]any{"request": reqs[i][:min(2000, len(reqs[i]))]})
			continue
		}
		goObs[i] = strings.Split(parts[1], ";")
		dreqs = append(dreqs, parts[0])
		dix = append(dix, i)
	}
	t0 = time.Now()
	model := c.Driver.Map(dreqs)
	tDriver += time.Since(t0)
	// direct spec checks: one `judge` request per case
	var sreqs []string
	type sref struct {
		ci           int
		resIx, supIx []int
	}
	var srefs []sref
	// strict, legacy, the six single leniencies, and "afterR14d" (all but flatNested)
	const resBits = "000000,111111,100000,010000,001000,000100,000010,000001,111110"
	const supBits = "000001,111111"
	for k, i := range dix {
		cs := cases[i]
		mo := strings.Split(model[k], ";")
		if len(mo) != len(goObs[i]) {
			st.mismatches++
			c.Report("correspondence", "vars-reply-shape", fmt.Sprintf("model reply has %d observations, go %d: %s", len(mo), len(goObs[i]), model[k][:min(300, len(model[k]))]),
				map[string]any{"op": "vars", "schema": cs.schema, "document": cs.doc})
			continue
		}
		schemaSx := balanced(dreqs[k], strings.Index(dreqs[k], "(SCHEMA"))
		var resVals, supVals []string
		var resIx, supIx []int
		for j := range mo {
			st.cases++
			c.Ev.Traces++
			g := goObs[i][j]
			switch {
			case strings.HasPrefix(g, "OK"):
				st.ok++
			case strings.HasPrefix(g, "ERR"):
				st.err++
				f := strings.Fields(g)
				if b, ok := impl.UnhexW(f[1]); ok {
					msg := string(b)
					if len(msg) > 60 {
						msg = msg[:60]
					}
					st.errMsgs[msg]++
				}
			case strings.HasPrefix(g, "PANIC"):
				st.panic_++
				b, _ := impl.UnhexW(strings.TrimPrefix(g, "PANIC "))
				key := string(b)
				st.panicCount[key]++
				ex := "document `" + cs.doc + "`  vars " + cs.vals[j]
				if old, ok := st.panics[key]; !ok || len(ex) < len(old) {
					st.panics[key] = ex
				}
			}
			if !sameVarsObs(g, mo[j]) {
				st.mismatches++
				c.Report("correspondence", "vars-model-differs", fmt.Sprintf("VariableValues and the Lean model disagree: type %s vars %s: go=%s model=%s", cs.typ.String(), cs.vals[j], g, mo[j]),
					map[string]any{"op": "vars", "schema": cs.schema, "document": cs.doc, "vars": cs.vals[j], "go_observation": g, "model_observation": mo[j]})
			}
			if strings.HasPrefix(g, "OK ") {
				if n, err := impl.ParseSexp(g[3:]); err == nil {
					sup, _ := impl.ParseSexp(cs.vals[j])
					if rv := n.MapEntry("v"); rv != nil {
						resVals = append(resVals, rv.String())
						resIx = append(resIx, j)
						if sv := sup.MapEntry("v"); sv != nil {
							supVals = append(supVals, sv.String())
							supIx = append(supIx, j)
						}
					}
				}
			}
		}
		if len(resVals) > 0 {
			sreqs = append(sreqs, "judge "+resBits+" "+supBits+" (list "+schemaSx+" "+typeSexp(cs.typ)+" (list "+strings.Join(resVals, " ")+") (list "+strings.Join(supVals, " ")+"))")
			srefs = append(srefs, sref{i, resIx, supIx})
		}
	}
	t0 = time.Now()
	verdicts := c.Driver.Map(sreqs)
	tSpec += time.Since(t0)
	for k, v := range verdicts {
		r := srefs[k]
		groups := strings.Split(v, "|")
		if len(groups) != 11 || len(groups[0]) != len(r.resIx) || len(groups[9]) != len(r.supIx) {
			c.Report("correspondence", "judge-reply-shape", "judge reply: "+v[:min(200, len(v))], nil)
			continue
		}
		cs := cases[r.ci]
		for x, vi := range r.resIx {
			ex := fmt.Sprintf("$v: %s  vars %s → %s", cs.typ.String(), cs.vals[vi], goObs[r.ci][vi])
			if groups[0][x] == '1' {
				continue
			}
			st.specViol["C14_conforms: returned value does not conform (strict)"]++
			if groups[1][x] != '1' {
				st.specViol["C14_conforms: returned value does not conform EVEN WITH every legacy leniency"]++
				if _, ok := st.specEx["beyond-legacy-result"]; !ok {
					st.specEx["beyond-legacy-result"] = ex
				}
			}
			if groups[8][x] != '1' && groups[1][x] == '1' {
				// conforms only when flatNested is granted to the RESULT: R14d (repaired by r14d.patch)
				st.specViol["C14_conforms: returned value needs flatNested (does not conform with the five other leniencies)"]++
				if old, ok := st.specEx["result-needs-flatNested(R14d)"]; !ok || len(ex) < len(old) {
					st.specEx["result-needs-flatNested(R14d)"] = ex
				}
			}
			any := false
			for b := 0; b < 6; b++ {
				if groups[2+b][x] == '1' {
					any = true
					name := "  … explained by the single leniency " + leniencyNames[b]
					st.specViol[name]++
					if old, ok := st.specEx[name]; !ok || len(ex) < len(old) {
						st.specEx[name] = ex
					}
				}
			}
			if !any && groups[1][x] == '1' {
				st.specViol["  … explained only by a combination of leniencies"]++
			}
		}
		for x, vi := range r.supIx {
			ex := fmt.Sprintf("$v: %s  vars %s → %s", cs.typ.String(), cs.vals[vi], goObs[r.ci][vi])
			if groups[9][x] == '1' {
				continue
			}
			st.specViol["C14_rejects: values returned although the supplied value is not coercible (strict)"]++
			if groups[10][x] != '1' {
				st.specViol["C14_rejects: values returned although the supplied value is not coercible EVEN WITH every legacy leniency"]++
				if _, ok := st.specEx["beyond-legacy-supplied"]; !ok {
					st.specEx["beyond-legacy-supplied"] = ex
				}
			}
		}
	}
}

func printCounts(title string, m map[string]int) {
	keys := make([]string, 0, len(m))
	for k := range m {
		keys = append(keys, k)
	}
	sort.Strings(keys)
	fmt.Println(title)
	for _, k := range keys {
		fmt.Printf("  %8d  %s\n", m[k], k)
	}
}

// runVarsCheck: doVars / doArgs select the halves; with report the direct specification
// violations are filed as findings (spec kind) under narrow signatures.
func runVarsCheck(c *Ctx, doVars, doArgs, report bool) {
	varsSDL := varsSchemaSDL(varTypes())
	if doVars {
		checkVarsHalf(c, report)
		c.checkStrconv()
	}
	if doArgs {
		c.checkArgMaps(varsSDL, report)
	}
}

func checkVarsHalf(c *Ctx, report bool) {
	types := varTypes()
	sdl := varsSchemaSDL(types)
	schema, err := impl.LoadSchema(sdl)
	if err != nil {
		fmt.Println("schema does not load:", err)
		c.Report("runtime", "vars-schema", err.Error(), nil)
		return
	}
	g := &vgen{r: c.R, s: schema}
	st := &varsStats{errMsgs: map[string]int{}, panics: map[string]string{}, panicCount: map[string]int{}, specViol: map[string]int{}, specEx: map[string]string{}}
	perType := c.Pick(120, 900)
	if v := os.Getenv("VARS_PER_TYPE"); v != "" {
		perType, _ = strconv.Atoi(v)
	}
	const batch = 150
	var cases []varsCase
	flush := func() {
		c.runVarsCases(cases, st)
		cases = cases[:0]
	}
	for i, t := range types {
		mk := func(doc string, n int) {
			for n > 0 {
				k := min(n, batch)
				vals := make([]string, k)
				for j := range vals {
					vals[j] = g.varsMap(t)
				}
				cases = append(cases, varsCase{sdl, doc, t, vals})
				n -= k
			}
		}
		mk(fmt.Sprintf("query Q($v: %s) { v%d(x: $v) }", t.String(), i), perType)
		// the same variable with default values: mostly absent / null
		for d := 0; d < 3; d++ {
			doc := fmt.Sprintf("query Q($v: %s = %s) { v%d(x: $v) }", t.String(), g.constLit(t, 0), i)
			vals := []string{"(m I)", "(m I (" + xh("v") + " nil))", "(m I (" + xh("w") + " (b 1)))"}
			for j := 0; j < perType/12; j++ {
				vals = append(vals, g.varsMap(t))
			}
			cases = append(cases, varsCase{sdl, doc, t, vals})
		}
		if len(cases) >= 600 {
			flush()
		}
	}
	flush()
	fmt.Printf("X-vars: %d types, %d triples: go OK %d, ERR %d, PANIC %d; invalid documents skipped %d; MISMATCHES %d\n",
		len(types), st.cases, st.ok, st.err, st.panic_, st.invalidDocs, st.mismatches)
	fmt.Printf("time: go workers %v, driver (vars) %v, driver (spec verdicts) %v\n", tWorker.Round(time.Millisecond), tDriver.Round(time.Millisecond), tSpec.Round(time.Millisecond))
	printCounts("error messages seen (go):", st.errMsgs)
	pk := make([]string, 0, len(st.panics))
	for k := range st.panics {
		pk = append(pk, k)
	}
	sort.Strings(pk)
	fmt.Println("go panics in VariableValues (message, count, shortest input):")
	for _, k := range pk {
		fmt.Printf("  %q ×%d  e.g. %s\n", k, st.panicCount[k], st.panics[k])
	}
	probe := c.Worker.One("varsprobe " + impl.HexW([]byte(sdl)))
	fmt.Println("Go-only probes with values outside the model's domain (pointers, non-string keys, named types, …):")
	for _, l := range strings.Split(probe, "\t") {
		fmt.Println("  ", l)
	}
	printCounts("direct specification checks on the values Go returned (counts of triples):", st.specViol)
	ek := make([]string, 0, len(st.specEx))
	for k := range st.specEx {
		ek = append(ek, k)
	}
	sort.Strings(ek)
	for _, k := range ek {
		fmt.Printf("  example [%s]: %s\n", strings.TrimSpace(k), st.specEx[k])
	}
	c.Ev.Evals = st.cases
	c.Ev.Rule = "vartypes: 12 base types x list depth <= 3 x every non-null pattern; type-directed values with injected defects"
	if !report {
		return
	}
	for _, k := range pk {
		sig := "vars-panic:other"
		switch {
		case strings.Contains(k, "reflect.Value.Type on zero Value"):
			sig = "vars-panic:null-item-meets-list-type(R14a)"
		case strings.Contains(k, "SetMapIndex"):
			sig = "vars-panic:typed-map-setmapindex-not-assignable"
		}
		c.Report("spec", sig, fmt.Sprintf("VariableValues panics (%s), %d cases, e.g. %s", k, st.panicCount[k], st.panics[k]),
			map[string]any{"op": "vars", "schema": sdl, "example": st.panics[k], "panic": k})
	}
	for _, k := range ek {
		name := strings.TrimSpace(k)
		if i := strings.Index(name, "leniency "); i >= 0 {
			name = name[i+9:]
		}
		c.Report("spec", "vars-conforms:"+name, fmt.Sprintf("a returned value does not conform to its declared type (%s): %s", strings.TrimSpace(k), st.specEx[k]),
			map[string]any{"op": "vars", "schema": sdl, "example": st.specEx[k]})
	}
}

func init() {
	Checks["X-vars"] = func(c *Ctx) { runVarsCheck(c, true, true, false) }
	Checks["C14"] = func(c *Ctx) { runVarsCheck(c, true, false, true) }
	Checks["C15"] = func(c *Ctx) { runVarsCheck(c, false, true, true) }
}
