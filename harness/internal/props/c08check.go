package props

import (
	"fmt"
	"os"
	"path/filepath"
	"regexp"
	"sort"
	"strconv"
	"strings"

	"gopkg.in/yaml.v3"

	"verifharness/internal/gen"
	"verifharness/internal/impl"
)

// C08 / C09: the real validator judged against the Lean SPECIFICATION of the validation rules
// (lean/GqlModel/Validate/Spec, driver ops specvalid / linkscheck / specall).
//
// For every (schema, document) pair
//   (a) verdict: Go errors empty ⇔ specValid;
//   (b) rule by rule: Go rule R fired ⇔ the spec predicates R stands for are false (c08Rules);
//   (c) C09: for every pair that validates, the links the walker wrote are the ones the
//       declarative typing demands (linkscheck on the Go link dump);
//   (d) on a sample, the model correspondence (CorrValidate) so that a model/validator
//       disagreement is reported by the same check.
// Disagreements are filed under
//   validator-accepts-spec-rejects:<specPredicate>:<class>
//   validator-rejects-spec-accepts:<goRule>:<class>
//   link-missing:<node kind>:<link> / link-wrong:<node kind>:<link>
// and the smallest failing input per signature is kept and shrunk.

type c08Rule struct {
	rule  string   // Go rule name
	preds []string // the spec predicates it implements (fired ⇔ one of them is false)
	mask  []string // verdicts that must be 1 for the rule-level comparison to be meaningful
}

// Masks (each one is a dependency between rules that the specification leaves open, never a
// difference of verdict: whenever a mask is 0 the document is invalid for both sides):
//   - OverlappingFieldsCanBeMerged is compared where §5.3.2 is judged (aux.mergingJudged: all spreads
//     defined, no fragment cycles, type conditions composite, fields defined);
//   - UniqueOperationNames treats the empty name of anonymous operations as a name; two anonymous
//     operations violate loneAnonymousOperation, not operationNameUniqueness;
//   - VariablesAreInputTypes leaves unknown types to KnownTypeNames;
//   - NoUnusedFragments / fragmentsMustBeUsed ("target of at least one spread") differ only on
//     fragments that are spread from unreachable or cyclic fragments;
//   - UniqueDirectivesPerLocation counts undefined directives, the spec does not know whether they
//     are repeatable;
//   - the walker gives `__typename` a definition on every parent (also a scalar) and finds the input
//     fields of an input object used as a selection parent; the rules that read Field.Definition are
//     compared where every selection parent is a composite type and no `__typename` is selected
//     where the parent type is not determined (aux.selectionParentsComposite; it fails only together
//     with fragmentsOnCompositeTypes, leafFieldSelections, fieldSelections, knownRootType or
//     fragmentSpreadTypeExistence);
//   - NoUnusedVariables marks the first of two variable definitions of one name as used;
//   - ValuesOfCorrectType also judges the default value of a variable whose type is not an input type;
//   - SingleFieldSubscriptions counts the root fields it can reach: "exactly one" is compared where
//     every spread resolves, terminates and can apply.
var c08Rules = []c08Rule{
	{"FieldsOnCorrectType", []string{"fieldSelections"}, []string{"aux.selectionParentsComposite"}},
	{"FragmentsOnCompositeTypes", []string{"fragmentsOnCompositeTypes"}, nil},
	{"KnownArgumentNames", []string{"argumentNames"}, []string{"aux.selectionParentsComposite"}},
	{"KnownDirectives", []string{"directivesAreDefined", "directivesInValidLocations"}, nil},
	{"KnownFragmentNames", []string{"fragmentSpreadTargetDefined"}, nil},
	{"KnownRootType", []string{"knownRootType"}, nil},
	{"KnownTypeNames", []string{"fragmentSpreadTypeExistence", "aux.variableTypesExist"}, nil},
	{"LoneAnonymousOperation", []string{"loneAnonymousOperation"}, nil},
	{"MaxIntrospectionDepth", []string{"maxIntrospectionDepth"}, nil},
	{"NoFragmentCycles", []string{"noFragmentCycles"}, nil},
	{"NoUndefinedVariables", []string{"allVariableUsesDefined"}, nil},
	{"NoUnusedFragments", []string{"fragmentsMustBeUsed"}, []string{"noFragmentCycles", "fragmentNameUniqueness"}},
	{"NoUnusedVariables", []string{"allVariablesUsed"}, []string{"variableUniqueness"}},
	{"OverlappingFieldsCanBeMerged", []string{"fieldSelectionMerging"}, []string{"aux.mergingJudged"}},
	{"PossibleFragmentSpreads", []string{"fragmentSpreadIsPossible"}, nil},
	{"ProvidedRequiredArguments", []string{"requiredArguments"}, []string{"aux.selectionParentsComposite"}},
	{"ScalarLeafs", []string{"leafFieldSelections"}, []string{"aux.selectionParentsComposite"}},
	{"SingleFieldSubscriptions", []string{"singleRootField"}, []string{"fragmentSpreadTargetDefined", "noFragmentCycles", "fragmentSpreadIsPossible", "fragmentSpreadTypeExistence", "fragmentsOnCompositeTypes"}},
	{"UniqueArgumentNames", []string{"argumentUniqueness"}, nil},
	{"UniqueDirectivesPerLocation", []string{"directivesUniquePerLocation"}, []string{"directivesAreDefined"}},
	{"UniqueFragmentNames", []string{"fragmentNameUniqueness"}, nil},
	{"UniqueInputFieldNames", []string{"inputObjectFieldUniqueness"}, nil},
	{"UniqueOperationNames", []string{"operationNameUniqueness"}, []string{"aux.anonymousAtMostOne"}},
	{"UniqueVariableNames", []string{"variableUniqueness"}, nil},
	{"ValuesOfCorrectType", []string{"valuesOfCorrectType"}, []string{"variablesAreInputTypes", "aux.selectionParentsComposite"}},
	{"VariablesAreInputTypes", []string{"variablesAreInputTypes"}, []string{"aux.variableTypesExist"}},
	{"VariablesInAllowedPosition", []string{"allVariableUsagesAllowed"}, []string{"aux.selectionParentsComposite"}},
}

type c08Result struct {
	skipped string // LOADERR | PARSEERR | TIMEOUT | CRASH | driver:<reply>
	goObs   string
	goOK    bool
	goRules map[string][]string // rule → messages
	links   string
	spec    map[string]bool // predicate / aux verdicts
	diag    map[string]bool
	specOK  bool
	linkRep string
	sigs    map[string]string // signature → description
	verdict map[string]bool   // signatures that come from a disagreement of the VERDICT (part (a))
}

func c08ClassesAccept(pred string, r *c08Result) []string {
	switch pred {
	case "valuesOfCorrectType":
		var out []string
		for k := range r.diag {
			if strings.HasPrefix(k, "diag.value.") {
				switch strings.TrimPrefix(k, "diag.value.") {
				case "object-for-leaf":
					out = append(out, "object-literal-for-scalar-or-enum")
				case "int-range":
					out = append(out, "int-literal-beyond-32-bit")
				default:
					out = append(out, "other")
				}
			}
		}
		if len(out) == 0 {
			out = []string{"other"}
		}
		sort.Strings(out)
		return uniqStrings(out)
	case "fieldSelectionMerging":
		if r.diag["diag.listNullabilityDiffers"] {
			return []string{"list-nullability-ignored-in-response-shape"}
		}
	case "singleRootField":
		if r.diag["diag.subscriptionCollectsNothing"] {
			return []string{"subscription-collects-no-root-field"}
		}
	case "allVariableUsesDefined", "allVariableUsagesAllowed":
		if r.diag["diag.varInFragmentDefinitionDirective"] {
			return []string{"variable-in-fragment-definition-directive"}
		}
	}
	return []string{"other"}
}

func c08ClassesReject(rule string, r *c08Result) []string {
	switch rule {
	case "ValuesOfCorrectType":
		// The spec accepts every typed literal of the document, so each report of the rule is
		// spurious; the document is named after the known causes it contains (Value.Value fails on
		// the literal, on a list/object around it, or on a variable whose default contains it).
		var out []string
		if r.diag["diag.bigIntForFloatOrID"] {
			out = append(out, "big-int-literal-for-float-or-id")
		}
		if r.diag["diag.hugeCustomUnderObject"] {
			out = append(out, "custom-scalar-literal-nested-in-input-object")
		}
		if len(out) == 0 {
			out = []string{"other"}
		}
		return out
	case "VariablesInAllowedPosition":
		if r.diag["diag.locationDefaultNeeded"] {
			return []string{"location-default-value-ignored"}
		}
	case "NoUnusedVariables":
		if r.diag["diag.varInFragmentDefinitionDirective"] {
			return []string{"variable-in-fragment-definition-directive"}
		}
	case "SingleFieldSubscriptions":
		if r.diag["diag.inapplicableRootFragment"] {
			return []string{"root-field-under-inapplicable-type-condition"}
		}
	}
	return []string{"other"}
}

func uniqStrings(xs []string) []string {
	var out []string
	for i, x := range xs {
		if i == 0 || x != xs[i-1] {
			out = append(out, x)
		}
	}
	return out
}

func specPredName(p string) string {
	if p == "aux.variableTypesExist" {
		return "variablesAreInputTypes"
	}
	return p
}

// judge derives the signatures of one pair from the Go observation and the spec reply.
func (r *c08Result) judge() {
	r.sigs = map[string]string{}
	r.verdict = map[string]bool{}
	if strings.HasPrefix(r.goObs, "PANIC,") {
		r.sigs["validator-panics"] = "the real validator panicked: " + readable(r.goObs)
		return
	}
	add := func(sig, what string) {
		if _, ok := r.sigs[sig]; !ok {
			r.sigs[sig] = what
		}
	}
	falsePreds := []string{}
	for p, v := range r.spec {
		if !v && !strings.HasPrefix(p, "aux.") {
			falsePreds = append(falsePreds, p)
		}
	}
	sort.Strings(falsePreds)
	fired := []string{}
	for g := range r.goRules {
		fired = append(fired, g)
	}
	sort.Strings(fired)
	// (a) the verdict
	if r.goOK && !r.specOK {
		for _, p := range falsePreds {
			for _, cl := range c08ClassesAccept(p, r) {
				add("validator-accepts-spec-rejects:"+p+":"+cl, "validation returns no error but the specification predicate "+p+" is false")
				r.verdict["validator-accepts-spec-rejects:"+p+":"+cl] = true
			}
		}
	}
	if !r.goOK && r.specOK {
		for _, g := range fired {
			for _, cl := range c08ClassesReject(g, r) {
				add("validator-rejects-spec-accepts:"+g+":"+cl, "every specification predicate holds but rule "+g+" reports: "+strings.Join(r.goRules[g], " | "))
				r.verdict["validator-rejects-spec-accepts:"+g+":"+cl] = true
			}
		}
	}
	// (b) rule by rule
	for _, cr := range c08Rules {
		masked := false
		for _, m := range cr.mask {
			if !r.spec[m] {
				masked = true
			}
		}
		if masked {
			continue
		}
		var bad []string
		for _, p := range cr.preds {
			if !r.spec[p] {
				bad = append(bad, p)
			}
		}
		_, didFire := r.goRules[cr.rule]
		if didFire && len(bad) == 0 {
			for _, cl := range c08ClassesReject(cr.rule, r) {
				add("validator-rejects-spec-accepts:"+cr.rule+":"+cl, "rule "+cr.rule+" reports ("+strings.Join(r.goRules[cr.rule], " | ")+") but its specification predicate(s) "+strings.Join(cr.preds, ", ")+" hold")
			}
		}
		if !didFire && len(bad) > 0 {
			for _, p := range bad {
				for _, cl := range c08ClassesAccept(specPredName(p), r) {
					add("validator-accepts-spec-rejects:"+specPredName(p)+":"+cl, "specification predicate "+p+" is false but rule "+cr.rule+" reports nothing")
				}
			}
		}
	}
	// (c) links
	if r.goOK && r.linkRep != "" && r.linkRep != "OK" && r.linkRep != "-" {
		for _, p := range strings.Split(r.linkRep, ";") {
			f := strings.Split(p, ",")
			if len(f) < 6 {
				add("link-check-reply", "unexpected linkscheck reply "+trunc(r.linkRep, 200))
				continue
			}
			kind := "link-wrong"
			if f[0] == "MISSING" {
				kind = "link-missing"
			}
			r.verdict[kind+":"+f[1]+":"+f[2]] = true
			add(kind+":"+f[1]+":"+f[2], fmt.Sprintf("node %s@%s: link %s should be %s, the validated document has %s", f[1], f[3], f[2], f[4], strings.Join(f[5:], ",")))
		}
	}
}

func parseGoObs(obs string) (ok bool, rules map[string][]string) {
	rules = map[string][]string{}
	if obs == "OK" {
		return true, rules
	}
	if strings.HasPrefix(obs, "PANIC,") {
		return false, rules
	}
	for _, e := range strings.Split(obs, ";") {
		f := strings.SplitN(e, ",", 3)
		if len(f) < 2 {
			continue
		}
		rb, _ := impl.UnhexW(f[0])
		mb, _ := impl.UnhexW(f[1])
		rules[string(rb)] = append(rules[string(rb)], string(mb))
	}
	return false, rules
}

// c08Judge runs the pairs through the real validator (worker pool, default rule set) and the
// spec ops of the driver.
func (c *Ctx) c08Judge(pairs [][2]string) []*c08Result {
	reqs := make([]string, len(pairs))
	for i, p := range pairs {
		reqs[i] = "vall default " + impl.HexW([]byte(p[0])) + " " + impl.HexW([]byte(p[1]))
	}
	goOut := c.Worker.Map(reqs)
	res := make([]*c08Result, len(pairs))
	var dreqs []string
	var idx []int
	for i, o := range goOut {
		r := &c08Result{}
		res[i] = r
		parts := strings.SplitN(o, " # ", 4)
		if strings.HasPrefix(o, "LINKS-CHANGED-BY-RULES ") {
			d, _ := impl.UnhexW(strings.TrimPrefix(o, "LINKS-CHANGED-BY-RULES "))
			c.Report("spec", "link-changed-by-a-rule", fmt.Sprintf("document %q: the links on the document after validation differ from the ones the walker wrote: %s", clip(pairs[i][1], 300), string(d)), map[string]any{"op": "c08", "schema": pairs[i][0], "document": pairs[i][1]})
		}
		if len(parts) != 4 {
			r.skipped = o
			if strings.HasPrefix(o, "CRASH") {
				r.skipped = "CRASH"
			}
			continue
		}
		r.goObs, r.links = parts[0], parts[1]
		r.goOK, r.goRules = parseGoObs(r.goObs)
		d := "specall " + parts[3]
		if r.goOK {
			d += " " + r.links
		}
		dreqs = append(dreqs, d)
		idx = append(idx, i)
	}
	out := c.Driver.Map(dreqs)
	for k, i := range idx {
		r := res[i]
		parts := strings.SplitN(out[k], " # ", 2)
		if len(parts) != 2 || !strings.Contains(parts[0], "=") {
			r.skipped = "driver:" + trunc(out[k], 60)
			continue
		}
		r.spec, r.diag = map[string]bool{}, map[string]bool{}
		r.specOK = true
		for _, w := range strings.Fields(parts[0]) {
			kv := strings.SplitN(w, "=", 2)
			if len(kv) != 2 {
				continue
			}
			if strings.HasPrefix(kv[0], "diag.") {
				r.diag[kv[0]] = kv[1] == "1"
				continue
			}
			r.spec[kv[0]] = kv[1] == "1"
			if kv[1] != "1" && !strings.HasPrefix(kv[0], "aux.") {
				r.specOK = false
			}
		}
		r.linkRep = parts[1]
		r.judge()
	}
	return res
}

type c08Found struct {
	schema, doc, what, origin string
	n                         int
	verdict                   bool // the kept case is a disagreement of the verdict, not only of one rule
}

type c08Run struct {
	c        *Ctx
	found    map[string]*c08Found
	predF    map[string]int
	ruleF    map[string]int
	origins  map[string]int
	skipped  map[string]int
	pairs    int
	goValid  int
	specOK   int
	linked   int
	panics   int
	maskedBy map[string]int
}

func newC08Run(c *Ctx) *c08Run {
	return &c08Run{c: c, found: map[string]*c08Found{}, predF: map[string]int{}, ruleF: map[string]int{}, origins: map[string]int{}, skipped: map[string]int{}, maskedBy: map[string]int{}}
}

func (run *c08Run) batch(pairs [][2]string, origin string) {
	res := run.c.c08Judge(pairs)
	for i, r := range res {
		run.origins[origin]++
		if r.skipped != "" {
			key := r.skipped
			if strings.HasPrefix(key, "driver:") {
				key = "driver-reply"
				run.c.Report("correspondence", "spec-op-reply", "driver reply "+r.skipped+" on "+pairs[i][1], map[string]any{"schema": pairs[i][0], "document": pairs[i][1]})
			}
			if key == "CRASH" {
				run.c.Report("runtime", "validate-go-crash", "real validator crashed the worker on: "+pairs[i][1], map[string]any{"schema": pairs[i][0], "document": pairs[i][1]})
			}
			run.skipped[key]++
			continue
		}
		run.pairs++
		run.c.Ev.Case(r.goObs, !r.goOK)
		if r.goOK {
			run.goValid++
			if r.linkRep != "-" {
				run.linked++
			}
		}
		if r.specOK {
			run.specOK++
		}
		for p, v := range r.spec {
			if !v {
				run.predF[p]++
			}
		}
		for g := range r.goRules {
			run.ruleF[g]++
		}
		for sig, what := range r.sigs {
			f := run.found[sig]
			size := len(pairs[i][1])*4 + len(pairs[i][0])
			v := r.verdict[sig]
			if f == nil {
				run.found[sig] = &c08Found{schema: pairs[i][0], doc: pairs[i][1], what: what, origin: origin, n: 1, verdict: v}
			} else {
				f.n++
				// a disagreement of the verdict beats one of a single rule; then the smaller input
				if (v && !f.verdict) || (v == f.verdict && size < len(f.doc)*4+len(f.schema)) {
					f.schema, f.doc, f.what, f.origin, f.verdict = pairs[i][0], pairs[i][1], what, origin, v
				}
			}
		}
	}
}

// ---------- shrinking ----------

var c08Tok = regexp.MustCompile(`"""(?s:.*?)"""|"(?:\\.|[^"\\])*"|\.\.\.|[$@]?[_A-Za-z][_0-9A-Za-z]*|-?[0-9][0-9.eE+-]*|[^\s,]`)

func c08Tokens(s string) []string { return c08Tok.FindAllString(s, -1) }

func c08Join(toks []string) string { return strings.Join(toks, " ") }

// spans of tokens whose removal keeps brackets balanced: single tokens, bracket groups, a name
// with the groups that follow it, `name : value`, top-level definitions
func c08Spans(toks []string) [][2]int {
	match := make([]int, len(toks))
	var stack []int
	for i, t := range toks {
		match[i] = -1
		switch t {
		case "{", "(", "[":
			stack = append(stack, i)
		case "}", ")", "]":
			if len(stack) > 0 {
				o := stack[len(stack)-1]
				stack = stack[:len(stack)-1]
				match[o], match[i] = i, o
			}
		}
	}
	isOpen := func(t string) bool { return t == "{" || t == "(" || t == "[" }
	isClose := func(t string) bool { return t == "}" || t == ")" || t == "]" }
	endOfItem := func(i int) int { // one value / group starting at i → index after it
		if i >= len(toks) {
			return i
		}
		if isOpen(toks[i]) && match[i] > i {
			return match[i] + 1
		}
		return i + 1
	}
	seen := map[[2]int]bool{}
	var out [][2]int
	add := func(a, b int) {
		if a < b && b <= len(toks) && !seen[[2]int{a, b}] {
			// balanced?
			for k := a; k < b; k++ {
				if (isOpen(toks[k]) || isClose(toks[k])) && (match[k] < a || match[k] >= b) {
					return
				}
			}
			seen[[2]int{a, b}] = true
			out = append(out, [2]int{a, b})
		}
	}
	depth := 0
	defStart := 0
	for i, t := range toks {
		if isOpen(t) {
			if match[i] > i {
				add(i, match[i]+1)
			}
			if t == "{" && depth == 0 && match[i] > i {
				add(defStart, match[i]+1) // a whole definition
				defStart = match[i] + 1
			}
			depth++
			continue
		}
		if isClose(t) {
			depth--
			continue
		}
		add(i, i+1)
		add(i, i+2)
		add(i, i+3)
		// name (args)? directives? {sel}?
		j := i + 1
		for j < len(toks) && (isOpen(toks[j]) || strings.HasPrefix(toks[j], "@")) {
			if isOpen(toks[j]) {
				j = endOfItem(j)
			} else {
				j++
			}
			add(i, j)
		}
		// name : value
		if i+2 < len(toks) && toks[i+1] == ":" {
			add(i, endOfItem(i+2))
			add(i, i+2) // alias
		}
		// = default
		if t == "=" {
			add(i, endOfItem(i+1))
		}
		// ... on T {…}
		if t == "..." && i+1 < len(toks) {
			if toks[i+1] == "on" && i+3 < len(toks) {
				add(i, endOfItem(i+3))
				add(i+1, i+3)
			} else {
				add(i, i+2)
			}
		}
	}
	return out
}

func (run *c08Run) hasSig(res *c08Result, sig string, verdict bool) bool {
	if res == nil || res.skipped != "" {
		return false
	}
	_, ok := res.sigs[sig]
	return ok && (!verdict || res.verdict[sig])
}

// shrink minimises the document (token spans) and then the schema (definitions, lines).
func (run *c08Run) shrink(sig string, f *c08Found) {
	budget := 120
	toks := c08Tokens(f.doc)
	if chk := run.c.c08Judge([][2]string{{f.schema, c08Join(toks)}}); !run.hasSig(chk[0], sig, f.verdict) {
		toks = nil // the re-tokenised text does not reproduce (should not happen): keep the original
	}
	for toks != nil && budget > 0 {
		budget--
		spans := c08Spans(toks)
		sort.Slice(spans, func(i, j int) bool { return spans[i][1]-spans[i][0] > spans[j][1]-spans[j][0] })
		if len(spans) > 400 {
			spans = spans[:400]
		}
		cands := make([][2]string, len(spans))
		for i, sp := range spans {
			t := append(append([]string{}, toks[:sp[0]]...), toks[sp[1]:]...)
			cands[i] = [2]string{f.schema, c08Join(t)}
		}
		res := run.c.c08Judge(cands)
		hit := -1
		for i := range res {
			if run.hasSig(res[i], sig, f.verdict) {
				hit = i
				break
			}
		}
		if hit < 0 {
			break
		}
		toks = append(append([]string{}, toks[:spans[hit][0]]...), toks[spans[hit][1]:]...)
		f.doc = c08Join(toks)
		f.what = res[hit].sigs[sig]
	}
	// schema: drop whole definitions, then single lines
	for pass := 0; pass < 2; pass++ {
		for round := 0; round < 30; round++ {
			var units []string
			if pass == 0 {
				units = splitDefinitions(f.schema)
			} else {
				units = strings.Split(f.schema, "\n")
			}
			if len(units) < 2 {
				break
			}
			sep := "\n"
			cands := make([][2]string, len(units))
			for i := range units {
				rest := append(append([]string{}, units[:i]...), units[i+1:]...)
				cands[i] = [2]string{strings.Join(rest, sep), f.doc}
			}
			res := run.c.c08Judge(cands)
			// drop as many units as possible in one go: greedily retry the accumulated removal
			var ok []int
			for i := range res {
				if run.hasSig(res[i], sig, f.verdict) {
					ok = append(ok, i)
				}
			}
			if len(ok) == 0 {
				break
			}
			drop := map[int]bool{}
			cur := f.schema
			for _, i := range ok {
				drop[i] = true
				var rest []string
				for k, u := range units {
					if !drop[k] {
						rest = append(rest, u)
					}
				}
				try := strings.Join(rest, sep)
				if r := run.c.c08Judge([][2]string{{try, f.doc}}); run.hasSig(r[0], sig, f.verdict) {
					cur = try
					f.what = r[0].sigs[sig]
				} else {
					delete(drop, i)
				}
				if len(drop) >= 12 {
					break
				}
			}
			if cur == f.schema {
				break
			}
			f.schema = cur
		}
	}
	run.shrinkSchemaTokens(sig, f)
}

// shrinkSchemaTokens removes bracket-balanced token spans from the SDL (fields, arguments,
// directive applications, descriptions) as long as the signature stays.
func (run *c08Run) shrinkSchemaTokens(sig string, f *c08Found) {
	toks := c08Tokens(f.schema)
	if chk := run.c.c08Judge([][2]string{{c08Join(toks), f.doc}}); !run.hasSig(chk[0], sig, f.verdict) {
		return
	}
	for budget := 60; budget > 0; budget-- {
		spans := c08Spans(toks)
		sort.Slice(spans, func(i, j int) bool { return spans[i][1]-spans[i][0] > spans[j][1]-spans[j][0] })
		if len(spans) > 600 {
			spans = spans[:600]
		}
		cands := make([][2]string, len(spans))
		for i, sp := range spans {
			t := append(append([]string{}, toks[:sp[0]]...), toks[sp[1]:]...)
			cands[i] = [2]string{c08Join(t), f.doc}
		}
		res := run.c.c08Judge(cands)
		hit := -1
		for i := range res {
			if run.hasSig(res[i], sig, f.verdict) {
				hit = i
				break
			}
		}
		if hit < 0 {
			break
		}
		toks = append(append([]string{}, toks[:spans[hit][0]]...), toks[spans[hit][1]:]...)
		f.schema = c08Join(toks)
		f.what = res[hit].sigs[sig]
	}
}

// splitDefinitions cuts an SDL text at top-level definition boundaries (a line that starts a
// definition at brace depth 0).
func splitDefinitions(sdl string) []string {
	var out []string
	var cur []string
	depth := 0
	inBlock := false
	for _, line := range strings.Split(sdl, "\n") {
		trim := strings.TrimSpace(line)
		starts := false
		if depth == 0 && !inBlock {
			for _, kw := range []string{"type ", "interface ", "union ", "enum ", "input ", "scalar ", "directive ", "schema ", "schema{", "extend ", `"`} {
				if strings.HasPrefix(trim, kw) {
					starts = true
				}
			}
		}
		if starts && len(cur) > 0 && !strings.HasPrefix(strings.TrimSpace(cur[len(cur)-1]), `"`) {
			out = append(out, strings.Join(cur, "\n"))
			cur = nil
		}
		cur = append(cur, line)
		if strings.Count(line, `"""`)%2 == 1 {
			inBlock = !inBlock
		}
		if !inBlock {
			depth += strings.Count(line, "{") - strings.Count(line, "}")
		}
	}
	if len(cur) > 0 {
		out = append(out, strings.Join(cur, "\n"))
	}
	return out
}

// ---------- the specification against graphql-js's own expectations ----------

type importedExpect struct {
	Name   string `yaml:"name"`
	Rule   string `yaml:"rule"`
	Schema string `yaml:"schema"`
	Query  string `yaml:"query"`
	Errors []struct {
		Message string `yaml:"message"`
	} `yaml:"errors"`
}

// graphql-js cases whose expectation depends on something this library does not have
var graphqlJSEnvironment = map[string]string{
	"references to standard scalars that are missing in schema":                         "graphql-js can build a schema without the standard scalars; the library's prelude always defines them",
	"Invalid input object value/reports error for custom scalar that returns undefined": "graphql-js calls the custom scalar's parseLiteral; in C08 custom scalars accept any literal",
}

// specVsGraphqlJS: every imported graphql-js test case names one rule and lists the errors that
// rule must give. The spec predicates that stand for the rule must be false exactly when errors
// are expected. This judges the SPEC (not the validator): a disagreement is a bug of the spec or
// one of the documented reading choices.
func (run *c08Run) specVsGraphqlJS() {
	c := run.c
	b, err := os.ReadFile(filepath.Join(RepoDir, "validator/imported/spec/schemas.yml"))
	if err != nil {
		c.ReportNoInput("spec", "imported-cases-missing", err.Error(), nil)
		return
	}
	var schemas []string
	yaml.Unmarshal(b, &schemas)
	files, _ := filepath.Glob(filepath.Join(RepoDir, "validator/imported/spec/*.spec.yml"))
	sort.Strings(files)
	byRule := map[string]c08Rule{}
	for _, cr := range c08Rules {
		byRule[cr.rule] = cr
	}
	var cases []importedExpect
	var pairs [][2]string
	for _, f := range files {
		fb, _ := os.ReadFile(f)
		var specs []importedExpect
		if yaml.Unmarshal(fb, &specs) != nil {
			continue
		}
		for _, sp := range specs {
			if _, ok := byRule[sp.Rule]; !ok {
				continue
			}
			if idx, err := strconv.Atoi(sp.Schema); err == nil {
				if idx < 0 || idx >= len(schemas) {
					continue
				}
				sp.Schema = schemas[idx]
			}
			cases = append(cases, sp)
			pairs = append(pairs, [2]string{sp.Schema, sp.Query})
		}
	}
	res := c.c08Judge(pairs)
	compared, agree, maskedN := 0, 0, 0
	envDiff := map[string]string{}
	perRule := map[string]int{}
	for i, r := range res {
		if r.skipped != "" {
			continue
		}
		cr := byRule[cases[i].Rule]
		bad := false
		for _, p := range cr.preds {
			if !r.spec[p] {
				bad = true
			}
		}
		masked := false
		for _, m := range cr.mask {
			if !r.spec[m] {
				masked = true
			}
		}
		if why, ok := graphqlJSEnvironment[cases[i].Name]; ok {
			envDiff[cases[i].Name] = why
			continue
		}
		if masked {
			maskedN++
			continue
		}
		compared++
		perRule[cr.rule]++
		if bad == (len(cases[i].Errors) > 0) {
			agree++
			continue
		}
		sig := "spec-vs-graphqljs:" + cr.rule
		if c.KF.Match(c.Prop, sig) == nil && (c.SigFilter == nil || c.SigFilter(sig)) {
			fmt.Printf("  spec vs graphql-js: %s / %q: graphql-js expects %d error(s), spec predicates %v false=%v\n", cr.rule, cases[i].Name, len(cases[i].Errors), cr.preds, bad)
		}
		c.Report("spec", sig, fmt.Sprintf("graphql-js case %q expects %d error(s) of rule %s, the spec predicates %v say %v\n    schema: %s\n    document: %s", cases[i].Name, len(cases[i].Errors), cr.rule, cr.preds, !bad, trunc(oneLine(cases[i].Schema), 400), oneLine(cases[i].Query)),
			map[string]any{"op": "c08", "schema": cases[i].Schema, "document": cases[i].Query, "sig": sig})
	}
	fmt.Printf("C08: spec predicates vs graphql-js expectations: %d cases compared over %d rules %v, %d agree; %d not compared (rule-level mask), %d set aside (different environment): %v\n", compared, len(perRule), perRule, agree, maskedN, len(envDiff), envDiff)
	c.Ev.Extra["spec_vs_graphqljs_cases"] = compared
	c.Ev.Extra["spec_vs_graphqljs_agree"] = agree
}

// c08Seeds: one hand-written pair per deviation class known from reading the code (DESIGN §7 R8b–R8e
// and the later findings), so that every class is reached whatever the generators draw; plus the
// repaired items R8a, R8f, R8g, R8h as regression inputs (both sides must agree on them).
const c08SeedSchema = `
schema { query: Q subscription: S }
directive @rep(x: Int) repeatable on FIELD
directive @fd(x: Int) on FRAGMENT_DEFINITION
scalar Any
enum E { A B }
input In { a: Any b: Int r: Int! = 5 }
interface Node { id: ID }
type Q { f(x: Int, e: E, fl: Float, id: ID, i: In, r: Int! = 5, l: [Int]): Int ab: AB n: Node }
type S implements Node { id: ID a: Int b: Int }
type Other implements Node { id: ID o: Int }
type A { k: Int o: O x: Int }
type B { k: String o: O x: Int }
type O { id: ID }
union AB = A | B
type LA { data: [Int]! m: [[Int]!] }
type LB { data: [Int] m: [[Int]] }
union LU = LA | LB
extend type Q { lu: LU }
input FIn { fl: Float fls: [Float] }
extend type Q { g(fl: Float, fls: [Float], fi: FIn): Int }
`

var c08SeedDocs = []string{
	`{ f(x: {}) }`, `{ f(e: {}) }`, // R8b
	`{ f(x: 1099511627776) }`, `{ f(x: 2147483648) }`, `{ f(x: -2147483649) }`, `{ f(x: 2147483647) g: f(x: -2147483648) }`, // R8c
	`{ f(fl: 99999999999999999999) }`, `{ f(id: 99999999999999999999) }`, `{ f(fl: 1e999) }`, // R8d (1e999 is not finite: invalid on both sides)
	`query($v: Int) { f(r: $v) }`, `query($v: Int) { f(i: {r: $v}) }`, `query($v: Int = 1) { f(r: $v) }`, // R8e
	`query($v: Int) { f ...F } fragment F on Q @fd(x: $v) { f }`, `query { f ...F } fragment F on Q @fd(x: $u) { f }`, `query($v: Int) { a: f(x: $v) ...F } fragment F on Q @fd(x: $v) { f }`, // N1
	`{ f(i: {a: 1e999}) }`, `{ f(i: {a: 99999999999999999999}) }`, `{ f(i: {a: [1e999]}) }`, // N2
	`subscription { a ... on Node { ... on Other { o } } }`, `subscription { a ...F } fragment F on Node { ... on Other { o } }`, // root field under a type condition that cannot apply
	`{ lu { ... on LA { data } ... on LB { data } } }`, `{ lu { ... on LA { m } ... on LB { m } } }`, // list nullability in SameResponseShape
	`{ f @rep(x: 1) @rep(x: 2) }`, `subscription { x: a y: a }`, `{ f(l: [1]) f(l: [2]) }`, `{ f(i: {b: 1}) f(i: {b: 2}) }`, `{ f(i: {b: 1, a: 2}) f(i: {a: 2, b: 1}) }`,
	`{ ab { ... on A { k: x } ... on B { k: o { id } } } }`, `{ ab { ... on A { k } ... on B { k } } }`, `{ n { ... on S { a } } }`,
}

// integer literals at and beyond the range of a double where a Float is expected (repaired finding "an
// integer literal beyond the range of a double is not a Float"): the largest integer that converts to a
// finite double (valid) and the literals that convert to ±Inf (invalid), as argument, list item, input
// field, item of an input field, and variable default.
func init() {
	lits := append([]string{gen.MaxFiniteDoubleInt, "-" + gen.MaxFiniteDoubleInt}, gen.BeyondDoubleInts...)
	// … and float literals at and beyond the range, with both signs and in several spellings
	lits = append(lits, "1.7976931348623157e308", "-1.7976931348623157e308", "1.7976931348623159e308", "-1.7976931348623159e308",
		"1e309", "-1e309", "-1.8e308", "-2.0E400", "1E+309", "-1E+309", "1e-400", "-1e-400", "0.0e999", "-0.0", "-0")
	for _, l := range lits {
		c08SeedDocs = append(c08SeedDocs,
			`{ g(fl: `+l+`) }`, `{ g(fls: [1, `+l+`]) }`, `{ g(fi: {fl: `+l+`}) }`, `{ g(fi: {fls: [`+l+`, 2.5]}) }`,
			`query($v: Float = `+l+`) { g(fl: $v) }`, `query($v: [Float] = [`+l+`]) { g(fls: $v) }`,
			`query($v: FIn = {fl: `+l+`}) { g(fi: $v) }`)
	}
}

// ---------- the sweep ----------

func (run *c08Run) sweep() {
	c := run.c
	r := c.R
	// (0) the spec itself against the expectations recorded with the imported graphql-js cases
	run.specVsGraphqlJS()
	// (1) imported graphql-js cases and the hand-written seeds
	seedPairs, _ := ValidateSeedPairs()
	run.batch(seedPairs, "imported+seeds")
	var hand [][2]string
	for _, d := range c08SeedDocs {
		hand = append(hand, [2]string{c08SeedSchema, d})
	}
	// the introspection depth limit with one fragment spread at several depths, in both orders, with
	// and without an intermediate fragment (a memo that forgets the depth it cleared a fragment at)
	for _, d := range []string{
		"{ __schema { types { ...T fields { type { fields { type { ...T } } } } } } } fragment T on __Type { fields { name } }",
		"{ __schema { types { fields { type { fields { type { ...T } } } } ...T } } } fragment T on __Type { fields { name } }",
		"{ __schema { types { ...T } } } fragment T on __Type { fields { type { ...U } } } fragment U on __Type { fields { type { fields { name } } } }",
		"{ __schema { types { ...U fields { type { ...T } } } } } fragment T on __Type { ...U fields { type { ...U } } } fragment U on __Type { fields { name } }",
		"{ __type(name: \"Query\") { ...T fields { type { ...T interfaces { ...T } } } } } fragment T on __Type { fields { type { name } } }",
		"{ __schema { types { ...T ...T fields { ...F } } } } fragment T on __Type { inputFields { name } } fragment F on __Field { type { ...T possibleTypes { ...T } } }",
	} {
		hand = append(hand, [2]string{c08SeedSchema, d})
	}
	// a subscription whose every selection sits under a type condition that cannot apply to the subscription
	// type collects NO root field (recorded finding: the rule only reports more than one)
	subSchema := "schema { query: Q subscription: S } interface I { a: Int } type S implements I { a: Int } type O implements I { a: Int } type Q { a: Int }"
	for _, d := range []string{"subscription { ... on I { ... on O { a } } }", "subscription Sub { ...F } fragment F on I { ... on O { a } }", "subscription { ... on I { ... on O { a } ... on S { a } } }"} {
		hand = append(hand, [2]string{subSchema, d})
	}
	run.batch(hand, "hand-written")
	for k := 1; k <= 3; k++ {
		var adv [][2]string
		for _, a := range gen.Adversarial(k) {
			adv = append(adv, [2]string{a.SchemaSDL, a.Doc})
		}
		run.batch(adv, "adversarial")
	}

	// (2) generated schemas × generated documents
	nSchemas := c.Pick(320, 3000)
	perSchema := c.Pick(66, 70)
	if v := os.Getenv("VERIF_C08_SCHEMAS"); v != "" {
		nSchemas, _ = strconv.Atoi(v)
	}
	if v := os.Getenv("VERIF_C08_PER_SCHEMA"); v != "" {
		perSchema, _ = strconv.Atoi(v)
	}
	var schemas []*gen.Schema
	var reqs []string
	for i := 0; i < nSchemas+nSchemas/8; i++ {
		s := gen.GenSchema(r.Fork(uint64(i)+8_000_000), r.Intn(13))
		schemas = append(schemas, s)
		reqs = append(reqs, "genload "+impl.HexW([]byte(s.SDL())))
	}
	out := c.Worker.Map(reqs)
	var good []*gen.Schema
	for i, o := range out {
		if o == "OK" && len(good) < nSchemas {
			good = append(good, schemas[i])
		}
	}
	fmt.Printf("C08: schemas generated %d, loadable %d (used %d)\n", len(schemas), len(good), len(good))
	var sample [][2]string
	var batch [][2]string
	var origins []string
	flush := func() {
		if len(batch) == 0 {
			return
		}
		// one Judge call per origin keeps the statistics by origin
		byOrigin := map[string][][2]string{}
		for i, p := range batch {
			byOrigin[origins[i]] = append(byOrigin[origins[i]], p)
		}
		names := make([]string, 0, len(byOrigin))
		for o := range byOrigin {
			names = append(names, o)
		}
		sort.Strings(names)
		for _, o := range names {
			run.batch(byOrigin[o], o)
		}
		batch, origins = nil, nil
	}
	for si, s := range good {
		sdl := s.SDL()
		rr := r.Fork(uint64(si) + 9_000_000)
		for k := 0; k < perSchema; k++ {
			size := 1 + rr.Intn(9)
			var doc, origin string
			switch {
			case k%11 < 5:
				doc, origin = gen.GenDoc(rr, s, size).Text, "valid-by-construction"
			case k%11 < 9:
				fs := gen.InjectDocFaults(rr, s, size, 1+rr.Intn(3))
				doc, origin = fs[0].Doc, "injected-faults"
			default:
				doc, origin = gen.GenBlindDocument(rr, s, size), "type-blind"
			}
			if len(doc) > 6000 {
				continue
			}
			batch = append(batch, [2]string{sdl, doc})
			origins = append(origins, origin)
			if k == 0 {
				// every schema also carries the integer-beyond-double fault at one Float position, if it has one
				if f, ok := gen.InjectDocFaultVariant(rr.Fork(77), s, size, "ValuesOfCorrectType/int-literal-beyond-double-for-Float"); ok && len(f.Doc) <= 6000 {
					batch = append(batch, [2]string{sdl, f.Doc})
					origins = append(origins, "injected-faults")
				}
			}
			if rr.Chance(1, 12) {
				sample = append(sample, [2]string{sdl, doc})
			}
		}
		if len(batch) >= 4000 {
			flush()
		}
	}
	flush()

	// (c2) history independence: the same (schema, document) requests, several documents per schema
	// object, forwards and backwards in fresh processes — errors AND links must not depend on what
	// was validated against the same schema before
	{
		var hreqs []string
		hs := "type Query { page(size: Int!, tags: [ID!]!): Int f(in: In): Int }\ninput In { lo: Int! hi: Int = 3 }"
		for _, d := range []string{
			"query($n: Int = 1) { page(size: $n, tags: []) }", "{ page(size: null, tags: []) }", "{ page(tags: []) }",
			"query($t: ID = \"a\") { page(size: 1, tags: [$t]) }", "{ page(size: 1, tags: [null]) }",
			"query($l: Int = 2) { f(in: {lo: $l}) }", "{ f(in: {lo: null}) }", "{ f(in: {}) }",
		} {
			hreqs = append(hreqs, "vshared default "+impl.HexW([]byte(hs))+" "+impl.HexW([]byte(d)))
		}
		for i, p := range sample {
			if i%3 == 0 && len(hreqs) < run.c.Pick(600, 6000) {
				hreqs = append(hreqs, "vshared default "+impl.HexW([]byte(p[0]))+" "+impl.HexW([]byte(p[1])))
			}
		}
		c.HistoryProbe("validate+links", hreqs, 30)
	}

	// (d) the model in the loop: validator vs Lean rule models on a sample (every modelled rule)
	c.CorrValidate(sample, NonOverlapRules)
	fmt.Printf("C08: model correspondence (CorrValidate) on a sample of %d pairs\n", len(sample))
}

func (run *c08Run) finish() {
	c := run.c
	sigs := make([]string, 0, len(run.found))
	for s := range run.found {
		sigs = append(sigs, s)
	}
	sort.Strings(sigs)
	for _, sig := range sigs {
		f := run.found[sig]
		if c.SigFilter != nil && !c.SigFilter(sig) {
			continue
		}
		if c.KF.Match(c.Prop, sig) == nil && os.Getenv("VERIF_C08_NOSHRINK") == "" {
			run.shrink(sig, f)
		}
		kind := "spec"
		level := "the verdicts differ"
		if !f.verdict && !isLinkSig(sig) && (strings.HasPrefix(sig, "validator-accepts-spec-rejects:") || strings.HasPrefix(sig, "validator-rejects-spec-accepts:")) {
			// Both sides REJECT the document (another rule reports); only this rule and its own
			// predicate disagree. C08 is about the verdict — no errors iff every rule is satisfied —
			// so this is not an input on which the property fails: counted and shown, not reported.
			c.Ev.Count("rule-level-difference-on-rejected-documents:"+sig, f.n)
			fmt.Printf("  (rule-level difference on documents both sides reject, %d cases: %s\n     schema: %s\n     document: %s)\n", f.n, sig, oneLine(f.schema), oneLine(f.doc))
			continue
		}
		if !f.verdict {
			level = "both sides reject the document, the rule and its predicate differ"
		}
		c.Report(kind, sig, fmt.Sprintf("%s [%s] (%d cases, first from %s)\n    schema: %s\n    document: %s", f.what, level, f.n, f.origin, oneLine(f.schema), oneLine(f.doc)),
			map[string]any{"op": "c08", "schema": f.schema, "document": f.doc, "sig": sig})
		for i := 1; i < f.n; i++ { // count the remaining cases for KNOWN-FINDING lines
			if c.KF.Match(c.Prop, sig) == nil {
				break
			}
			c.Report(kind, sig, "", nil)
		}
	}
	fmt.Printf("C08/C09 sweep: pairs=%d go-valid=%d (%.1f%%) spec-valid=%d links-checked=%d skipped=%v by-origin=%v\n",
		run.pairs, run.goValid, 100*float64(run.goValid)/float64(max(run.pairs, 1)), run.specOK, run.linked, run.skipped, run.origins)
	preds := make([]string, 0, len(run.predF))
	for p := range run.predF {
		preds = append(preds, p)
	}
	sort.Strings(preds)
	for _, p := range preds {
		fmt.Printf("  spec predicate false  %-34s %d\n", p, run.predF[p])
	}
	rules := make([]string, 0, len(run.ruleF))
	for g := range run.ruleF {
		rules = append(rules, g)
	}
	sort.Strings(rules)
	for _, g := range rules {
		fmt.Printf("  go rule fired         %-34s %d\n", g, run.ruleF[g])
	}
	// self-test of the sweep: every spec predicate and every Go rule must have been exercised
	for _, cr := range c08Rules {
		if run.ruleF[cr.rule] == 0 {
			c.ReportNoInput("spec", "rule-never-fired:"+cr.rule, "the sweep never made rule "+cr.rule+" report", nil)
		}
		for _, p := range cr.preds {
			if run.predF[p] == 0 {
				c.ReportNoInput("spec", "predicate-never-false:"+p, "the sweep never made spec predicate "+p+" false", nil)
			}
		}
	}
	c.Ev.Evals = run.pairs
	c.Ev.Extra["pairs"] = run.pairs
	c.Ev.Extra["go_valid"] = run.goValid
	c.Ev.Extra["spec_valid"] = run.specOK
	c.Ev.Extra["fraction_valid"] = float64(run.goValid) / float64(max(run.pairs, 1))
	c.Ev.Extra["links_checked_pairs"] = run.linked
	c.Ev.Extra["spec_predicate_false"] = run.predF
	c.Ev.Extra["go_rule_fired"] = run.ruleF
	c.Ev.Extra["pairs_by_origin"] = run.origins
	c.Ev.Extra["skipped"] = run.skipped
	found := map[string]int{}
	for s, f := range run.found {
		found[s] = f.n
	}
	c.Ev.Extra["disagreement_cases_by_signature"] = found
}

func oneLine(s string) string {
	return strings.Join(strings.Fields(s), " ")
}

func isLinkSig(sig string) bool {
	return strings.HasPrefix(sig, "link-") || sig == "validate-links-differ"
}

func init() {
	Checks["C08"] = func(c *Ctx) {
		c.SigFilter = func(sig string) bool { return !isLinkSig(sig) }
		run := newC08Run(c)
		run.sweep()
		// field-merging needs its own inputs: the mutation stage of the OverlappingFieldsCanBeMerged
		// correspondence (duplicated fields, aliases, arguments, rewired spreads, cyclic fragments) at
		// one eighth of its size — model = real rule on every mutant, and every mutant judged against
		// the specification predicates as well
		overlapScaleDiv, overlapOnBatch = 8, func(b [][2]string) { run.batch(b, "overlap-mutants") }
		Checks["X-overlap"](c)
		overlapScaleDiv, overlapOnBatch = 1, nil
		run.finish()
	}
	Checks["C09"] = func(c *Ctx) {
		c.SigFilter = func(sig string) bool {
			return isLinkSig(sig) || sig == "link-changed-by-a-rule" || strings.HasPrefix(sig, "depends-on-history") || sig == "validate-go-crash" || sig == "spec-op-reply" || strings.HasPrefix(sig, "rule-never") || strings.HasPrefix(sig, "predicate-never")
		}
		run := newC08Run(c)
		run.sweep()
		run.finish()
	}
	replay := func(c *Ctx, rep map[string]any) {
		schema, _ := rep["schema"].(string)
		doc, _ := rep["document"].(string)
		res := c.c08Judge([][2]string{{schema, doc}})
		if res[0].skipped != "" {
			fmt.Println("replay: pair skipped:", res[0].skipped)
			return
		}
		fmt.Printf("replay: go=%s spec-valid=%v links=%s\n", readable(res[0].goObs), res[0].specOK, res[0].linkRep)
		for sig, what := range res[0].sigs {
			c.Report("spec", sig, what, nil)
		}
	}
	Replayers["C08"] = replay
	Replayers["C09"] = replay
}
