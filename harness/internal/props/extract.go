package props

// RunExtract regenerates lean/GqlModel/Gen from /repo (DESIGN §3.4). Returns "" on success.
func (c *Ctx) RunExtract() string {
	return runExtractor()
}
