package props

// C11 — a loaded schema is read-only and shareable across goroutines (PARTIAL: the data-race clause
// is measured with the race detector, not proved).
//
// Static part: the regenerated store table lean/GqlModel/Gen/Stores.lean must equal a fresh
// extraction (generated-table-stale:Stores); its classification is the Lean lemma
// gen_stores_accounted (built by RunProofs with GqlProofs.Props.C11).
// Runtime part: builds harness/cmd/vrace with `go build -race -tags verif` (falls back to a plain
// build, recorded in the evidence, when the race build fails), checks that the detector is live
// (`vrace -selfrace` must report a race), then runs the histories.
//
// Signatures:
//   schema-mutated:<path>               the deep snapshot of the shared schema changed (path with indices / keys dropped)
//   data-race:<frame>|<frame>           the race detector reported a race (top library frames of the two accesses)
//   concurrent-result-differs:<op>      a call returned, concurrently, something it never returns alone
//   race-detector-unavailable           (no failing input) the -race build failed or the detector is not live
//   vrace-failed                        the runner itself failed

import (
	"bytes"
	"fmt"
	"os"
	"os/exec"
	"path/filepath"
	"regexp"
	"sort"
	"strconv"
	"strings"

	"verifharness/internal/extract"
)

var idxRe = regexp.MustCompile(`\[[^\]]*\]`)

type raceRun struct {
	histories, calls, maxg, diffs, mutated, nondet int
	kinds                                          map[string]int
	schemas                                        []string
	races                                          []string // signatures
	raceSample                                     map[string]string
	selftest                                       string
	out, errOut                                    string
}

// topFrames extracts, from one race report, the first frame inside the library of each of the two
// conflicting accesses.
func topFrames(report string) string {
	var frames []string
	blocks := strings.Split(report, "\n\n")
	for _, b := range blocks {
		lines := strings.Split(strings.TrimSpace(b), "\n")
		if len(lines) < 2 {
			continue
		}
		head := strings.TrimSpace(lines[0])
		if !(strings.Contains(head, " at 0x") && strings.Contains(head, " by ")) {
			continue
		}
		fn := ""
		for _, l := range lines[1:] {
			l = strings.TrimSpace(l)
			if strings.HasPrefix(l, "github.com/vektah/gqlparser/v2/") {
				fn = strings.TrimPrefix(l, "github.com/vektah/gqlparser/v2/")
				break
			}
		}
		if fn == "" && len(lines) > 1 {
			fn = strings.TrimSpace(lines[1])
		}
		if i := strings.Index(fn, "("); i > 0 {
			fn = fn[:i]
		}
		kind := "read"
		if strings.Contains(strings.ToLower(head), "write") {
			kind = "write"
		}
		frames = append(frames, kind+" "+fn)
		if len(frames) == 2 {
			break
		}
	}
	sort.Strings(frames)
	return strings.Join(frames, "|")
}

func runVrace(bin string, args ...string) (*raceRun, error) {
	cmd := exec.Command(bin, args...)
	var so, se bytes.Buffer
	cmd.Stdout, cmd.Stderr = &so, &se
	cmd.Env = append(os.Environ(), "GORACE=halt_on_error=0 history_size=2")
	err := cmd.Run()
	rr := &raceRun{kinds: map[string]int{}, raceSample: map[string]string{}, out: so.String(), errOut: se.String()}
	for _, l := range strings.Split(rr.out, "\n") {
		f := strings.Fields(l)
		if len(f) == 0 {
			continue
		}
		switch f[0] {
		case "SCHEMA":
			rr.schemas = append(rr.schemas, strings.Join(f[1:], " "))
		case "SELFTEST":
			rr.selftest = strings.Join(f[1:], " ")
		case "DONE":
			for _, kv := range f[1:] {
				p := strings.SplitN(kv, "=", 2)
				n, _ := strconv.Atoi(p[1])
				switch p[0] {
				case "histories":
					rr.histories = n
				case "calls":
					rr.calls = n
				case "maxg":
					rr.maxg = n
				case "diffs":
					rr.diffs = n
				case "mutated":
					rr.mutated = n
				case "nondet":
					rr.nondet = n
				default:
					rr.kinds[p[0]] = n
				}
			}
		}
	}
	for _, rep := range strings.Split(rr.errOut, "==================") {
		if strings.Contains(rep, "WARNING: DATA RACE") {
			sig := topFrames(rep)
			rr.races = append(rr.races, sig)
			if _, ok := rr.raceSample[sig]; !ok {
				rr.raceSample[sig] = clip(strings.TrimSpace(rep), 1500)
			}
		}
	}
	// the race detector makes the process exit 66 when races were reported: not a runner failure
	if err != nil && rr.histories == 0 && !strings.Contains(rr.out, "SELFRACE") {
		return rr, fmt.Errorf("%v: %s", err, clip(rr.errOut, 400))
	}
	return rr, nil
}

func (c *Ctx) judgeRace(rr *raceRun, args []string) {
	replay := map[string]any{"runner": "harness/bin/vrace", "args": args}
	for _, l := range strings.Split(rr.out, "\n") {
		f := strings.Fields(l)
		if len(f) == 0 {
			continue
		}
		switch f[0] {
		case "MUTATED":
			path := unhexS(f[1])
			sig := "schema-mutated:" + idxRe.ReplaceAllString(strings.TrimPrefix(path, "sequential: "), "[]")
			c.Report("runtime", sig, fmt.Sprintf("the shared schema changed at %s: %s → %s", path, unhexS(f[2]), unhexS(f[3])), replay)
		case "DIFF":
			c.Report("runtime", "concurrent-result-differs:"+f[1], fmt.Sprintf("operation %s #%s returned concurrently\n  %s\nbut alone\n  %s", f[1], f[2], clip(unhexS(f[4]), 600), clip(unhexS(f[3]), 600)), replay)
		}
	}
	for _, sig := range rr.races {
		c.Report("runtime", "data-race:"+sig, "the race detector reported:\n"+rr.raceSample[sig], replay)
	}
}

func checkC11(c *Ctx) {
	// static part: the regenerated table
	tmp, _ := os.MkdirTemp("", "stores")
	defer os.RemoveAll(tmp)
	if err := extract.RunExtractStores(RepoDir, tmp); err != nil {
		c.ReportNoInput("theorem", "extract-failed:Stores", err.Error(), map[string]any{"theorem": "extractor stores"})
	} else {
		fresh, _ := os.ReadFile(filepath.Join(tmp, "GqlModel/Gen/Stores.lean"))
		have, _ := os.ReadFile(filepath.Join(LeanDir, "GqlModel/Gen/Stores.lean"))
		if !bytes.Equal(fresh, have) {
			c.ReportNoInput("theorem", "generated-table-stale:Stores", "lean/GqlModel/Gen/Stores.lean differs from a fresh extraction of "+RepoDir+" (run vextract stores, rebuild GqlProofs.Props.C11: gen_stores_accounted decides whether every store is still classified)", map[string]any{"theorem": "gen_stores_accounted"})
		}
		c.Ev.Extra["store_sites"] = strings.Count(string(fresh), "⟨")
	}

	// runtime part
	hdir := filepath.Join(Root, "harness")
	bin := filepath.Join(hdir, "bin", "vrace")
	raceBuild := true
	if out, err := run(hdir, "go", "build", "-race", "-tags", "verif", "-o", bin, "./cmd/vrace"); err != nil {
		raceBuild = false
		c.Ev.Extra["race_build_error"] = tailStr(out, 600)
		if out2, err2 := run(hdir, "go", "build", "-tags", "verif", "-o", bin, "./cmd/vrace"); err2 != nil {
			c.ReportNoInput("runtime", "vrace-failed", "cannot build harness/cmd/vrace: "+tailStr(out2, 400), map[string]any{"theorem": "runtime part of C11"})
			return
		}
	}
	live := false
	if raceBuild {
		if rr, err := runVrace(bin, "-selfrace"); err == nil && len(rr.races) > 0 {
			live = true
		}
	}
	c.Ev.Extra["race_detector"] = map[string]any{"race_build": raceBuild, "detector_live_on_deliberate_race": live}
	if !live {
		c.ReportNoInput("runtime", "race-detector-unavailable", "the race-enabled build of vrace failed or does not report a deliberate race: the data-race clause of C11 was NOT examined in this run (snapshots and result comparison still were)", map[string]any{"theorem": "runtime part of C11"})
	}
	total := c.Pick(400, 5000)
	if v := os.Getenv("VERIF_C11_HISTORIES"); v != "" {
		total, _ = strconv.Atoi(v)
	}
	type cfg struct{ procs, hist int }
	cfgs := []cfg{{0, total}}
	if c.Thorough() {
		cfgs = []cfg{{0, total / 2}, {2, total / 6}, {4, total / 6}, {1, total - total/2 - 2*(total/6)}}
	}
	sum := raceRun{kinds: map[string]int{}}
	var runs []map[string]any
	for i, cf := range cfgs {
		args := []string{"-seed", strconv.FormatUint(c.Seed+uint64(i), 10), "-histories", strconv.Itoa(cf.hist), "-schemas", strconv.Itoa(c.Pick(4, 12)), "-procs", strconv.Itoa(cf.procs)}
		if i == 0 {
			args = append(args, "-selftest")
		}
		rr, err := runVrace(bin, args...)
		if err != nil {
			c.ReportNoInput("runtime", "vrace-failed", "vrace "+strings.Join(args, " ")+": "+err.Error(), map[string]any{"theorem": "runtime part of C11"})
			continue
		}
		if i == 0 && rr.selftest != "ok" {
			c.ReportNoInput("runtime", "vrace-failed", "the snapshot self-test failed: "+rr.selftest, map[string]any{"theorem": "runtime part of C11"})
		}
		c.judgeRace(rr, args)
		sum.histories += rr.histories
		sum.calls += rr.calls
		sum.diffs += rr.diffs
		sum.mutated += rr.mutated
		sum.nondet += rr.nondet
		if rr.maxg > sum.maxg {
			sum.maxg = rr.maxg
		}
		for k, v := range rr.kinds {
			sum.kinds[k] += v
		}
		runs = append(runs, map[string]any{"args": strings.Join(args, " "), "histories": rr.histories, "calls": rr.calls, "races": len(rr.races), "schemas": rr.schemas})
		for h := 0; h < rr.histories; h++ {
			c.Ev.Case(fmt.Sprintf("history %d/%d", i, h), true)
		}
	}
	c.Ev.Extra["c11_runtime"] = map[string]any{"histories": sum.histories, "concurrent_calls": sum.calls, "max_goroutines": sum.maxg,
		"calls_by_kind": sum.kinds, "results_differing": sum.diffs, "schema_mutations": sum.mutated,
		"results_nondeterministic_even_sequentially_C10": sum.nondet, "runs": runs}
	c.Ev.Rule = "a case is one history (2–32 goroutines, 1–3 calls each, one shared schema); every call's result is compared with its sequential result and the schema snapshot with the one before"
	c.Ev.Assume = append(c.Ev.Assume, "data-race freedom is established by schedule exploration with the Go race detector, not by proof")
	fmt.Printf("C11: race build=%v detector live=%v; histories=%d concurrent calls=%d (max %d goroutines) %v; results differing=%d, sequentially nondeterministic=%d, schema mutations=%d\n",
		raceBuild, live, sum.histories, sum.calls, sum.maxg, sum.kinds, sum.diffs, sum.nondet, sum.mutated)
}

func init() {
	Checks["C11"] = checkC11
	Replayers["C11"] = func(c *Ctx, rep map[string]any) {
		var args []string
		if a, ok := rep["args"].([]any); ok {
			for _, x := range a {
				args = append(args, fmt.Sprint(x))
			}
		}
		hdir := filepath.Join(Root, "harness")
		bin := filepath.Join(hdir, "bin", "vrace")
		if out, err := run(hdir, "go", "build", "-race", "-tags", "verif", "-o", bin, "./cmd/vrace"); err != nil {
			fmt.Println("race build failed:", tailStr(out, 300))
			return
		}
		rr, err := runVrace(bin, args...)
		if err != nil {
			fmt.Println("vrace:", err)
			return
		}
		c.judgeRace(rr, args)
	}
}
