package props

import (
	"fmt"
	"strings"

	"verifharness/internal/gen"
)

// C07: a loaded schema is closed and consistent; ill-formed type systems are rejected.
//
// Every case is (1) loaded by the REAL loader in a worker subprocess, (2) loaded by the Lean model
// (`load` on the merged document the real parser built) — the two observations must be identical
// (correspondence: the theorems about `Gql.Load.load` speak about the code), and (3) judged directly
// against the Lean specification: `Spec.clauses` (WellFormed) on the merged document vs the loader's
// accept/reject, and `Spec.loadedClauses` (Closed, RelationsExact, HasBuiltins, IntrospectionFields,
// rootTypesAreObjects) on every schema the real loader returned.
//
// Inputs: the repository's own schema corpus, the same split over 2–3 sources in random orders,
// generated valid-by-construction type systems (must load) in one source and permuted over 1–5
// sources, the same with one injected violation of every clause of gen.SchemaClauses (must be
// rejected), and token-level random mutations of the corpus.
func checkC07(c *Ctx) {
	c.Ev.Rule = "a case is one set of schema sources loaded by validator.LoadSchema, by the Lean model and judged by the Lean spec; " +
		"sources: repository corpus, its 2-3 way splits, generated valid type systems (plain and permuted over 1-5 sources), " +
		"single-fault type systems for every clause of gen.SchemaClauses, token-level mutations of the corpus. " +
		"Non-trivial: the sources parse (the loader itself decides); distinct by the loader's observation (loaded schema or error)."
	st := &LoadStats{Templates: map[string]int{}}
	c.loadHistoryCheck() // gqlparser.LoadSchema after other loads in the same process = a fresh validator.LoadSchema
	run := func(sets [][]string, expect []byte, labels []string) {
		cases := c.corrLoad(sets, st)
		for i := range cases {
			if expect != nil {
				cases[i].Expect = expect[i]
				cases[i].Label = labels[i]
			}
			nontrivial := cases[i].Doc != ""
			c.Ev.Case(cases[i].GoObs, nontrivial)
		}
		c.specLoad(cases)
	}
	corpus := loadCorpus()
	var sets [][]string
	for _, s := range corpus {
		sets = append(sets, []string{s})
	}
	run(sets, nil, nil)
	fmt.Printf("corpus: %d schema inputs\n", len(corpus))
	var toks [][]sdlTok
	for _, s := range corpus {
		t := sdlTokens(s)
		if len(t) > 0 && len(t) < 3000 {
			toks = append(toks, t)
		}
	}
	sets = nil
	for _, t := range toks {
		for k := 0; k < 6; k++ {
			sets = append(sets, splitSources(c.R, t, 2+k%2))
		}
	}
	run(sets, nil, nil)
	fmt.Printf("split: %d source sets\n", len(sets))

	// generated type systems: valid (plain, permuted+split) and one fault per clause, round robin
	nGen := c.Pick(2400, 24000)
	if v := envIntL("XLOAD_GEN"); v > 0 {
		nGen = v
	}
	perClause := map[string]int{}
	clauseNo := 0
	for done := 0; done < nGen; {
		n := min(600, nGen-done)
		var gsets [][]string
		var expect []byte
		var labels []string
		add := func(srcs []string, e byte, l string) {
			gsets = append(gsets, srcs)
			expect = append(expect, e)
			labels = append(labels, l)
		}
		for i := 0; i < n; i++ {
			r := c.R.Fork(uint64(done + i))
			s := gen.GenSchema(r, r.Intn(16))
			add([]string{s.SDL()}, 'v', "plain")
			add(s.Render(r, 1+r.Intn(5)), 'v', "permuted")
			for k := 0; k < 3; k++ {
				cl := gen.SchemaClauses[clauseNo%len(gen.SchemaClauses)]
				clauseNo++
				f := gen.InjectSchemaFaultClause(r, s, cl)
				perClause[cl]++
				add(f.Sources, 'f', f.Clause+"/"+f.Variant)
				if len(c.Ev.Samples) < 4 && k == 0 && i%97 == 0 {
					c.Ev.Sample(map[string]any{"kind": "single-fault", "clause": f.Clause, "variant": f.Variant, "sources": f.Sources})
				}
			}
		}
		run(gsets, expect, labels)
		done += n
	}
	for cl, n := range perClause {
		c.Ev.Count("fault:"+cl, n)
	}
	fmt.Printf("generated: %d valid type systems x (plain, permuted over 1-5 sources) + %d single-fault type systems (%d clauses, round robin)\n",
		nGen, 3*nGen, len(gen.SchemaClauses))

	// random mutations of the corpus
	total := c.Pick(20000, 200000)
	if v := envIntL("XLOAD_N"); v > 0 {
		total = v
	}
	batch := 5000
	for done := 0; done < total; done += batch {
		sets = sets[:0]
		for i := 0; i < batch; i++ {
			t := toks[c.R.Intn(len(toks))]
			if c.R.Chance(1, 8) {
				t = append(cloneToks(t), toks[c.R.Intn(len(toks))]...)
			}
			nm := 1 + c.R.Intn(3)
			if c.R.Chance(1, 10) {
				nm += c.R.Intn(6)
			}
			for m := 0; m < nm; m++ {
				t = mutateSDL(c.R, t)
			}
			if c.R.Chance(1, 4) {
				sets = append(sets, splitSources(c.R, t, 2+c.R.Intn(2)))
			} else {
				sets = append(sets, []string{renderToks(c.R, t)})
			}
		}
		run(sets, nil, nil)
	}
	st.Print()
	c.specLoadSummary()
	for t, n := range st.Templates {
		c.Ev.Count("error:"+t, n)
	}
	c.Ev.Count("loaded", st.Loaded)
	c.Ev.Count("rejected-by-loader", st.Rejected)
	c.Ev.Count("parse-errors", st.ParseErr)
	c.Ev.Count("panics", st.Panics)
	ls := c.lss()
	c.Ev.Count("spec-wf-judged", ls.wfChecked)
	c.Ev.Count("spec-loaded-schema-judged", ls.closedChecked)
	c.Ev.Count("generated-valid", ls.genValid)
	c.Ev.Count("generated-single-fault", ls.genFault)
	for _, s := range loadSeeds[:min(4, len(loadSeeds))] {
		c.Ev.Sample(map[string]any{"kind": "seed", "sources": []string{s}})
	}
	c.Ev.Extra["error_templates_never_reached"] = neverReached(st)
}

func neverReached(st *LoadStats) []string {
	out := []string{}
	for _, t := range loadTemplates {
		if st.Templates[t] == 0 {
			out = append(out, t)
		}
	}
	return out
}

var _ = strings.TrimSpace

func init() {
	Checks["C07"] = checkC07
	Checks["X-load"] = checkC07 // scratch alias: same run without the known-findings filter of C07
}

func strList(v any) []string {
	xs, _ := v.([]any)
	out := make([]string, 0, len(xs))
	for _, x := range xs {
		if s, ok := x.(string); ok {
			out = append(out, s)
		}
	}
	return out
}

func init() {
	// replay of a C07 case: the stored sources through correspondence + spec judgement
	Replayers["C07"] = func(c *Ctx, rep map[string]any) {
		srcs := strList(rep["sources"])
		if len(srcs) == 0 {
			fmt.Println("replay: no sources in the replay file")
			return
		}
		cases := c.corrLoad([][]string{srcs}, nil)
		c.specLoad(cases)
		c.specLoadSummary()
	}
	// replay of a C17 case: the two stored orderings compared
	Replayers["C17"] = func(c *Ctx, rep map[string]any) {
		a, b := strList(rep["sources_a"]), strList(rep["sources_b"])
		if len(a) == 0 {
			fmt.Println("replay: no sources in the replay file")
			return
		}
		it := orderItem{label: "replay", variants: [][]string{a}}
		if len(b) > 0 {
			it.variants = append(it.variants, b)
		}
		st := &orderStats{}
		c.orderCheck([]orderItem{it}, st, false)
		c.orderFlush(st)
		c.corrLoad(it.variants, nil)
	}
}
