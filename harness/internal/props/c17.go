package props

import (
	"encoding/hex"
	"fmt"
	"regexp"
	"sort"
	"strings"

	"verifharness/internal/gen"
	"verifharness/internal/rng"
)

// C17: schema loading is independent of definition order and of how sources are split; a load
// error names a file in which one of the definitions involved was written.
//
// An item is one set of top-level definitions/extensions; its variants are the same definitions in
// other orders and distributed over 1–5 sources (the extensions of one type keep their relative
// order). Every variant is loaded by the REAL loader (`loadcanon`: verdict + order-insensitive dump
// of the loaded schema); all variants of an item must agree on the verdict and, when they load, on
// the dump. One permuted variant per item is also loaded by the Lean model (correspondence).

// SigOrderRedeclaredBuiltin: order dependence caused by the recorded defect R7b (a builtin directive
// redeclared more than once: the LAST declaration wins) has this one signature.
const SigOrderRedeclaredBuiltin = "load-depends-on-order:S.uniqueDirectiveNames"

// chunkLoc: where a top-level definition was written in a variant
type chunkLoc struct {
	ident      string // "type:Name" | "directive:Name" | "schema"
	src        int    // source index as the loader reports it (prelude = 0, user sources 1…)
	line, last int    // first and last line (1-based) inside that source
}

type orderItem struct {
	label    string
	variants [][]string   // source sets
	locs     [][]chunkLoc // per variant; nil for items without chunk bookkeeping
	texts    [][]string   // per variant, the source texts (== variants; kept for column checks)
}

func chunkIdent(ch gen.Chunk) string {
	switch ch.Kind {
	case "schema", "schemaext":
		return "schema"
	case "directive":
		return "directive:" + ch.Name
	default:
		return "type:" + ch.Name
	}
}

// layout distributes an ordered chunk list over at most k sources and records where each chunk went.
func layout(r *rng.R, cs []gen.Chunk, k int) ([]string, []chunkLoc) {
	if k > len(cs) {
		k = len(cs)
	}
	cut := map[int]bool{}
	for k > 1 && len(cut) < k-1 {
		cut[1+r.Intn(len(cs)-1)] = true
	}
	var out []string
	var locs []chunkLoc
	var sb strings.Builder
	line := 1
	for i, ch := range cs {
		if cut[i] {
			out = append(out, sb.String())
			sb.Reset()
			line = 1
		}
		if sb.Len() > 0 {
			sb.WriteByte('\n')
			line++
		}
		t := ch.Text
		if !strings.HasSuffix(t, "\n") {
			t += "\n"
		}
		n := strings.Count(t, "\n")
		locs = append(locs, chunkLoc{ident: chunkIdent(ch), src: len(out) + 1, line: line, last: line + n - 1})
		sb.WriteString(t)
		line += n
	}
	out = append(out, sb.String())
	return out, locs
}

func genOrderItem(r *rng.R, s *gen.Schema, label string, nvar int) orderItem {
	it := orderItem{label: label}
	cs := s.Chunks()
	if len(cs) == 0 {
		return it
	}
	for v := 0; v < nvar; v++ {
		var srcs []string
		var locs []chunkLoc
		if v == 0 {
			srcs, locs = layout(r, cs, 1)
		} else {
			srcs, locs = layout(r, gen.PermuteChunks(r, cs), 1+r.Intn(5))
		}
		it.variants = append(it.variants, srcs)
		it.locs = append(it.locs, locs)
	}
	return it
}

type orderStats struct {
	items, loads, verdictDiffs, schemaDiffs, errs, errLocated, msgVaries, r7b int
	bests                                                                     map[string]*orderFinding
	msgVariesEx                                                               [2]string
}

type orderFinding struct {
	n      int
	a, b   []string
	oa, ob string
}

func showCanon(o string) string {
	if strings.HasPrefix(o, "C:") {
		b, _ := hex.DecodeString(o[2:])
		return string(b)
	}
	return describeObs(o)
}

// orderCheck loads every variant of every item with the real loader and compares.
func (c *Ctx) orderCheck(items []orderItem, st *orderStats, sample bool) {
	var reqs []string
	type ref struct{ item, v int }
	var refs []ref
	for i, it := range items {
		for v, set := range it.variants {
			reqs = append(reqs, "loadcanon "+hexAll(set))
			refs = append(refs, ref{i, v})
		}
	}
	res := c.Worker.Map(reqs)
	at := map[ref]string{}
	for k, rf := range refs {
		at[rf] = res[k]
		parseErr := strings.HasPrefix(res[k], "E,") && LoadTemplateOf(errMessage(res[k])) == ""
		c.Ev.Case(res[k], !parseErr)
	}
	st.items += len(items)
	st.loads += len(reqs)
	if st.bests == nil {
		st.bests = map[string]*orderFinding{}
	}
	bests := st.bests
	note := func(sig string, a, b []string, oa, ob string) {
		x := bests[sig]
		if x == nil {
			x = &orderFinding{a: a, b: b, oa: oa, ob: ob}
			bests[sig] = x
		}
		x.n++
		if totalLen(a)+totalLen(b) < totalLen(x.a)+totalLen(x.b) {
			x.a, x.b, x.oa, x.ob = a, b, oa, ob
		}
	}
	// order-dependent items are first collected, then attributed (R7b or not) with one `wf` call each
	type diff struct {
		item, v  int
		sig      string
		isSchema bool
	}
	var diffs []diff
	for i, it := range items {
		if len(it.variants) == 0 {
			continue
		}
		o0 := at[ref{i, 0}]
		c0 := loadClass(o0)
		if c0 == "err" && LoadTemplateOf(errMessage(o0)) == "" {
			c0 = "parse-err" // not a loader message: the text does not parse
		}
		for v := 1; v < len(it.variants); v++ {
			ov := at[ref{i, v}]
			cv := loadClass(ov)
			if cv == "err" && LoadTemplateOf(errMessage(ov)) == "" {
				cv = "parse-err"
			}
			if c0 == "parse-err" && cv == "parse-err" {
				continue // the text parses in no arrangement: the parser's business
			}
			if (c0 == "parse-err" || cv == "parse-err") && it.label == "sdl" {
				continue // token-level splits of mutated text may cut a definition in two
			}
			if c0 != cv {
				tmpl := LoadTemplateOf(errMessage(o0)) + LoadTemplateOf(errMessage(ov))
				diffs = append(diffs, diff{i, v, "load-verdict-depends-on-order:" + c0 + "/" + cv + ":" + tmpl, false})
			} else if c0 == "ok" && o0 != ov {
				da, _ := firstDiffLine(showCanon(o0), showCanon(ov))
				w := strings.FieldsFunc(da, func(r rune) bool { return r == ' ' || r == '=' || r == '(' })
				k := "?"
				if len(w) > 0 {
					k = w[0]
				}
				diffs = append(diffs, diff{i, v, "loaded-schema-depends-on-order:" + k, true})
			} else if c0 == "err" && errMessage(o0) != errMessage(ov) {
				st.msgVaries++
				if st.msgVariesEx[0] == "" || len(o0)+len(ov) < len(st.msgVariesEx[0])+len(st.msgVariesEx[1]) {
					st.msgVariesEx = [2]string{o0, ov}
				}
			}
		}
		// the error-file clause
		if it.locs != nil {
			ident := map[string]string{} // message -> identity of the definition the error was placed in
			for v := range it.variants {
				ov := at[ref{i, v}]
				if loadClass(ov) != "err" {
					continue
				}
				tmpl := LoadTemplateOf(errMessage(ov))
				if tmpl == "" {
					continue
				}
				st.errs++
				id, why := locateError(ov, it.variants[v], it.locs[v])
				if id == "" {
					note("error-position-outside-every-definition:"+tmpl, it.variants[v], nil, ov, why)
					continue
				}
				st.errLocated++
				msg := errMessage(ov)
				if prev, ok := ident[msg]; ok && prev != id {
					note("error-names-another-definition:"+tmpl, it.variants[0], it.variants[v], prev, id)
				} else if !ok {
					ident[msg] = id
				}
			}
		}
	}
	// attribute the differences
	if len(diffs) > 0 {
		mreq := make([]string, len(diffs))
		for k, d := range diffs {
			mreq[k] = "mergedoc " + hexAll(items[d.item].variants[0])
		}
		docs := c.Worker.Map(mreq)
		var wreq []string
		var widx []int
		for k, d := range docs {
			if strings.HasPrefix(d, "(") {
				wreq = append(wreq, "wf "+d)
				widx = append(widx, k)
			}
		}
		wres := c.Driver.Map(wreq)
		r7b := map[int]bool{}
		for j, k := range widx {
			fails, _ := failingClauses(wres[j])
			r7b[k] = containsStr(fails, "S.uniqueDirectiveNames") && onlyBuiltinDirectivesRedeclared(docs[k])
		}
		for k, d := range diffs {
			sig := d.sig
			if r7b[k] {
				sig = SigOrderRedeclaredBuiltin
				st.r7b++
			} else if d.isSchema {
				st.schemaDiffs++
			} else {
				st.verdictDiffs++
			}
			note(sig, items[d.item].variants[0], items[d.item].variants[d.v], at[ref{d.item, 0}], at[ref{d.item, d.v}])
		}
	}
	if sample {
		for i, it := range items {
			if i%211 == 0 && len(it.variants) > 1 {
				c.Ev.Sample(map[string]any{"item": it.label, "variant_0": it.variants[0], "variant_1": it.variants[1],
					"verdict_0": loadClass(at[ref{i, 0}]), "verdict_1": loadClass(at[ref{i, 1}])})
			}
		}
	}
}

var ddNameRe = regexp.MustCompile(`\(DD x[0-9a-f]* x([0-9a-f]*)`)

// onlyBuiltinDirectivesRedeclared: every directive name declared more than once in the merged
// document (S-expression) is one of the prelude's directives — the recorded finding R7b is about
// those only; a user directive declared twice must be rejected in every arrangement.
func onlyBuiltinDirectivesRedeclared(sexp string) bool {
	builtin := map[string]bool{"skip": true, "include": true, "deprecated": true, "specifiedBy": true, "defer": true, "oneOf": true}
	n := map[string]int{}
	for _, m := range ddNameRe.FindAllStringSubmatch(sexp, -1) {
		b, _ := hex.DecodeString(m[1])
		n[string(b)]++
	}
	dup := false
	for name, k := range n {
		if k > 1 || (k == 1 && builtin[name]) { // the prelude (source 0) declares the builtin ones once already
			if !builtin[name] {
				return false
			}
			dup = true
		}
	}
	return dup
}

// flush reports every order-dependence finding with the smallest pair seen in the whole run.
func (c *Ctx) orderFlush(st *orderStats) {
	bests := st.bests
	sigs := make([]string, 0, len(bests))
	for s := range bests {
		sigs = append(sigs, s)
	}
	sort.Strings(sigs)
	for _, sig := range sigs {
		x := bests[sig]
		da, db := x.oa, x.ob
		if strings.HasPrefix(sig, "load") {
			da, db = firstDiffLine(showCanon(x.oa), showCanon(x.ob))
		}
		c.Report("spec", sig, fmt.Sprintf("%d cases; smallest: %q vs %q: [%s] vs [%s]", x.n, x.a, x.b, clipL(da), clipL(db)),
			map[string]any{"op": "loadcanon", "sources_a": x.a, "sources_b": x.b, "a": clipL(da), "b": clipL(db)})
	}
}

// locateError: the identity of the definition inside which the error position lies ("" + reason when none).
func locateError(obs string, srcs []string, locs []chunkLoc) (string, string) {
	f := strings.SplitN(obs, ",", 5)
	if len(f) != 5 {
		return "", "malformed observation"
	}
	var line, col, src int
	fmt.Sscan(f[1], &line)
	fmt.Sscan(f[2], &col)
	fmt.Sscan(f[3], &src)
	if src < 1 || src > len(srcs) {
		return "", fmt.Sprintf("source index %d is not one of the %d user sources", src, len(srcs))
	}
	for _, l := range locs {
		if l.src == src && l.line <= line && line <= l.last {
			lines := strings.Split(srcs[src-1], "\n")
			if col < 1 || col > len(lines[line-1]) {
				return "", fmt.Sprintf("column %d outside line %d (%d bytes) of source %d", col, line, len(lines[line-1]), src)
			}
			return l.ident, ""
		}
	}
	return "", fmt.Sprintf("line %d of source %d is in no definition", line, src)
}

func checkC17(c *Ctx) {
	c.Ev.Rule = "a case is one load (validator.LoadSchema on prelude + sources) of one ordering/partition of an item; items: generated valid " +
		"type systems, the same with one injected fault per clause of gen.SchemaClauses, corpus schemas and their token-level mutations; " +
		"4 variants per item (generation order in one source; 3 random permutations of the top-level definitions over 1-5 sources, extensions of one type in relative order). " +
		"Non-trivial: the variant parses; distinct by the loader's canonical observation."
	st := &orderStats{}
	lst := &LoadStats{Templates: map[string]int{}}
	corr := func(items []orderItem) {
		var sets [][]string
		for _, it := range items {
			if len(it.variants) > 1 {
				sets = append(sets, it.variants[1+c.R.Intn(len(it.variants)-1)])
			}
		}
		c.corrLoad(sets, lst)
	}
	// generated
	nGen := c.Pick(2500, 25000)
	if v := envIntL("XLOAD_GEN"); v > 0 {
		nGen = v
	}
	clauseNo := 0
	for done := 0; done < nGen; {
		n := min(500, nGen-done)
		var items []orderItem
		for i := 0; i < n; i++ {
			r := c.R.Fork(uint64(done+i) + 17_000_000)
			s := gen.GenSchema(r, r.Intn(16))
			items = append(items, genOrderItem(r, s, "valid", 4))
			for k := 0; k < 2; k++ {
				cl := gen.SchemaClauses[clauseNo%len(gen.SchemaClauses)]
				clauseNo++
				f := gen.InjectSchemaFaultClause(r, s, cl)
				c.Ev.Count("fault:"+cl, 1)
				items = append(items, genOrderItem(r, f.Schema, "fault:"+f.Clause+"/"+f.Variant, 4))
			}
		}
		c.orderCheck(items, st, done == 0)
		corr(items)
		done += n
	}
	genItems, genLoads := st.items, st.loads
	// corpus and its mutations
	corpus := loadCorpus()
	var toks [][]sdlTok
	for _, s := range corpus {
		t := sdlTokens(s)
		if len(t) > 0 && len(t) < 3000 && !strings.Contains(s, "\r") {
			toks = append(toks, t) // (inputs with CR inside block strings re-render ambiguously: lexer test data, skipped)
		}
	}
	tokItems := append([][]sdlTok(nil), toks...)
	n := c.Pick(16000, 160000)
	if v := envIntL("XLOAD_N"); v > 0 {
		n = v
	}
	for i := 0; i < n; i++ {
		t := toks[c.R.Intn(len(toks))]
		if c.R.Chance(1, 6) {
			t = append(cloneToks(t), toks[c.R.Intn(len(toks))]...)
		}
		for m := 1 + c.R.Intn(3); m > 0; m-- {
			t = mutateSDL(c.R, t)
		}
		tokItems = append(tokItems, t)
	}
	for lo := 0; lo < len(tokItems); lo += 2000 {
		hi := min(lo+2000, len(tokItems))
		var items []orderItem
		for _, t := range tokItems[lo:hi] {
			it := orderItem{label: "sdl"}
			it.variants = append(it.variants, []string{renderToks(nil, t)})
			for k := 1; k < 4; k++ {
				it.variants = append(it.variants, splitSources(c.R, t, 1+k%3))
			}
			items = append(items, it)
		}
		c.orderCheck(items, st, false)
		corr(items)
	}
	c.loadHistoryCheck()
	c.orderFlush(st)
	if st.msgVariesEx[0] != "" {
		fmt.Printf("  (example of another message in another order: %s vs %s)\n", describeObs(st.msgVariesEx[0]), describeObs(st.msgVariesEx[1]))
	}
	fmt.Printf("load order: generated %d items (%d loads), corpus+mutations %d items (%d loads); 4 orderings/partitions each\n",
		genItems, genLoads, st.items-genItems, st.loads-genLoads)
	fmt.Printf("  verdict differences %d, schema differences %d, differences attributed to redeclared builtin directives (R7b) %d\n", st.verdictDiffs, st.schemaDiffs, st.r7b)
	fmt.Printf("  loader errors on generated items %d, placed inside a written definition %d; same verdict but another message in another order %d\n", st.errs, st.errLocated, st.msgVaries)
	fmt.Printf("  correspondence: %d permuted variants loaded by the Lean model too\n", lst.Cases)
	c.Ev.Count("items", st.items)
	c.Ev.Count("verdict-differences", st.verdictDiffs)
	c.Ev.Count("schema-differences", st.schemaDiffs)
	c.Ev.Count("differences-redeclared-builtin", st.r7b)
	c.Ev.Count("loader-errors-located", st.errLocated)
	c.Ev.Count("error-message-varies-with-order", st.msgVaries)
	c.Ev.Count("correspondence-loads", lst.Cases)
}

func init() {
	Checks["C17"] = checkC17
	Checks["X-loadorder"] = checkC17 // scratch alias: same run without the known-findings filter of C17
}

// loadHistoryCheck: a load must not depend on what was loaded before in the same process, nor on
// the entry point: gqlparser.LoadSchema(sources…) after a history of other loads (some of which
// extend types of the prelude) must equal validator.LoadSchema(prelude, sources…) in a fresh process.
func (c *Ctx) loadHistoryCheck() {
	redecl := []string{
		"directive @deprecated(reason: String) on OBJECT | FIELD_DEFINITION\ntype Old @deprecated { a: Int }\ntype Query { o: Old }",
		"directive @specifiedBy(url: String!, rfc: Int) on SCALAR\nscalar U @specifiedBy(url: \"u\", rfc: 1)\ntype Query { u: U }",
		"directive @skip(if: Missing) on FIELD\ntype Query { a: Int }",
		"directive @include(if: Boolean!) on FIELD | OBJECT\ntype Query @include(if: true) { a: Int }",
	}
	extenders := []string{
		"directive @zztag(name: String) on SCALAR | OBJECT | ENUM | ENUM_VALUE | FIELD_DEFINITION\nextend scalar String @zztag(name: \"text\")\nextend scalar ID @zztag\ntype Query { a: Int }",
		"extend type __Type { zzExtra: Int }\ntype Query { a: Int }",
		"extend enum __TypeKind { ZZ_EXTRA }\nextend type __Schema { zzMore: String }\ntype Query { a: Int }",
		"directive @zztag on OBJECT\nextend type __Field @zztag\nextend type __Directive { zz: Boolean }\ntype Query { a: Int }",
	}
	var reqs, fresh []string
	type ref struct{ lo, n int }
	var refs []ref
	for i := 0; i < c.Pick(150, 1500); i++ {
		r := c.R.Fork(uint64(i) + 23_000_000)
		var hist [][]string
		for k := 1 + r.Intn(4); k > 0; k-- {
			switch r.Intn(4) {
			case 3:
				hist = append(hist, []string{redecl[r.Intn(len(redecl))]})
			case 0:
				hist = append(hist, []string{extenders[r.Intn(len(extenders))]})
			case 1:
				hist = append(hist, gen.GenSchema(r, r.Intn(8)).Render(r, 1+r.Intn(3)))
			default:
				f := gen.InjectSchemaFault(r, gen.GenSchema(r, r.Intn(8)))
				hist = append(hist, f.Sources)
			}
		}
		if r.Bool() {
			hist = append(hist, hist[0]) // the same sources again
		}
		var parts []string
		refs = append(refs, ref{len(fresh), len(hist)})
		for _, set := range hist {
			parts = append(parts, hexAll(set))
			if i%2 == 1 {
				fresh = append(fresh, "loadcanonb "+hexAll(set)) // the same BuiltIn marks as loadhistb
			} else {
				fresh = append(fresh, "loadcanon "+hexAll(set))
			}
		}
		if i%2 == 1 {
			reqs = append(reqs, "loadhistb "+strings.Join(parts, " | "))
		} else {
			reqs = append(reqs, "loadhist "+strings.Join(parts, " | "))
		}
	}
	hres := c.Worker.Map(reqs)
	fres := c.Worker.Map(fresh)
	n := 0
	for i, rf := range refs {
		got := strings.Split(hres[i], ";;")
		if len(got) != rf.n {
			c.Report("runtime", "load-history-crash", fmt.Sprintf("history of %d loads: %s", rf.n, clipL(hres[i])), map[string]any{"op": "loadhist", "request": reqs[i]})
			continue
		}
		for k := 0; k < rf.n; k++ {
			n++
			c.Ev.Case("hist:"+fres[rf.lo+k], k > 0)
			if got[k] != fres[rf.lo+k] {
				da, db := firstDiffLine(showCanon(got[k]), showCanon(fres[rf.lo+k]))
				c.Report("spec", "load-depends-on-history-or-entry-point", fmt.Sprintf("load #%d of a history through gqlparser.LoadSchema gives [%s], the same sources loaded alone give [%s]", k+1, clipL(da), clipL(db)),
					map[string]any{"op": "loadhist", "request": reqs[i], "position": k, "fresh_request": fresh[rf.lo+k]})
				break
			}
		}
	}
	c.Ev.Count("history-loads", n)
	fmt.Printf("  load histories: %d loads in %d histories through gqlparser.LoadSchema, each equal to the fresh validator.LoadSchema\n", n, len(refs))
}
