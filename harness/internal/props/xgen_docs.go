package props

import "verifharness/internal/rng"

func xgenDocs(c *Ctx, r *rng.R, nSchemas, nDocs int, verbose bool) {}
