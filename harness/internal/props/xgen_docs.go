package props

import (
	"fmt"
	"os"
	"path/filepath"
	"regexp"
	"sort"
	"strings"
	"time"

	"verifharness/internal/gen"
	"verifharness/internal/impl"
	"verifharness/internal/rng"
)

// repoRuleNames reads the rule names registered in the library's validator/rules/*.go.
func repoRuleNames() []string {
	re := regexp.MustCompile(`Name:\s+"([A-Za-z]+)"`)
	seen := map[string]bool{}
	files, _ := filepath.Glob("/var/tmp/repo-snap3/validator/rules/*.go")
	for _, f := range files {
		if strings.HasSuffix(f, "_test.go") {
			continue
		}
		b, _ := os.ReadFile(f)
		for _, m := range re.FindAllStringSubmatch(string(b), -1) {
			if !strings.HasSuffix(m[1], "WithoutSuggestions") {
				seen[m[1]] = true
			}
		}
	}
	var out []string
	for n := range seen {
		out = append(out, n)
	}
	sort.Strings(out)
	return out
}

type valOutcome struct {
	kind  string // OK | V | P | S | CRASH | TIMEOUT | PANIC
	rules map[string]bool
	msgs  []string // rule: message
}

func parseVal(o string) valOutcome {
	switch {
	case o == "OK":
		return valOutcome{kind: "OK"}
	case strings.HasPrefix(o, "V:"):
		out := valOutcome{kind: "V", rules: map[string]bool{}}
		for _, e := range strings.Split(o[2:], ";") {
			p := strings.SplitN(e, ",", 2)
			if len(p) == 2 {
				out.rules[p[0]] = true
				out.msgs = append(out.msgs, p[0]+": "+unhexMsg(p[1]))
			}
		}
		return out
	case strings.HasPrefix(o, "P:"):
		return valOutcome{kind: "P", msgs: []string{"parse: " + unhexMsg(o[2:])}}
	case strings.HasPrefix(o, "S:"):
		return valOutcome{kind: "S", msgs: []string{"schema: " + unhexMsg(o[2:])}}
	case strings.HasPrefix(o, "CRASH:"):
		m := unhexMsg(o[6:])
		if i := strings.Index(m, "\n"); i > 0 {
			m = m[:i]
		}
		return valOutcome{kind: "CRASH", msgs: []string{"crash: " + m}}
	case strings.HasPrefix(o, "PANIC:"):
		return valOutcome{kind: "PANIC", msgs: []string{"panic: " + unhexMsg(o[6:])}}
	case o == "TIMEOUT":
		return valOutcome{kind: "TIMEOUT", msgs: []string{"timeout"}}
	}
	return valOutcome{kind: "?", msgs: []string{o}}
}

func xgenDocs(c *Ctx, r *rng.R, nSchemas, nDocs int, verbose bool) {
	// rule coverage of the fault catalogue
	repo := repoRuleNames()
	have := map[string]bool{}
	for _, n := range gen.DocRules {
		have[n] = true
	}
	var missing []string
	for _, n := range repo {
		if !have[n] {
			missing = append(missing, n)
		}
	}
	fmt.Printf("=== rules registered in validator/rules: %d; with ≥1 injector: %d; without injector: %v; injectors: %d\n",
		len(repo), len(gen.DocRules), missing, len(gen.DocFaultVariants()))

	// schemas for the document runs: only those that load
	ns := nSchemas
	if ns > 2500 {
		ns = 2500
	}
	var schemas []*gen.Schema
	var reqs []string
	for i := 0; i < ns; i++ {
		s := gen.GenSchema(r.Fork(uint64(i)+1_000_000), r.Intn(14))
		schemas = append(schemas, s)
		reqs = append(reqs, "genload "+impl.HexW([]byte(s.SDL())))
	}
	out := c.Worker.Map(reqs)
	var good []*gen.Schema
	var goodHex []string
	for i, o := range out {
		if o == "OK" {
			good = append(good, schemas[i])
			goodHex = append(goodHex, impl.HexW([]byte(schemas[i].SDL())))
		}
	}
	if len(good) == 0 {
		fmt.Println("no loadable schema")
		return
	}
	per := nDocs/len(good) + 1

	// ---- speed (single-threaded, generation only)
	{
		rr := rng.New(c.Seed ^ 0xabc)
		t0 := time.Now()
		n, bytes := 0, 0
		for time.Since(t0) < 2*time.Second {
			s := good[n%len(good)]
			bytes += len(gen.GenDocument(rr, s, 2+n%10))
			n++
		}
		el := time.Since(t0)
		fmt.Printf("=== speed: GenDocument %d docs in %v = %.0f docs/s (avg %d bytes)\n", n, el.Round(time.Millisecond), float64(n)/el.Seconds(), bytes/n)
		t0 = time.Now()
		n = 0
		for time.Since(t0) < time.Second {
			gen.InjectDocFault(rr, good[n%len(good)], 2+n%10)
			n++
		}
		fmt.Printf("=== speed: InjectDocFault %.0f docs/s\n", float64(n)/time.Since(t0).Seconds())
		t0 = time.Now()
		n = 0
		for time.Since(t0) < time.Second {
			gen.GenBlindDocument(rr, good[n%len(good)], 2+n%10)
			n++
		}
		fmt.Printf("=== speed: GenBlindDocument %.0f docs/s\n", float64(n)/time.Since(t0).Seconds())
	}

	// ---- valid documents
	type vd struct {
		si  int
		doc *gen.Doc
	}
	var docs []vd
	reqs = reqs[:0]
	feats := newTally()
	sizes := newTally()
	detOK := true
	for si, s := range good {
		for k := 0; k < per; k++ {
			size := r.Intn(12)
			seed := r.U64()
			d := gen.GenDoc(rng.New(seed), s, size)
			if k == 0 && gen.GenDoc(rng.New(seed), s, size).Text != d.Text {
				detOK = false
			}
			docs = append(docs, vd{si, d})
			reqs = append(reqs, "genval "+goodHex[si]+" "+impl.HexW([]byte(d.Text)))
			for _, f := range d.Features {
				feats.add(f, "")
			}
			sizes.add(fmt.Sprintf("bytes=%04d-%04d", len(d.Text)/200*200, len(d.Text)/200*200+199), "")
		}
	}
	t0 := time.Now()
	out = c.Worker.Map(reqs)
	fmt.Printf("=== valid documents: %d over %d schemas (validated in %v); deterministic for a seed: %v\n", len(docs), len(good), time.Since(t0).Round(time.Millisecond), detOK)
	ok, okStrict, nStrict := 0, 0, 0
	fails := newTally()
	explained := newTally()
	for i, o := range out {
		v := parseVal(o)
		d := docs[i].doc
		dev := ""
		for _, f := range d.Features {
			if strings.HasPrefix(f, "deviation:") {
				dev += " " + f
			}
		}
		if dev == "" {
			nStrict++
		}
		if v.kind == "OK" {
			ok++
			if dev == "" {
				okStrict++
			}
			continue
		}
		key := v.kind
		if len(v.msgs) > 0 {
			key += " " + classify(v.msgs[0])
		}
		ex := d.Text + "\n-- schema --\n" + good[docs[i].si].SDL()
		if len(v.msgs) > 0 {
			ex = strings.Join(v.msgs, " | ") + "\n" + ex
		}
		if dev != "" {
			explained.add(key+"   [document carries"+dev+"]", ex)
		} else {
			fails.add(key, ex)
		}
	}
	fmt.Printf("validate: %d/%d (%.2f%%); without a deviation tag: %d/%d (%.3f%%)\n", ok, len(docs), 100*float64(ok)/float64(len(docs)), okStrict, nStrict, 100*float64(okStrict)/float64(nStrict))
	fails.print("valid-by-construction documents REJECTED, no deviation tag (generator bug or new library deviation)", len(docs), true)
	explained.print("valid-by-construction documents rejected, carrying a known-deviation tag", len(docs), verbose)
	feats.print("document features (fraction of documents)", len(docs), false)
	sizes.print("document sizes", len(docs), false)

	// ---- documents generated with DocOptions{NoDeviations: true}: all must validate
	{
		reqs = reqs[:0]
		var texts []string
		for si, s := range good {
			for k := 0; k < per/4+1; k++ {
				d := gen.GenDocWith(r, s, r.Intn(12), gen.DocOptions{NoDeviations: true})
				texts = append(texts, d.Text)
				reqs = append(reqs, "genval "+goodHex[si]+" "+impl.HexW([]byte(d.Text)))
			}
		}
		out = c.Worker.Map(reqs)
		bad := newTally()
		n := 0
		for i, o := range out {
			if o == "OK" {
				n++
				continue
			}
			v := parseVal(o)
			bad.add(v.kind+" "+classify(strings.Join(v.msgs, " | ")), strings.Join(v.msgs, " | ")+"\n"+texts[i])
		}
		fmt.Printf("=== documents with NoDeviations: %d/%d validate (%.3f%%)\n", n, len(texts), 100*float64(n)/float64(len(texts)))
		bad.print("NoDeviations documents rejected", len(texts), true)
	}

	// ---- faulty documents
	type fd struct {
		si int
		f  gen.DocFault
	}
	var fds []fd
	reqs = reqs[:0]
	variants := gen.DocFaultVariants()
	noSite := newTally()
	for si, s := range good {
		for k := 0; k < per; k++ {
			var f gen.DocFault
			if k%2 == 0 {
				f = gen.InjectDocFault(r, s, r.Intn(12))
			} else {
				// walk through the catalogue so that every injector is exercised
				v := variants[(si*per+k)/2%len(variants)]
				var ok bool
				f, ok = gen.InjectDocFaultVariant(r, s, 2+r.Intn(10), v)
				if !ok {
					noSite.add(v, "")
					continue
				}
			}
			fds = append(fds, fd{si, f})
			reqs = append(reqs, "genval "+goodHex[si]+" "+impl.HexW([]byte(f.Doc)))
		}
	}
	out = c.Worker.Map(reqs)
	type st struct{ n, rejected, byRule, crash int }
	perVar := map[string]*st{}
	perRule := map[string]*st{}
	accepted := newTally()
	otherRule := newTally()
	crashes := newTally()
	for i, o := range out {
		v := parseVal(o)
		f := fds[i].f
		key := f.Rule + "/" + f.Variant
		for _, m := range []map[string]*st{perVar, perRule} {
			k := key
			if m == nil {
				continue
			}
			_ = k
		}
		a, b := perVar[key], perRule[f.Rule]
		if a == nil {
			a = &st{}
			perVar[key] = a
		}
		if b == nil {
			b = &st{}
			perRule[f.Rule] = b
		}
		a.n++
		b.n++
		ex := f.Doc + "\n-- schema --\n" + good[fds[i].si].SDL()
		switch v.kind {
		case "OK":
			accepted.add(key, ex)
		case "V":
			a.rejected++
			b.rejected++
			if v.rules[f.Rule] {
				a.byRule++
				b.byRule++
			} else {
				otherRule.add(key+"  rejected only by: "+strings.Join(sortedKeys(v.rules), ","), strings.Join(v.msgs, " | ")+"\n"+ex)
			}
		default:
			a.crash++
			b.crash++
			crashes.add(key+"  "+v.kind+" "+classify(strings.Join(v.msgs, " ")), f.Doc)
		}
	}
	fmt.Printf("=== faulty documents: %d\n", len(fds))
	fmt.Printf("  %-34s %8s %10s %12s %8s\n", "rule", "injected", "rejected%", "by-rule%", "crash")
	for _, rn := range gen.DocRules {
		s := perRule[rn]
		if s == nil {
			fmt.Printf("  %-34s %8d\n", rn, 0)
			continue
		}
		fmt.Printf("  %-34s %8d %9.2f%% %11.2f%% %8d\n", rn, s.n, 100*float64(s.rejected)/float64(s.n), 100*float64(s.byRule)/float64(s.n), s.crash)
	}
	fmt.Printf("  per injector:\n")
	for _, vn := range variants {
		s := perVar[vn]
		if s == nil {
			fmt.Printf("    %-72s %7d   (no site found: %d)\n", vn, 0, noSite.n[vn])
			continue
		}
		fmt.Printf("    %-72s %7d %8.2f%% %8.2f%% %6d   (no site: %d)\n", vn, s.n, 100*float64(s.rejected)/float64(s.n), 100*float64(s.byRule)/float64(s.n), s.crash, noSite.n[vn])
	}
	accepted.print("injected faults ACCEPTED by the library (rule/variant)", 0, true)
	otherRule.print("injected faults rejected, but not by the intended rule", 0, verbose)
	crashes.print("injected faults that crash / hang validation", 0, true)

	// ---- several faults in one document
	{
		reqs = reqs[:0]
		var multi [][]gen.DocFault
		for si, s := range good {
			for k := 0; k < per/4+1; k++ {
				fs := gen.InjectDocFaults(r, s, 2+r.Intn(10), 2+r.Intn(2))
				multi = append(multi, fs)
				reqs = append(reqs, "genval "+goodHex[si]+" "+impl.HexW([]byte(fs[0].Doc)))
			}
		}
		out = c.Worker.Map(reqs)
		nf, rej, all, crash := newTally(), 0, 0, 0
		missed := newTally()
		for i, o := range out {
			v := parseVal(o)
			nf.add(fmt.Sprintf("%d faults injected", len(multi[i])), "")
			switch v.kind {
			case "V":
				rej++
				every := true
				for _, f := range multi[i] {
					if !v.rules[f.Rule] {
						every = false
						missed.add(f.Rule+"/"+f.Variant, "")
					}
				}
				if every {
					all++
				}
			case "OK":
			default:
				crash++
			}
		}
		fmt.Printf("=== documents with 2-3 injected faults: %d; rejected %.2f%%; every intended rule fired %.2f%%; crash/hang %d\n", len(multi), 100*float64(rej)/float64(len(multi)), 100*float64(all)/float64(len(multi)), crash)
		nf.print("faults per document", len(multi), false)
		missed.print("intended rule silent in a multi-fault document (rule/variant)", 0, false)
	}

	// ---- blind documents
	reqs = reqs[:0]
	var blind []string
	for si, s := range good {
		for k := 0; k < per/2+1; k++ {
			d := gen.GenBlindDocument(r, s, r.Intn(12))
			blind = append(blind, d)
			reqs = append(reqs, "genval "+goodHex[si]+" "+impl.HexW([]byte(d)))
		}
	}
	out = c.Worker.Map(reqs)
	kinds := newTally()
	brules := newTally()
	bcrash := newTally()
	for i, o := range out {
		v := parseVal(o)
		kinds.add(v.kind, "")
		for rn := range v.rules {
			brules.add(rn, "")
		}
		if v.kind != "OK" && v.kind != "V" && v.kind != "P" {
			bcrash.add(v.kind+" "+classify(strings.Join(v.msgs, " ")), blind[i])
		}
		if v.kind == "P" {
			bcrash.add("PARSE ERROR (blind documents must be syntactically valid) "+classify(strings.Join(v.msgs, " ")), blind[i])
		}
	}
	fmt.Printf("=== blind documents: %d\n", len(blind))
	kinds.print("outcome", len(blind), false)
	brules.print("rules fired (fraction of blind documents)", len(blind), false)
	bcrash.print("crashes / hangs / parse errors on blind documents", 0, true)

	// ---- adversarial families: all must parse
	var areqs []string
	var anames []string
	for _, k := range []int{1, 4, 8} {
		for _, a := range gen.Adversarial(k) {
			areqs = append(areqs, "genval "+impl.HexW([]byte(a.SchemaSDL))+" "+impl.HexW([]byte(a.Doc)))
			anames = append(anames, fmt.Sprintf("%s(%d)", a.Name, k))
		}
	}
	aout := c.Worker.Map(areqs)
	fmt.Printf("=== adversarial families (sizes 1, 4, 8)\n")
	for i, o := range aout {
		v := parseVal(o)
		m := ""
		if len(v.msgs) > 0 {
			m = v.msgs[0]
			if len(m) > 100 {
				m = m[:100]
			}
		}
		fmt.Printf("  %-28s %-8s %s\n", anames[i], v.kind, m)
	}

	// ---- variable values: conforming values of generated operations
	xgenVars(c, r, good)
}

func sortedKeys(m map[string]bool) []string {
	var out []string
	for k := range m {
		out = append(out, k)
	}
	sort.Strings(out)
	return out
}

func xgenVars(c *Ctx, r *rng.R, good []*gen.Schema) {
	defects := newTally()
	n, withVars, parsedOK := 0, 0, 0
	for si, s := range good {
		if si >= 400 {
			break
		}
		for k := 0; k < 10; k++ {
			d := gen.GenDoc(r, s, 4+r.Intn(8))
			for _, op := range d.Ops {
				n++
				parsed := gen.ParseOperations(d.Text)
				for _, p := range parsed {
					if p.Name == op.Name && p.Kind == op.Kind && len(p.Vars) == len(op.Vars) {
						same := true
						for i := range p.Vars {
							// compare as sets: the text order of variable definitions may be reversed
							found := false
							for j := range op.Vars {
								if p.Vars[i].Name == op.Vars[j].Name && p.Vars[i].Type.String() == op.Vars[j].Type.String() && p.Vars[i].HasDefault == op.Vars[j].HasDefault {
									found = true
								}
							}
							same = same && found
						}
						if same {
							parsedOK++
						}
						break
					}
				}
				if len(op.Vars) == 0 {
					continue
				}
				withVars++
				gen.GenVars(r, s, d.Text, op.Name, true)
				_, def := gen.GenVars(r, s, d.Text, op.Name, false)
				cl := def
				if i := strings.Index(def, "@"); i >= 0 {
					cl = def[:i]
				}
				if cl == "" {
					cl = "(none applicable)"
				}
				defects.add(cl, "")
			}
		}
	}
	fmt.Printf("=== variables: %d operations, %d with variables; header re-parse agrees with the generator's table: %d/%d\n", n, withVars, parsedOK, n)
	defects.print("GenVars(conforming=false) defect classes", withVars, false)
}
