package props

import (
	"fmt"
	"regexp"
	"strconv"
	"strings"

	"verifharness/internal/gen"
	"verifharness/internal/impl"
)

// C04 beyond the lexer: every position stored on a syntax-tree node and every location attached to
// a syntax / schema / validation error must be the (offset, line, column) of a token start of the
// source it names, as computed by the position SPECIFICATION (driver op `lexspec`).

var posRe = regexp.MustCompile(`\(p (\d+) (\d+) (\d+) (-?\d+) (\d+)\)`)

type tokPos struct{ line, col int }

// tokenTable: rune offset → (line, col) of every token start the specification defines for src;
// strings additionally under col+1 (the recorded known finding `string-column-off-by-one`).
type tokenTable struct {
	byStart map[int]tokPos
	lineCol map[tokPos]bool
	strCol  map[tokPos]bool // (line, col+1) of quoted strings
	ok      bool
}

func (c *Ctx) tokenTables(srcs []string) []tokenTable {
	reqs := make([]string, len(srcs))
	for i, s := range srcs {
		reqs[i] = "lexspec " + impl.HexW([]byte(s))
	}
	out := c.Driver.Map(reqs)
	tabs := make([]tokenTable, len(srcs))
	for i, o := range out {
		t := tokenTable{byStart: map[int]tokPos{}, lineCol: map[tokPos]bool{}, strCol: map[tokPos]bool{}}
		l := ParseLexObs(o)
		if l.Status == "OK" || l.Status == "E" {
			t.ok = l.Status == "OK"
			for _, k := range l.Toks {
				t.byStart[k.Start] = tokPos{k.Line, k.Col}
				t.lineCol[tokPos{k.Line, k.Col}] = true
				if k.Kind == 19 {
					t.strCol[tokPos{k.Line, k.Col + 1}] = true
				}
			}
			if l.Status == "E" {
				t.lineCol[tokPos{l.ELine, l.ECol}] = true
			}
		}
		tabs[i] = t
	}
	return tabs
}

// judgeTreePositions checks every `(p start stop line col src)` of an S-expression.
func (c *Ctx) judgeTreePositions(what string, sexp string, tabs []tokenTable, srcs []string, srcBase int) {
	for _, m := range posRe.FindAllStringSubmatch(sexp, -1) {
		start, _ := strconv.Atoi(m[1])
		line, _ := strconv.Atoi(m[3])
		col, _ := strconv.Atoi(m[4])
		src, _ := strconv.Atoi(m[5])
		if line == 0 && col == 0 && start == 0 {
			continue // nil Position (synthetic node)
		}
		si := src - srcBase
		if si < 0 || si >= len(tabs) || !tabs[si].ok {
			continue
		}
		want, isTok := tabs[si].byStart[start]
		rep := map[string]any{"op": what, "sources": srcs, "position": m[0]}
		switch {
		case !isTok:
			c.Report("spec", "node-position-not-a-token-start", fmt.Sprintf("%s: node position %s of source %d (%q) is not the start of a token", what, m[0], si, clip(srcs[si], 200)), rep)
		case want.line == line && want.col == col:
		case want.line == line && want.col+1 == col && tabs[si].strCol[tokPos{line, col}]:
			c.Report("spec", "string-column-off-by-one", fmt.Sprintf("%s: node position %s sits on a quoted string (column + 1)", what, m[0]), rep)
		default:
			c.Report("spec", "node-line-column-wrong", fmt.Sprintf("%s: node position %s of source %d (%q): the source says %d:%d for offset %d", what, m[0], si, clip(srcs[si], 200), want.line, want.col, start), rep)
		}
	}
}

func (c *Ctx) judgeErrorLocation(what string, line, col, si int, tabs []tokenTable, srcs []string, msg string) {
	if si < 0 || si >= len(tabs) {
		return
	}
	t := tabs[si]
	if len(t.lineCol) == 0 && !t.ok {
		return
	}
	p := tokPos{line, col}
	rep := map[string]any{"op": what, "sources": srcs, "line": line, "column": col, "file_index": si, "message": msg}
	switch {
	case t.lineCol[p]:
	case t.strCol[p]:
		c.Report("spec", "string-column-off-by-one", fmt.Sprintf("%s: error %q at %d:%d sits on a quoted string (column + 1)", what, msg, line, col), rep)
	case !t.ok:
		// the source does not lex to the end: positions past the lexical error are not judged here
	default:
		c.Report("spec", "error-location-not-a-token-start", fmt.Sprintf("%s: error %q names %d:%d of source %d (%q), where no token starts", what, msg, line, col, si, clip(srcs[si], 200)), rep)
	}
}

// treePositionSweep: parse trees (both grammars), multi-file schema loads and validation errors.
func (c *Ctx) treePositionSweep() {
	qs, ss := RepoGraphQLInputs()
	// executable documents: corpus, generated documents re-rendered with odd trivia
	var docs []string
	docs = append(docs, qs...)
	for i := 0; i < c.Pick(800, 8000); i++ {
		s := gen.GenSchema(c.R, 3)
		d := gen.GenDocument(c.R, s, 1+c.R.Intn(4))
		docs = append(docs, triviaRender(c, d))
	}
	for i := 0; i < c.Pick(2000, 20000); i++ {
		docs = append(docs, triviaRender(c, MutateTokens(c.R, qs[c.R.Intn(len(qs))])))
	}
	reqs := make([]string, len(docs))
	for i, d := range docs {
		reqs[i] = "pq -1 " + impl.HexW([]byte(d))
	}
	out := c.Worker.Map(reqs)
	tabs := c.tokenTables(docs)
	for i, o := range out {
		c.Ev.Case("q"+o[:min(len(o), 60)], strings.HasPrefix(o, "("))
		if strings.HasPrefix(o, "(") {
			c.judgeTreePositions("parse-query", o, tabs[i:i+1], docs[i:i+1], 0)
		} else if strings.HasPrefix(o, "E,") {
			p := strings.SplitN(o, ",", 4)
			l, _ := strconv.Atoi(p[1])
			cl, _ := strconv.Atoi(p[2])
			m, _ := impl.UnhexW(p[3])
			if l != 0 {
				c.judgeErrorLocation("parse-query-error", l, cl, 0, tabs[i:i+1], docs[i:i+1], string(m))
			}
		}
	}
	// schema documents, several sources: positions carry the source index (prelude = 0, user 1…)
	var sets [][]string
	for _, s := range ss {
		sets = append(sets, []string{triviaRender(c, s)})
	}
	for i := 0; i < c.Pick(600, 6000); i++ {
		s := gen.GenSchema(c.R, 2+c.R.Intn(4))
		var srcs []string
		if c.R.Chance(1, 3) {
			f := gen.InjectSchemaFault(c.R, s)
			srcs = f.Sources
		} else {
			srcs = s.Render(c.R, 1+c.R.Intn(4))
		}
		for k := range srcs {
			srcs[k] = triviaRender(c, srcs[k])
		}
		sets = append(sets, srcs)
	}
	// a faulty member contributed by an `extend …` living in ANOTHER file than the base definition
	for i := 0; i < c.Pick(400, 4000); i++ {
		s := gen.GenSchema(c.R, 2+c.R.Intn(3))
		if ext := crossFileExtensionFault(c, s); ext != "" {
			pad := strings.Repeat("\n", c.R.Intn(9)) + strings.Repeat(" ", c.R.Intn(7))
			base := s.SDL()
			if c.R.Bool() {
				sets = append(sets, []string{base, pad + ext})
			} else {
				sets = append(sets, []string{pad + ext, "# first\n" + base})
			}
		}
	}
	var mreqs, lreqs []string
	for _, set := range sets {
		var hx []string
		for _, s := range set {
			hx = append(hx, impl.HexW([]byte(s)))
		}
		mreqs = append(mreqs, "mergedoc "+strings.Join(hx, " "))
		lreqs = append(lreqs, "loaddoc "+strings.Join(hx, " "))
	}
	// the same source sets through ParseSchemas / ParseSchemasWithLimit directly (no prelude: source
	// indices start at 0), under a limit that is not reached
	var preqs []string
	var pidx []int
	for i, set := range sets {
		if len(set) < 2 {
			continue
		}
		var hx []string
		for _, s := range set {
			hx = append(hx, impl.HexW([]byte(s)))
		}
		for _, l := range []string{"-1", "1000000"} {
			preqs = append(preqs, "pss "+l+" "+strings.Join(hx, " "))
			pidx = append(pidx, i)
		}
	}
	pout := c.Worker.Map(preqs)
	for k, o := range pout {
		if strings.HasPrefix(o, "(") {
			set := sets[pidx[k]]
			c.judgeTreePositions("parse-schemas"+map[bool]string{true: "-with-limit", false: ""}[k%2 == 1], o, c.tokenTables(set), set, 0)
		}
	}
	mout := c.Worker.Map(mreqs)
	lout := c.Worker.Map(lreqs)
	// every location of a load error (not only the first) belongs to the one file the error names
	var qreqs []string
	for _, r := range lreqs {
		qreqs = append(qreqs, "loadlocs"+strings.TrimPrefix(r, "loaddoc"))
	}
	for i, o := range c.Worker.Map(qreqs) {
		f := strings.Split(o, "|")
		if len(f) != 3 || f[1] == "" {
			continue
		}
		si, _ := strconv.Atoi(f[0])
		m, _ := impl.UnhexW(f[2])
		locs := strings.Split(f[1], ";")
		if si < 1 || len(locs) < 2 {
			continue // (the first location is judged below with the others of its kind)
		}
		tabs := c.tokenTables(sets[i])
		for _, lc := range locs[1:] {
			xy := strings.Split(lc, ":")
			l, _ := strconv.Atoi(xy[0])
			cl, _ := strconv.Atoi(xy[1])
			c.judgeErrorLocation("load-error-further-location", l, cl, si-1, tabs, sets[i], string(m))
		}
	}
	for i, set := range sets {
		tabs := c.tokenTables(set)
		c.Ev.Case("s"+lout[i][:min(len(lout[i]), 60)], len(set) > 1)
		if strings.HasPrefix(mout[i], "(") {
			c.judgeTreePositions("parse-schemas", mout[i], tabs, set, 1)
		}
		if strings.HasPrefix(lout[i], "(") {
			c.judgeTreePositions("loaded-schema", lout[i], tabs, set, 1)
		} else if strings.HasPrefix(lout[i], "E,") {
			p := strings.SplitN(lout[i], ",", 5)
			if len(p) == 5 {
				l, _ := strconv.Atoi(p[1])
				cl, _ := strconv.Atoi(p[2])
				si, _ := strconv.Atoi(p[3])
				m, _ := impl.UnhexW(p[4])
				if l != 0 && si < 0 {
					c.Report("spec", "error-location-without-file", fmt.Sprintf("load of %d sources: error %q carries %d:%d but names no source file", len(set), m, l, cl), map[string]any{"op": "load", "sources": set})
				}
				if l != 0 && si >= 1 {
					c.judgeErrorLocation("load-error", l, cl, si-1, tabs, set, string(m))
				}
			}
		}
	}
	// validation errors: every location is a node position of the document
	pairs := c.genPairs(c.Pick(60, 600), 30)
	for i := range pairs {
		pairs[i][1] = triviaRender(c, pairs[i][1])
	}
	vreqs := make([]string, len(pairs))
	vdocs := make([]string, len(pairs))
	for i, p := range pairs {
		vreqs[i] = "validate default " + impl.HexW([]byte(p[0])) + " " + impl.HexW([]byte(p[1]))
		vdocs[i] = p[1]
	}
	vout := c.Worker.Map(vreqs)
	vtabs := c.tokenTables(vdocs)
	for i, o := range vout {
		if o == "OK" || !strings.Contains(o, ",") {
			continue
		}
		c.Ev.Case("v"+o[:min(len(o), 80)], true)
		for _, e := range strings.Split(o, ";") {
			f := strings.Split(e, ",")
			if len(f) != 3 {
				continue
			}
			msg, _ := impl.UnhexW(f[1])
			if f[2] == "" {
				c.Report("spec", "validation-error-without-location", fmt.Sprintf("document %q: error %q has no location", clip(vdocs[i], 200), msg), map[string]any{"op": "validate", "schema": pairs[i][0], "document": vdocs[i]})
				continue
			}
			for _, lc := range strings.Split(f[2], "|") {
				xy := strings.Split(lc, ":")
				l, _ := strconv.Atoi(xy[0])
				cl, _ := strconv.Atoi(xy[1])
				c.judgeErrorLocation("validation-error", l, cl, 0, vtabs[i:i+1], vdocs[i:i+1], string(msg))
			}
		}
	}
}

// triviaRender re-renders a text with random ignored tokens in front of tokens: CR / CRLF / LF
// mixes, BOMs, commas, comments, multi-byte characters inside comments, block strings untouched.
func triviaRender(c *Ctx, s string) string {
	toks := splitRough(s)
	trivia := []string{" ", "\n", "\r\n", "\r", "\t", ",", "\ufeff", " #é😀\n", "\r\n\r\n", "  "}
	var sb strings.Builder
	for i, t := range toks {
		if i > 0 {
			sb.WriteString(" ")
		}
		if c.R.Chance(1, 4) {
			sb.WriteString(trivia[c.R.Intn(len(trivia))])
		}
		sb.WriteString(t)
	}
	return sb.String()
}

// crossFileExtensionFault: text of an extension of one of s's types whose member is faulty
// (duplicate, wrong kind, reserved name, undefined type), or "".
func crossFileExtensionFault(c *Ctx, s *gen.Schema) string {
	var objs, ins, enums, unions []*gen.TypeDef
	for _, t := range s.Types {
		if t.Builtin || t.NoBase {
			continue
		}
		switch t.Kind {
		case gen.Object, gen.Interface:
			if len(t.Fields) > 0 {
				objs = append(objs, t)
			}
		case gen.InputObject:
			if len(t.Fields) > 0 {
				ins = append(ins, t)
			}
		case gen.Enum:
			if len(t.Values) > 0 {
				enums = append(enums, t)
			}
		case gen.Union:
			if len(t.Members) > 0 {
				unions = append(unions, t)
			}
		}
	}
	kw := func(t *gen.TypeDef) string {
		return map[gen.Kind]string{gen.Object: "type", gen.Interface: "interface", gen.InputObject: "input", gen.Enum: "enum", gen.Union: "union"}[t.Kind]
	}
	lead := "zzOk: Int\n      "
	for try := 0; try < 8; try++ {
		switch c.R.Intn(8) {
		case 0: // duplicate field
			if len(objs) > 0 {
				t := objs[c.R.Intn(len(objs))]
				return "extend " + kw(t) + " " + t.Name + " {\n  " + lead + t.Fields[c.R.Intn(len(t.Fields))].Name + ": String\n}\n"
			}
		case 1: // duplicate input field
			if len(ins) > 0 && !ins[0].OneOf {
				t := ins[c.R.Intn(len(ins))]
				return "extend input " + t.Name + " {\n  " + lead + t.Fields[c.R.Intn(len(t.Fields))].Name + ": String\n}\n"
			}
		case 2: // object field of input object type
			if len(objs) > 0 && len(ins) > 0 {
				t := objs[c.R.Intn(len(objs))]
				return "extend " + kw(t) + " " + t.Name + " {\n  " + lead + "zzBad: " + ins[c.R.Intn(len(ins))].Name + "\n}\n"
			}
		case 3: // input field of object type
			if len(objs) > 0 && len(ins) > 0 {
				t := ins[c.R.Intn(len(ins))]
				return "extend input " + t.Name + " {\n  " + lead + "zzBad: " + objs[c.R.Intn(len(objs))].Name + "\n}\n"
			}
		case 4: // reserved field name
			if len(objs) > 0 {
				t := objs[c.R.Intn(len(objs))]
				return "extend " + kw(t) + " " + t.Name + " {\n  " + lead + "__zz: String\n}\n"
			}
		case 5: // undefined field type
			if len(objs) > 0 {
				t := objs[c.R.Intn(len(objs))]
				return "extend " + kw(t) + " " + t.Name + " {\n  " + lead + "zzBad(a: Int,   b: ZzNoSuchInput): ZzNoSuchType\n}\n"
			}
		case 6: // duplicate / reserved enum value
			if len(enums) > 0 {
				t := enums[c.R.Intn(len(enums))]
				v := t.Values[c.R.Intn(len(t.Values))].Name
				if c.R.Bool() {
					v = "__zz"
				}
				return "extend enum " + t.Name + " {\n  ZZ_OK\n      " + v + "\n}\n"
			}
		case 7: // union member that is not an object / undefined
			if len(unions) > 0 {
				t := unions[c.R.Intn(len(unions))]
				m := "ZzNoSuchType"
				if len(ins) > 0 && c.R.Bool() {
					m = ins[0].Name
				}
				return "extend union " + t.Name + " =\n      " + m + "\n"
			}
		}
	}
	return ""
}
