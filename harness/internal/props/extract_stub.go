package props

import (
	"path/filepath"

	"verifharness/internal/extract"
)

// runExtractor regenerates lean/GqlModel/Gen from /repo's current sources.
func runExtractor() string {
	lean := filepath.Join(Root, "lean")
	for _, f := range []func(string, string) error{extract.RunFacts, extract.RunExtractErrSites, extract.RunExtractStores, extract.RunPrelude} {
		if err := f("/repo", lean); err != nil {
			return err.Error()
		}
	}
	return ""
}

// RunExtractAll is `vcheck -extract` (used by setup.sh before the first lake build).
func RunExtractAll() string { return runExtractor() }
