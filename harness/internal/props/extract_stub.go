package props

func runExtractor() string { return "" }
