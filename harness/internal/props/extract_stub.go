package props

import (
	"path/filepath"

	"verifharness/internal/extract"
)

// runExtractor regenerates lean/GqlModel/Gen from /repo's current sources.
func runExtractor() string {
	if err := extract.RunFacts("/repo", filepath.Join(Root, "lean")); err != nil {
		return err.Error()
	}
	return ""
}

// RunExtractAll is `vcheck -extract` (used by setup.sh before the first lake build).
func RunExtractAll() string { return runExtractor() }
