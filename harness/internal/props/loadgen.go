package props

import (
	"os"
	"strings"

	"verifharness/internal/rng"
)

// ---------- a small SDL tokenizer and a token-level schema mutator (for the loader checks) ----------

type sdlTok struct {
	s    string
	kind byte // 'n' name, 'p' punctuator, 's' string/block string, 'd' number
}

func isNameStart(c byte) bool { return c == '_' || c >= 'a' && c <= 'z' || c >= 'A' && c <= 'Z' }
func isNameCont(c byte) bool  { return isNameStart(c) || c >= '0' && c <= '9' }

// sdlTokens splits a schema text into tokens; comments and ignored characters are dropped.
// Anything unrecognised becomes a one-byte punctuator token (the parser will reject it).
func sdlTokens(src string) []sdlTok {
	var out []sdlTok
	i := 0
	for i < len(src) {
		c := src[i]
		switch {
		case c == ' ' || c == '\t' || c == '\n' || c == '\r' || c == ',':
			i++
		case c == 0xEF && strings.HasPrefix(src[i:], "\xef\xbb\xbf"):
			i += 3
		case c == '#':
			for i < len(src) && src[i] != '\n' && src[i] != '\r' {
				i++
			}
		case isNameStart(c):
			j := i
			for j < len(src) && isNameCont(src[j]) {
				j++
			}
			out = append(out, sdlTok{src[i:j], 'n'})
			i = j
		case c == '-' || c >= '0' && c <= '9':
			j := i + 1
			for j < len(src) && (src[j] >= '0' && src[j] <= '9' || src[j] == '.' || src[j] == 'e' || src[j] == 'E' || src[j] == '+' || src[j] == '-') {
				j++
			}
			out = append(out, sdlTok{src[i:j], 'd'})
			i = j
		case strings.HasPrefix(src[i:], `"""`):
			j := i + 3
			for j < len(src) && !strings.HasPrefix(src[j:], `"""`) {
				if strings.HasPrefix(src[j:], `\"""`) {
					j += 4
				} else {
					j++
				}
			}
			j += 3
			if j > len(src) {
				j = len(src)
			}
			out = append(out, sdlTok{src[i:j], 's'})
			i = j
		case c == '"':
			j := i + 1
			for j < len(src) && src[j] != '"' && src[j] != '\n' {
				if src[j] == '\\' {
					j++
				}
				j++
			}
			j++
			if j > len(src) {
				j = len(src)
			}
			out = append(out, sdlTok{src[i:j], 's'})
			i = j
		case strings.HasPrefix(src[i:], "..."):
			out = append(out, sdlTok{"...", 'p'})
			i += 3
		default:
			out = append(out, sdlTok{src[i : i+1], 'p'})
			i++
		}
	}
	return out
}

var defKeywords = map[string]bool{"schema": true, "scalar": true, "type": true, "interface": true, "union": true,
	"enum": true, "input": true, "directive": true, "extend": true}

func depthDelta(t sdlTok) int {
	if t.kind != 'p' {
		return 0
	}
	switch t.s {
	case "{", "(", "[":
		return 1
	case "}", ")", "]":
		return -1
	}
	return 0
}

// sdlChunks splits a token list at top-level definition boundaries (a description string stays
// with the definition that follows it).
func sdlChunks(toks []sdlTok) [][]sdlTok {
	var starts []int
	depth := 0
	for i, t := range toks {
		if depth == 0 && t.kind == 'n' && defKeywords[t.s] {
			prev := ""
			if i > 0 {
				prev = toks[i-1].s
			}
			nameSlot := i > 0 && toks[i-1].kind == 'n' && defKeywords[prev] && prev != "extend"
			if prev == "extend" && i > 0 && toks[i-1].kind == 'n' {
				nameSlot = true // keyword after `extend` continues the chunk
			}
			switch prev {
			case "implements", "&", "|", "=", "@", "on", ":":
				nameSlot = true
			}
			if !nameSlot {
				s := i
				if i > 0 && toks[i-1].kind == 's' {
					s = i - 1
				}
				starts = append(starts, s)
			}
		}
		depth += depthDelta(t)
		if depth < 0 {
			depth = 0
		}
	}
	if len(starts) == 0 {
		if len(toks) == 0 {
			return nil
		}
		return [][]sdlTok{toks}
	}
	var out [][]sdlTok
	if starts[0] > 0 {
		out = append(out, toks[:starts[0]])
	}
	for k, s := range starts {
		e := len(toks)
		if k+1 < len(starts) {
			e = starts[k+1]
		}
		out = append(out, toks[s:e])
	}
	return out
}

func renderToks(r *rng.R, toks []sdlTok) string {
	var sb strings.Builder
	depth := 0
	for i, t := range toks {
		if i > 0 {
			prev := toks[i-1]
			nl := false
			if prev.kind == 'p' && (prev.s == "{" || prev.s == "}") {
				nl = true
			}
			if t.kind == 'p' && t.s == "}" {
				nl = true
			}
			if t.kind == 's' && depth <= 1 {
				nl = true
			}
			if prev.kind == 's' && depth <= 1 {
				nl = true
			}
			if depth == 1 && t.kind == 'n' && i+1 < len(toks) && (toks[i+1].s == ":" || toks[i+1].s == "(") && prev.s != "@" {
				nl = true
			}
			if r != nil && r.Chance(1, 40) {
				nl = !nl
			}
			if nl {
				sb.WriteByte('\n')
				for k := 0; k < depth; k++ {
					sb.WriteString("  ")
				}
			} else {
				sb.WriteByte(' ')
			}
		}
		sb.WriteString(t.s)
		depth += depthDelta(t)
		if depth < 0 {
			depth = 0
		}
	}
	sb.WriteByte('\n')
	return sb.String()
}

func flatten(chunks [][]sdlTok) []sdlTok {
	var out []sdlTok
	for _, c := range chunks {
		out = append(out, c...)
	}
	return out
}

func cloneToks(t []sdlTok) []sdlTok { return append([]sdlTok(nil), t...) }

// group: the token range (open, close) of a bracket group
type tokGroup struct{ open, close int }

func bracketGroups(toks []sdlTok, opener string) []tokGroup {
	var out []tokGroup
	var stack []int
	for i, t := range toks {
		switch depthDelta(t) {
		case 1:
			stack = append(stack, i)
		case -1:
			if len(stack) > 0 {
				o := stack[len(stack)-1]
				stack = stack[:len(stack)-1]
				if toks[o].s == opener || opener == "" {
					out = append(out, tokGroup{o, i})
				}
			}
		}
	}
	return out
}

// entries splits the direct content of a group into entries (fields, arguments, enum values,
// operation types): an entry starts at a nesting-level-0 name or string whose predecessor is not
// one of `:` `@` `=` (or a string, which is that entry's description).
func groupEntries(toks []sdlTok, g tokGroup) [][2]int {
	var out [][2]int
	depth := 0
	start := -1
	for i := g.open + 1; i < g.close; i++ {
		t := toks[i]
		if depth == 0 && (t.kind == 'n' || t.kind == 's') {
			p := toks[i-1]
			cont := p.kind == 'p' && (p.s == ":" || p.s == "@" || p.s == "=" || p.s == "|" || p.s == "&") || (p.kind == 's' && i-1 > g.open)
			if !cont {
				if start >= 0 {
					out = append(out, [2]int{start, i})
				}
				start = i
			}
		}
		depth += depthDelta(t)
	}
	if start >= 0 {
		out = append(out, [2]int{start, g.close})
	}
	return out
}

func splice(toks []sdlTok, from, to int, repl []sdlTok) []sdlTok {
	out := make([]sdlTok, 0, len(toks)+len(repl))
	out = append(out, toks[:from]...)
	out = append(out, repl...)
	out = append(out, toks[to:]...)
	return out
}

var builtinTypeNames = []string{"Int", "Float", "String", "Boolean", "ID", "__Type", "__Schema", "Query", "Mutation", "Subscription", "Undefined"}
var locationNames = []string{"QUERY", "MUTATION", "SUBSCRIPTION", "FIELD", "FRAGMENT_DEFINITION", "FRAGMENT_SPREAD", "INLINE_FRAGMENT",
	"SCHEMA", "SCALAR", "OBJECT", "FIELD_DEFINITION", "ARGUMENT_DEFINITION", "INTERFACE", "UNION", "ENUM", "ENUM_VALUE", "INPUT_OBJECT",
	"INPUT_FIELD_DEFINITION", "VARIABLE_DEFINITION"}
var kindKeywords = []string{"type", "interface", "input", "enum", "union", "scalar"}
var builtinDirectives = []string{"include", "skip", "deprecated", "specifiedBy", "defer", "oneOf"}

// declaredNames: names following a definition keyword at top level (types) and after `directive @`.
func declaredNames(toks []sdlTok) (types, dirs []string) {
	depth := 0
	for i, t := range toks {
		if depth == 0 && t.kind == 'n' && i > 0 {
			p := toks[i-1]
			if p.kind == 'n' && defKeywords[p.s] && p.s != "extend" && p.s != "schema" && p.s != "directive" {
				types = append(types, t.s)
			}
			if p.s == "@" && i > 1 && toks[i-2].s == "directive" {
				dirs = append(dirs, t.s)
			}
		}
		depth += depthDelta(t)
		if depth < 0 {
			depth = 0
		}
	}
	return
}

func pickName(r *rng.R, pool []string) string {
	if len(pool) == 0 || r.Chance(1, 5) {
		return rng.Pick(r, builtinTypeNames)
	}
	return rng.Pick(r, pool)
}

// indices of tokens satisfying a predicate
func tokIdx(toks []sdlTok, f func(i int) bool) []int {
	var out []int
	for i := range toks {
		if f(i) {
			out = append(out, i)
		}
	}
	return out
}

// mutateSDL applies one random structural mutation; it returns the input unchanged when the chosen
// mutation has no site.
func mutateSDL(r *rng.R, toks []sdlTok) []sdlTok {
	if len(toks) == 0 {
		return toks
	}
	types, dirs := declaredNames(toks)
	prev := func(i int) string {
		if i == 0 {
			return ""
		}
		return toks[i-1].s
	}
	next := func(i int) string {
		if i+1 >= len(toks) {
			return ""
		}
		return toks[i+1].s
	}
	switch r.Intn(24) {
	case 0, 1: // delete / duplicate / swap a definition
		ch := sdlChunks(toks)
		if len(ch) == 0 {
			return toks
		}
		i := r.Intn(len(ch))
		switch r.Intn(3) {
		case 0:
			ch = append(ch[:i:i], ch[i+1:]...)
		case 1:
			ch = append(ch, ch[i])
		default:
			j := r.Intn(len(ch))
			ch[i], ch[j] = ch[j], ch[i]
		}
		return flatten(ch)
	case 2, 3, 4: // delete / duplicate / swap an entry of a { } body (field, enum value, input field, root)
		return mutateEntries(r, toks, "{")
	case 5, 6: // … of an argument list
		return mutateEntries(r, toks, "(")
	case 7, 8: // directive application: delete, duplicate, copy elsewhere, retarget
		sites := tokIdx(toks, func(i int) bool {
			return toks[i].s == "@" && toks[i].kind == 'p' && prev(i) != "directive" && i+1 < len(toks) && toks[i+1].kind == 'n'
		})
		if len(sites) == 0 {
			return insertDirectiveUse(r, toks, dirs)
		}
		i := rng.Pick(r, sites)
		e := i + 2
		if e < len(toks) && toks[e].s == "(" {
			d := 0
			for e < len(toks) {
				d += depthDelta(toks[e])
				e++
				if d == 0 {
					break
				}
			}
		}
		switch r.Intn(5) {
		case 0:
			return splice(toks, i, e, nil)
		case 1:
			return splice(toks, e, e, cloneToks(toks[i:e]))
		case 2:
			out := cloneToks(toks)
			out[i+1].s = pickDirective(r, dirs)
			return out
		case 3:
			// drop its arguments
			return splice(toks, i+2, e, nil)
		default:
			app := cloneToks(toks[i:e])
			slots := directiveSlots(toks)
			if len(slots) == 0 {
				return toks
			}
			at := rng.Pick(r, slots)
			return splice(toks, at, at, app)
		}
	case 9: // insert a directive application somewhere
		return insertDirectiveUse(r, toks, dirs)
	case 10, 11: // implements entries
		sites := tokIdx(toks, func(i int) bool { return toks[i].s == "implements" && i > 0 && i+1 < len(toks) })
		if len(sites) == 0 || r.Chance(1, 3) {
			// add `implements X` after a type name
			heads := tokIdx(toks, func(i int) bool {
				return toks[i].kind == 'n' && (prev(i) == "type" || prev(i) == "interface" || prev(i) == "input") && (next(i) == "{" || next(i) == "@" || next(i) == "implements")
			})
			if len(heads) == 0 {
				return toks
			}
			h := rng.Pick(r, heads)
			if next(h) == "implements" {
				return splice(toks, h+2, h+2, []sdlTok{{pickName(r, types), 'n'}, {"&", 'p'}})
			}
			return splice(toks, h+1, h+1, []sdlTok{{"implements", 'n'}, {pickName(r, types), 'n'}})
		}
		i := rng.Pick(r, sites)
		// the names i+1, i+3, … separated by &
		var names []int
		j := i + 1
		if j < len(toks) && toks[j].s == "&" {
			j++
		}
		for j < len(toks) && toks[j].kind == 'n' {
			names = append(names, j)
			if j+1 < len(toks) && toks[j+1].s == "&" {
				j += 2
			} else {
				break
			}
		}
		if len(names) == 0 {
			return toks
		}
		k := rng.Pick(r, names)
		switch r.Intn(4) {
		case 0: // delete one (the whole clause if it is the only one)
			if len(names) == 1 {
				return splice(toks, i, k+1, nil)
			}
			if k == names[len(names)-1] {
				return splice(toks, k-1, k+1, nil)
			}
			return splice(toks, k, k+2, nil)
		case 1:
			return splice(toks, k+1, k+1, []sdlTok{{"&", 'p'}, toks[k]})
		case 2:
			out := cloneToks(toks)
			out[k].s = pickName(r, types)
			return out
		default:
			return splice(toks, k+1, k+1, []sdlTok{{"&", 'p'}, {pickName(r, types), 'n'}})
		}
	case 12, 13: // union members
		sites := tokIdx(toks, func(i int) bool { return toks[i].s == "=" && i >= 2 && toks[i-2].s == "union" })
		if len(sites) == 0 {
			sites = tokIdx(toks, func(i int) bool { return toks[i].s == "|" })
			if len(sites) == 0 {
				return toks
			}
		}
		i := rng.Pick(r, sites)
		var names []int
		j := i + 1
		if j < len(toks) && toks[j].s == "|" {
			j++
		}
		for j < len(toks) && toks[j].kind == 'n' {
			names = append(names, j)
			if j+1 < len(toks) && toks[j+1].s == "|" {
				j += 2
			} else {
				break
			}
		}
		if len(names) == 0 {
			return toks
		}
		k := rng.Pick(r, names)
		switch r.Intn(4) {
		case 0:
			if len(names) == 1 {
				return splice(toks, i, k+1, nil)
			}
			if k == names[len(names)-1] {
				return splice(toks, k-1, k+1, nil)
			}
			return splice(toks, k, k+2, nil)
		case 1:
			return splice(toks, k+1, k+1, []sdlTok{{"|", 'p'}, toks[k]})
		case 2:
			out := cloneToks(toks)
			out[k].s = pickName(r, types)
			return out
		default:
			return splice(toks, k+1, k+1, []sdlTok{{"|", 'p'}, {pickName(r, types), 'n'}})
		}
	case 14, 15: // rename a type reference (a name after `:` or `[`, outside directive arguments)
		sites := tokIdx(toks, func(i int) bool {
			return toks[i].kind == 'n' && (prev(i) == ":" || prev(i) == "[") && (next(i) != ":")
		})
		if len(sites) == 0 {
			return toks
		}
		out := cloneToks(toks)
		out[rng.Pick(r, sites)].s = pickName(r, types)
		return out
	case 16: // flip `!`
		bangs := tokIdx(toks, func(i int) bool { return toks[i].s == "!" })
		if len(bangs) > 0 && r.Bool() {
			i := rng.Pick(r, bangs)
			return splice(toks, i, i+1, nil)
		}
		sites := tokIdx(toks, func(i int) bool {
			return (toks[i].kind == 'n' && (prev(i) == ":" || prev(i) == "[") || toks[i].s == "]") && next(i) != "!" && next(i) != ":"
		})
		if len(sites) == 0 {
			return toks
		}
		i := rng.Pick(r, sites)
		if r.Chance(1, 4) && toks[i].kind == 'n' {
			// wrap in a list instead
			return splice(toks, i, i+1, []sdlTok{{"[", 'p'}, toks[i], {"]", 'p'}})
		}
		return splice(toks, i+1, i+1, []sdlTok{{"!", 'p'}})
	case 17: // change a kind keyword
		sites := tokIdx(toks, func(i int) bool {
			if toks[i].kind != 'n' || !defKeywords[toks[i].s] || toks[i].s == "extend" || toks[i].s == "schema" || toks[i].s == "directive" {
				return false
			}
			return i+1 < len(toks) && toks[i+1].kind == 'n' && (prev(i) == "" || prev(i) == "}" || prev(i) == "extend" || toks[i-1].kind != 'p')
		})
		if len(sites) == 0 {
			return toks
		}
		out := cloneToks(toks)
		out[rng.Pick(r, sites)].s = rng.Pick(r, kindKeywords)
		return out
	case 18: // add a `__` prefix to a name, or turn it into true/false/null, or make two names equal
		sites := tokIdx(toks, func(i int) bool { return toks[i].kind == 'n' && !defKeywords[toks[i].s] })
		if len(sites) == 0 {
			return toks
		}
		out := cloneToks(toks)
		i := rng.Pick(r, sites)
		switch r.Intn(4) {
		case 0, 1:
			out[i].s = "__" + out[i].s
		case 2:
			out[i].s = rng.Pick(r, []string{"true", "false", "null"})
		default:
			out[i].s = toks[rng.Pick(r, sites)].s
		}
		return out
	case 19, 20: // add an `extend` chunk built from an existing definition or from scratch
		return addExtend(r, toks, types, dirs)
	case 21: // schema blocks
		root := rng.Pick(r, []string{"query", "mutation", "subscription"})
		blk := []sdlTok{{"schema", 'n'}, {"{", 'p'}, {root, 'n'}, {":", 'p'}, {pickName(r, types), 'n'}, {"}", 'p'}}
		if r.Bool() {
			blk = append([]sdlTok{{"extend", 'n'}}, blk...)
		}
		if r.Chance(1, 3) {
			blk = splice(blk, len(blk)-6, len(blk)-6, []sdlTok{{"@", 'p'}, {pickDirective(r, dirs), 'n'}})
		}
		if r.Bool() {
			return append(cloneToks(toks), blk...)
		}
		return append(blk, toks...)
	case 22: // directive definitions: change a location, add/remove `repeatable`, redeclare a builtin
		sites := tokIdx(toks, func(i int) bool {
			return toks[i].kind == 'n' && (prev(i) == "on" || prev(i) == "|") && isUpper(toks[i].s)
		})
		if len(sites) == 0 || r.Chance(1, 4) {
			d := rng.Pick(r, builtinDirectives)
			if r.Bool() && len(dirs) > 0 {
				d = rng.Pick(r, dirs)
			}
			blk := []sdlTok{{"directive", 'n'}, {"@", 'p'}, {d, 'n'}}
			if r.Bool() {
				blk = append(blk, sdlTok{"(", 'p'}, sdlTok{"a", 'n'}, sdlTok{":", 'p'}, sdlTok{pickName(r, types), 'n'})
				if r.Bool() {
					blk = append(blk, sdlTok{"!", 'p'})
				}
				if r.Chance(1, 4) {
					blk = append(blk, sdlTok{"@", 'p'}, sdlTok{d, 'n'})
				}
				blk = append(blk, sdlTok{")", 'p'})
			}
			blk = append(blk, sdlTok{"on", 'n'}, sdlTok{rng.Pick(r, locationNames), 'n'}, sdlTok{"|", 'p'}, sdlTok{rng.Pick(r, locationNames), 'n'})
			return append(cloneToks(toks), blk...)
		}
		out := cloneToks(toks)
		out[rng.Pick(r, sites)].s = rng.Pick(r, locationNames)
		return out
	default: // raw token noise: delete / duplicate / swap a token
		i := r.Intn(len(toks))
		switch r.Intn(3) {
		case 0:
			return splice(toks, i, i+1, nil)
		case 1:
			return splice(toks, i, i, []sdlTok{toks[i]})
		default:
			out := cloneToks(toks)
			j := r.Intn(len(toks))
			out[i], out[j] = out[j], out[i]
			return out
		}
	}
}

func isUpper(s string) bool {
	for i := 0; i < len(s); i++ {
		if !(s[i] >= 'A' && s[i] <= 'Z' || s[i] == '_') {
			return false
		}
	}
	return len(s) > 0
}

func pickDirective(r *rng.R, dirs []string) string {
	if len(dirs) == 0 || r.Chance(1, 3) {
		if r.Chance(1, 6) {
			return "undefinedDirective"
		}
		return rng.Pick(r, builtinDirectives)
	}
	return rng.Pick(r, dirs)
}

// directiveSlots: token positions where a directive application may syntactically follow.
func directiveSlots(toks []sdlTok) []int {
	var out []int
	for i := 1; i <= len(toks); i++ {
		p := toks[i-1]
		nx := ""
		if i < len(toks) {
			nx = toks[i].s
		}
		if nx == ":" || nx == "(" || nx == "=" || nx == "!" || nx == "]" || nx == "&" || nx == "|" {
			continue
		}
		if p.kind == 'n' && !defKeywords[p.s] && p.s != "implements" && p.s != "on" && p.s != "repeatable" {
			out = append(out, i)
		} else if p.s == "!" || p.s == "]" || p.s == ")" {
			out = append(out, i)
		}
	}
	return out
}

func insertDirectiveUse(r *rng.R, toks []sdlTok, dirs []string) []sdlTok {
	slots := directiveSlots(toks)
	if len(slots) == 0 {
		return toks
	}
	app := []sdlTok{{"@", 'p'}, {pickDirective(r, dirs), 'n'}}
	switch r.Intn(5) {
	case 0:
		app = append(app, sdlTok{"(", 'p'}, sdlTok{rng.Pick(r, []string{"if", "reason", "url", "a", "label"}), 'n'}, sdlTok{":", 'p'},
			rng.Pick(r, []sdlTok{{"null", 'n'}, {"true", 'n'}, {`"x"`, 's'}, {"1", 'd'}}), sdlTok{")", 'p'})
	}
	at := rng.Pick(r, slots)
	return splice(toks, at, at, app)
}

func mutateEntries(r *rng.R, toks []sdlTok, opener string) []sdlTok {
	gs := bracketGroups(toks, opener)
	if len(gs) == 0 {
		return toks
	}
	g := rng.Pick(r, gs)
	es := groupEntries(toks, g)
	if len(es) == 0 {
		return toks
	}
	e := rng.Pick(r, es)
	switch r.Intn(4) {
	case 0: // delete (an emptied group is removed with its brackets half of the time)
		if len(es) == 1 && r.Bool() {
			return splice(toks, g.open, g.close+1, nil)
		}
		return splice(toks, e[0], e[1], nil)
	case 1: // duplicate in place
		return splice(toks, e[1], e[1], cloneToks(toks[e[0]:e[1]]))
	case 2: // swap with another entry of the same group
		f := rng.Pick(r, es)
		if f[0] == e[0] {
			return toks
		}
		if f[0] < e[0] {
			e, f = f, e
		}
		out := cloneToks(toks[:e[0]])
		out = append(out, toks[f[0]:f[1]]...)
		out = append(out, toks[e[1]:f[0]]...)
		out = append(out, toks[e[0]:e[1]]...)
		out = append(out, toks[f[1]:]...)
		return out
	default: // copy into another group of the same bracket kind
		h := rng.Pick(r, gs)
		return splice(toks, h.close, h.close, cloneToks(toks[e[0]:e[1]]))
	}
}

func addExtend(r *rng.R, toks []sdlTok, types, dirs []string) []sdlTok {
	ch := sdlChunks(toks)
	var ext []sdlTok
	if len(ch) > 0 && r.Chance(2, 3) {
		c := cloneToks(rng.Pick(r, ch))
		if len(c) > 0 && c[0].kind == 's' {
			c = c[1:]
		}
		if len(c) < 2 || c[0].s == "extend" || c[0].s == "directive" {
			return toks
		}
		// keep a random sub-list of the body entries so that the extension is not a pure duplicate
		if gs := bracketGroups(c, "{"); len(gs) > 0 {
			g := gs[len(gs)-1]
			es := groupEntries(c, g)
			if len(es) > 1 {
				keep := rng.Pick(r, es)
				body := cloneToks(c[keep[0]:keep[1]])
				if r.Bool() && len(body) > 0 && body[0].kind == 'n' {
					body[0].s = body[0].s + "X"
				}
				c = append(append(cloneToks(c[:g.open+1]), body...), c[g.close:]...)
			}
		}
		if r.Chance(1, 5) {
			c[0].s = rng.Pick(r, kindKeywords)
		}
		ext = append([]sdlTok{{"extend", 'n'}}, c...)
	} else {
		name := pickName(r, types)
		switch r.Intn(5) {
		case 0:
			ext = []sdlTok{{"extend", 'n'}, {rng.Pick(r, kindKeywords), 'n'}, {name, 'n'}, {"@", 'p'}, {pickDirective(r, dirs), 'n'}}
		case 1:
			ext = []sdlTok{{"extend", 'n'}, {rng.Pick(r, []string{"type", "interface"}), 'n'}, {name, 'n'}, {"implements", 'n'}, {pickName(r, types), 'n'}}
		case 2:
			ext = []sdlTok{{"extend", 'n'}, {"union", 'n'}, {name, 'n'}, {"=", 'p'}, {pickName(r, types), 'n'}}
		case 3:
			ext = []sdlTok{{"extend", 'n'}, {"enum", 'n'}, {name, 'n'}, {"{", 'p'}, {rng.Pick(r, []string{"A", "B", "true", "__C"}), 'n'}, {"}", 'p'}}
		default:
			ext = []sdlTok{{"extend", 'n'}, {rng.Pick(r, []string{"type", "interface", "input"}), 'n'}, {name, 'n'}, {"{", 'p'},
				{rng.Pick(r, []string{"a", "b", "id", "name", "__x"}), 'n'}, {":", 'p'}, {pickName(r, types), 'n'}, {"}", 'p'}}
		}
	}
	if r.Bool() {
		return append(cloneToks(toks), ext...)
	}
	return append(ext, toks...)
}

// splitSources distributes the top-level definitions of a text over k sources, in random order.
func splitSources(r *rng.R, toks []sdlTok, k int) []string {
	ch := sdlChunks(toks)
	parts := make([][]sdlTok, k)
	order := make([]int, len(ch))
	for i := range order {
		order[i] = i
	}
	for i := len(order) - 1; i > 0; i-- {
		j := r.Intn(i + 1)
		order[i], order[j] = order[j], order[i]
	}
	for _, ci := range order {
		p := r.Intn(k)
		parts[p] = append(parts[p], ch[ci]...)
	}
	out := make([]string, k)
	for i, p := range parts {
		out[i] = renderToks(r, p)
	}
	return out
}

// SpecSchemas reads validator/imported/spec/schemas.yml (a YAML list of block scalars) if present.
func SpecSchemas(path string) []string {
	b, err := os.ReadFile(path)
	if err != nil {
		return nil
	}
	var out []string
	var cur *strings.Builder
	for _, l := range strings.Split(string(b), "\n") {
		if strings.HasPrefix(l, "- |") {
			if cur != nil {
				out = append(out, cur.String())
			}
			cur = &strings.Builder{}
			continue
		}
		if cur != nil {
			cur.WriteString(strings.TrimPrefix(l, "  "))
			cur.WriteByte('\n')
		}
	}
	if cur != nil {
		out = append(out, cur.String())
	}
	return out
}
