package props

import "verifharness/internal/rng"

var lexSig = []string{"a", "e", "u", "_", "0", "1", "9", "-", "+", ".", "...", "\"", "\"\"\"", "\\", "\\n", "\\u00e9", "\\u", "\\\"\"\"", " ", "\t", "\n", "\r", "\r\n", ",", "#", "{", "}", "(", ")", "[", "]", ":", "$", "@", "!", "=", "|", "&", "é", "\ufeff", "😀", "\u2028", "E", "x", "'", "\x00", "\x07", "\x7f", "query", "on", "type", "1.5e3", "0", "-0", "0.0"}

// GenBytes produces a random byte string: lexically significant fragments, valid multi-byte UTF-8,
// invalid UTF-8 (truncated, overlong, surrogates, strays) and uniform bytes, mixed.
func GenBytes(r *rng.R, maxLen int) []byte {
	n := r.Intn(maxLen + 1)
	var out []byte
	mode := r.Intn(4)
	for len(out) < n {
		switch {
		case mode == 0 || r.Chance(6, 10):
			out = append(out, rng.Pick(r, lexSig)...)
		case r.Chance(1, 3):
			out = append(out, byte(r.Intn(256)))
		case r.Chance(1, 2):
			// a (possibly invalid) multi-byte sequence
			lead := []byte{0xC0, 0xC2, 0xDF, 0xE0, 0xE1, 0xED, 0xEF, 0xF0, 0xF4, 0xF5, 0xFF, 0x80, 0xBF}
			out = append(out, rng.Pick(r, lead))
			for k := r.Intn(4); k > 0; k-- {
				cont := []byte{0x80, 0x8F, 0x90, 0x9F, 0xA0, 0xBF, 0xBB, 0x7F, 0xC0}
				out = append(out, rng.Pick(r, cont))
			}
		default:
			out = append(out, []byte(string(rune(r.Intn(0x11000))))...)
		}
	}
	return out
}

// MutateBytes applies 1–3 small edits (delete, duplicate, swap, substitute, insert) to a text.
func MutateBytes(r *rng.R, in []byte) []byte {
	out := append([]byte(nil), in...)
	for k := 1 + r.Intn(3); k > 0; k-- {
		if len(out) == 0 {
			out = append(out, rng.Pick(r, lexSig)...)
			continue
		}
		i := r.Intn(len(out))
		j := i + 1 + r.Intn(4)
		if j > len(out) {
			j = len(out)
		}
		switch r.Intn(5) {
		case 0:
			out = append(out[:i:i], out[j:]...)
		case 1:
			out = append(out[:j:j], append(append([]byte(nil), out[i:j]...), out[j:]...)...)
		case 2:
			k2 := r.Intn(len(out))
			out[i], out[k2] = out[k2], out[i]
		case 3:
			out = append(out[:i:i], append([]byte(rng.Pick(r, lexSig)), out[j:]...)...)
		default:
			out = append(out[:i:i], append([]byte(rng.Pick(r, lexSig)), out[i:]...)...)
		}
	}
	return out
}
